#!/bin/sh
# Build the framework from files on disk only (offline). Run once after a fresh restore.
set -e
cd "$(dirname "$0")"
export GOFLAGS=-mod=mod GOPROXY=off
unset GOSUMDB
export GOTOOLCHAIN=auto
for g in gen/gen_*.py; do
  case "$g" in
    gen/gen_key_layout.py) python3 "$g" /repo coq/KeyLayout.v ;;
    gen/gen_asm_params.py) python3 "$g" /repo coq/AsmParams.v ;;
    gen/gen_doc_limits.py) python3 "$g" /repo coq/DocLimits.v ;;
    gen/gen_routing_sites.py) python3 "$g" /repo coq/RoutingSites.v ;;
    gen/gen_tx_order.py) python3 "$g" /repo coq/TxOrder.v ;;
    gen/gen_itemcache_locks.py) python3 "$g" /repo coq/ItemCacheLocks.v ;;
    gen/gen_startup_order.py) python3 "$g" /repo coq/StartupOrder.v ;;
  esac
done
./lib/mkcoqproject.sh
cd coq
timeout 3400 make -k -j16 COQC='timeout 1500 coqc' >/dev/null || true
cd ../harness
cp /repo/go.sum go.sum
go build -tags verif -o /dev/null .
echo setup done
