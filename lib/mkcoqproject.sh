#!/bin/sh
# regenerate coq/_CoqProject from the .v files present (dependency order is coqdep's business)
if [ -n "$1" ]; then cd "$1"; else cd "$(dirname "$0")/../coq"; fi
{
  echo "-Q . Semadb"
  echo "-arg -w -arg -notation-overridden,-deprecated-hint-without-locality,-deprecated-instance-without-locality,-ambiguous-paths"
  ls *.v | LC_ALL=C sort
} > _CoqProject.new
if cmp -s _CoqProject.new _CoqProject; then rm _CoqProject.new; else mv _CoqProject.new _CoqProject; coq_makefile -f _CoqProject -o Makefile >/dev/null; fi
[ -f Makefile ] || coq_makefile -f _CoqProject -o Makefile >/dev/null
