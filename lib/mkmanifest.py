#!/usr/bin/env python3
"""Writes MANIFEST.json from lib/props.py + lib/manifest_text.py (kept valid at all times)."""
import json, os, sys
sys.path.insert(0, os.path.dirname(os.path.abspath(__file__)))
import props, manifest_text as mt

VERIF = os.path.dirname(os.path.dirname(os.path.abspath(__file__)))
allp = [json.loads(l)['id'] for l in open(os.path.join(VERIF, 'properties.jsonl'))]
checks = []
for pid in allp:
    if pid not in props.PROPS:
        continue
    lv = props.LEVEL[pid]
    checks.append({
        'property_id': pid,
        'quick_cmd': './check %s --tier quick' % pid,
        'thorough_cmd': './check %s --tier thorough' % pid,
        'evidence_file': '/verif/evidence/%s.json' % pid,
        'replay_cmd_template': './check %s --replay {path}' % pid,
        'engine': 'coq-models',
        'level_claimed': {'category': 'proof', 'text': lv['text'], 'design_ref': lv['design_ref']},
        'level_note': lv['note'],
        'technique': lv['technique'],
    })
na = [{'property_id': p, 'reason': mt.NOT_APPLICABLE.get(p, 'check not built yet in this session; the design (DESIGN.md section 4) applies the Coq technique to it')}
      for p in allp if p not in [c['property_id'] for c in checks]]
m = {
    'version': 1,
    'setup_cmd': './setup.sh',
    'hooks': {
        'guard': 'verif',
        'enable': 'go build -tags verif (the harness module /verif/harness replaces github.com/semafind/semadb by /repo)',
        'baseline_off_cmd': "cd /repo && GOFLAGS=-mod=mod go test -json -vet=off -count=1 -timeout 25m ./...",
        'source_commits': mt.HOOK_COMMITS,
        'add_only': True,
    },
    'engines': [{'name': 'coq-models', 'path': '/verif/coq', 'serves_properties': [c['property_id'] for c in checks],
                 'kind_free_text': 'Coq 8.16.1 development (stdlib + std++): hand-written executable models, theorems, verified checkers; '
                                   'tied to /repo on every run by translators (gen/) and by a correspondence run (Go harness -> cases_*.v -> vm_compute verdicts)'}],
    'checks': checks,
    'not_applicable': na,
    'notes': mt.NOTES,
}
json.dump(m, open(os.path.join(VERIF, 'MANIFEST.json'), 'w'), indent=1)
print('MANIFEST.json: %d checks, %d not_applicable' % (len(checks), len(na)))
