"""C07 -- a write batch is all-or-nothing under rejection, storage faults and crashes."""

CFG = {
    'sub': 'c07',
    'gens': [],
    # everything Run_C07.v (-> Run_C08 -> Run_C01..C05) and Props_C07.v (-> Proofs_C07 -> Proofs_C01 -> Proofs_C19) depend on
    'coq_files': ['Bytes.v', 'U64.v', 'KeyLayout.v', 'Pack.v', 'Value.v', 'Obs.v', 'Dyadic.v', 'Model_C19.v', 'Proofs_C19.v',
                  'Model_C01.v', 'Model_C01M.v', 'Proofs_C01.v', 'Model_C02.v', 'Model_C04.v', 'Model_C05.v', 'Model_C10.v',
                  'Run_C01.v', 'Run_C02.v', 'Run_C03.v', 'Run_C04.v', 'Run_C05.v', 'Run_C08.v', 'Run_C07.v',
                  'Model_C07.v', 'Proofs_C07.v', 'Props_C07.v'],
    'props': 'Props_C07.v', 'run': 'Run_C07.v',
    # verdicts are reported as code + 1000 * (step index + 1): the orchestrator classifies by code % code_mod
    'code_mod': 1000,
    'harness_timeout': 600,
    'widen_runs': 2,
    'rule': 'for every batch of every generated history: the number n of failable storage operations (bucket creation, put, delete, '
            'scans) is counted on a scratch copy, then the batch is run on the live shard with the k-th operation failing, for every '
            'k<=24 and every 4th k up to n; after each fault: count, all documents, id reads, filter/flat/text/graph queries on the '
            'live (warm) instance and on a copy of the file opened by a fresh instance (cold); observations textually identical to an '
            'already judged one of the same batch are counted, not repeated; plus process kills at the k-th operation, after the write '
            'callback before commit, and right after commit (insert batches), followed by a reopen in a new process',
    'assumptions': [
        "bbolt's own atomic commit and the OS are assumed (exercised by the kill runs, not proved)",
        'storage reads (Get) cannot fail in the diskstore interface and are therefore not fault points',
        'the Coq model is sequential: the goroutines of a batch are one interleaved list of operations (any list, any '
        'dependence on earlier reads); operations of other goroutines that are in flight when the callback returns are the '
        '`linger` operations (inside the transaction), operations issued after it returned are the stragglers (refused)',
        'c07_success_visible assumes `mirrors`: on the undisturbed run the index code flushes every cache entry it wrote to the '
        'bucket and writes a cached bucket only while holding write access to its cache; the write-through discipline '
        '(c07_write_through_mirrors) implies it; the real index code is tied to it by the warm/cold comparison of the replay (C08)',
        'a validation rejection is modelled as the write callback returning an error of its own after some number of operations '
        '(run_reject); that the real code rejects exactly the batches the reference spec rejects is checked by C01',
    ],
    'trusted_extra': ['fault-injecting diskstore proxy /verif/harness/faultstore.go installed through the verif hook (*Shard).VerifSwapDB',
                      'Model_C07.v (transaction overlay, cache manager, stragglers) is tied to diskstore/bbolt.go, diskstore/memstore.go, '
                      'shard/cache/manager.go and shard/shard.go by reading; the replay judges the REAL observations after every fault / '
                      'kill by the reference verdicts of C01-C05, not by comparison with a model run',
                      'Run_C07.v / Run_C08.v and the verdicts Run_C01 .. Run_C05 they combine'],
}

# reported verdict = code + 1000 * (step index + 1); the same codes as C08 (= the verdicts of C01 / C02 / C04 / C05 / C03). In this
# check every one of them means: after a failed / killed batch (or a batch that reported success) the observation differs from the
# reference in which a failed batch is a no-op and a successful batch is fully applied
_AFTER = 'after a failed / killed batch (or a batch that reported success) the observation differs from the reference: '
CODES = {
    101: _AFTER + 'batch output (error kind / reported ids)',
    102: _AFTER + 'point count',
    103: _AFTER + 'select-all read: set of live ids or a document',
    104: _AFTER + 'read by _id',
    105: _AFTER + 'read by _id answered with an error',
    111: _AFTER + 'dumped points/internal buckets violate the point-store invariant',
    112: _AFTER + 'the store represented by the dumped buckets differs from the live documents',
    151: _AFTER + 'filter query: id set',
    152: _AFTER + 'filter query failed',
    153: _AFTER + 'filter query: a point twice',
    159: _AFTER + 'a score was reported for a vector search',
    161: _AFTER + 'flat search: a point twice',
    162: _AFTER + 'flat search: a row that is not a candidate',
    163: _AFTER + 'flat search: missing / NaN distance',
    164: _AFTER + 'flat search: a distance differs from the metric',
    165: _AFTER + 'flat search: wrong number of rows',
    166: _AFTER + 'flat search: rows not in distance order',
    167: _AFTER + 'flat search: a closer candidate was left out',
    168: _AFTER + 'flat search: hybrid score',
    169: _AFTER + 'flat search failed',
    171: _AFTER + 'text search: a document twice',
    172: _AFTER + 'text search: a row that does not match',
    173: _AFTER + 'text search: missing / NaN score',
    174: _AFTER + 'text search: score is not the tf-idf of the reference corpus',
    175: _AFTER + 'text search: wrong number of rows',
    176: _AFTER + 'text search: rows not in score order',
    177: _AFTER + 'text search: a better match was left out',
    178: _AFTER + 'text search: hybrid score',
    179: _AFTER + 'text search failed',
    121: _AFTER + 'graph search (exactness regime): duplicate ids',
    122: _AFTER + 'graph search (exactness regime): a row that is not a candidate',
    123: _AFTER + 'graph search (exactness regime): missing / NaN distance',
    124: _AFTER + 'graph search (exactness regime): a distance is not the index distance',
    125: _AFTER + 'graph search (exactness regime): wrong number of rows',
    126: _AFTER + 'graph search (exactness regime): rows not in distance order',
    127: _AFTER + 'graph search (exactness regime): a closer candidate was left out',
    131: _AFTER + 'graph search: duplicate ids',
    132: _AFTER + 'graph search: a returned point is not live / lacks the vector / is outside the filter',
    133: _AFTER + 'graph search: more rows than the limit',
    134: _AFTER + 'graph search: distances not non-decreasing',
    135: _AFTER + 'graph search: a distance is not the index distance to the stored vector',
    136: _AFTER + 'graph search: hybrid score',
    137: _AFTER + 'graph search: a score field was reported',
    138: _AFTER + 'graph search: distance missing or NaN',
    139: _AFTER + 'graph search failed',
    211: 'dumped buckets differ from the buckets of the mechanism model of C01',
    212: 'a node id chosen by the real allocator is not a legal choice of the model of C01',
    290: 'the model cannot judge the query (outside the fragment of the reference verdicts) -- tooling',
    291: 'cannot judge: logarithm missing from the table (tooling)',
}

LEVEL = {
    'text': 'Machine-checked proof (Coq) over the model Model_C07.v of the bbolt write transaction (overlay of puts / deletes on the '
            'committed buckets, dropped when the callback returns an error, installed atomically otherwise) with the shared cache '
            'manager on top (caches written by the transaction stay write-locked until Commit; Commit(true) scraps and removes them), '
            'for ALL states with coherent caches, ALL batch programs (any list of Get / Put / Delete / Scan / cache read / cache write, '
            'each depending on everything read before), ALL fault positions, any number of operations still in flight when the '
            'callback returns, ALL kill points and ALL adaptive queries: (c07_fault_atomic, c07_fault_fires, c07_error_unchanged) a '
            'fault at the k-th failable operation makes the call fail and leaves the file, the coherence invariant and every answer '
            '-- on the running instance with the surviving caches and on a fresh instance over the file -- exactly as before; '
            '(c07_crash_atomic, c07_crash_old_or_new) a kill at any operation or before commit leaves the old file, a kill right '
            'after commit the new one, nothing else; (c07_success_visible, c07_crash_after_commit_visible, c07_write_through_mirrors) '
            'a batch that reports success has all its writes applied (latest write per key, untouched keys unchanged), the caches '
            'stay coherent and warm = cold answers, under the discipline `mirrors` which the write-through pattern implies; '
            '(c07_rejections, c07_rejected_kind) every rejection of the reference spec of C01 is one of duplicate id / existing id / '
            'oversized merge / wrong field type, leaves the reference store unchanged and, as an error return of the write callback, '
            'every observation unchanged; (c07_straggler_harmless, c07_fault_then_stragglers) operations issued by goroutines of the '
            'batch after the callback returned are refused (fix commits 581ddda, 1944012) and change nothing; '
            '(c07_straggler_refuted_v0) in the pinned tree a concrete schedule makes the next batch block forever on a cache lock or '
            'run in a dead process; (c07_memstore_success, c07_memstore_refuted) the in-memory backend equals bbolt on successful '
            'batches and keeps partial writes of a failed one (claimed for successful batches only). The REAL shard is tied to the '
            'property by fault enumeration: every failable storage operation of every batch of seeded histories is failed on the '
            'live shard, processes are killed at operations / before / after commit and the file reopened, and everything observed '
            'afterwards (counts, documents, id reads, filter / flat / text / graph queries, warm and cold) is judged by the reference '
            'verdicts of C01-C05 with the failed batch replaced by a no-op.',
    'design_ref': 'DESIGN.md 4.7',
    'note': "Trusted: Coq kernel; Model_C07.v (tied to the Go code by reading); the fault-injecting store proxy; the harness; the "
            "verdicts of C01-C05. Assumed, not proved: bbolt's own atomic commit and the OS (exercised by the kill runs). The model is "
            "sequential (one interleaving of the batch's goroutines at a time; every interleaving is a program). `mirrors` is a "
            "hypothesis of the success theorem only; atomicity under faults, kills and rejections needs no hypothesis beyond coherent "
            "caches in the starting state. All theorems of Props_C07.v are closed under the global context.",
    'technique': 'Coq proof (transaction overlay + shared-cache scrap: fault at any operation and crash at any point leave every '
                 'observation unchanged; success makes all effects visible) + fault enumeration on the real shard: every failable '
                 'storage operation of every batch, process kills, reopen',
}

CFG['rule'] = CFG['rule'] + ' ' + 'One history in sixteen contains an oversized insert request (1100..1300 points with empty documents in the quick tier, 5000..6700 in the thorough tier) whose last point re-uses a stored id: rejected inside the transaction, nothing may stay; its fault sweep uses eight positions spread over the batch.'

CFG['rule'] = CFG['rule'] + ' ' + 'In every second history every delete batch and every other batch from the second on fails ONCE at one fault position and is not repeated (the history goes on from the unchanged state on the same shard object); a plain insert of up to three points follows a delete that failed this way, executed once without a fault sweep.'
CFG['rule'] = CFG['rule'] + ' ' + 'One history in six has a graph index whose binary quantiser learns its threshold inside the history.'
CFG['rule'] = CFG['rule'] + ' ' + 'Three histories of four have a case-insensitive string-array index; the ill-typed values include an empty string (as a string value and as an array element): the file store refuses the empty key when the index is flushed, the batch is rejected as a whole.'
