"""C13 -- routing by rendezvous hashing."""

CFG = {
    'sub': 'c13',
    'gens': [('gen_routing_sites.py', 'RoutingSites.v')],
    'coq_files': ['Bytes.v', 'Model_C13.v', 'RoutingSites.v', 'Proofs_C13.v', 'Props_C13.v', 'Run_C13.v'],
    'props': 'Props_C13.v', 'run': 'Run_C13.v',
    'widen_runs': 3,
    'rule': 'hash inputs of every length 0..100 (all xxHash block boundaries 0,1,3,4,7,8,31,32,33,63,64,65,95,96,97 oversampled; random, '
            'printable, all-0x00 and all-0xff bytes); server sets of every size 1..16, one with realistic names (host-i:11001, 10.0.x.y:port, '
            'k8s names) and one with names that are prefixes/suffixes/concatenations of one another (incl. the empty name); keys = user ids, '
            'uuid strings, empty, long, raw bytes, a key ending like a server name; topK in {1,2,n,n+3}; ALL permutations for n<=5, seeded random '
            'ones + reversal + rotation above; every single removal, the addition undoing it at a random position, and a brand-new server at '
            'every position. distinct = distinct (kind, key, server list, permutation/position, topK) tuples, identity permutations not counted',
    'assumptions': ['the scores hash(key ++ server) of the servers of one list are pairwise distinct (hypothesis of every theorem; for a 64-bit '
                    'hash and <= 16 servers a collision is not exhibitable; without it the property is false: c13_collision_refuted)',
                    'server names in a list are distinct (two equal names have equal scores)',
                    '"every server owns a share of a large key set" is a statistical statement about xxHash: evaluated as a TEST '
                    '(stats.share_test: share within +-35% of 1/n for n=1..16), not proved'],
    'trusted_extra': ['translator gen/gen_routing_sites.py (lists every RendezvousHash call of cluster/*.go and refuses a call site whose key is '
                      'not the id of the record / shard at hand, whose server list is not c.Servers, or that caches or conditionally recomputes '
                      'the destination; exits 3 on any other shape)',
                      'Model_C13.xxh64 (hand-written Gallina model of cespare/xxhash v1.1.0 Sum64, tied to the implementation by the CHash/CRv cases)',
                      'slices.SortFunc returns a permutation of its input sorted w.r.t. the comparison (Go standard library; any such sort is covered by c13_any_sort)'],
}

CODES = {
    101: 'RendezvousHash result is not the first min(topK,n) servers by ascending xxhash score (wrong length, foreign/duplicated server, '
         'scores decreasing, or a smaller-scored server left out)',
    111: 'order dependence: RendezvousHash differs on a permutation of the same server list',
    121: 'adding one server moved the key to a server that is neither its old owner nor the new server',
    131: 'removing one server changed the owner of a key that the removed server did not own',
    141: 'load-share test: a server owns no key of the sampled key set',
    151: 'a live node computes another owner for a key after requests to absent servers failed: the owner depends on the history of the node, not only on the key and the configured server names',
    152: 'the list a live node routes with differs from its configured server list after requests to absent servers failed',
    201: 'xxhash.Sum64String differs from the xxh64 model',
    202: 'RendezvousHash result differs from rv xxh64 (model)',
}

LEVEL = {
    'text': 'Machine-checked proof (Coq), for EVERY hash function, key, server list of any size and topK, under the single hypothesis that the '
            'scores of the servers are pairwise distinct: the result depends only on the set of servers (permutation invariance), for any sorting '
            'algorithm that returns a sorted permutation (the unstable Go sort included); the owner is the server of minimal score; adding one '
            'server at any position moves a key only to the new server; removing one server changes the owner only of keys it owned; the '
            'hypothesis is necessary (refuted for a constant hash). An executable Gallina model of xxHash64 (cespare v1) is compared with the '
            'implementation on every input length 0..100, and cluster.RendezvousHash is compared with the model and judged against the '
            'property on server sets of size 1..16 (all permutations for n<=5, every single addition and removal). '
            'The clause "every server owns a share of a large key set" is a statistical statement about xxHash: it is evaluated as a TEST '
            '(4000/20000 keys per server set, n=1..16, each share within +-35% of 1/n, reported in stats.share_test) and is NOT proved.',
    'design_ref': 'DESIGN.md 4.13',
    'note': 'Trusted: Coq kernel; Model_C13.v (rv as sort of (score, server) pairs + xxh64, tied to the code by the correspondence run); '
            'distinctness of 64-bit scores within one server list (not provable for a concrete hash; checked on every generated case by the '
            'selection checker, proved sound: c13_sel_ok_sound); the load-share clause is a test, not a theorem.',
    'technique': 'Coq proof (permutation invariance, argmin, add/remove disruption, for every hash function) + executable xxh64 model checked against the implementation',
}

CFG['rule'] = CFG['rule'] + ' ' + 'The owner (topK = 1) is judged for every key, on the listed and on the reversed server list, plus an owner stream of 40 (thorough: 400) keys on each of five server sets of 2..6 servers.'

CFG['rule'] = CFG['rule'] + ' ' + "The translator also demands that a node's server list is the configured one (`Servers: config.Servers`, assigned once)."
CFG['rule'] = CFG['rule'] + ' ' + 'One live node of a three-server configuration is started alone; after requests for twelve user ids (those owned by the absent servers fail) the list it routes with and the owner computed from it are compared with the configured list (CNode, codes 151/152).'
