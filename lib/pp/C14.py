"""C14 -- start-up rebalancing moves every record and shard to its owner without loss."""

CFG = {
    'sub': 'c14',
    'gens': [('gen_startup_order.py', 'StartupOrder.v')],
    'coq_files': ['Bytes.v', 'Pack.v', 'Model_C13.v', 'Model_C14.v', 'Proofs_C14.v', 'StartupOrder.v', 'Props_C14.v', 'Run_C14.v'],
    'props': 'Props_C14.v', 'run': 'Run_C14.v',
    'harness_timeout': 600,
    'widen_runs': 2,
    'rule': 'one case = one cluster scenario on 1..4 in-process ClusterNodes (loopback RPC, separate root directories): data is created '
            'under an OLD server list (records through CreateCollection on a node of the old configuration, shard files as byte files '
            'below userCollections/<user>/<collection>/<shard>/sharddb.bbolt on the old owner or, 1 in 5, on any old node; sizes 1..4096, '
            '1 and 4096 over-weighted), all nodes are re-created with the NEW list (grow 1->2, 1->3, 2->3, 2->4; shrink 2->1, 3->2, 3->1; '
            'replace 2->2 overlapping and disjoint, 3->3, 1->1; unchanged), node identities permuted. Run 1 = Sync of every node in a '
            'seeded order under a fault plan: none; error on the receiver at chunk index k in {0,1,2,3} (cluster.VerifFaultHook) for a '
            'random subset of the senders; death between syncUserCollections and syncShards; one node down; the RECEIVER is a child '
            'process that exits at chunk k; the SENDER is a child process killed when chunk k arrives (chunk not processed / processed, '
            'the latter at the last chunk = sender dead before it removes the source). Files of sizes {1, CHUNK-1, CHUNK, CHUNK+1, '
            '2CHUNK, 2CHUNK+1} (CHUNK = 8 MiB) placed on a non-owner, failed at every chunk index 0..3 and killed at every index. '
            'Snapshot of all node databases and file trees, run 2 = fault-free Sync of every node in another order, snapshot, and for '
            'real bbolt shards (InsertPoints under the old list, MaxShardPointCount 4) read-back of all points by id through every '
            'node of the new list. distinct = distinct (kind, old, new, fault, k, mode, big sizes, number of items / items to move) '
            'among the scenarios in which something has to move, hash-set counted',
    'assumptions': ['net/rpc, the msgpack codec, bbolt and the file system are assumed: an RPC either delivers the request once or fails; a write or '
                    'RemoveAll that returned is durable; RPCSetNodeKeyValue is one atomic bbolt transaction',
                    'xxHash64 collisions are excluded for the PINNED receiver (hypothesis collision_free of c14_no_loss; needed: '
                    'c14_hash_collision_refuted); for the repaired receiver the theorems need nothing about the checksum',
                    'the copies of one path / one key that different nodes hold initially are equal (a shard id names one shard) and no shard file is '
                    'empty (a bbolt file never is; an empty file is never moved: c14_empty_file_never_moves)',
                    'Sync runs while the node serves no client request (main.go: before the HTTP server starts) and the transfers to one destination '
                    'path are not interleaved: the model runs the workers of one node one after the other (they touch different destination nodes '
                    'and different source paths) and the nodes one after the other; [reach] covers every interleaving at the granularity of one '
                    'file transfer / one record group',
                    'a node that leaves the server list still runs its start-up Sync with the new list (otherwise its data is never moved)',
                    'syncShards / syncUserCollections return at the first error while the workers of the other destinations are still running; in '
                    'production the process then exits (log.Fatal), i.e. those transfers die at an arbitrary chunk (covered by the theorems); the '
                    'harness waits until no chunk arrives any more before it takes the snapshot, so that the observation is deterministic'],
    'trusted_extra': ['fault point verifFault("sendshard", ChunkIndex) at the head of RPCSendShard (/repo/cluster/verifhook_on.go, build tag verif; no-op otherwise)',
                      'hooks VerifSyncUserCollections / VerifSyncShards in /repo/cluster/export_verif.go (run the two phases separately)',
                      'Model_C13.xxh64 / rv (owner of a key on the new server list, tied to the code by check C13)',
                      'process kills are realised with a child process per killed node (self-exec of the harness), other nodes in-process'],
}

CODES = {
    101: 'loss: an item (record or shard file) of the initial placement exists on no node with identical bytes, after run 1 or after run 2',
    102: 'after the fault-free re-sync an item is not on its owner byte-identical (absent, partial or different); owner = rv xxh64 on the new list',
    103: 'an item is still on a non-owner although that node\'s fault-free Sync reported success',
    104: 'a copy kept by a non-owner differs from the original (a source copy may only be deleted, never changed)',
    105: 'read-back of the stored points through a node of the new list failed or returned different points',
    106: 'a fault-free Sync returned an error',
    201: 'a snapshot (records and files per node, sizes of partial files) or a Sync result differs from Model_C14.sync_all',
}

LEVEL = {
    'text': 'Machine-checked proof (Coq) over an executable model of sync.go / RPCSendShard / RPCSetNodeKeyValue (chunk loop with the terminal '
            'empty chunk, checksum reply only for index > 0, append vs truncate-at-chunk-0, per-destination workers that stop at their first '
            'error, record groups with count check and local delete), for ALL placements, file contents, chunk sizes >= 1, checksum '
            'functions, routings, node orders and fault positions: (no loss) in every state reachable by any interleaving of file and '
            'record-group transfers of any nodes with a failure or kill at any chunk index, between the phases or between send and local '
            'delete, every record and file of the initial placement exists byte-identical on some node; (convergence) a fault-free Sync '
            'of all nodes in any order, or their phases in any interleaving, returns nil everywhere and leaves every item exactly on its '
            'owner and nothing elsewhere; (resume) with the repaired receiver this also holds after any interrupted history; the pinned '
            '(always appending) receiver is refuted: after an interruption past chunk 0 every retry appends the whole file again and fails '
            '(c14_retry_append_refuted, fixed by 0e52263); a source is removed only when the destination holds a copy with the same checksum '
            '(the same bytes for the repaired receiver, whatever the checksum); chunking: concatenation = file, ceil(len/chunk)+1 RPCs. '
            'The model is compared with live clusters (in-process nodes and child processes that are killed) on every fault position, and '
            'the observed placements are judged against the property with the owner computed by the verified rendezvous model.',
    'design_ref': 'DESIGN.md 4.14',
    'note': 'Trusted: Coq kernel; Model_C14.v (tied to the code by equality of the per-node records and file trees after each run on every '
            'explored scenario); the harness. Not covered: concurrent client traffic during the sync, interleaving of two senders on ONE '
            'destination path at chunk granularity, durability of writes under power loss, the record hazard described under findings '
            '(a stale record copy re-sent later overwrites a newer record on the owner).',
    'technique': 'Coq proof (no-loss invariant over all fault positions, convergence and resumability of the chunk protocol) + in-process '
                 'clusters with fault injection at every chunk index compared with the model',
}

CFG['rule'] = CFG['rule'] + ' ' + 'Additions: every second user id extends the previous id by a digit, so that record keys of different users are adjacent and one is a prefix of the other.'

CFG['rule'] = CFG['rule'] + ' ' + 'One scenario in three starts with equal copies of some records that have to move already present on their new owner (a sender that died between the confirmation and its local delete).'
CFG['rule'] = CFG['rule'] + ' ' + 'Node data directories contain pattern characters ([ ] * ? and a blank); node root and shard-manager root are distinct; every node lists the servers starting with itself; the harness picks its loopback ports from a window chosen by process id.'
CFG['rule'] = CFG['rule'] + ' ' + 'Obligation StartupOrder (gen_startup_order.py): main.go calls NewNode, RegisterMetrics, Serve, Sync in this order (theorem c14_node_listens_before_it_sends); the harness starts its nodes in the same order.'
CFG['rule'] = CFG['rule'] + ' ' + "One user pair in five has ids with a leading '.', '_', '-' or '#'."
CFG['rule'] = CFG['rule'] + ' ' + 'One plan per run has no fault but a slow receiver: 2 s for each chunk of a three-chunk file (every call below the RPC timeout of 5 s, the transfer to one destination above it).'
