"""C20 -- distance functions equal their definitions on every vector length."""

CFG = {
    'sub': 'c20',
    'gens': [('gen_asm_params.py', 'AsmParams.v')],
    'coq_files': ['AsmParams.v', 'Model_C20.v', 'Proofs_C20.v', 'Props_C20.v', 'Run_C20.v',
                  'Model_C20_Haversine.v', 'Props_C20_Haversine.v'],
    'props': 'Props_C20.v', 'run': 'Run_C20.v',
    'widen_runs': 2,
    'rule': 'kern: every length 1..130, every length = 0, 1, 31 (mod 32) up to 4096 and 40 random others (thorough: ALL lengths 1..4096) x '
            '7 value patterns (zeros, +-1 alternating, integers in [-3,3], one +-64 entry at {first, last of a block, first of the tail, last}) x '
            'slice offsets 0..8 into NaN-filled backing arrays, for asm.Dot, asm.SquaredEuclideanDistance and the exported dot/cosine/euclidean '
            '(integer data: every float32 operation exact, results compared bit for bit with the scalar loop and the Z model); '
            'sym: f(x,y) vs f(y,x) bit patterns on arbitrary floats for all six metrics incl. haversine; '
            'bits: lengths 1..130 and 64k-1, 64k, 64k+1 up to 4096 (thorough: all) x thresholds {0.5, random integer per position}, values in [-2,2]; '
            'float: tolerance TEST on arbitrary floats (denormals, 1e-30..1e15 scales, mixed signs) judged by the harness; '
            'pq: product-quantised stores (vectorstore.New over a memory bucket) for euclidean, dot, cosine x every dimension 2..16 x {1,2,4} sub-vectors '
            'dividing it, 2..8 centroids (thorough: 12 rounds), integer and half-integer coordinates in [-4,4]; training sets alternately made of K '
            'prototypes per sub-vector (centroids = prototypes, all float32 arithmetic exact, compared exactly) and of arbitrary vectors with duplicates and '
            'zero sub-vectors (centroids = cluster means, 2^-18 relative allowance); after Fit: new points and updates of trained points (sub-vector '
            'orthogonal to a centroid, duplicates, vectors made of centroids, zero sub-vectors, random); recorded: the whole centroid table, vector + code '
            'of every point written after training, DistanceFromPoint both ways for sampled pairs (same point, trained vs later, sharing a centroid, random), '
            'DistanceFromFloat for queries (stored vector, orthogonal to a centroid, zero, random); every third store again after Flush + reopen. '
            'distinct = distinct (stream, length, offsets, pattern, modification) tuples, hash-set counted',
    'assumptions': ['"up to floating-point rounding" is outside the theorems: they are exact-arithmetic statements over Z about the kernel SHAPE',
                    'float32 rounding is covered by the run: bit-for-bit on integer data where every operation is exact, and a tolerance test on arbitrary floats',
                    'the value of haversine is not modelled; only its symmetry, over R with asin abstract (Props_C20_Haversine.v, stdlib Reals axioms: '
                    'ClassicalDedekindReals.sig_forall_dec, ClassicalDedekindReals.sig_not_dec, FunctionalExtensionality.functional_extensionality_dep)',
                    'bit-vector values and thresholds are passed to Coq multiplied by 2 so that the threshold 0.5 is an integer',
                    'x and y have equal length (guaranteed by request validation, C18); c20_oob_when_lengths_differ shows what happens otherwise',
                    'NaN results in the symmetry stream are one value (payloads not compared)',
                    'product quantiser: the reference is distFn on the TRAINED centroids (cosine = euclidean there, as newProductQuantizer decides); how good the '
                    'centroids are (k-means) is not part of the property; codes of points present at training time are k-means labels (always euclidean) '
                    'and only enter the distance checks, the argmin check is for points written after training',
                    'product quantiser training is not repeatable (k-means seeds itself from the process-global generator, Go map iteration order): a replay '
                    'regenerates the same input vectors, the verdicts always use the centroids / table / codes that were observed',
                    'pq stream on stores whose centroids are not multiples of 1/8: a float32 result may differ from the exact value by 2^-18 of the sum of the '
                    'magnitudes of its terms, and the chosen centroid may miss the exact minimum by that much'],
    'trusted_extra': ['translator gen/gen_asm_params.py (line-by-line recognition of dot.s / euclidean.s, every instruction must match; '
                      'resolves Go operand order; exit 3 on any unknown line)',
                      'the semantics Model_C20.v gives to the recognised instructions (VMOVUPS, VFMADD231PS, VSUBPS, VADDPS, VEXTRACTF128, VHADDPS, '
                      'VMOVSS, VSUBSS, VFMADD231SS, VXORPS) -- validated only by the differential run',
                      'harness tolerance arithmetic of the float stream (float64 reference)',
                      '/repo/shard/vectorstore/export_verif.go (build tag verif): wrapper around binaryQuantizer.encode; read-only accessors VerifPQState '
                      '(flat centroids and centroid distance table of a product quantiser) and VerifPQCodes (centroid ids of a point)'],
}

CODES = {
    101: 'AVX kernel result != scalar reference loop (bit patterns, exact integer data)',
    102: 'kernel / distance result != mathematical definition (exact integer data)',
    111: 'distance not symmetric: f(x,y) and f(y,x) differ',
    121: 'hamming on packed words != number of differing positions',
    122: 'jaccard on packed words != 1 - |intersection|/|union| of the per-position definition (tolerance 2^-22)',
    141: 'product quantiser: a centroid table entry (i,j,k) != distFn(centroid j, centroid k) of sub-vector i (diagonal included)',
    142: 'product quantiser: the centroid id of a point written after training is not a minimiser of distFn(sub-vector, centroid)',
    143: 'product quantiser: DistanceFromPoint(a)(b) != sum over the sub-vectors of distFn(centroid of a, centroid of b)',
    144: 'product quantiser: DistanceFromPoint(a)(b) and DistanceFromPoint(b)(a) differ',
    145: 'product quantiser: DistanceFromFloat(q)(b) != sum over the sub-vectors of distFn(q_i, centroid of b)',
    146: 'product quantiser: centroid ids of a point malformed (not one per sub-vector, or an id >= numCentroids)',
    131: 'float stream TEST: |asm - float64 reference| exceeds n*2^-23*sum|terms| + tiny',
    201: 'kernel model (interpreting the generated parameters) != AVX kernel result',
    221: 'packed words differ from model pack',
    222: 'hamming of the observed words differs from the word-level model',
    223: 'jaccard of the observed words differs from the word-level model',
    241: 'product quantiser: centroids / table do not have numSubVectors*numCentroids*subVectorLen / numSubVectors*numCentroids^2 finite entries',
    290: 'harness generated data outside the exact range (tooling)',
}

LEVEL = {
    'text': 'Machine-checked proof (Coq), exact arithmetic over Z, for EVERY vector length: the AVX2/FMA kernel shape -- regenerated from '
            'distance/asm/dot.s and euclidean.s on every run (block size, load/FMA lines, strides, decrements, zeroing, reduction sequence) and '
            'interpreted by a register/pointer model with bounds -- returns exactly the sum of products / squared differences and never reads '
            'outside either slice, under side conditions that Coq evaluates on the generated parameters (params_ok); with a shorter y it runs out '
            'of bounds (why C18 matters). Word-wise popcount hamming/jaccard on the binary quantiser packing equal the per-position definitions for '
            'every length and threshold vector, padding bits are zero; all metrics are symmetric, and so is the product quantiser\'s sum over sub-vectors '
            'of distFn(centroid of a, centroid of b). The product quantiser itself (argmin encoding, centroid table incl. its diagonal, point and query distances) is '
            'checked by the differential run only, exactly in Z from the float32 bit patterns. Floating-point rounding is OUTSIDE the theorems: it is '
            'covered by the differential run on integer-valued data where every float32 operation is exact (AVX kernel = scalar loop = Z model, bit '
            'for bit, all block/tail boundaries, unaligned slices with NaN sentinels) and by a tolerance TEST on arbitrary floats (denormals, large '
            'magnitudes, mixed signs) judged by the harness. The haversine value is not modelled, only its symmetry over R.',
    'design_ref': 'DESIGN.md 4.20',
    'note': 'Trusted: Coq kernel; gen_asm_params.py and the instruction semantics of Model_C20.v (tied by the bit-for-bit run); the float stream is a test; '
            'c20_haversine_sym (own file) uses the stdlib Reals axioms, all theorems of Props_C20.v are closed under the global context.',
    'technique': 'Coq proof over translator-generated kernel parameters (symbolic reduction check by computation) + bit-exact differential run + tolerance test',
}
CFG['rule'] = CFG['rule'] + ' ' + 'Binary stores (CStoreBits): vectorstore.New for hamming / jaccard with no block, a none block, binary blocks with thresholds 0.5 / 1.5 / -0.5 and either metric, a learned binary block; two points on the half grid; DistanceFromPoint and DistanceFromFloat (a second distance function is requested before the first is used) against the bit-count definition of the index metric at 0.5.'
