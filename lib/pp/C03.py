"""C03 -- graph (Vamana) vector search returns only live, in-filter points, correctly ranked; exact in two regimes."""

_RULE = ('seeded write histories against a real shard (profile "c03" of harness/shardgen.go, shared with C10): pool of 10-15 '
         'uuids, 6-13 batches of inserts / vector updates / vector removal through "_delete" / deletes (also of whole '
         'neighbourhoods) / re-insertion with re-used node ids; schema vec:vectorVamana + i:integer + tags:stringArray with degree '
         'bound in {3,4,8,32,64}, index search size in {25,30,75}, alpha in {1.1,1.2,1.5}, metric euclidean / dot / cosine, '
         'quantiser none / binary fixed threshold / binary learned threshold / product, dimension 2,3,4,8, small integer '
         'coordinates (float32 distances exact); five store/cache configurations. After EVERY batch 6 graph searches '
         '(harness/shardqueries.go reqsC03): random query vector, search size in {25,30,50,75}, limit 1..searchSize / 1..3 / '
         '1..n+2, in 1/2 of the cases an explicit weight from the pool (incl. 0 and negative), in 1/2 a pre-filter of the C02 '
         'generator (integer, stringArray, _id lookups ...). Judged by Run_C03.judge_query against the reference state of C01 and '
         'the reference filter answer of C02: Model_C10.sound_code (no duplicates, every row a live carrier inside the filter, at '
         'most limit rows, non-decreasing distance, distance = index distance to the stored vector -- exact rational for the plain '
         'store, oracle distance from the persisted thresholds / centroids / codes for quantised stores --, hybrid = -(weight x '
         'distance), no score field); in the two exactness regimes -- pre-filter with at most searchSize candidates; no filter, '
         'insert-only history so far and n <= min(degree, index searchSize - 1, query searchSize - 1) -- additionally '
         'Model_C04.ksel_code (exact k nearest, ties free). distinct = distinct (history index, batch kinds+sizes+outcomes)')

CFG = {
    'sub': 'c03',
    'gens': [('gen_key_layout.py', 'KeyLayout.v')],
    'coq_files': ['Bytes.v', 'U64.v', 'KeyLayout.v', 'Pack.v', 'Value.v', 'Obs.v', 'Dyadic.v', 'Model_C19.v', 'Model_C01.v',
                  'Model_C02.v', 'Model_C04.v', 'Model_C10.v', 'Run_C03.v', 'Model_Vamana.v', 'Proofs_Vamana.v', 'Props_C03.v'],
    'props': 'Props_C03.v', 'run': 'Run_C03.v',
    # verdicts are reported as code + 1000 * (step index + 1): the orchestrator classifies by code % code_mod
    'code_mod': 1000,
    'widen_runs': 3,
    'rule': _RULE,
    'assumptions': [
        'the theorems are about searches on a graph satisfying the C10 invariant wf (Props_C10.v proves that every history of '
        'batches keeps it; the C10 replay checks it on the persisted graph after every batch); live = node ids of the live points '
        'carrying the field, the pre-filter = the node ids the filter query selects (C02)',
        'the NumCPU-1 concurrent insert workers are modelled as SOME sequential order of single inserts; c03_reach_insert_only '
        'holds for every split of the inserts into batches and every such order',
        'product-quantiser training (k-means) and threshold learning are not modelled: the theorems hold for EVERY distance '
        'function d; in the replay the oracle distance of quantised stores is computed by the harness from the persisted '
        'centroids / thresholds and codes',
        'float32 distances are exact on the small-integer data the generator uses; the model computes in Q; the hybrid score '
        '-1 * distance * weight is compared with a 1e-6 relative tolerance',
        'limit >= 1 and limit <= searchSize (validation); a limit of 0 with a filter would index items[-1] in AddWithLimit (model: skip)',
        'exactness regimes: filter with at most searchSize members, no duplicate, not containing the entry id; insert-only history '
        '(distinct ids) of at most min(degreeBound, index searchSize - 1) vectors and query searchSize >= vectors + 1. "Exact" = '
        'sound and a candidate is left out only if the answer has k rows and it is at least as far as every row (ties free)',
        'cached neighbour points are assumed coherent with the vector store (true when every id changes at most once per batch; '
        'see C10 c10_same_id_twice_refuted for the request shape -- the same point twice in one update request -- for which the real '
        'search returns a point whose vector field was removed)',
    ],
    'trusted_extra': ['Model_Vamana.v (DistSet, greedySearch, Search post-processing, insert path) is tied to '
                      'shard/index/vamana/{distset,search,vamana,insert}.go by reading; the replay judges the REAL answers by the '
                      'soundness / exact-kNN checkers, not by comparison with a model run',
                      'Model_C10.v (sound_code), Model_C04.v (ksel_code, model_dist, dist_ok) and Run_C03.v (which regime applies)',
                      'Model_C01.v / Model_C02.v reference state and reference filter answer'],
}

# reported verdict = code + 1000 * (step index + 1)
CODES = {
    121: 'exactness regime: duplicate ids',
    122: 'exactness regime: a row that is not a candidate',
    123: 'exactness regime: missing / NaN distance',
    124: 'exactness regime: a reported distance is not the index distance',
    125: 'exactness regime: wrong number of rows (not min(limit, candidates))',
    126: 'exactness regime: rows not in non-decreasing distance order',
    127: 'exactness regime: a closer candidate was left out (not the exact k nearest)',
    131: 'duplicate ids in the answer',
    132: 'a returned point is not live / lacks the vector field / is outside the pre-filter',
    133: 'more rows than the limit',
    134: 'distances not non-decreasing',
    135: 'a reported distance is not the index distance to the stored vector',
    138: 'the visited set of a graph search added a node twice (sweep of vamana.DistSet for largest node ids around every size class of its pooled bit sets; judged by the harness)',
    136: 'hybrid score is not -(weight x distance)',
    137: 'a score field was reported by a vector search',
    138: 'distance missing or NaN',
    139: 'a valid graph search failed',
    290: 'the model cannot evaluate the query (filter outside the C02 fragment, schema mismatch) -- tooling',
}

LEVEL = {
    'text': 'Machine-checked proof (Coq) over the executable model Model_Vamana.v of DistSet, greedySearch and Search, for ALL '
            'inputs: every distance function, query, weight, limit k <= search size, pre-filter, every graph satisfying the C10 '
            'invariant. PROVED IN FULL (no _partial statement): (c03_distset_invariants, c03_distset_kbest) after any sequence of '
            'AddWithLimit calls the ids are duplicate-free, at most cap elements are kept in non-decreasing distance order, each '
            'with its distance, every dropped offer is at least as far as every kept one and nothing is dropped while there is room '
            '(the cap best of what was offered, ties free); (c03_sound) on every well-formed graph the search does not fail and the '
            'answer has no duplicates, at most k rows, non-decreasing distances, only live points carrying the field, never the '
            'entry node, only filter members when a filter is given, distance = d(query, STORED vector), hybrid = -(weight x '
            'distance); (c03_exact_filter) a filter with at most searchSize members yields the exact k-smallest selection of the '
            'filter members that have a vector (min(k, #candidates) rows; every candidate left out at least as far as every row); '
            '(c03_reach_insert_only) every insert-only history of n <= min(degreeBound, searchSize-1) distinct points, in any split '
            'into batches, yields a well-formed graph of n+1 nodes all reachable from the entry node (the new node gets an out-edge '
            'into the visited set, that neighbour is never full, the back edge is appended); (c03_exact_small) when the graph fits '
            'in the search window and is reachable the search visits every node and a live point is left out only if the answer is '
            'full and the point is at least as far as every row; (c03_exact_insert_only) their composition. The REAL shard is tied '
            'to the property by replay: 6 graph searches after every batch of seeded histories, every answer judged by the coded '
            'soundness checker and, in the two regimes, by the exact-kNN checker.',
    'design_ref': 'DESIGN.md 4.3',
    'note': 'Trusted: Coq kernel; Model_Vamana.v (tied to the Go code by reading); Model_C10.sound_code / Model_C04.ksel_code / '
            'Run_C03.v; the harness. Not proved: the interleaving of the insert workers (modelled as a sequential order), float32 '
            'rounding of distances (the data is integer-valued, the hybrid score is compared with a tolerance), quantiser training. '
            'Outside the two regimes the search is approximate by design: only soundness is claimed. All theorems of Props_C03.v '
            'are closed under the global context.',
    'technique': 'Coq proof (DistSet invariants, soundness on every well-formed graph, exactness for small filters) + replay of '
                 'real graph searches judged by the soundness / exact-kNN checkers',
}

CFG['rule'] = CFG['rule'] + ' ' + 'Additions: every sixth history uses a pool of 60-110 points (a collection larger than every search window, with id pre-filters between limit and window size) and every fourth euclidean history builds a chain-shaped graph; on dot / cosine indexes one update in three sets a vector at index distance exactly 0 from the stored one without being equal to it (orthogonal, zero, dot product 1 where exact in float32) or the stored vector again; update requests may name one point twice ([remove vec],[set vec]; in every third history also the known-finding order [set vec],[remove vec], tagged XNote 777).'

CFG['rule'] = CFG['rule'] + ' ' + 'Graph histories with a trainable quantiser (learned binary, product; thresholds 0..9) start with a scripted prefix so that the training happens inside the history: a few points below the threshold, a batch that crosses it, removal of the vector field of one early point, delete of another; later update batches remove the vector field of a random stored point one time in three. Every step carries one query whose pre-filter selects every id of the pool (live points without the vector field, deleted points and re-used node ids must not come back through it).'

CFG['rule'] = CFG['rule'] + ' ' + 'Delete batches of the graph profile remove, one time in three, everything but one or two random survivors in one batch.'
CFG['rule'] = CFG['rule'] + ' ' + 'One history in ten has a hamming / jaccard graph index that also carries a binary quantiser block with a threshold and a metric of its own (not used for these metrics), with fractional vector components.'
CFG['rule'] = CFG['rule'] + ' ' + 'Visited-set sweep (judged in Go, reported as note 950 / code 138): vamana.NewDistSet for largest node ids on, below and above each of the seven size classes and some others; a point added twice (alone and inside one Add call) must be kept once.'
CFG['rule'] = CFG['rule'] + ' ' + 'A tenth of the histories keep the graph vector at the nested path nested.v (updates reach it through the parent key).'
