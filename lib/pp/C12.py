"""C12 -- shard loading, idle unloading and collection deletion are safe and deadlock-free."""

CFG = {
    'sub': 'c12',
    'gens': [],
    'coq_files': ['Model_C12.v', 'Proofs_C12.v', 'Proofs_C12b.v', 'Props_C12.v', 'Run_C12.v'],
    'props': 'Props_C12.v', 'run': 'Run_C12.v',
    'harness_timeout': 600,
    'widen_runs': 2,
    'rule': 'forced schedules of the REAL cluster.ShardManager (fresh manager and temp dir per schedule, ShardTimeout 1 s) through the six '
            'pause points cleanup:fired / cleanup:locked / cleanup:closed / do:loaded / do:running / delete:locked: 10 thread configurations '
            '(1 shard: R, RR, RD, RRD, RRR, RRRD; 2 shards: R0R1, R0R1D, R0R0R1D, R0R1R1; R = DoWithShard whose callback probes s.Info() and '
            'the shard directory, D = DeleteCollectionShards), each with backups on (1,1) and off; a schedule = the order in which threads are '
            'started / released from the point where they are parked / the idle timer is waited for; between two actions the harness waits '
            'until every thread is parked, blocked on a lock (goroutine dump: sync.Mutex.Lock, sync.RWMutex.Lock/RLock) or finished. '
            'Per configuration hand-written guides (unload; stale entry -> clean error; timer fires during a deletion = the schedule on which '
            'the pinned lock order deadlocks; deletion while a request is inside do:running; reader queued behind the pending writer; idle closed '
            'but entry still mapped when the deletion runs; reload after unload) followed by seeded random continuation, the rest seeded random '
            'schedules; 16 child processes run the schedules sequentially (the hook is process-global), a 5 s watchdog turns a hang into '
            'observation 103 and the child is abandoned. After every schedule: number of map entries and a fresh request. The observed outcome '
            '(who ran / who got the clean error / who never returned / entries) must be one of the outcomes the Coq model computes for the '
            'same event list (all orders of free-running threads explored). distinct = distinct (configuration, event list) pairs, hash-set counted',
    'assumptions': ['Go\'s sync.Mutex / sync.RWMutex (a writer that has announced itself blocks new readers) and time.Timer behave as documented; '
                    'the model\'s RWMutex is slightly more permissive about who gets the lock after an Unlock (superset of behaviours)',
                    'bbolt\'s file lock is what makes a second open of the same shard file block: modelled as the handle counter (proved <= 1)',
                    'shard.Close, the optional backup and `ls.shard = nil` are one atomic step of the model (all under the exclusive lock; '
                    'nothing reads the pointer without the lock)',
                    'the timer may fire at any time (doneCh <- false, the timer reset, has no effect in the model); a dropped doneCh <- true '
                    'is the same behaviour as the timer firing just before the send',
                    'request callbacks do not call back into the shard manager (no recursive DoWithShard)',
                    'the set of shard directories is fixed (deletion scans the directories that exist; requests name one of them)'],
    'trusted_extra': ['hooks /repo/cluster/verifhook_on.go (VerifPauseHook) and the six verifPause(...) lines in /repo/cluster/shardmgr.go '
                      '(no-ops without the build tag), /repo/cluster/export_verif.go (VerifLoadedShardCount)',
                      'identification of goroutines in the harness by runtime.Stack ("goroutine N", "created by ... in goroutine M") '
                      'and of blocked goroutines by their wait reason'],
}

CODES = {
    101: 'a callback ran on a closed shard: s.Info() failed inside the callback (shard used after Close)',
    102: 'the shard directory did not exist while a callback was running (files removed while in use)',
    103: 'a shard-manager call did not return within the watchdog (deadlock / hang)',
    104: 'after everything finished a fresh request failed or hung (shards cannot be loaded again)',
    105: 'a request returned an error other than the clean "already closed" one',
    111: 'a shard-manager call (DoWithShard / DeleteCollectionShards) panicked under the schedule; in the server such a call runs on a plain goroutine and the process dies',
    112: 'the process died while a forced schedule ran (a panic or fatal error of the code under test on a goroutine of its own, e.g. the cleanup routine)',
    107: 'a real request handler (insert / update / delete / search / shard info) did not return when the idle timer of its shard fired while it was inside its callback',
    108: 'a real request handler returned an error when the idle timer of its shard fired while it was inside its callback',
    109: 'after such a request the cleanup routine did not finish (the shard was not unloaded)',
    106: 'two callbacks ran at once on one shard directory with different *shard.Shard objects (file opened twice)',
    201: 'observed outcome (who ran / clean errors / calls that never returned / number of loaded entries) is not an outcome of the lock-protocol model on the same schedule',
}

LEVEL = {
    'text': 'Machine-checked proof (Coq) over an executable small-step model of the lock protocol of cluster/shardmgr.go (shardLock, per entry '
            'RWMutex with writer preference, shard pointer, doneCh signals, map entries, directories, open-handle counter; request / idle '
            'routine / deletion threads instruction by instruction), for ANY number of requests, shard directories and deletions and ALL '
            'schedules: (1) safety for both lock orders by an inductive invariant -- a callback runs only on an open shard under a read lock '
            'with its directory present, never two handles on one file, a directory is removed only with no handle and no callback on it; '
            '(2) the pinned order (mu then shardLock in the idle routine) reaches a deadlocked state (vm_compute witness); (3) with the current '
            'order every reachable state with an unfinished thread has an enabled step, every step decreases a measure (so every schedule ends '
            'within measure(st) steps, with every call returned); (4) afterwards a new request loads or reuses the shard and completes with no '
            'lock left held; (5) a request that got a closed entry returns the clean error and never runs its callback. The real ShardManager is '
            'driven through its pause points over several hundred forced schedules and every observation is judged by the property-level checks '
            'and compared with the model\'s outcome set for the same schedule.',
    'design_ref': 'DESIGN.md 4.12',
    'note': 'Trusted: Coq kernel; Model_C12.v (tied to shardmgr.go by the forced-schedule comparison); the harness. The model abstracts the '
            'shard to an open flag; what a callback does with the shard is outside (C01..C11). The correspondence run covers 1-2 shards, up to 3 '
            'requests and 1 deletion per schedule; the theorems have no such bound.',
    'technique': 'Coq proof (lock-order model: safety invariant and deadlock freedom by induction over arbitrary schedules, deadlock witness '
                 'for the pinned order) + forced-schedule enumeration of the real shard manager through pause hooks, compared with the model',
}
CFG['rule'] = CFG['rule'] + ' ' + 'Request handlers: the five real DoWithShard callbacks (RPCInsertPoints, RPCUpdatePoints, RPCDeletePoints, RPCSearchPoints, RPCGetShardInfo of a live ClusterNode, shardTimeout 1 s), one child process each: the request is parked at do:running until the idle timer has fired and the cleanup routine stands queued on the write lock of the entry (goroutine dump), then released; it must return without error, the routine must finish and a fresh request must load the shard again (CRpc; the theorems assume callbacks that return, this validates the assumption for the callbacks the node really passes).'
CFG['rule'] = CFG['rule'] + ' ' + 'Every other schedule runs on a shard manager whose root directory is relative to the working directory of the child process.'
