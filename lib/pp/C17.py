"""C17 -- multi-shard fan-out finds each point exactly once and merges results in order."""

CFG = {
    'sub': 'c17',
    'gens': [],
    'coq_files': ['Model_C17.v', 'Proofs_C17.v', 'Props_C17.v', 'Run_C17.v'],
    'props': 'Props_C17.v', 'run': 'Run_C17.v',
    'code_mod': 1000,
    'harness_timeout': 600,
    'widen_runs': 3,
    'rule': 'in-process clusters of 1..3 cluster.ClusterNode on loopback ports (own root directory each, identical Servers list, '
            'Serve(), RpcRetries 1, RpcTimeout 2, MaxSearchLimit 75, MaxShardPointCount drawn from 2..5 so that a collection gets '
            '1..6 shards placed by rendezvous hashing on 1..3 servers). One collection per deployment (schema: integer i, '
            'case-sensitive string s, string array tags, in half of them a flat euclidean vector fv). Seeded histories through an entry '
            'node A: InsertPoints batches of fresh uuids (documents of the shard-level generator genDoc: boundary integers, unicode '
            'strings, nested extras, nil values), UpdatePoints with known and never-stored ids (merge documents with _delete markers), '
            'DeletePoints with known, unknown and repeated ids, a second insert that refills the room deletes left in earlier shards; '
            'then a second phase through another node B whose RPC clients were never used, in two thirds of the multi-server '
            'deployments after Close() of one server (A or the third one; http.Server.Shutdown leaves hijacked RPC connections alive, '
            'so unavailability is only real for a node that has no cached connection -- hence the fresh entry node): searches must '
            'fail or be answered, update / delete answer for the shards that are reachable. Searches: filter queries of genFilter '
            '(and/or trees over i, s, tags and _id), an everything query, _id lists, flat k-NN queries; select none / * / i / i,s / '
            's,tags; 0..2 sort keys (also a key no document has, an array-valued key, descending); limits {1,3,10,75,100}; '
            'offsets {0,1,n,n+1,2n} for n shards. After EVERY write the content of every shard is read at the shard (shard manager '
            'of the node holding it, _id query over all ids ever used, select *) together with the GetShardsInfo counts; for '
            'vector queries every shard is additionally asked directly for its full answer (which of several points at the same distance a '
            'shard returns is not determined, so rows of vector queries are tied to the shard answers by distance / score / hybrid value and '
            'to the reference store by id and document). Six larger deployments per run '
            '(2x45, 3x25, 6x16 points, documents {i:k}) where the per-shard limit is below what a shard can answer (limits 20..100). '
            'Plus: the per-shard limit expression of SearchPoints evaluated with the Go compiler\'s float32 arithmetic for limit 1..100 x '
            '1..6 shards and 300 wider draws (up to 64 shards, limits up to 100000), and 400 direct calls of '
            'cluster.VerifCurateFailedPoints on ids sharing prefixes / 0x00 / 0xFF bytes with repeated requested ids and shuffled success lists. '
            'distinct = distinct histories + distinct limit triples + distinct curate calls (hash set)',
    'assumptions': ['the RPC transport (net/rpc over msgpack, internalRoute retries / timeouts) is assumed to deliver requests and answers '
                    'unchanged or to fail; it is exercised by the runs but not modelled',
                    'ids are unique per collection, as the API requires (an id stored in two shards is outside the quantifier; the theorem '
                    'c17_unique_preserved shows that insert / update / delete never create such a state); an update request names an id at most once',
                    'requests on one collection are sequential (no concurrent writers during a fan-out)',
                    'no NaN hybrid scores; sort keys are compared as utils.CompareAny does on values decoded by msgpack (Model_C06.sort_cmp)',
                    'per-shard behaviour (what one shard answers to an update / delete / search) is the subject of C01, C02, C04, C06'],
    'trusted_extra': ['hook /repo/cluster/export_verif.go (VerifCurateFailedPoints, VerifGetShardsInfo, VerifShardManager: wrappers that add no behaviour)',
                      'the float32 rounding function r32 of Model_C17.v (round to nearest even on the normal range), tied to the Go '
                      'compiler by the 900 CLimit cases of every run'],
}

CODES = {
    101: 'after a write the union of the shard contents differs from the collection-level reference store (a point lost, duplicated '
         'across shards, with a wrong document, or a GetShardsInfo count that differs from the number of live points)',
    102: 'update / delete response: the failed list is not exactly the requested ids that no reachable shard holds (request order, repeats kept)',
    103: 'update / delete response: message "not found" although a shard did not answer, or another message although every shard answered',
    104: 'search returned more than `limit` points, or the same point twice',
    105: 'a returned row is not taken from a shard answer: its id is not in the reference answer of the query over the whole collection, '
         'or its document / distance / score differs from what the shard holds',
    106: 'search results are not globally ordered (by the requested sort keys, or by hybrid score descending)',
    107: 'exact regime (all shards available, no offset, total matches <= per-shard limit): a matching point is missing',
    109: 'a collection that lives in one shard, no sort keys, no paging, every server up: the cluster answer is not the shard\'s answer in the shard\'s order (composite of a ranking sub-query and a filter: ranked points first, then the points only the filter matched)',
    108: 'an operation failed (error / failed ranges) although every shard server was available',
    121: 'a request of the scaffolding of a history failed although every server was up: CreateCollection',
    122: 'a request of the scaffolding of a history failed although every server was up: GetCollection (the record read back through a node)',
    123: 'a request of the scaffolding of a history failed although every server was up: InsertPoints before the recorded part',
    124: 'a request of the scaffolding of a history failed although every server was up: SearchPoints before the recorded part',
    125: 'a request of the scaffolding of a history failed although every server was up: DeleteCollection',
    126: 'a request of the scaffolding of a history failed although every server was up: GetShardsInfo',
    127: 'a request of the scaffolding of a history failed although every server was up: a shard read on the server that owns it',
    128: 'a search answer already handed to its caller was modified by a later search on the same node (a reused buffer)',
    129: 'with every server up and every shard request held for 5.5 s (RPC timeout 20 s) an update reported failed points, or a search failed or missed stored points: nothing may be reported failed that a shard processed',
    201: 'search: the number of rows, or the sort-key / hybrid class at some position, differs from the model cluster_search '
         '(per-shard limit and offset rewriting, merge, cut) applied to the shard contents',
    203: 'the per-shard limit computed by the Go expression differs from Model_C17.per_shard_limit (float32 rounding model)',
    204: 'cluster.VerifCurateFailedPoints differs from Model_C17.curate_failed',
    290: 'the reference model cannot judge this request (generator precondition broken)',
    291: 'the per-shard model cannot judge this request (generator precondition broken)',
    292: 'the harness inserted while a server was closed (generator precondition broken)',
}

LEVEL = {
    'text': 'Machine-checked proof (Coq) over a model of ClusterNode.UpdatePoints / DeletePoints / SearchPoints / curateFailedPoints in which a '
            'collection is a list of C01 stores with availability flags: for ALL collections with ids unique per collection, all requests and '
            'all sets of unavailable shards an update / delete touches exactly the shards holding requested ids, every processed id is '
            'reported once (c17_found_once, c17_found_once_update), uniqueness is an invariant of insert / update / delete '
            '(c17_unique_preserved), the shards together behave as ONE C01 store for insert, update and delete (c17_insert_reference, '
            'c17_delete_reference, c17_update_reference); the sorted-slice '
            'binary search decides membership and curateFailedPoints returns exactly requested-minus-processed in request order with "not found" '
            'iff every shard answered (c17_binary_search_sound, c17_failed_exact); for ANY per-shard answers and ANY correct sort the merge '
            'returns at most limit rows, all from shard answers, duplicate-free for disjoint shards, globally ordered, and no left-out row '
            'precedes a returned one (c17_merge); bounds and the exact value of the float32 per-shard limit (c17_limit_bounds, '
            'c17_limit_formula_api_range), the exact regime in which nothing is lost (c17_exact_regime), and which rows an offset skips '
            '(c17_offset_semantics, c17_offset_not_multiple). The real code is tied to the model by in-process multi-server clusters whose '
            'complete per-shard contents are compared with one collection-level reference after every write.',
    'design_ref': 'DESIGN.md 4.17',
    'note': 'Trusted: Coq kernel; Model_C17.v (tied to actions.go by the replay of every history and by equality on curateFailedPoints and the '
            'limit expression); the harness; the RPC transport. What the property does NOT say and the code does not do: (1) the Poisson per-shard '
            'limit only bounds the result from above -- a search can return fewer than `limit` rows although more match '
            '(c17_poisson_can_return_fewer: 40 matches in one of two shards, limit 40 -> 38 rows); (2) offsets are applied PER SHARD: a '
            'multiple of the shard count n is divided by n, any other offset is passed unchanged to every shard, so up to n*offset rows are '
            'skipped and the rows returned are in general not the global slice [offset, offset+limit) (c17_offset_not_multiple, example '
            'c17_ex_offsets; documented in the comment of SearchPoints) -- reported here, not a violation, the property does not speak about '
            'offsets across shards; (3) any unreachable shard fails the whole search; (4) ClusterNode.Close leaves hijacked RPC connections '
            'served, so a "closed" server keeps answering nodes that already hold a connection to it; (5) curateFailedPoints panics '
            '(makeslice: cap out of range) when it is given more success ids than requested ids, reachable only if an id is stored in two shards '
            '(outside the quantifier). A shard whose update transaction fails counts as "did not answer" (message shard unavailable).',
    'technique': 'Coq proof (fan-out finds each id once, failed = requested minus processed via the binary search, merge bounded / '
                 'duplicate-free / globally ordered for every correct sort) + in-process multi-server clusters replayed against one '
                 'collection-level reference',
}

CFG['rule'] = CFG['rule'] + ' ' + 'Closing a server also shuts the RPC clients the other nodes have cached for it (what a process death leaves behind); the first search / update / search after a close go through the same entry node as before it, then the history switches to a node without cached clients.'

CFG['rule'] = CFG['rule'] + ' ' + "The stream on curateFailedPoints has requests of distinct ids with 0..70 processed ones (15/16/17, 31/32/33, 63/64/65 over-weighted) in arbitrary order. The nodes' shard-manager root differs from the node root."

CFG['rule'] = CFG['rule'] + ' ' + 'CPass: on a collection that lives in one shard, a composite of a weighted vector sub-query and a filter (no sort keys, no paging) is asked at the cluster and at the shard before every group of searches: same points, same order (code 109).'
CFG['rule'] = CFG['rule'] + ' ' + 'Every node lists the same servers starting with itself (placement must be a function of the set). Three histories of four give the collection name an earlier life on the same cluster (created, filled to the same shard count, searched through every node, deleted). A request of this scaffolding that fails on a healthy cluster is recorded as an observation (CUnexpected, codes 121..127), not as a harness failure.'
CFG['rule'] = CFG['rule'] + ' ' + 'One history in four has the all-zero / all-ones uuid in its id pool; the previous search answer of a history is re-checked after the next search (code 128).'
CFG['rule'] = CFG['rule'] + ' ' + 'One scenario per run (a process of its own, c17slow.go) holds every shard callback for 5.5 s on a healthy two-server cluster with an RPC timeout of 20 s while an update of every stored point and a search for every stored point go through the entry node: no point may be reported failed and every point is returned (code 129).'
