"""C08 -- committed data is durable; answers do not depend on cache state or storage backend."""

CFG = {
    'sub': 'c08',
    'gens': [('gen_key_layout.py', 'KeyLayout.v')],
    'coq_files': ['Bytes.v', 'U64.v', 'KeyLayout.v', 'Pack.v', 'Value.v', 'Obs.v', 'Dyadic.v', 'Model_C19.v', 'Proofs_C19.v',
                  'Model_C01.v', 'Model_C01M.v', 'Model_C02.v', 'Model_C04.v', 'Model_C05.v', 'Model_C10.v',
                  'Run_C01.v', 'Run_C02.v', 'Run_C03.v', 'Run_C04.v', 'Run_C05.v',
                  'Model_ItemCache.v', 'Proofs_C08.v', 'Props_C08.v', 'Run_C08.v'],
    'props': 'Props_C08.v', 'run': 'Run_C08.v',
    # verdicts are reported as code + 1000 * (step index + 1): the orchestrator classifies by code % code_mod
    'code_mod': 1000,
    'rule': 'every generated history (documents with integer, float, string, string-array, text, flat-vector and graph-vector fields; '
            'inserts, updates, deletes, rejections) is executed under five configurations: bbolt + unlimited shared cache, bbolt + 1-byte '
            'cache (eviction after every access), bbolt + cache disabled, bbolt + close/reopen after every batch, in-memory backend '
            '(successful batches only); after every batch: count, all documents, id reads, filter / flat / text / graph-with-pre-filter '
            'queries, each judged against the reference (Run_C01, Run_C02 lenient, Run_C04, Run_C05, Run_C03 verdicts in that order; the '
            'first non-zero code is reported). 24 histories x 5 configurations quick, 600 x 5 thorough. Because every configuration is '
            'compared with the same reference answer, equality across configurations follows for every observable the reference '
            'determines (graph searches: soundness everywhere, exactness only in the two exact regimes of C03)',
    'assumptions': [
        'BucketLaws (Model_ItemCache.v): diskstore buckets of bbolt and of the in-memory store obey get-after-put, get-after-delete, '
        '"ForEach visits exactly the keys that Get finds, each once"; proved for two list implementations (c08_list_backends_lawful), '
        'ASSUMED for bbolt / memstore and exercised by the run (configuration 5 against 1-4)',
        'seriality: transactions on one ItemCache run one after the other (run_txs); this is what cache.Manager gives a writer '
        '(exclusive lock until Commit) but NOT a reader that registers a fresh cache while a writer is in flight: '
        'c08_stale_refuted is the formal counterexample (finding F6); that schedule is exercised and reported under C11 / C09, '
        'the C08 run is single-threaded per shard',
        'the operations are legal where they run (wf_run / wf_txs): vector words are float32 and edge / code words uint64 bit patterns, '
        'a document record that is Put has Length > 0 (text.go Puts only then), every in-place mutation of a cached pointer item sets '
        'the item\'s own dirty flag (Fit, ClearNeighbours / AddNeighbour, CheckedAdd / CheckedRemove: by inspection of the call sites), '
        'a quantised point without code is only stored while no code is stored under n<id>q (threshold nil <=> no codes: quantiser-level '
        'invariant, not part of the ItemCache model), Delete is not used on posting sets, ForEach / Count only on enumerable instances',
        'roaring and msgpack serialisation round-trip (the posting-set and document instances are generic in the codec; '
        'ex_text_codecs instantiates them)',
        'answers are functions of the normalised view nabs (what a cold ReadFrom returns): once a quantised point has a code, '
        'distances use the code only, so losing the full vector on reload is not observable (DistanceFromFloat / DistanceFromPoint)',
        'persisted scalars outside the ItemCache (numDocs, max node id, thresholds, centroids, free list) are covered by the run '
        '(reopen configuration) and by C01 / C05 / C10, not by the ItemCache theorems',
    ],
    'trusted_extra': [
        'Model_ItemCache.v as a reading of shard/cache/itemcache.go and of the Storable methods in vectorstore/plain.go, binary.go, '
        'product.go, index/vamana/node.go, index/text/text.go (UpdateBucket = the bucket is an argument of every operation)',
        'bbolt and diskstore in-memory buckets satisfy BucketLaws; bbolt commit is atomic and durable (fsync) -- not modelled',
        'the reference verdicts Run_C01 .. Run_C05 (their own trusted bases apply)',
    ],
}

CODES = {
    # C01
    101: 'batch output differs from the reference spec (error kind not among the causes / reported ids are not the requested ids that existed)',
    102: 'Info().PointCount differs from the number of points of the reference store',
    103: 'select-all read: the set of live ids or a document differs from the reference store',
    104: 'read by _id: the rows are not exactly the live requested points (each once) with their stored documents',
    105: 'read by _id answered with an error',
    111: 'dumped points/internal buckets violate the invariant (two-way index, data key iff live, node ids unique, free list, pointCount)',
    112: 'the store represented by the dumped buckets (p<uuid>i -> n<nid>d) differs from the live documents',
    # C03
    121: 'exactness regime: duplicate ids',
    122: 'exactness regime: a row that is not a candidate',
    123: 'exactness regime: missing / NaN distance',
    124: 'exactness regime: a reported distance is not the index distance',
    125: 'exactness regime: wrong number of rows (not min(limit, candidates))',
    126: 'exactness regime: rows not in non-decreasing distance order',
    127: 'exactness regime: a closer candidate was left out (not the exact k nearest)',
    131: 'graph search: duplicate ids in the answer',
    132: 'graph search: a returned point is not live / lacks the vector field / is outside the pre-filter',
    133: 'graph search: more rows than the limit',
    134: 'graph search: distances not non-decreasing',
    135: 'graph search: a reported distance is not the index distance to the stored vector',
    136: 'graph search: hybrid score is not -(weight x distance)',
    137: 'graph search: a score field was reported by a vector search',
    138: 'graph search: distance missing or NaN',
    139: 'a valid graph search failed',
    # C02
    151: 'a filter query returned an id set different from the points whose stored document satisfies it (reference answer)',
    152: 'a filter query that the reference spec can answer failed with an error',
    153: 'a filter query returned the same point more than once',
    # C04
    159: 'a score was reported for a vector search',
    161: 'a flat search returned the same point more than once',
    162: 'a flat search returned a point that is not a candidate (not live, no vector field, or excluded by the pre-filter)',
    163: 'a flat search row has no distance or a NaN distance',
    164: 'a reported distance differs from the configured metric (or from the quantised distance once the quantiser is trained)',
    165: 'a flat search returned a wrong number of rows (not min(limit, number of candidates))',
    166: 'flat search rows are not in non-decreasing distance order',
    167: 'a candidate strictly closer than the worst returned row was left out',
    168: 'hybrid score of a flat search row is not -(weight * distance)',
    169: 'a flat search that the reference spec can answer failed with an error',
    # C05
    171: 'text search returned the same document twice',
    172: 'text search returned a document that does not match the query within the pre-filter (or is not in the corpus)',
    173: 'a row without score, or a NaN / infinite score',
    174: 'reported score differs from tf-idf (rel. 1e-4)',
    175: 'number of rows != min(limit, number of matching documents)',
    176: 'rows are not in non-increasing score order',
    177: 'a matching document with a higher score than the lowest returned one was left out',
    178: 'hybrid score != weight * score',
    179: 'text search returned an error (or a distance is present on a text row)',
    # tooling
    290: 'the model cannot judge the query (index missing from the schema, filter outside the fragment, token table incomplete) -- tooling',
    291: 'cannot judge: logarithm missing from the table for a (corpus size, document frequency) pair -- tooling',
}

LEVEL = {
    'text': 'Machine-checked proof (Coq) about a model of the write-back ItemCache (shard/cache/itemcache.go: items with IsDirty / IsDeleted, '
            'isAllInCache, Get, GetMany, Put, Delete, in-place mutation of cached pointer items, ForEach, Count, Flush, UpdateBucket), generic in '
            'the Storable instance and in the bucket implementation. For EVERY operation sequence in any order the cache behaves like a plain '
            'finite map (c08_cache_refines_map, c08_cache_ops_exact: Get returns the map entry, Put / Delete / mutation change it at that id only, '
            'ForEach enumerates exactly the ids with an entry, each once, Count is their number, nothing else changes the map). After Flush the '
            'bucket ALONE decodes to the map: ReadFrom on the new bucket = the entry before the flush for every id, no IsDirty / IsDeleted entry is '
            'left, a cold cache over the new bucket has the same view (c08_flush_persists) -- proved once for all instances from laws that are '
            'proved per instance (c08_instances_lawful: plain vector, binary and product quantised points with their own dirty flag set by Fit, '
            'graph nodes with their own flag, posting sets and document records with delete-on-empty). For any sequence of serial transactions '
            '(searches, committed batches, failed batches with rollback + scrapped cache) two executions that differ only in when a fresh cache is '
            'handed out (warm, evicted at any points, disabled, restarted) make the same observations and end in the same view '
            '(c08_warm_equals_cold), and so do executions on ANY two bucket implementations satisfying the get / put / delete / keys laws '
            '(c08_backend_independent; laws proved for two list backends, assumed for bbolt and the in-memory store). The enumeration hypothesis is '
            'explicit (Enumerable) and proved for the plain, binary, node and document instances; for the binary instance it holds only because '
            'IdFromKey accepts the q suffix (c08_binary_idfromkey_refuted: the pinned tree before repair F3 misses quantised points in a cold '
            'ForEach / Count). Formal counterexamples kept as theorems: c08_stale_refuted -- WITHOUT seriality (a reader registers a cache from a '
            'snapshot that predates a concurrent commit and the cache survives) warm != cold: the non-serial stale-cache schedule is the known '
            'finding F6, handled under C11 / C09, not claimed here; c08_binary_count_refuted -- Count counts keys, a point fitted after it was '
            'stored is counted twice by a cold Count (unreachable in semadb: Fit tests the threshold first); c08_flush_selfdirty_leftover -- '
            'IsDirty short-circuits CheckAndClearDirty (redundant rewrite only); c08_textset_enum_refuted. The SAME generated histories are then '
            'replayed on the real shard under five cache / backend configurations and every count, document read and query answer of every '
            'configuration is judged against the reference specifications of C01-C05.',
    'design_ref': 'DESIGN.md 4.8',
    'note': 'Trusted: Coq kernel; Model_ItemCache.v as a reading of itemcache.go and the Storable methods; BucketLaws for bbolt / memstore; '
            'roaring / msgpack round-trip; durability of a bbolt commit. The theorems are about the ItemCache layer; that the indexes compute '
            'their answers from the cached items only (and from scalars persisted in the same flush) is validated by the five-configuration run, '
            'not proved. The product-quantised instance is covered by the flush / warm=cold / backend theorems but not by the enumeration '
            'theorems (IdFromKey accepts only v; a point reloaded from q alone would need the bucket invariant "q implies v"). All 14 theorems '
            'of Props_C08.v are closed under the global context.',
    'technique': 'Coq proof (write-back item cache refines a map; flush persists every instance; warm = cold under serial transactions; backend '
                 'independence from the bucket laws) + the same histories replayed under five cache/backend configurations against the reference',
}

CFG['rule'] = CFG['rule'] + ' ' + 'Additions: flat indexes with a learned binary quantiser and, in every sixth history, a product quantiser trained inside the history; chain-shaped graphs in every second graph history; the warm answer and the answer of a fresh shard object on THE SAME FILE (cold) are compared first (codes 113 / 114), then each is judged against the reference.'

CFG['rule'] = CFG['rule'] + ' ' + 'A sixth configuration: in-memory backend with caching disabled (every read decodes from the store). Delete batches sometimes remove every live point (index structures with no entries).'

CFG['rule'] = CFG['rule'] + ' ' + 'Every second history searches the (empty) vector indexes before anything is written; graph indexes also get one query without a pre-filter per step.'
CFG['rule'] = CFG['rule'] + ' ' + 'One history in six has a graph index whose binary quantiser learns its threshold inside the history.'
CFG['rule'] = CFG['rule'] + ' ' + 'One history in 24 holds 120..135 points (node ids past 101 / 113 / 118, where a byte of the id equals a key suffix). The ill-typed values include an empty string for string / string-array indexes (the file store refuses the empty key: batch rejected).'
