"""C18 -- no request crashes the server; invalid input is refused without side effects."""

CFG = {
    'sub': 'c18',
    'gens': [('gen_doc_limits.py', 'DocLimits.v')],
    'coq_files': ['Dyadic.v', 'DocLimits.v', 'Model_C18.v', 'Proofs_C18.v', 'Props_C18.v', 'Run_C18.v'],
    'props': 'Props_C18.v', 'run': 'Run_C18.v',
    'harness_timeout': 600,
    'widen_runs': 2,
    'rule': 'every exchange goes through the real HTTP stack (router, middleware chain of httpapi.setupRouter, v1 and v2 handlers) over an '
            'in-process ClusterNode with fixture collections (rich schema: vamana, flat, nested flat, text, string, stringArray, integer, '
            'float; a collection whose seven index properties are all dotted (geo.vec, geo.flat, geo.name, meta.tags, meta.count, meta.score, '
            'meta.text); schema-less; 4096-dimensional; v1 collections; planted NaN fields), '
            'executed in child processes so that a crash is an observation. Streams: (a) valid requests of every endpoint of both API '
            'versions in JSON and MessagePack, at the documented limits (4096 vectors, searchSize/limit 25/75/100, 10 sort options, plan '
            'limits of a tiny plan: collections, points, point size); (b) structured mutation of EVERY node of 15 valid request bodies '
            '(missing, null, wrong type, wrapped, extra field, duplicate keys first/last, key case, numbers 0 1 -1 24 25 75 76 100 101 4096 '
            '4097 2^31 2^63-1 -2^63 2^63 -2^63-1 1.5 1e308 5e-324 NaN +-Inf, strings empty/3000 chars/NUL/unicode/invalid UTF-8/reserved '
            'names/every operator and enumeration value/bad uuids, arrays empty/first/doubled/+-1/foreign element/lengths 1..5 1999..2001 '
            '4095..4097/NaN Inf 1e308 elements/99..101 items, queries wrapped in 200 levels of _and, empty _and, all option blocks at once), '
            'essential mutations always, the others sampled by seed in the quick tier; headers (missing, ".", "..", separators, unknown '
            'plan), 6 wrong content types, swapped encodings, empty / truncated / trailing-garbage / BOM bodies, 19 wrong method-path '
            'pairs, URI ids of length 1 2 16 17 24 25 and unknown, 13 reserved or odd index names ("_id" "_and" "" "a..b" ".v" "*" ...); '
            'literal-key stream: insert and update points for each dotted index property carrying a root key literally named like the property '
            'next to the nested map, each of them well formed / wrong-sized / ill-typed / missing / blocked by a scalar, in all combinations, JSON '
            'and MessagePack (the nested walk, which the dispatcher follows, decides; 4xx without effect when it is invalid); '
            'mixed-integer stream: MessagePack inserts / updates whose unindexed (also nested) properties hold what a standard encoder writes -- '
            'fixint, int8..int64, uint8..uint64 around 127/128, 255/256, 32767/32768, 65535/65536, 2^31, 2^32, 2^63, negatives -- next to floats, '
            'strings, nil, bool and missing values, then valid searches sorted by these properties (ascending / descending, one and two keys, nested '
            'keys, selected or not, filter and ranking queries, JSON and MessagePack, before and after an update that changes every kind): all '
            'must be 2xx with the process alive; after 12 process deaths in one batch the rest of that batch is dropped (counted); '
            '(c) random bytes and byte-mutated valid bodies under both content types per endpoint. For each exchange: how each layer sees '
            'the request, the body as decoded by the decoders DecodeValid uses (abstracted for the model), status, recovered panics, '
            'digest of all collections of all users (schemas, point counts, content of all known points) before/after, process death. '
            'distinct = distinct (method, path, headers, content type, abstract body, status), hash-set counted',
    'assumptions': ['"for all byte strings" over Go\'s encoding/json and msgpack decoders cannot be a theorem about those libraries: the model '
                    'starts at the decoded request struct; the decoders, net/http routing and the middleware are covered by the mutation and '
                    'raw-byte streams only (validated, not proved) -- the property is therefore labelled partial',
                    'valid requests are judged for 5xx only when every number in them is finite and below 1e15 (distances stay finite); '
                    'a crash of the process is judged always',
                    'that CheckCompatibleMap and the index dispatcher (msgpack Decoder.Query) resolve an index property to the same value is no '
                    'longer assumed: the translator reads both resolutions off the sources (split on ".", walk maps, no other map access; '
                    'dec.Query(property)) as side conditions of c18_write_dimension_guard, and the literal-key stream exercises it; left '
                    'assumed: for a property name with an EMPTY segment Decoder.Query returns the enclosing map, which castDataToArray refuses '
                    'before any distance is computed',
                    'the streams that exercised the repaired defects stay (offset near MaxInt64, v1 requests on v2 collections, NaN alpha, triggerThreshold '
                    'outside its range, unbuildable product quantizers): they now expect 4xx without effect, resp. 2xx for the offset',
                    'cluster-level refusals are limited to the plan arithmetic (collections, points) modelled in Run_C18.expected; a single node, '
                    'sequential requests'],
    'trusted_extra': ['translator gen/gen_doc_limits.py (regex extraction of binding tags, Validate comparisons and structural facts; exits 3 when a '
                      'struct, tag or comparison is not found)',
                      'the harness assembles the middleware chain itself in the order of httpapi.setupRouter (the translator checks that order in '
                      'the source) and adds a panic counter inside Recover',
                      'the abstraction of decoded requests (harness/c18abs.go): lengths, operators, type tags, encoded point size'],
}

CODES = {
    101: 'a request was answered 5xx (or a panic was recovered)',
    102: 'a request that violates a documented limit, is undecodable, does not fit the addressed collection (vector length, property types, point id / size) or exceeds a plan limit was answered 2xx',
    103: 'the digest of the collections changed although the request was answered 4xx',
    104: 'a request that passes validation (finite numbers, within plan limits) was answered 4xx',
    105: 'the serving process died (or hung) on a request',
    106: 'a read request (list / get / search) changed the digest of the collections',
    111: 'v1 handler panicked on a collection without a vectorVamana index named "vector" (repaired by dc9b10f: 400; a recurrence is a violation)',
    112: 'search answered 5xx on a collection whose product quantizer cannot be built (creation refuses such quantizers since be5a4ea; a recurrence is a violation)',
    113: 'search with a select path through a scalar / non-numeric segment on an array / below a selected non-map: 500',
    114: 'search with offset + limit above MaxInt64 killed the process (repaired by d9d61df; a recurrence is a violation)',
    115: 'GET collection whose stored alpha is NaN: 500 (NaN refused at creation since 7915fec; a recurrence is a violation)',
    116: 'search whose answer carries a stored NaN/Inf value: 500',
    119: 'a v1 insert / update was accepted although the property `vector` of the collection is not a vamana index, or although a vector is not as long as the dimension of the index the property really has',
    118: 'after the request a stored point is larger than the point size limit of the plan of its collection (e.g. an update that is small on its own but grows the stored point over the limit is applied)',
    117: 'MessagePack body nested about a million levels deep: fatal stack overflow, the process dies',
    121: 'collection creation with alpha outside the documented interval (NaN) accepted (repaired by 7915fec; a recurrence is a violation)',
    122: 'collection creation with a binary-quantizer triggerThreshold outside the documented range accepted (repaired by 6c2a6b8; a recurrence is a violation)',
    123: 'collection creation without the documented-as-required indexSchema accepted',
    201: 'model rejects the request (stricter than the documented limits), the server answered 2xx',
    202: 'model predicts a nil-dereference panic, none was observed',
    203: 'status class is none of 2xx / 4xx / 5xx',
    299: 'inconsistent case (harness)',
}

LEVEL = {
    'text': 'PARTIAL. Machine-checked proof (Coq) for every DECODED request: if the hand-written validation accepts it, then (1) every '
            '(index, query vector) pair the evaluator of shard/index/search.go hands to a distance function -- through _and, _or and the '
            'filters of vectorFlat / vectorVamana / text leaves -- and every vector the write path extracts has exactly the index dimension '
            '(the hypothesis of C20\'s no-out-of-bounds theorem), ValidateSchema visiting every leaf the evaluator reaches; (2) it satisfies '
            'every documented bound of the binding tags (published JSON schema), except one (indexSchema tagged required but optional: '
            'c18_undocumented_gap_index_schema_required), and an accepted vector index never carries a product quantizer that cannot be built; '
            '(3) a rejected request performs no cluster call and no v1 handler panics on any collection. The gaps of the pinned tree (NaN alpha, '
            'triggerThreshold next to a threshold, unbuildable product quantizer, nil dereference of the v1 handlers) are closed by fix commits; '
            'the _v0 theorems keep their witnesses against the pinned checks. All over constants regenerated from the Go sources on '
            'every run, with "enforced within documented" discharged by computation. NOT proved: "for all byte strings" -- the JSON / '
            'MessagePack decoders, routing and middleware are validated by structured-mutation and raw-byte streams over the real HTTP stack '
            'of both API versions (status class vs model, digest unchanged on 4xx, no 5xx, process alive).',
    'design_ref': 'DESIGN.md 4.18',
    'note': 'Trusted: Coq kernel; Model_C18.v (tied to the handlers by the agreement of its accept/reject verdict with the status class on '
            'every explored exchange); gen_doc_limits.py; the harness abstraction of decoded structs. Outside: Go\'s decoders and net/http '
            '(validated only), concurrency between requests, request sizes beyond a few MB.',
    'technique': 'Coq proof (validation implies the dimension guard and the documented limits, over constants regenerated from the binding '
                 'tags and Validate bodies) + structured-mutation and raw-byte streams over the real HTTP stack of both API versions',
}
CFG['rule'] = CFG['rule'] + ' ' + 'Stored sizes: after every recorded request every shard is asked for the raw stored data of the known ids; a point larger than the MaxPointSize of its collection plan is code 118 (sequences plan:update-merged-size-over / plan:update-replaced-size-at: 140 stored bytes + an update of 120 bytes under a limit of 200). Collection ids: the binding tag alphanum is part of the documented limits (doc_create2 / doc_create1), a created collection whose id has another character is code 102.'
CFG['rule'] = CFG['rule'] + ' ' + 'Stray parameter block: a v2 collection whose property vector is a flat index of dimension 3 with an unvalidated vamana block of dimension 5, then v1 inserts with 5 and with 3 components and a v2 search (code 119).'
CFG['rule'] = CFG['rule'] + ' ' + 'Plan MID (1500 points per collection): inserts of 2000 / 1500 / 1400+100 / 1401+100 points; v1 searches with limits 1, 25, 26, 75 on a v2 collection whose vamana index has search size 25; Unicode lower-case letters and digits in collection ids.'
CFG['rule'] = CFG['rule'] + ' ' + 'A collection whose points partly lack the vector (indexed properties are optional) is searched with filtered graph queries whose filter matches such points: valid requests (2xx).'
