"""C01 -- stored points follow the documented insert / update / delete semantics."""

CFG = {
    'sub': 'c01',
    'gens': [('gen_key_layout.py', 'KeyLayout.v')],
    'coq_files': ['Bytes.v', 'U64.v', 'KeyLayout.v', 'Pack.v', 'Value.v', 'Obs.v', 'Model_C19.v', 'Proofs_C19.v',
                  'Model_C01.v', 'Model_C01M.v', 'Proofs_C01.v', 'Props_C01.v', 'Run_C01.v'],
    'props': 'Props_C01.v', 'run': 'Run_C01.v',
    # verdicts are reported as code + 1000 * (step index + 1): the orchestrator classifies by code % code_mod
    'code_mod': 1000,
    'widen_runs': 3,
    'rule': 'seeded histories against a real shard, one child process per history (a crash or hang is an observation): a pool of 10-15 '
            'random uuids, 6-13 batches per history, batch sizes 0..7 (first insert 3..7; deletes up to the whole live set), kinds '
            '45% insert / 30% update / 25% delete; inserts draw ids that were never stored or were deleted before (re-insertion, node-id '
            'reuse), 1/14 with an id repeated inside the batch, 1/12 with an id that is already stored; updates and deletes draw 1/4 of '
            'their ids from the unknown / deleted ones, 1/15 of the updates name an id twice, 1/20 are empty; documents: indexed fields '
            '(70% per field on insert, 35% on update) of the right type, 1/30 of a wrong type (batch rejected), 1/40 nil, nested maps for '
            'dotted index paths (replaced as a whole by the shallow merge), extra fields (scalars, arrays, nested maps, empty key), 1/25 a '
            '100-500 byte string with a 300-600 byte size limit in every 5th history (oversized merged documents), "_delete" markers on '
            'indexed, extra and never-present fields in half of the update documents; 6 index schemas (none / int+float+string+'
            'string-array+nested paths (twice) / text+flat+int / vamana+text+string / nested int+string+flat+string-array); 5 store '
            'configurations (bbolt with unlimited shared cache (twice as often), cache of 1 byte, cache disabled, reopen after every '
            'batch, in-memory backend -- without in-transaction rejections, it has no rollback). After every batch: returned error '
            'class or id set, Info().PointCount, select-* read of the whole pool, one _id equals read and one _id containsAny read '
            '(1-5 ids incl. repeats and a never-stored id), raw dump of the points and internal buckets. '
            'distinct = distinct (history index, sequence of batch kinds+sizes+outcomes); every history applies at least 6 batches',
    'assumptions': [
        'shard-level preconditions that only the HTTP layer enforces (C18): vectors have the index dimension and float32 elements, '
        'indexed integers are int64 (an empty string at a string / string-array index is not a precondition any more: the model rejects the batch on a file store, c01_spec_empty_key_rejected; the in-memory store is given no such value)',
        'documents are compared as decoded trees (msgpack encode/decode is outside; the size limit is evaluated by the model of '
        'msgpack sizes Value.doc_size, generated far from the limit)',
        'a stored document is never the empty byte string (the empty map encodes to 1 byte), so SetPoint always writes the data key',
        'fewer than 2^64-2 node ids are allocated in the life of a shard (the model refuses a fresh id that is not a uint64; '
        'theorems c01_choice_exists / c01_run_exists carry this bound, c01_refines and c01_inv do not need it)',
        'which of several rejection causes of one batch is reported is not determined (concurrent pipeline): the observed error kind '
        'must be one of the causes the spec finds',
        'on the in-memory backend (no transactions) a batch rejected inside the write is outside this check (C07); the judging of '
        'that history ends at such a step',
        'ids reported by update / delete and rows of reads are compared as sets; DeletePoints receives a Go map (unique keys)',
    ],
    'trusted_extra': ['translator gen/gen_key_layout.py (key layout constants of the points / internal buckets)',
                      'hook /repo/shard/hooks_verif.go (VerifDumpBucket: read-only ForEach over a bucket)',
                      'Model_C01.v (reference spec S) is the formal reading of the property text; theorems c01_spec_* state '
                      'its consequences in the words of the property'],
}

# reported verdict = code + 1000 * (step index + 1)
CODES = {
    101: 'batch output differs from the reference spec (error kind not among the causes / reported ids are not the requested ids that existed)',
    102: 'Info().PointCount differs from the number of points of the reference store',
    103: 'select-all read: the set of live ids or a document differs from the reference store',
    104: 'read by _id: the rows are not exactly the live requested points (each once) with their stored documents',
    105: 'read by _id answered with an error',
    111: 'dumped points/internal buckets violate the invariant (two-way index n<nid>i <-> p<uuid>i, data key iff live, node ids '
         'unique / not 0,1 / below nextFree, free list disjoint from live and free + live = [2,nextFree), pointCount = |live|)',
    112: 'the store represented by the dumped buckets (p<uuid>i -> n<nid>d) differs from the live documents',
    211: 'dumped buckets differ from the buckets of the mechanism model M replayed with the node ids the code chose',
    212: 'a node id chosen by the real allocator is not a legal choice of the model (not in the free list / not nextFree)',
}

LEVEL = {
    'text': 'Machine-checked proof (Coq): the bucket-level mechanism model M of the points bucket (keys n<nid>i, n<nid>d, p<uuid>i from the '
            'generated key layout; SetPoint / DeletePoint / id counter / point count as in shard.go) refines the plain-map reference spec S '
            'for every schema, size limit, finite history of batches and every legal resolution of the node-id choices: same ids, same '
            'documents, same per-batch outputs, same point count (c01_refines, c01_count, c01_reads); the invariant (two-way index is a '
            'bijection, data key iff live, live / free / {0,1} pairwise disjoint, free + live = [2,nextFree), pointCount = |live|) holds in '
            'every reachable state (c01_inv); a rejected batch is a no-op (c01_failed_batch_noop); a legal choice always exists '
            '(c01_choice_exists, c01_run_exists); S satisfies what the property text states (c01_spec_*). The real shard is run on seeded '
            'histories; after every batch its outputs, count, select-all and by-id reads are compared with S, its dumped buckets are judged '
            'by a checker proved sound (c01_dump_checker_sound) and compared with M replayed on the node ids the code chose.',
    'design_ref': 'DESIGN.md 4.1',
    'note': 'Trusted: Coq kernel; Model_C01.v / Model_C01M.v (tied to shard.go, pointstore.go, idcounter.go by the replay of every '
            'history on S and M incl. equality of the dumped buckets); the harness; msgpack encoding and the index dispatcher are outside '
            '(only their accept / reject decision is modelled through well_typed / doc_size). Concurrency inside a batch is modelled '
            'as the sequential transform loop (the loops are sequential in the code; the dispatcher only decides rejection).',
    'technique': 'Coq proof (refinement of the bucket-level mechanism model to a plain map; inductive invariant of the id allocator) '
                 '+ history replay of the real shard against the spec and the model',
}
CFG['rule'] = CFG['rule'] + ' ' + 'Id pools: two histories of three contain the all-zero / the all-ones uuid.'
