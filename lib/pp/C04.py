"""C04 -- flat vector search is exact k-nearest-neighbour search within the filter."""

CFG = {
    'sub': 'c04',
    'gens': [('gen_key_layout.py', 'KeyLayout.v')],
    'coq_files': ['Bytes.v', 'U64.v', 'KeyLayout.v', 'Pack.v', 'Value.v', 'Obs.v', 'Dyadic.v', 'Model_C19.v', 'Proofs_C19.v',
                  'Model_C01.v', 'Model_C02.v', 'Model_C04.v', 'Model_C04M.v', 'Proofs_C04.v', 'Props_C04.v', 'Run_C04.v'],
    'props': 'Props_C04.v', 'run': 'Run_C04.v',
    # verdicts are reported as code + 1000 * (step index + 1): the orchestrator classifies by code % code_mod
    'code_mod': 1000,
    'widen_runs': 3,
    'rule': 'seeded write histories against a real shard (generator of C01: pool of 10-15 uuids, 6-13 batches of inserts / updates / '
            'deletes, "_delete" markers that remove the vector field, updates that change or keep it, ill-typed values, re-insertion of '
            'deleted ids) on the schema fv:vectorFlat + i:integer + tags:stringArray. History k uses metric k mod 6 of euclidean, cosine, '
            'dot, hamming, jaccard, haversine and, for the first three, quantiser (k div 6) mod 4 of none / binary with fixed threshold '
            '(0.5, 1.5, -0.5, 0; bit metric hamming or jaccard) / binary with learned threshold (trigger 0..8) / product (2 sub-vectors, '
            '2..4 centroids, trigger 4..8, lowered through the shard-level schema); dimension 2, 3, 4 or 8 (haversine 2). Vectors are '
            'integer valued: components -8..8 (hamming/jaccard: 0/1 with 1/8 outliers -2..2; haversine: whole degrees), 1/6 of the new '
            'vectors and query vectors are copies of a stored vector (ties, distance 0). Every history is run under six store '
            'configurations: shared cache unlimited (warm), 1-byte cache (eviction after every access), cache disabled, bbolt reopened '
            'after every batch (cold, twice), in-memory backend. After EVERY batch 6 flat searches: limit 1..75, 1, or around the '
            'collection size (1..n+3); weight absent or one of -2, -1, -0.5, 0, 0.5, 1, 3; half of them with a pre-filter (a leaf on i / '
            'tags / _id as in C02, or an _and/_or of 1-3 leaves). Every answer is judged by Model_C04.ksel_code against the candidates = live documents '
            'read back after that batch that carry a well-typed fv and satisfy the filter (Model_C02.answer), with the distance '
            'recomputed exactly in Q from the float32 bit patterns (learned thresholds read back from the bucket). '
            'distinct = distinct (history index, sequence of batch kinds+sizes+outcomes); every history carries >= 6 x 6 searches',
    'assumptions': [
        'float rounding: the generated vectors are integer valued and small, so every float32 operation of squared euclidean, dot, '
        'cosine-as-(1 - dot), hamming and the threshold comparisons is exact; these distances are compared EXACTLY (DExact) with the '
        'rational value computed in Coq',
        'jaccard (one float32 division) is compared with relative tolerance 1e-6 (DApprox); haversine and the product quantiser are '
        'compared with relative tolerance 1e-4 against a float64 reference computed by the harness from the persisted centroids / the '
        'formula (DOracle); for these the "closer candidate left out" test is slackened by the same tolerance. This part is VALIDATION '
        'by comparison, not proof',
        'NaN distances are outside the property (a reported NaN is verdict 163)',
        'theorems: the distance is any function of the enumerated point into Q (total order); that the kernels compute the metric is C20',
        'c04_warm_cold assumes the cache invariant in_sync (after Flush, single writer): its preservation under concurrent transactions '
        'is C08/C11; the value a cold read decodes is taken equal to the cached value on the fields the distance function reads '
        '(encoders round-trip: C19)',
        'c04_enumeration_reachable is proved on the per-id key-level state machine of Model_C04M.v (ItemCache entry flags, presence of the '
        "'q'/'v' key, trained flag); the isAllInCache shortcut of ForEach is not modelled",
        'limit is 1..75 (request validation); for limit 0 the loop would panic on the first point (c04_limit_zero_refuted)',
    ],
    'trusted_extra': ['translator gen/gen_key_layout.py (suffixes accepted by binaryQuantizedPoint.IdFromKey -> bq_idfromkey_suffixes; '
                      'node key layout through Model_C19)',
                      'Model_C04.v (model_dist: the six metrics and the quantised distance as rationals; ksel_code) is the formal reading '
                      'of the property text; Model_C04M.v (bounded insertion, ForEach enumeration, key sets, store state machine) is tied to '
                      'flat.go, itemcache.go, plain.go, binary.go, product.go by reading; the real searches are judged by the verified checker',
                      'harness-side float64 reference for haversine and the product quantiser (oracle distances)'],
}

# reported verdict = code + 1000 * (step index + 1)
CODES = {
    159: 'a score was reported for a vector search',
    161: 'a flat search returned the same point more than once',
    162: 'a flat search returned a point that is not a candidate (not live, no vector field, or excluded by the pre-filter)',
    163: 'a flat search row has no distance or a NaN distance',
    164: 'a reported distance differs from the configured metric (or from the quantised distance once the quantiser is trained)',
    165: 'a flat search returned a wrong number of rows (not min(limit, number of candidates))',
    166: 'flat search rows are not in non-decreasing distance order',
    167: 'a candidate strictly closer than the worst returned row was left out',
    168: 'hybrid score of a flat search row is not -(weight * distance)',
    169: 'a flat search that the reference spec can answer failed with an error',
    290: 'the model cannot judge the query (index missing from the schema, filter outside the fragment) -- tooling',
}

LEVEL = {
    'text': 'Machine-checked proof (Coq) on an executable model of the loop of IndexFlat.Search: for EVERY enumeration order of the store '
            '(the code ranges over a Go map), every distance function, pre-filter and limit >= 1, the bounded insertion returns an exact '
            'k-smallest selection of the points that pass the filter -- distinct ids, min(limit, n) rows, non-decreasing distances, nothing '
            'closer left out; ties are free (relational spec ksel). The coded checker ksel_code that judges the real answers is proved sound '
            'for that spec. The enumeration of a vector store is proved complete for the plain, product and binary stores, from the bucket '
            'keys and in every reachable state of a key-level state machine (Set/Delete/Fit/Flush/eviction, fixed or learned threshold); the '
            "binary case computes on the regenerated IdFromKey suffixes, and the pinned IdFromKey ('v' only) is refuted with a witness. Warm and "
            'cold caches hand the same candidates to the fold, so both answers are exact selections with equal distance lists. '
            'Real flat searches (six metrics x four quantiser settings x six cache/backend configurations, after every batch of seeded '
            'write histories) are judged by the verified checker with distances recomputed exactly in Q.',
    'design_ref': 'DESIGN.md 4.4',
    'note': 'Trusted: Coq kernel; Model_C04.v / Model_C04M.v (tied by reading and by the replay); gen_key_layout.py; the harness. Float '
            'rounding is avoided by integer-valued vectors (exact comparison); jaccard, haversine and the product quantiser are compared '
            'with a tolerance against a reference: validation, not proof. The distance kernels themselves are C20.',
    'technique': 'Coq proof (bounded insertion over every enumeration order is exact k-NN; store enumeration complete; checker soundness) '
                 '+ replay of real flat searches judged by the verified checker',
}

CFG['rule'] = CFG['rule'] + ' ' + 'Additions: quantiser trigger thresholds are biased towards the history length so that training happens inside the history; a death of the child process is a violation (code 199).'

CFG['rule'] = CFG['rule'] + ' ' + 'Update requests of this profile name one point twice one time in five ([remove the vector field], [set it]); every second history searches the empty index before the first write.'

CFG['rule'] = CFG['rule'] + ' ' + 'Every second hamming / jaccard history attaches a binary quantiser block with a threshold of its own (0.2, 0.75, -0.5, 1.5) -- unused for these metrics, bits are taken at 0.5 -- and its vectors take fractional values (0.25 .. 1.25) one time in three.'
CFG['rule'] = CFG['rule'] + ' ' + 'A third of the histories keep the flat vector at the nested path nested.v (updates reach it through the parent key); the bit-metric indexes carry a binary quantiser block with a threshold of its own (not used).'
CFG['rule'] = CFG['rule'] + ' ' + 'One scripted request in two sets the vector of a point and then removes it (the other half removes it and then sets it).'
