"""C19 -- key and value encodings."""

CFG = {
    'sub': 'c19',
    'gens': [('gen_key_layout.py', 'KeyLayout.v')],
    'coq_files': ['Bytes.v', 'U64.v', 'KeyLayout.v', 'KV.v', 'Model_C19.v', 'Proofs_C19.v', 'Props_C19.v', 'Run_C19.v', 'Flocq_C19.v', 'Props_C19_Flocq.v'],
    'props': 'Props_C19.v', 'props_extra': ['Props_C19_Flocq.v'], 'run': 'Run_C19.v',
    'widen_runs': 4,
    'rule': 'boundary pools (min/max int64, +-0.0, subnormals, infinities, 2^k and neighbours, strings that are prefixes of each other, '
            'non-UTF8 bytes) plus seeded random values per type; every value paired with its neighbour in sorted order and a random other; '
            'raw and mutated keys into the key decoders; range/prefix scans over real bbolt and memstore buckets. '
            'distinct = distinct (kind, input) pairs; every case exercises at least one encoder branch so all are non-trivial',
    'assumptions': ['float identity is IEEE equality: -0.0 and +0.0 are one value (DESIGN 4.19)',
                    'NaN is outside the property; bit patterns are compared through math.Float64bits',
                    'bbolt cursor order is the byte order (validated by the scan cases, not proved)',
                    'that sign-magnitude order on bit patterns is the IEEE-754 order is PROVED against Flocq (Props_C19_Flocq.v: Bcompare on b64_of_bits); those theorems depend on the standard-library axioms Flocq uses (classic, sig_forall_dec, sig_not_dec, functional_extensionality_dep)'],
    'trusted_extra': ['translator gen/gen_key_layout.py (regex extraction of key-layout constants and xor masks from the Go sources)'],
}

CODES = {
    101: 'int64: decode(encode v) != v', 102: 'int64: byte order of keys != value order',
    111: 'uint64 round trip', 112: 'uint64 order',
    121: 'float64: decode(encode v) is not IEEE-equal to v', 122: 'float64: byte order of keys != IEEE order',
    131: 'string round trip', 132: 'string order',
    141: 'float32 vector round trip', 151: 'edge list round trip', 156: 'uint64 LE round trip',
    161: 'node key does not decode to its id', 162: 'node key accepted/refused under the wrong suffix',
    171: 'document key does not decode to its id', 176: 'term key does not decode to its term',
    181: 'range scan visited keys != keys in range', 186: 'prefix scan visited keys != keys with prefix',
    201: 'int64 key bytes differ from model', 202: 'int64 decode differs from model', 203: 'int64 key bytes (2nd) differ',
    211: 'uint64 key bytes differ from model', 212: 'uint64 decode differs',
    221: 'float64 key bytes differ from model', 222: 'float64 decode differs from model',
    231: 'string key differs', 241: 'float32 vector bytes differ', 242: 'float32 vector decode differs',
    251: 'edge list bytes differ', 252: 'edge list decode differs', 256: 'uint64 LE bytes differ', 257: 'uint64 LE decode differs',
    261: 'node key bytes differ from model', 266: 'point key bytes differ from model',
    271: 'document key bytes differ', 276: 'term key bytes differ',
    281: 'NodeIdFromKey differs from model on raw key', 282: 'term IdFromKey differs on raw key', 283: 'doc IdFromKey differs on raw key',
    285: 'range scan differs from cursor model', 286: 'prefix scan differs from cursor model',
}

LEVEL = {
    'text': 'Machine-checked proof (Coq) over executable models of every encoder/decoder: round trip and order embedding for all int64, '
            'all float64 bit patterns (IEEE identity), all byte strings, uint64, float32 vectors and edge lists of any length, node/point/'
            'document/term keys incl. family disjointness, and exactness of range/prefix scans for both store backends on any sorted bucket. '
            'The layout constants and xor masks are regenerated from the Go sources on every run (translator) and the theorems re-checked; '
            'the models are compared with the real functions on boundary pools + random values and on real bbolt/memstore scans.',
    'design_ref': 'DESIGN.md 4.19',
    'note': 'Trusted: Coq kernel; the models Model_C19.v/KV.v (tied by the correspondence run); gen_key_layout.py; bbolt cursor order = byte order '
            '(validated by scans, not proved); sign-magnitude order on bit patterns is taken as IEEE order on non-NaN doubles.',
    'technique': 'Coq proof (round-trip / order-embedding theorems over generated constants) + differential correspondence run',
}
