"""C16 -- tenant isolation."""

CFG = {
    'sub': 'c16',
    'gens': [],
    'coq_files': ['Bytes.v', 'KV.v', 'Pack.v', 'Model_C16.v', 'Proofs_C16.v', 'Props_C16.v', 'Run_C16.v'],
    'props': 'Props_C16.v', 'run': 'Run_C16.v',
    'code_mod': 1000,
    'widen_runs': 3,
    'rule': 'two-tenant scenarios on one in-process cluster node behind the real HTTP handler stack (Recover + AppHeaderMiddleware + '
            'v1 and v2 handlers mounted as httpapi.setupRouter does; per-user plans with MaxCollections in {1,2,3}; MaxShardPointCount 3 so '
            'that collections have several shard directories). User-id pairs from an adversarial pool: ids that are prefixes of one another '
            '(a/ab, ab/a, u/uc, alice/alice2), an id that equals a collection name of the other user (abc/col1, userCollections/bob), unicode '
            'ids (also NFC/NFD of the same letter), 200-byte ids, ids with spaces, with a literal %2F, with dots inside (a.b, a..b, .a, ..., ..a), '
            'upper/lower case; plus the forbidden ids ".", "..", "a/b", "a\\\\b", "../bob", "bob/", "/", "" (scripted attack that did the damage on '
            'the pinned tree -- create the collection named like the other user / like "userCollections", insert, delete -- followed by random '
            'steps; every request must be answered 400). Histories: seeded random interleavings of 20-40 requests of both users, both API versions: '
            'create (valid, too short, upper case, the other user\'s id, "userCollections", with a slash) / list / get / delete collection, insert / update / delete / search points '
            '(v1 vector search, v2 vamana search, v2 _id query for EVERY point id of the scenario, the other user\'s included); collection names '
            'shared by both users; names that exist only for the other user; path segments with %2F-encoded traversal (../<other id>, '
            '../<other id>/<collection>, <other id>/<collection>); three point ids shared by both users. After EVERY step both users\' complete '
            'views are taken with their own X-User-Id header (GET /collections; per collection GET /collections/c with shard ids and point counts and '
            'an exact _id query returning every stored point with a digest of its document; all HTTP status codes) and the directory tree below '
            'rootDir/userCollections/<id> is walked. evaluations = judged steps; distinct = distinct (id pair, request/status sequence) scenarios, hash-set counted',
    'assumptions': ['user ids reach the server only through the X-User-Id header',
                    'header values cannot contain NUL or newlines (net/http refuses them before any handler runs)',
                    'filepath.Join/Clean semantics are modelled for \'/\', \'.\', \'..\' and empty elements only, on a rooted path (the root directory is absolute); '
                    'no symbolic links below the root; the file system is case-sensitive and does not normalise unicode',
                    'shard ids are the server-generated UUID strings (op_ok: plain, i.e. without \'/\', not ".", "..", "")',
                    'the node database is well-formed (wf): every entry sits under the key of its own UserId/Id fields and was written through the '
                    'API for plain ids; preserved by every request of a plain user (c16_wf_preserved), true of the empty database',
                    'requests are sequential (each request is one atomic step of the model); concurrency inside the node is C09/C11/C12',
                    'single node: the RPC routing between nodes (C13/C14) carries the same UserId/Id fields and is not modelled here'],
    'trusted_extra': ['the correspondence between Model_C16.step and the handlers is by code reading plus the status-class comparison (code 201) '
                      'and the view comparisons of this run; point contents are abstract values in the model (a shard file\'s content)'],
}

CODES = {
    101: 'the other user\'s API view (collection list, get-collection answers with shard ids and counts, every stored point with its document digest, status codes) '
         'changed during a step performed by this user',
    102: 'an answer carried a collection id or point id that belongs only to the other user',
    103: 'a collection creation was refused for quota although the user\'s own number of collections is below its MaxCollections',
    104: 'the other user\'s directory tree below userCollections/<id> changed during a step performed by this user',
    105: 'a request with a forbidden X-User-Id (".", "..", empty, containing \'/\' or \'\\\') was not answered 400',
    106: 'a vector search returned the user\'s own points with distances that are not the distances to their vectors: the answer was computed from data that is not hers',
    201: 'the status class of the answer (2xx / 409 exists / 403 quota / 404 not found / 400 invalid) differs from Model_C16.http_step',
}

LEVEL = {
    'text': 'Machine-checked proof (Coq) over a model of the node-database keys (userId + "/" + collectionId, prefix scans for listing and the '
            'quota count -- the scan is KV.v\'s bbolt cursor loop), of filepath.Join/Clean for the shard paths, of DeleteCollectionShards and of '
            'every request kind as a state machine: for ALL delimiter-free user ids (including ids that are prefixes of one another or of '
            'user+collection concatenations) and ALL collection ids (also with an encoded slash) equal keys mean equal user and collection and a '
            'prefix scan meets exactly the user\'s own keys; for ALL ids that are also not "", "." or ".." the directory of a collection and '
            'everything below it is disjoint from every other user\'s tree and shard deletion leaves other trees untouched; by induction over '
            'histories: no history of requests of user A changes anything user B can observe (records, listing, get answers, quota count, shard '
            'directories and their contents), B\'s answers depend on the state only through B\'s view, and for ANY interleaving of any number of '
            'users the answers B gets equal those of the history with everybody else\'s requests erased. The hypotheses are shown necessary by '
            'refutations with computed witnesses: an id with "/" (listing and quota leak), "." (its collection <x> IS the directory of user <x>: '
            'deleting it removes every shard of <x> -- the defect of the pinned tree, fixed by 6ba5263) and ".." (its collection '
            '"userCollections" holds every user). The current middleware check implies the hypotheses (c16_id_checks, c16_http_noninterference '
            'for arbitrary acting ids). The real handlers are run on two-tenant interleaved histories; after every step the other user\'s '
            'complete API view and directory tree must be unchanged, answers must not carry foreign ids, quota refusals must be explained by the '
            'own count, forbidden ids must be answered 400, and the status classes must equal the model\'s.',
    'design_ref': 'DESIGN.md 4.16',
    'note': 'Trusted: Coq kernel; Model_C16.v (tied to the handlers by the status-class comparison and the view comparisons on every explored '
            'history); the harness. Not covered: concurrent requests of the two users (C09/C11/C12), multi-node routing (C13/C14), symbolic links '
            'or case-insensitive / normalising file systems, the shared in-memory cache (C11). Seen on the way, outside C16: inserting an id that '
            'already exists in another shard of the same collection is accepted, and deleting such an id then panics in curateFailedPoints '
            '(negative slice capacity; recovered, answered 500) -- the generator never re-inserts an existing id.',
    'technique': 'Coq proof (key and path disjointness for delimiter-free ids, non-interference by induction over histories, refutations for '
                 '"/" , "." and "..") + two-tenant interleaved histories over the real HTTP handlers with view and directory-tree comparison',
}

CFG['rule'] = CFG['rule'] + ' ' + 'Every pair starts with the same-name life cycle: both users create a collection of the same name, both fill it, one deletes it (the other must keep all of hers), then the other way round.'

CFG['rule'] = CFG['rule'] + ' ' + 'Pairs of pattern-like ids were added ("*", "a?ice", "team[a-z]", "al*", "a.ice", "%s", "b{o,x}b" against ids they match).'
CFG['rule'] = CFG['rule'] + ' ' + "Every pair scenario also tries a collection id that is a path into the other user's collection (create / fill / delete, then the victim reads); pairs in which one id continues the other after a separator character (: | # ; , = ~ @ +), with the attacker addressing '<rest><sep><collection>'."
CFG['rule'] = CFG['rule'] + ' ' + "Every pair scenario searches while both users hold points under the same collection name; every distance a v2 vector search reports is compared with the distance from the query to the returned point's own vector (small integers, exact; code 106)."
