"""C06 -- hybrid scores, field selection, sorting and paging behave as documented."""

CFG = {
    'sub': 'c06',
    'gens': [],
    'coq_files': ['Bytes.v', 'U64.v', 'KeyLayout.v', 'Pack.v', 'Value.v', 'Obs.v', 'Dyadic.v', 'Model_C19.v', 'Model_C01.v', 'Model_C02.v',
                  'Model_C04.v', 'Model_C06.v', 'Model_C06M.v', 'Run_C06.v', 'Proofs_C06.v', 'Props_C06.v'],
    'props': 'Props_C06.v', 'run': 'Run_C06.v',
    # verdicts are reported as code + 1000 * (step index + 1): the orchestrator classifies by code % code_mod
    'code_mod': 1000,
    'widen_runs': 3,
    'rule': 'seeded write histories against a real shard (generator of C01: pool of 10-15 uuids, 6-13 batches of inserts / updates / deletes, '
            're-insertion of deleted ids) on the schema fv:vectorFlat (euclidean, dim 2/3/4/8), txt:text, i:integer, s:string, '
            'tags:stringArray, nested.n:integer, and in every second history vec:vectorVamana (euclidean, searchSize 30, degree 4-8); store '
            'configurations bbolt + shared cache, bbolt reopened after every batch, in-memory backend, bbolt + tiny cache. After EVERY '
            'batch 7 composite requests (harness/shardqueries.go reqsC06): query trees of depth <= 2, every inner node _and or _or with '
            '1..4 children, a leaf with probability 1/4 at every level; a leaf is with probability 1/2 a ranking leaf -- flat / text (1-2 '
            'words of the vocabulary, containsAll / containsAny) / vamana, chosen among the ranking indexes of the schema, limit 75 (and '
            'searchSize 75) so that the standalone answer of the leaf is complete, in 2/3 of the cases with an explicit weight from '
            '{-2,-1,-0.5,0,0.5,1,3}, in 1/4 with a filter of its own -- otherwise a filter leaf of the C02 generator (integer, string, '
            'stringArray, nested integer, _id lookups; stale and boundary values). Select list: none (1/3) or one of 15 lists ("*", "i", '
            '"s,i", "nested.n", "nested", "extra", "missing", "nested.n,nested.deep.s", "txt,i", "fv", "tags", the overlapping '
            '"nested,nested.n" and "nested.n,nested", "i,*", "s,extra,note,tags"); with probability 1/3 1..3 sort keys, ascending or '
            'descending, among the selected paths (with "*": i, s, nested.n, extra, note, missing, txt, nested.deep.s, f: missing '
            'values, nested keys, mixed kinds); offset 0 (1/3), 0..2 (1/3) or 0..n+3 (1/3) for n live points; limit absent (1/2) or '
            '1..n+1. Every composite request is followed by the standalone run of each of its ranking leaves (depth-first order): '
            'those answers are the contributions. Judged by Run_C06.judge_composite: no duplicates, every row inside the union / '
            'intersection, row count = min(limit, total - offset), distance / score = first non-nil contribution, hybrid = sum of '
            'contributions (1e-5 absolute or relative), documents = Model_C06.select_doc of the stored document (compared as maps at '
            'every level), ranked rows first, order = position-wise tie-insensitive comparison with the reference sort. '
            'distinct = distinct (history index, sequence of batch kinds+sizes+outcomes); every history carries >= 6 x 7 composite requests',
    'assumptions': [
        'the standalone answers of the ranking leaves, recorded right after each composite request on the same unchanged shard, are '
        'the contributions the composite search saw (searches are deterministic on a quiescent shard); whether those answers '
        'themselves are right (k nearest, tf-idf score, hybrid = weight x score / -weight x distance) is judged by C03 / C04 / C05',
        'a single ranking sub-query (also below single-child _and / _or nodes) keeps its own order -- non-decreasing distance / '
        'non-increasing score -- which for a negative weight is ASCENDING hybrid score: the code re-sorts by hybrid score only when '
        'it merges two or more sub-results, so "highest hybrid first" is claimed and checked for merged results only; for a leaf '
        'order the rows are compared position-wise with the standalone answer',
        'select paths that run into a scalar ("i.x" on {"i":5}), that use a non-numeric segment on an array, or that collide with an '
        'already selected scalar make the real search fail as a whole (DESIGN 6, F10); they are excluded from the generator and '
        'from c06_select_exact (hypothesis plain_paths: no "*", no empty segment, no path a prefix of another); the overlapping '
        'lists of the generator are judged by the replay through Model_C06.select_doc (last assignment wins)',
        'Value.query_path models msgpack Decoder.Query without "*" array segments, with unsigned decimal array indexes (Go accepts a '
        'sign and rejects > 63 bit numbers); documents are compared as decoded trees',
        'hybrid scores are float32 in the code and summed as float32 in sub-query order; the model sums the recorded float32 '
        'contributions exactly in Q and the comparison allows 1e-5 absolute or relative error',
        'sort keys hold int64-coded integers, float64, strings, booleans, nil, arrays, maps (one reflect.Kind per value class: the '
        'harness writes int64 / float64 typed documents); NaN is outside (cmp.Compare orders NaN first, the model orders bit patterns)',
        'the order among points that tie (equal hybrid score, sort keys all tie) and among unranked points is not determined '
        '(unstable sort, bitmap iteration): the check compares position-wise up to ties (c06_order_checker_correct)',
        'limit 75 and at most 15 live points: every ranking leaf returns all points carrying the field / matching the text',
    ],
    'trusted_extra': ['Model_C06.v (merge_ranked, eval, select_doc, sort_cmp, page) is tied to shard/index/search.go searchParallel, '
                      'shard/shard.go SearchPoints and utils/compare.go by reading and by the replay; Model_C06M.v only adds '
                      'Prop-level vocabulary for the theorems',
                      'Run_C06.v (judge_composite: which observable is compared with which model value; tolerance of the hybrid comparison)',
                      'Value.query_path / split_dots as the model of msgpack Decoder.Query and strings.Split',
                      'Model_C02.answer as the reference answer of the filter leaves (C02)'],
}

# reported verdict = code + 1000 * (step index + 1)
CODES = {
    180: 'a ranking leaf on its own: hybrid score is not weight x score (text) / -(weight x distance) (vectors) for the weight the request carries (an explicit 0 included; 1 when absent)',
    181: 'a valid composite request failed',
    182: 'duplicate ids',
    183: 'a returned point is outside the union/intersection',
    184: 'wrong number of rows for offset/limit',
    185: 'ranked and unranked points not in ranked-first order',
    186: 'hybrid score is not the sum of the contributions',
    187: 'selected document differs from the stored values',
    188: 'order violated (hybrid descending / sort keys)',
    189: 'distance/score fields differ from the contributions',
    290: 'the model cannot evaluate the query tree (filter leaf outside the C02 fragment, missing standalone answer) -- tooling',
    291: 'the recorded standalone answers / selected documents are incomplete (a ranking leaf failed, a point is not live) -- tooling',
}

LEVEL = {
    'text': 'Machine-checked proof (Coq) over the executable model of the composite search path (searchParallel merge loop, SearchPoints '
            'select / sort / slice, CompareAny): for ALL inputs -- (c06_merge_spec) for any sub-results with duplicate-free ids the merge '
            'returns each id once, exactly the ids occurring in some sub-result (for _and: inside the final set), with hybrid score '
            'literally ((h1+h2)+h3).. over exactly the sub-queries that returned the point, in sub-query order, and the first non-nil '
            'distance / score; (c06_set_algebra) a node with >= 2 sub-queries has the union / intersection of their sets, a node with '
            'one sub-query passes set, ranked list and order through unchanged; (c06_order_checker_correct, c06_compare_any_preorder, '
            'c06_sort_cmp_preorder, c06_desc_cmp_preorder) CompareAny (kinds by kind number, int / float / string by value, everything '
            'else equal) and the multi-key comparator with missing values last are total preorders, the reference insertion sort is a '
            'sorted permutation, and EVERY sorted permutation (any correct sort, stable or not -- the code uses pdqsort) agrees with it '
            'position by position up to ties, so the tie-insensitive order check of the replay is sound; (c06_missing_last, '
            'c06_sort_ties) a document lacking the key sorts after one having it for both directions, after tying keys the first key '
            'exactly one document has decides, documents compare equal iff they tie on every key; (c06_pages_partition, '
            'c06_page_beyond_end, c06_page_limit_zero, c06_page_is_slice) pages of consecutive offsets concatenate to the order, an '
            'offset beyond the end gives nothing, limit 0 gives the remainder, page = the Go slice expression; (c06_select_exact) for '
            'non-overlapping dotted paths every stored selected path comes back with exactly the stored subtree, unstored ones are '
            'absent, no other top-level key comes back, and "*" returns the document as a map. The real shard is tied to the model by '
            'replay: seeded histories, after every batch 7 composite requests (trees of depth <= 2 mixing flat / text / vamana and filter '
            'leaves, weights incl. negative and zero, select lists incl. "*", nested, missing and overlapping paths, 1-3 sort keys, '
            'offsets beyond the end, limits) each followed by the standalone runs of its ranking leaves, judged by Run_C06.',
    'design_ref': 'DESIGN.md 4.6',
    'note': 'Trusted: Coq kernel; Model_C06.v / Value.v (tied to search.go, shard.go, compare.go, msgpack Query by reading and by the '
            'replay); Run_C06.v; the harness. Not proved: the end-to-end composition "judge_composite = 0 iff the rows are a legal answer" '
            '(the theorems cover each stage the judge uses: merge, sets, order check, paging, select); float32 summation error bound '
            '(a fixed 1e-5 tolerance is used); msgpack byte-level decoding. "Highest hybrid first" holds for merged results only (see '
            'assumptions). All theorems of Props_C06.v are closed under the global context.',
    'technique': 'Coq proof (merge = sum over contributing sub-queries, set algebra, tie-insensitive order checker correct for every '
                 'correct sort, paging partitions the order, select returns exactly the selected subtrees) + replay of real composite '
                 'requests judged by the checker',
}

CFG['rule'] = CFG['rule'] + ' ' + 'Additions: documents carry, in half of the cases where nested.* is present, a non-indexed sibling map nested.m = {j, k}; four more select lists name a leaf before its ancestor ("nested.m,nested,i", "nested.n,i,nested", "nested.m.k,nested.m", "nested.m.k,nested"); sort keys may lie below a selected parent.'

CFG['rule'] = CFG['rule'] + ' ' + 'Every standalone ranking leaf is also judged on its own: hybrid = weight x score (text) / -(weight x distance) (vectors) for the weight its request carries (code 180).'
CFG['rule'] = CFG['rule'] + ' ' + 'A third of the integer values are adjacent integers beyond 2^53 (nanosecond timestamps, 64-bit ids, values next to the int64 extremes).'
CFG['rule'] = CFG['rule'] + ' ' + 'One document in five carries a top-level key whose name is the dotted path nested.n (the path still means the nested value).'
