"""C10 -- the persisted similarity (Vamana) graph stays well-formed after every write."""

_RULE = ('seeded write histories against a real shard (profile "c03" of harness/shardgen.go, shared with C03): pool of 10-15 '
         'uuids, 6-13 batches of inserts / updates / deletes of any size, vector updates, vector removal through "_delete", deletes '
         'of whole neighbourhoods at once, re-insertion of deleted ids (freed node ids are re-used by the allocator); schema '
         'vec:vectorVamana + i:integer + tags:stringArray with degree bound in {3,4,8,32,64} (the shard does not enforce the API '
         'minimum: small bounds make the prune / rescue paths frequent, 32 and 64 are API values), index search size in {25,30,75}, '
         'alpha in {1.1,1.2,1.5}, metric euclidean / dot / cosine, quantiser none / binary with fixed threshold / binary with '
         'learned threshold / product (dimension 2,3,4,8; small integer coordinates); five store/cache configurations (bbolt + '
         'shared cache, reopen after every batch, in-memory backend, tiny cache, ...; []int{0,3,1,0,2,4} in harness/c03.go). After '
         'EVERY batch the harness dumps the index bucket index/vectorVamana/vec and the points and internal buckets of the LIVE '
         'shard through the verif hooks and Coq evaluates Model_C10.wf_code on the decoded dump against the reference set of live '
         'points carrying the field (reference state of C01): node set = {entry} + node ids of carriers, vector set = node set, '
         'every edge to an existing node other than its source, degree bound except at the entry node, recorded maximum id, node '
         'ids of live points unique, stored full vector = document vector (plain store). 6 graph searches follow every batch '
         '(judged by C03). distinct = distinct (history index, sequence of batch kinds+sizes+outcomes)')

CFG = {
    'sub': 'c10',
    'gens': [('gen_key_layout.py', 'KeyLayout.v')],
    'coq_files': ['Bytes.v', 'U64.v', 'KeyLayout.v', 'Pack.v', 'Value.v', 'Obs.v', 'Dyadic.v', 'Model_C19.v', 'Model_C01.v',
                  'Model_C02.v', 'Model_C04.v', 'Model_C10.v', 'Run_C10.v', 'Model_Vamana.v', 'Proofs_Vamana.v', 'Props_C10.v'],
    'props': 'Props_C10.v', 'run': 'Run_C10.v',
    # verdicts are reported as code + 1000 * (step index + 1): the orchestrator classifies by code % code_mod
    'code_mod': 1000,
    'widen_runs': 3,
    'rule': _RULE,
    'assumptions': [
        'the NumCPU-1 concurrent insert workers of a batch are modelled as SOME sequential order of single inserts (queue order; the '
        'classification of a change sees every earlier insert); every atomic step of the code happens under the edge lock of the '
        'node it changes and the invariants proved are invariants of each such step, but the interleaving itself is not modelled',
        'product-quantiser training (k-means, random seed) and binary threshold learning are not modelled: the model is parametric '
        'in the distance function (the theorems hold for EVERY d), vector payloads are opaque',
        'ids in a batch are neither 0 nor the entry id 1 (the code rejects both; node ids come from the allocator, >= 2: '
        'c10_alloc_fresh); degree bound >= 1 and search size >= 1 (validation: 32..64, 25..75)',
        'ItemCache is modelled as a map (Get fails on a missing key, GetMany skips missing keys, Put overwrites, Delete removes, '
        'Flush persists exactly the map): cache/bucket coherence across transactions is C08 / C11, not C10',
        'a batch that names the same node id twice (Shard.UpdatePoints accepts a request listing a point twice) keeps the graph '
        'well-formed (c10_batch_preserves_wf covers it) but the classification reads the vector store before any update of the '
        'batch is applied, so "set the vector, then _delete it" leaves a node and a vector for a point whose field was removed '
        '(c10_same_id_twice_refuted; reproduced on the real shard with replays/C10_same_id_twice_repro.go.txt: the graph search then '
        'returns, at distance 0, a point that no longer has the field -- a violation of C10 and C03 for such requests; the '
        'generator never lists a point twice in one request)',
        'cached neighbour points (graphNode.neighbours) are assumed coherent with the vector store (true when every id changes at '
        'most once per batch)',
        'the link "wf_code = 0 on the decoded dump  <->  wf_b on the decoded graph" (clauses 141-145) is by reading: wf_code works '
        'on bucket dumps and uuids, wf_b on the abstract graph',
    ],
    'trusted_extra': ['Model_Vamana.v (graph stores, DistSet, greedySearch, robustPrune, insertSinglePoint, EdgeScan, '
                      'pruneDeleteNeighbour, removeInboundEdges, insertUpdateDelete, IdCounter) is tied to shard/index/vamana/*.go, '
                      'shard/cache/itemcache.go and shard/idcounter.go by reading; the replay ties the REAL persisted graph to the '
                      'invariant itself (wf_code), not to the model run',
                      'Model_C10.v (decoding of the bucket dump, wf_code) and Run_C10.v',
                      'Model_C01.v reference state (which points are live and carry the field)'],
}

# reported verdict = code + 1000 * (step index + 1)
CODES = {
    141: 'the graph node set is not {entry node} + node ids of the live points carrying the vector field',
    142: 'the stored-vector set differs from the node set',
    143: 'an edge leads to a missing node or to its own source',
    144: 'a node other than the entry node exceeds the degree bound',
    145: 'the recorded maximum node id is below an id in use',
    146: 'node ids of live points are not unique',
    149: 'a request the running instance answered was refused with an error by a fresh instance over a copy of the same file: the persisted graph cannot be read back (e.g. a stored node reads as absent)',
    147: 'a stored full vector differs from the vector of the document',
    148: 'a live point has no node id in the points bucket',
    149: 'the bucket dump is missing',
}

LEVEL = {
    'text': 'Machine-checked proof (Coq) over the executable model Model_Vamana.v of the graph write path, for ALL inputs: every '
            'distance function, alpha, degree bound R >= 1, search size L >= 1, every well-formed graph and every batch / history '
            'whose ids are not 0 / the entry id. PROVED IN FULL (no _partial statement): (c10_wf_b_correct) the boolean checker '
            'decides the invariant wf (one node and one vector for the entry node and each live id and nothing else, every edge to '
            'an existing node other than its source, out-degree <= R except at the entry node, maximum id bounds all ids); '
            '(c10_search_never_fails) on a well-formed graph greedySearch never hits a missing node / vector and never runs out of '
            'fuel, for every query, limit <= search size and pre-filter; (c10_insert_preserves_wf) insertSinglePoint takes no error '
            'branch and preserves wf -- including the back-edge rule "len+1 > R: prune, else append" and robustPrune breaking only '
            'after adding; (c10_batch_preserves_wf) insertUpdateDelete with ARBITRARY mixed changes -- inserts first, EdgeScan, '
            'pruneDeleteNeighbour with one-level expansion (candidate set possibly containing the node itself, both degree '
            'branches), rescue edges on the entry node, deletion, re-insertion of updated points; whole neighbourhoods deleted, the '
            'same id several times -- takes no error branch ("no neighbours to be deleted" included) and preserves wf; the proof '
            'goes through a generalised invariant with a set of pending nodes whose stale edge lists are unreachable; '
            '(c10_batch_live_spec) for batches naming each id once the ids carrying a vector afterwards are exactly: given a vector '
            'in the batch, or present before and not removed; (c10_delete_preserves_wf) delete-only corollary; (c10_wf_reachable) '
            'every history from the empty index (first touch creates the entry node) runs without error and ends well-formed; '
            '(c10_alloc_fresh / _free / _init) the node id allocator hands out ids that are fresh, never 0 or the entry id, never '
            'twice in use nor both in use and free. (c10_same_id_twice_refuted) finding predicted by the model and reproduced on the real shard: an update request '
            'naming a point twice (vector set, then removed with _delete) keeps a graph node and vector for a point without the field. The REAL shard is tied to the invariant by '
            'replay: after every batch of seeded histories (all degree bounds / alphas / metrics / quantisers / store '
            'configurations of the rule) the dumped buckets are judged by the coded checker wf_code.',
    'design_ref': 'DESIGN.md 4.10',
    'note': 'Trusted: Coq kernel; Model_Vamana.v (tied to the Go code by reading -- faithful to details that look odd: break after '
            'AddNeighbour, len(edges)+1 > DegreeBound, candidate set containing the node itself, GetMany skipping missing keys); '
            'Model_C10.v / Run_C10.v; the harness and the verif dump hooks. Not proved: the interleaving of the insert workers '
            '(modelled as a sequential order), byte-level persistence (C19) and cache coherence (C08/C11). All theorems of '
            'Props_C10.v are closed under the global context.',
    'technique': 'Coq proof (inductive well-formedness of the graph under insert/prune/delete; search never fails on a well-formed '
                 'graph) + well-formedness checker on the persisted graph after every batch',
}
CFG['rule'] = CFG['rule'] + ' ' + 'Read-back: after every batch on a bbolt configuration the requests of the step are also answered by a fresh instance over a copy of the file; an error there where the running instance answered is code 149.'
