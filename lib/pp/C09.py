"""C09 -- concurrent searches and writes are safe and every search sees committed data."""

CFG = {
    'sub': 'c09',
    'gens': [('gen_tx_order.py', 'TxOrder.v'), ('gen_itemcache_locks.py', 'ItemCacheLocks.v')],
    # everything Run_C09.v (-> Model_C02 -> Model_C19, Model_C01) and Props_C09.v (-> Proofs_C09b -> Proofs_C09 -> Model_C09, Run_C09) depend on
    'coq_files': ['Bytes.v', 'U64.v', 'KeyLayout.v', 'Pack.v', 'Value.v', 'Obs.v', 'Model_C19.v', 'Model_C01.v', 'Model_C02.v',
                  'Run_C09.v', 'Model_C09.v', 'Proofs_C09.v', 'TxOrder.v', 'ItemCacheLocks.v', 'Proofs_C09b.v', 'Props_C09.v'],
    'props': 'Props_C09.v', 'run': 'Run_C09.v',
    'harness_timeout': 900,
    'widen_runs': 2,
    'rule': '48 (quick) / 1200 (thorough) runs, each its own process: 3-8 searcher goroutines issuing id / filter / flat / text / '
            'graph-with-pre-filter queries with select "*" against one writer applying 6-13 insert / update / delete batches on a '
            'file-backed shard with an unlimited shared cache, starting cold, partially warm or warm; every search records the window '
            'of committed versions between its start and end; all failed searches and a sample of 40 successful ones per run are '
            'judged; final state read warm and after reopen',
    'assumptions': [
        'Go memory model: data races are left to the race detector in the thorough tier if enabled (a race report is code 189); '
        'the Coq model interleaves atomic steps (begin, acquire, every single index read, release, lookup+end; lock+update, '
        'storage commit, unlock; eviction)',
        'bbolt MVCC snapshots assumed: a read transaction sees exactly the version that was current at its begin, one writer at a time',
        'the window is measured with atomic counters around the batch calls: a batch counts as possibly-visible from the moment its '
        'call starts and as surely-visible once it returned',
        'model abstractions (header of Model_C09.v): cache locks are derived from the thread phases; manager lookup + TryRLock is one '
        'atomic step; a writer blocked in Lock() does not make TryRLock fail; one index cache per shard and one cache acquisition '
        'per search; scans report the keys of a finite key universe; a search is ANY adaptive program of point reads and scans, the '
        'index content of a committed points bucket is ANY function of it, the batch semantics is ANY partial function (tied to the '
        'reference spec of C01 by the hypothesis refines_spec, which C01 checks on the real code)',
        'c09_serial_safe needs transactions (not only cache accesses) to be non-overlapping: a reader block starts at its begin; '
        'with only the cache accesses contiguous the statement is false (c09_spurious_refuted is such a schedule)',
    ],
    'trusted_extra': [
        'Model_C09.v (snapshot / shared-handle / cache-manager model) is tied to shard/shard.go, shard/index/search.go, '
        'shard/cache/manager.go, shard/cache/itemcache.go and diskstore/bbolt.go by reading; the stress runs judge the REAL '
        'observations against the committed-version timeline of the reference spec (Run_C09.v, linked to the model timeline by '
        'c09_run_timeline / c09_final_state), not against a model run',
        'child-process runner of the harness (harness/c09.go, shardrun.go): a dead or hung child is an observation (181 / 182)',
        'Run_C09.v and the reference spec of C01 it uses (apply_spec)',
    ],
}

CODES = {
    101: 'a batch output (error kind / reported ids) differs from the reference spec',
    151: 'sequential searches on a partially warm cache created by an earlier read transaction: a search failed with "point does not exist"',
    152: 'sequential searches on a partially warm cache: a search failed with "transaction has ended"',
    153: 'sequential searches on a partially warm cache: a search failed with another error',
    154: 'sequential searches on a partially warm cache: a search did not return',
    155: 'sequential searches on a partially warm cache: a search failed with "failed to get node ...: not found" -- it read through the bucket handle of a finished transaction although nothing ran concurrently',
    156: 'sequential searches on a partially warm cache: a search returned the same point twice',
    157: 'sequential searches on a partially warm cache: a returned point is not live, with that document, in the only committed version',
    158: 'sequential searches on a partially warm cache, exact regime (pre-filter of 12 live points that carry the vector, limit 12): the answer is not exactly those points -- the search could not read some of them',
    161: 'concurrent reads only (no writer, cold start): a search failed with "point does not exist"',
    162: 'concurrent reads only: a search failed with "transaction has ended"',
    163: 'concurrent reads only: a search failed with another error',
    164: 'concurrent reads only: a search did not return',
    165: 'concurrent reads only: a search failed with "failed to get node ...: not found" -- it read through the single bucket '
         'handle of the shared cache after the reader that installed it had ended (known finding)',
    166: 'concurrent reads only: a search returned the same point twice',
    167: 'concurrent reads only: a returned point is not live, with that document, in the only committed version',
    171: 'forced schedule (search run wholly while the writer is stopped inside its write transaction, nothing committed): the '
         'search failed with "point does not exist" -- it saw the writer\'s uncommitted cache content',
    172: 'forced schedule: the search failed with "transaction has ended"',
    173: 'forced schedule: the search failed with another error',
    174: 'forced schedule: the search did not return while the writer was stopped (it waits for the writer)',
    175: 'forced schedule: the search failed with "failed to get node ...: not found"',
    176: 'forced schedule: a search returned the same point twice',
    177: 'forced schedule: a returned point is not live, with that document, in the only committed version',
    178: 'forced schedule run: final state read warm differs from the reference',
    179: 'forced schedule run: final state read after reopening differs from the reference',
    181: 'the process died during the concurrent run',
    182: 'the process hung during the concurrent run',
    189: 'the race detector reported a data race',
    191: 'a search failed spuriously: "could not get point by node id N: point does not exist" (lookup in an older snapshot '
         'of a node found in a newer shared cache) -- known finding',
    192: 'a search failed spuriously: "transaction has ended" (bucket handle of another, finished transaction)',
    193: 'a search failed with another error',
    194: 'a search failed spuriously: "failed to get node ...: not found" (a node read as absent through the bucket handle of '
         'another, finished transaction) -- known finding',
    195: 'a search returned the same point twice',
    196: 'a returned point is not live, with that document, in any committed version of the search window',
    197: 'final state read warm differs from the sequential application of the successful batches',
    198: 'final state read after reopening (cold) differs from the sequential application of the successful batches',
}

LEVEL = {
    'text': 'Machine-checked proof (Coq) over the executable small-step model Model_C09.v: committed versions of the points bucket, '
            'one writer (write-lock and update the shared index cache in place, storage commit, unlock; a rejected batch rolls back '
            'and scraps the cache), any number of readers (snapshot at begin; acquire the registered cache -- whatever version it '
            'reflects -- overwriting its single bucket handle, or a private cold cache while it is write-locked; an arbitrary '
            'adaptive program of point reads and scans answered from cached items or through the cache\'s current handle; lookup of '
            'every found node in the reader\'s own snapshot; end: the handle dies) and an evicting environment, for ALL '
            'configurations, batch streams, numbers of readers, search programs and ALL schedules: (c09_results_were_live) every '
            'point a search returns is live, with exactly the returned document, in the reader\'s snapshot version, which is a '
            'committed version and was current at the reader\'s begin step, i.e. inside the search window; (c09_guard_no_crash) with '
            'fix 581ddda no schedule crashes the process, every outcome is Ok or a clean failure; (c09_final_state, '
            'c09_committed_prefix, c09_run_timeline) the committed versions are at every moment a prefix of, and after the writer '
            'finished equal to, the sequential application of the batches in commit order -- on the reference spec of C01: '
            'S_{k+1} = fst (apply_spec b_k S_k) for a successful batch, S_k otherwise, which is the timeline the running check '
            'judges against -- a cold cache agrees with the index of the final version and the warm registered cache agrees with it '
            'in every calm schedule (no commit while a read transaction is open, no removal of the manager entry while it is '
            'write-locked; c09_evict_stale_refuted_v0 shows the warm cache stale otherwise for the manager before fix 2d185e4: finding F6 of C08 / C11, repaired; the model keeps the pinned commit step, a superset of the repaired behaviour); '
            '(c09_serial_safe) in schedules whose transactions do not overlap no search crashes or fails spuriously: every outcome '
            'equals the sequential answer on the reader\'s snapshot; (c09_inside_write_window) the forced schedules of the check: '
            'in ANY state (reachable or not) in which the writer is stopped inside its write transaction -- the registered cache '
            'write-locked and already updated to the version about to be committed or rolled back, storage not committed -- a '
            'search of any idle reader with any program, run start to end at that point, takes a private cold cache and ends with '
            'exactly the sequential answer on the only committed version, and changes nothing else: not the heap (the write-locked '
            'cache), the committed versions, the writer or any other reader, and the manager entry only if the program itself gives '
            'up; (c09_early_unlock_refuted) the seeded defect "cache lock released before the storage commit", codes 171 / 191: '
            'from the toy state that differs from the writer\'s in-transaction state only in the dropped lock the same search '
            'finds the uncommitted node in the shared cache and fails with "point does not exist" although it answers Ok on the '
            'only committed version -- and that state is unreachable in the model from any cold start by any schedule, because '
            'every cached item of a cache that is not write-locked inside the writer\'s transaction is an entry of the index of a '
            'committed version (lemma c09_lock_covers_commit, all configurations). '
            'The two defects named in the property text are theorems about '
            'the faithful model: (c09_spurious_refuted) KNOWN FINDING, code 191: a reader with snapshot v0 acquires the shared cache '
            'after the writer updated it, committed v1 and unlocked, finds the node inserted by that batch and fails the lookup in '
            'its own snapshot with "could not get point by node id N: point does not exist", although its cache accesses do not '
            'overlap the writer\'s -- the stress runs reproduce it rarely and report it as KNOWN-FINDING; '
            '(c09_shared_handle_refuted) three readers of one version, no writer: the reader whose handle was installed last '
            'finishes first, another one then reads through the dead handle -- in the pinned tree a process crash, since fix '
            '581ddda a clean error "transaction has ended" (code 192; Get through a dead handle returns nil). The REAL shard is tied '
            'to the property by concurrent stress runs in child processes judged against the committed-version timeline: no crash, '
            'no hang, no failed search, no duplicate, every returned point live with that document in some version of its window, '
            'final state warm and after reopen equal to the sequential application. A crash found by this check (search results '
            'carried bbolt byte slices beyond the read transaction) was fixed by commit 44dda50.',
    'design_ref': 'DESIGN.md 4.9',
    'note': 'Trusted: Coq kernel; Model_C09.v (tied to the Go code by reading); the harness and its child-process runner; Run_C09.v '
            'with the reference spec of C01. Assumed, not proved: the Go memory model (data races are left to the race detector), '
            'bbolt MVCC. The model is tied to the code by (a) the stress runs, (b) forced schedules: searches run start to end while '
            'the writer is stopped inside its bbolt write transaction (before the batch callback, after it returned nil, after it '
            'returned an error) must answer from the one committed version (c09_inside_write_window is the model statement; a '
            'change that releases the cache lock before the storage commit is reported as code 171, c09_early_unlock_refuted), and '
            '(c) read-only concurrency from a cold start, which reproduces the shared-handle defect on the real code without any '
            'writer (codes 165 / 194, known; before fix 581ddda a crash, now a clean error). A full enumeration of pause points '
            'inside a cache access is not possible from outside: the item cache holds its mutex across bucket reads. c09_serial_safe is stated for non-overlapping TRANSACTIONS; the weaker '
            'reading of DESIGN 4.9 (non-overlapping cache accesses) is refuted by c09_spurious_refuted. All theorems of '
            'Props_C09.v are closed under the global context.',
    'technique': 'Coq proof (snapshot / shared-handle model: results are live in the reader\'s snapshot for every schedule, serial '
                 'schedules never fail, final state = sequential application; counterexample schedules for the two known defects) '
                 '+ concurrent stress runs, forced schedules with the writer stopped inside its transaction, and read-only '
                 'concurrency runs, all judged against the committed-version timeline',
}

CFG['rule'] = CFG['rule'] + ' ' + 'Additions: 24 (quick) / 600 (thorough) forced-schedule runs: the writer is stopped inside its bbolt write transaction (before the batch callback, after it returned nil, after it returned an error) and complete vector / filter searches are run there from a cold, partially warm or warm cache (they must answer from the one committed version); then, without any writer, on a collection of 100+ points a second short search is started on the shared cache at the 1st..30th bucket operation of a first search from a cold start (read-only concurrency).'

CFG.setdefault('trusted_extra', []).append(
    'translator gen/gen_tx_order.py (reads the transaction bracket of InsertPoints / UpdatePoints / DeletePoints / SearchPoints off '
    'shard/shard.go: cache transaction created before the storage transaction, used inside it only by NewIndexManager, settled '
    'after it with Commit(true) iff it returned an error; exits 3 on any other shape); c09_writer_follows_bracket ties the model writer to it')

CFG['rule'] = CFG['rule'] + ' ' + 'The stress runs have one more client that keeps calling Shard.Info. Forced runs, phase C (nothing concurrent): on a sparse graph of 500 points, on caches created by an earlier finished read transaction, six searches from other regions and six exact-regime searches (pre-filter of 12 live points, limit 12: exactly those must come back). Within one run a failure code that is not a known symptom is reported in preference to one that is.'
CFG['rule'] = CFG['rule'] + ' ' + 'Forced schedules: one in four runs with a cache manager whose budget is one byte (whatever is registered is evicted when a request ends, also a cache its writer still holds; the next search registers a cache built from the data before the commit, which the commit must discard).'
CFG['rule'] = CFG['rule'] + ' ' + 'Obligation ItemCacheLocks (gen_itemcache_locks.py): every exported ItemCache method that works on the item map holds the cache mutex for its whole body (theorem c09_itemcache_methods_locked); every other stress run uses a finite cache budget (1 GiB) so that the accounting of the manager runs next to writers and searchers.'
