"""C11 -- shared-cache transactions isolate writers, drop failed state, release locks."""

CFG = {
    'sub': 'c11',
    'gens': [('gen_tx_order.py', 'TxOrder.v')],
    'coq_files': ['TxOrder.v', 'Model_C11.v', 'Proofs_C11.v', 'Proofs_C11b.v', 'Proofs_C11c.v', 'Proofs_C11d.v', 'Props_C11.v', 'Run_C11.v'],
    'props': 'Props_C11.v', 'run': 'Run_C11.v',
    'widen_runs': 2,
    'rule': 'forced schedules of the REAL package shard/cache (cache.NewManager(limit), NewTransaction, With, Commit, Release), a fresh Manager per '
            'schedule: every transaction runs its program (accesses With(name in {A,B}, readOnly, outcome in {ok, callback fails, construction fails}) '
            'then Commit(fail)) in its own goroutine, callbacks block on channels, the harness releases one transaction at a time (before an operation / '
            'inside the callback) and reads off the goroutine dump whether a transaction blocked on a lock (wait reason sync.Mutex.Lock / sync.RWMutex.Lock; '
            'no timing guess); after every release it records the status of every transaction (operation index, element handed to the callback, error '
            'flags of With, blocked) and the manager map (name -> element, by reflection); elements are numbered in createFn order. After all transactions '
            'finished a probe transaction (one writing + one read access per name, then Commit) is appended. '
            'quick tier: (1) 18 curated scenarios of 2-3 transactions (witnesses of the theorems: Release / checkAndPrune eviction / reader error path / '
            'scrapped element while a writer is in flight, cross writers A,B/B,A, announced writer behind readers, abort, construction failures, limits 0 and 1): '
            'ALL interleavings when there are at most 150, else 150 seeded random ones; (2) two transactions with programs of length 1: a seeded order of ALL '
            'program pairs (up to swapping the transactions and renaming A<->B) x limits -1,0,1, ALL interleavings each, until 2200 schedules; (2b) accesses AFTER the Commit of the same transaction (the straggler goroutine of an operation that has returned): earlier access none / read A / write A / write B / failing write A, Commit(false) and Commit(true), late access read or write on A or B, limits -1,0,1 alone, and paired with a second transaction (all interleavings up to 12 per configuration, seeded above that); (3) 900 seeded '
            'random configurations of 2-3 transactions with programs of length <= 2, limits -1,0,1,2, Release(name) events at random moments, Commit(true) '
            'without failed access, random interleaving. thorough tier: all interleavings of every scenario with at most 2000 (else 2000 seeded ones), programs of length <= 2 for the pairs (budget '
            '30000 schedules), 10000 samples, three transactions with programs of length 1 exhaustively (budget 20000); stats.exhaustive says what was '
            'complete. A schedule in which two transactions wait for the same lock is cut at that point (which one the Go runtime wakes is its choice). '
            'distinct = distinct case terms (programs + schedule + observations), duplicates are not emitted',
    'assumptions': ['Go memory model and sync primitives: Mutex / RWMutex behave as specified (Lock announces the writer, TryRLock fails while a writer holds or '
                    'waits, RUnlock of the last reader wakes the writer); the model takes each manager-mutex section and each lock operation as one atomic step',
                    'lastAccessed (time.Now) is modelled by a logical clock: two accesses never carry the same time stamp',
                    'a transaction is one goroutine (a sequential program); several goroutines of ONE transaction inside With at the same time (t.mu) are outside '
                    'the quantifier of C11 and not modelled',
                    'storage is a version counter per cache name, bumped when a writing transaction commits successfully (the bbolt commit precedes '
                    'cacheTx.Commit(false) in shard.go); a reader that builds a cache from an OLD bbolt snapshot after a commit (slow reader) is the C08/C09 '
                    'variant of F6 and not visible at the level of the cache package',
                    'hypothesis of c11_progress: concurrently active writing transactions touch disjoint cache names (cache names are prefixed by the shard file, '
                    'bbolt admits one writer per file); without it c11_cross_writers_refuted. The same hypothesis limits code 110: a writer that already holds, or '
                    'was already waiting for, an element when another writer of the same name commits is not judged stale',
                    'hypothesis of c11_exclusion: no With after Commit in the PROGRAMS of the theorem (the harness does issue With after Commit and compares with the '
                    'model; c11_coherent, c11_locks_released, c11_scrapped_not_reused hold for arbitrary programs)',
                    'between the bbolt commit and cacheTx.Commit a cache registered from the old data is still readable for that window (the model commits storage '
                    'and cache in one step); the window closes at cacheTx.Commit, which discards it'],
    'trusted_extra': ['no hook in /repo: the cache package is driven through its exported API; the manager map and the writtenCaches of a transaction are READ '
                      'through reflect/unsafe (observation and clean-up of blocked goroutines only)',
                      'block detection reads runtime.Stack wait reasons (Go 1.24 strings sync.Mutex.Lock, sync.RWMutex.Lock, sync.RWMutex.RLock, semacquire)'],
}

CODES = {
    101: 'exclusion: a callback ran on an element on which another, not yet committed transaction had a writing callback (or a writing callback overlapped '
         'another callback on the same element)',
    102: 'a callback STARTED on an element after a callback on it had failed / after the transaction that wrote it committed with failure (scrapped element reused)',
    103: 'after every transaction had committed or aborted the probe transaction blocked (a lock was not released)',
    104: 'a read-only access blocked',
    105: 'a writing access was accepted (its callback ran) after the Commit of its own transaction had returned: nobody is left to release that lock',
    110: 'stale element: a callback started on an element created before a successful commit to its name by another transaction that had not written that '
         'element (F6, repaired by 2d185e4: a recurrence is a violation)',
    201: 'the observations (status of every transaction, element identities, With errors, blocked, manager map) differ from the model on the same schedule',
    202: 'the harness observed the entry of a write-held cache leaving the map (tag F6pre) but the model run has no such step',
}

LEVEL = {
    'text': 'Machine-checked proof (Coq) over an executable small-step model of shard/cache/manager.go that splits With at its real atomic boundaries '
            '(held-cache shortcut; manager section incl. createFn of a new entry; TryRLock / Lock announce / wait for readers; scrapped check; callback begin '
            'and end; error path; deferred checkAndPrune and RUnlock in LIFO order), Commit, Release, limits -1 / 0 / n, for three versions of the manager '
            '(pinned; after 1944012; current = after 2d185e4). By induction over ARBITRARY schedules (Release / eviction / pruning / failures at any moment), '
            'ANY number of transactions and ANY program lengths, for the CURRENT tree: coherence -- every registered, unscrapped, unlocked cache reflects the '
            'committed storage, so "evicting or releasing a cache at any moment is harmless" (c11_coherent, no hypothesis at all); exclusion -- no reader or '
            'foreign callback on a write-held element, no overlap with a writing callback, private copies unregistered (c11_exclusion, programs without With '
            'after Commit); a scrapped element is never selected again; every lock is released once all transactions have committed or aborted, every error '
            'path and With after Commit included; progress under the hypothesis that concurrently active writers use disjoint names (satisfied by any programs '
            'with one writing transaction; refuted without it: cross writers, outside the property\'s progress clause); readers never wait for an element lock. '
            'The defects of the earlier versions are kept as witnesses: c11_evict_harmless_refuted_v0 and c11_exclusion_refuted_v0 (F6: stale cache registered '
            'while a writer was in flight; writer using a foreign cache without its lock), c11_late_reader_refuted_v1 (read access after Commit without a lock), '
            'c11_post_commit_with_refuted_v0 (leaked write lock). The real package is driven along forced schedules (all interleavings of the stated bounds, '
            'accesses after Commit included, goroutine-dump block detection) and its observation trace must equal the model\'s on every schedule; stale '
            'hand-outs, overlaps, reuse of scrapped elements, blocked probes and writes accepted after Commit are judged on the observations alone.',
    'design_ref': 'DESIGN.md 4.11',
    'note': 'Trusted: Coq kernel; Model_C11.v (tied to manager.go by equality of the observation traces on every explored schedule; a mutation of the '
            'model -- TryRLock ignoring an announced writer -- is caught by 61 schedules of the quick tier); the harness. The scrapped check and the call of '
            'the callback are two steps: a reader overtaken by another failing READER of the same element starts its callback on a scrapped element '
            '(c11_scrapped_check_race_refuted; needs two concurrent readers, not observable at the harness granularity). Transactions with several goroutines '
            'inside With are not modelled. c11_exclusion is stated for programs without With after Commit.',
    'technique': 'Coq proof (lock-protocol invariants by induction over arbitrary schedules and any number of transactions) + exhaustive forced-schedule '
                 'enumeration of the real cache package compared with the model',
}

CFG.setdefault('trusted_extra', []).append(
    'translator gen/gen_tx_order.py: the model takes "the bbolt commit precedes cacheTx.Commit(false)" and "Commit(true) iff the storage '
    'transaction returned an error" from shard/shard.go; the translator reads exactly that bracket off the four shard operations and '
    'exits 3 on any other shape (a cache transaction settled inside the storage transaction breaks this obligation)')

CFG['rule'] = CFG['rule'] + ' ' + 'Obligation TxOrder (gen_tx_order.py): the storage transaction ends before the cache transaction is settled, in all four shard operations.'
