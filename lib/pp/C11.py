"""C11 -- shared-cache transactions isolate writers, drop failed state, release locks."""

CFG = {
    'sub': 'c11',
    'gens': [],
    'coq_files': ['Model_C11.v', 'Proofs_C11.v', 'Proofs_C11b.v', 'Proofs_C11c.v', 'Proofs_C11d.v', 'Props_C11.v', 'Run_C11.v'],
    'props': 'Props_C11.v', 'run': 'Run_C11.v',
    'widen_runs': 2,
    'rule': 'forced schedules of the REAL package shard/cache (cache.NewManager(limit), NewTransaction, With, Commit, Release), a fresh Manager per '
            'schedule: every transaction runs its program (accesses With(name in {A,B}, readOnly, outcome in {ok, callback fails, construction fails}) '
            'then Commit(fail)) in its own goroutine, callbacks block on channels, the harness releases one transaction at a time (before an operation / '
            'inside the callback) and reads off the goroutine dump whether a transaction blocked on a lock (wait reason sync.Mutex.Lock / sync.RWMutex.Lock; '
            'no timing guess); after every release it records the status of every transaction (operation index, element handed to the callback, error '
            'flags of With, blocked) and the manager map (name -> element, by reflection); elements are numbered in createFn order. After all transactions '
            'finished a probe transaction (one writing + one read access per name, then Commit) is appended. '
            'quick tier: (1) 18 curated scenarios of 2-3 transactions (witnesses of the theorems: Release / checkAndPrune eviction / reader error path / '
            'scrapped element while a writer is in flight, cross writers A,B/B,A, announced writer behind readers, abort, construction failures, limits 0 and 1): '
            'ALL interleavings when there are at most 150, else 150 seeded random ones; (2) two transactions with programs of length 1: a seeded order of ALL '
            'program pairs (up to swapping the transactions and renaming A<->B) x limits -1,0,1, ALL interleavings each, until 2200 schedules; (3) 900 seeded '
            'random configurations of 2-3 transactions with programs of length <= 2, limits -1,0,1,2, Release(name) events at random moments, Commit(true) '
            'without failed access, random interleaving. thorough tier: all interleavings of every scenario with at most 2000 (else 2000 seeded ones), programs of length <= 2 for the pairs (budget '
            '30000 schedules), 10000 samples, three transactions with programs of length 1 exhaustively (budget 20000); stats.exhaustive says what was '
            'complete. A schedule in which two transactions wait for the same lock is cut at that point (which one the Go runtime wakes is its choice). '
            'distinct = distinct case terms (programs + schedule + observations), duplicates are not emitted',
    'assumptions': ['Go memory model and sync primitives: Mutex / RWMutex behave as specified (Lock announces the writer, TryRLock fails while a writer holds or '
                    'waits, RUnlock of the last reader wakes the writer); the model takes each manager-mutex section and each lock operation as one atomic step',
                    'lastAccessed (time.Now) is modelled by a logical clock: two accesses never carry the same time stamp',
                    'a transaction is one goroutine (a sequential program); several goroutines of ONE transaction inside With at the same time (t.mu) are outside '
                    'the quantifier of C11 and not modelled',
                    'storage is a version counter per cache name, bumped when a writing transaction commits successfully (the bbolt commit precedes '
                    'cacheTx.Commit(false) in shard.go); a reader that builds a cache from an OLD bbolt snapshot after a commit (slow reader) is the C08/C09 '
                    'variant of F6 and not visible at the level of the cache package',
                    'hypothesis of c11_progress: concurrently active writing transactions touch disjoint cache names (cache names are prefixed by the shard file, '
                    'bbolt admits one writer per file); without it c11_cross_writers_refuted',
                    'hypotheses of c11_exclusion / c11_coherent_without_eviction_of_locked: no With after Commit, and a clean schedule (no map entry of a '
                    'write-locked / awaited element is removed unless scrapped, no writer is handed a scrapped element); without them the statements are '
                    'refuted (known finding F6)'],
    'trusted_extra': ['no hook in /repo: the cache package is driven through its exported API; the manager map and the writtenCaches of a transaction are READ '
                      'through reflect/unsafe (observation and clean-up of blocked goroutines only)',
                      'block detection reads runtime.Stack wait reasons (Go 1.24 strings sync.Mutex.Lock, sync.RWMutex.Lock, sync.RWMutex.RLock, semacquire)'],
}

CODES = {
    101: 'exclusion: a callback ran on an element on which another, not yet committed transaction had a writing callback (or a writing callback overlapped '
         'another callback on the same element)',
    102: 'a callback STARTED on an element after a callback on it had failed / after the transaction that wrote it committed with failure (scrapped element reused)',
    103: 'after every transaction had committed or aborted the probe transaction blocked (a lock was not released)',
    104: 'a read-only access blocked',
    110: 'stale element: a callback started on an element created before a successful commit to its name by another transaction that had not written that '
         'element (known finding F6)',
    201: 'the observations (status of every transaction, element identities, With errors, blocked, manager map) differ from the model on the same schedule',
    202: 'the harness tagged the schedule as meeting the precondition of F6 but the model run is clean',
}

LEVEL = {
    'text': 'Machine-checked proof (Coq) over an executable small-step model of shard/cache/manager.go that splits With at its real atomic boundaries '
            '(manager section incl. createFn of a new entry; TryRLock / Lock announce / wait for readers; scrapped check; callback begin and end; error path; '
            'deferred checkAndPrune and RUnlock in LIFO order), Commit, Release, limits -1 / 0 / n, for both versions of With (pinned and current). By '
            'induction over ARBITRARY schedules, ANY number of transactions and ANY program lengths: a scrapped element is never selected again '
            '(unconditional); with the current With every lock is released once all transactions have committed or aborted, every error path and With '
            'after Commit included (refuted for the pinned version: c11_post_commit_with_refuted_v0); progress under the hypothesis that concurrently '
            'active writers use disjoint names (satisfied e.g. by any programs with one writing transaction; refuted without it: cross writers, outside '
            'the property\'s progress clause); readers never wait for an element lock; exclusion (no reader or foreign callback on a write-held element, no '
            'overlap with a writing callback, private copies unregistered) and coherence (a registered unlocked element reflects committed storage) along '
            'every CLEAN schedule. KNOWN FINDING (F6, not fixed): without cleanliness both are refuted by the faithful model and on the real code -- when '
            'the map entry of a write-locked cache is removed while its writer is in flight (Release, eviction by checkAndPrune, limit-0 clear, error path of '
            'a reader on a private copy, Commit(true) of an earlier failed writer) or a waiting writer is handed a scrapped element, a reader registers a '
            'cache built from the pre-commit storage that stays in the map after the commit (stale, code 110), and the writer\'s next access uses it '
            'without a lock while readers read it (code 101); ./check prints KNOWN-FINDING for these schedules, which are generated on every run. '
            'The real package is driven along forced schedules (all interleavings of the stated bounds, goroutine-dump block detection) and its observation '
            'trace must equal the model\'s on every schedule.',
    'design_ref': 'DESIGN.md 4.11',
    'note': 'Trusted: Coq kernel; Model_C11.v (tied to manager.go by equality of the observation traces on every explored schedule; mutation of the '
            'model -- TryRLock ignoring an announced writer -- is caught by 61 schedules of the quick tier); the harness. The scrapped check and the call of '
            'the callback are two steps: a reader overtaken by another failing READER of the same element starts its callback on a scrapped element '
            '(c11_scrapped_check_race_refuted; needs two concurrent readers, not observable at the harness granularity). Transactions with several goroutines '
            'inside With are not modelled.',
    'technique': 'Coq proof (lock-protocol invariants by induction over arbitrary schedules and any number of transactions) + exhaustive forced-schedule '
                 'enumeration of the real cache package compared with the model',
}
