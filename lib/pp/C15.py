"""C15 -- partitioning of inserted points over shards within limits; quotas."""

CFG = {
    'sub': 'c15',
    'gens': [],
    'coq_files': ['Model_C15.v', 'Proofs_C15.v', 'Proofs_C15b.v', 'Props_C15.v', 'Run_C15.v'],
    'props': 'Props_C15.v', 'run': 'Run_C15.v',
    'widen_runs': 3,
    'rule': 'direct: seeded random calls of cluster.VerifDistributePoints (= distributePoints): 0..6 existing shards whose size and '
            'count fill levels are drawn from {0, limit-1, limit, over the limit, room for exactly one point, room for one but not two, '
            'random}, batch sizes 0..50 (0, 1, 2-4, 50 over-weighted), point data lengths around the size limit (one / exactly two / '
            'one-but-not-two / three / many points fit an empty shard; always len(Data)+16 <= maxShardSize), maxShardPointCount in '
            '{1,2,3,5,10,1000}, maxShardSize in {64,200,1000,2^30}; the returned map is mapped back to (index in the final shard list, '
            'start, end). end-to-end: per-user sequences on live single-process ClusterNodes with MaxShardPointCount in {1,2,5}: '
            'CreateCollection attempts around MaxCollections (new ids, re-creations, beyond the quota), InsertPoints batches that end at '
            'quota-1, quota, quota+1, empty batches, a batch whose only point already exists (reported as failed range); totals and '
            'per-shard counts re-read through GetCollection + GetShardsInfo after every request. '
            'distinct = distinct non-empty distributePoints inputs+outputs plus distinct (total, n, quota, limit) / (count, max, existed) '
            'request situations, hash-set counted',
    'assumptions': ['quantifier of the property: every point fits an empty shard (len(Data)+16 <= MaxShardSize) and MaxShardPointCount >= 1; '
                    'without it the loop creates shards forever (theorem c15_no_fit_diverges, finding F11, outside the property)',
                    'requests on one collection are sequential (the quota check reads the totals before distributing; concurrent inserts are outside this check)',
                    'the size of a shard is what GetShardsInfo reports (bbolt file size); the model takes (Size, PointCount) as given',
                    'createShardFn succeeds (RPCCreateShard on the local node)'],
    'trusted_extra': ['hook /repo/cluster/export_verif.go (VerifDistributePoints, VerifGetShardsInfo: wrappers that add no behaviour)'],
}

CODES = {
    101: 'distributePoints: the returned ranges are not a contiguous, ordered partition of [0,n) over distinct shards of the final shard list',
    102: 'distributePoints: a shard was given a range that exceeds its point-count or size limit',
    103: 'distributePoints: a shard was created although not needed (it got no points, or the next point still fitted the shard before it)',
    111: 'InsertPoints: refused != (total + n > MaxCollectionPointCount)',
    112: 'InsertPoints: refused by quota but the collection total changed',
    113: 'InsertPoints: accepted but new total != old total + n - points of failed ranges',
    114: 'InsertPoints of one point whose id is already stored in the target shard: the range is not reported failed',
    115: 'InsertPoints of one point whose id is already stored in the target shard: the collection total moved',
    116: 'the total reported by the shards differs from the number of sent points that can be found',
    117: 'after an accepted InsertPoints on a live node a shard does not hold a contiguous range of the id-sorted batch, or a point of the batch is stored in no shard / in two',
    121: 'CreateCollection: answer differs from (exists -> AlreadyExists; else count >= MaxCollections -> QuotaReached; else created)',
    122: 'CreateCollection: number of collections after the request is wrong (refusal with side effect, or creation not visible)',
    131: 'a shard holds more points than MaxShardPointCount after an insert',
    202: 'after an accepted InsertPoints on a live node the positions of the id-sorted batch a shard holds differ from the ranges the model distribute assigns to it',
    201: 'distributePoints: observed assignment / number of created shards differs from the model distribute',
}

LEVEL = {
    'text': 'Machine-checked proof (Coq) over an executable model of distributePoints that follows the Go loop iteration by iteration: for ALL '
            'shard fill levels, batches and limits under which a point fits an empty shard the loop returns within |shards|+|points|+1 '
            'iterations, the ranges are a contiguous ordered partition of [0,n) over distinct shards, no range exceeds a count or size limit, '
            'every created shard is used and was created only when the next point did not fit the previous shard, and the per-shard counts add '
            'up to old total + n; the two quota checks (insert, collection creation) as a state machine with refusals proved side-effect '
            'free and quota invariants proved over arbitrary request sequences. The observations of the real code are judged by a boolean '
            'checker proved equivalent to the Prop-level spec, and compared for equality with the model; end-to-end runs on live nodes '
            'tie the quota arithmetic and the per-shard limit to InsertPoints / CreateCollection.',
    'design_ref': 'DESIGN.md 4.15',
    'note': 'Trusted: Coq kernel; Model_C15.v (tied to placement.go by equality of results on every explored input); the harness. '
            'InsertPoints is covered by the model only through its observable totals (GetShardsInfo), not line by line; RPC transport, '
            'bbolt and the shard-level insert are outside (C01/C14). Concurrent inserts into one collection are not covered.',
    'technique': 'Coq proof (termination, partition, limits, quota state machine) + verified checker on observed assignments + differential run',
}

CFG['rule'] = CFG['rule'] + ' ' + 'CDupInsert: an insert of one point whose id is already stored in the target shard (range must be reported failed, total must not move). CStored: at the end of every sequence the total reported by the shards against the number of sent ids found by individual look-ups.'

CFG['rule'] = CFG['rule'] + ' ' + "The node's shard-manager root differs from the node root."

CFG['rule'] = CFG['rule'] + ' ' + 'One create request in three carries a different plan (MaxCollections 0, 1, or the current number of collections -2 .. +1).'
CFG['rule'] = CFG['rule'] + ' ' + 'CLive: after every accepted live insert without failed ranges (batches in random, i.e. unsorted, id order) every shard of the collection is asked directly which points of the batch it holds; their positions in the id-sorted batch are judged by live_ranges_b (proved sound: c15_live_checker_sound) and compared with the ranges of the model run on the fill levels read before the request.'
CFG['rule'] = CFG['rule'] + ' ' + 'End-to-end sequences with two points per shard and a quota of six or more first send six points with every id named three times into the empty collection: two of the three ranges are refused by their shard and must both be reported failed.'
