"""C02 -- filter queries return exactly the live points that satisfy the predicate."""

CFG = {
    'sub': 'c02',
    'gens': [('gen_key_layout.py', 'KeyLayout.v')],
    'coq_files': ['Bytes.v', 'U64.v', 'KeyLayout.v', 'KV.v', 'Pack.v', 'Value.v', 'Obs.v', 'Model_C19.v', 'Proofs_C19.v',
                  'Model_C01.v', 'Model_C02.v', 'Model_C02M.v', 'Proofs_C02.v', 'Props_C02.v', 'Run_C02.v'],
    'props': 'Props_C02.v', 'run': 'Run_C02.v',
    # verdicts are reported as code + 1000 * (step index + 1): the orchestrator classifies by code % code_mod
    'code_mod': 1000,
    'widen_runs': 3,
    'rule': 'seeded write histories against a real shard (generator of C01: pool of 10-15 uuids, 6-13 batches of inserts / updates / '
            'deletes, "_delete" markers that remove indexed fields, updates that add, change or keep them, nil and ill-typed values, '
            're-insertion of deleted ids) on the fixed filter schema i:integer, f:float, s:string (case sensitive), t:string (case '
            'insensitive), tags:stringArray (case sensitivity drawn per history), nested.n:integer, nested.deep.s:string (case '
            'insensitive); store configurations bbolt + shared cache (twice), in-memory backend, bbolt reopened after every batch. '
            'After EVERY batch 18-27 filter queries: 2/3 leaves, 1/3 _and/_or nodes with 1-3 children down to depth 2; 1/12 of the '
            'leaves are _id lookups (equals / containsAny of 1-3 pool ids, live or not); otherwise a random filter index and, by type: '
            'integer/float -- operators equals, notEquals, greaterThan, greaterThanOrEquals, lessThan, lessThanOrEquals, inRange; the '
            'value is in 3/4 of the cases one that is stored NOW or WAS stored earlier at that path (stale postings), itself or its '
            'successor / predecessor (v+-1, math.Nextafter), else from the pools (0, +-1, small numbers, min/max int64 and neighbours, '
            '2^31, 2^32+1; +-0.0, +-5e-324, 2.2e-308, +-MaxFloat64, +-Inf, 0.1+0.2, k/4); inRange ends drawn the same way, ordered, '
            'made distinct; string -- all eight operators incl. startsWith; stored / formerly stored strings as they are, upper-cased, '
            'lower-cased, cut to a proper prefix, or extended by a byte 0..2, else pool strings (ASCII in both cases, strings that are '
            'prefixes of each other, e/E-acute, sharp s, dotted capital I, CJK, digits, "~") and concatenations; never the empty '
            'string; inRange value/endValue ordered by the raw bytes as the API demands (so the folded pair may be reversed); '
            'stringArray -- containsAll / containsAny of 1-3 tags, stored ones as they are or upper-cased, else pool tags. '
            'Every answer (row ids) is compared as a set with Model_C02.answer over the live documents read back after that batch. '
            'distinct = distinct (history index, sequence of batch kinds+sizes+outcomes); every history carries >= 6 x 18 queries',
    'assumptions': [
        'roaring64 bitmaps are modelled as finite sets of node ids (duplicate-free ascending lists); their serialisation is outside',
        'strings.ToLower is not modelled: the harness records strings.ToLower of every string that occurs at a case-insensitive path or '
        'in a query (s_lower), the reference answer folds through that table; the theorems hold for ANY folding function',
        'the indexed field value of a document is Value.prop_value (model of msgpack Decoder.Query on a dotted path; nil = absent); '
        'the step from documents and node ids to the per-index histories of the theorems (dispatcher: previous value read from the '
        'stored document, one fresh set cache per Dispatch and per Search) is covered by the replay, not by a theorem',
        'the theorems assume consistent histories: every change carries as previous value what is stored for that node (C01)',
        'indexed strings and string query values are non-empty (bbolt rejects the empty key: the whole batch fails, DESIGN 4.2)',
        'NaN is outside (float values and query values are non-NaN bit patterns; float identity is IEEE equality, -0.0 = +0.0)',
        'operators per index type are those the API accepts (models/search.go): no startsWith on numbers (the mechanism would answer '
        'it as equals, theorems c02_numeric_startswith_is_equals / c02_float_startswith_is_equals), _and/_or lists and stringArray query lists are non-empty, '
        'inRange has endValue > value',
        'answers are compared as id sets (order and hybrid scores of filter-only searches are C06)',
    ],
    'trusted_extra': ['translator gen/gen_key_layout.py (xor masks / zero normalisation of the sortable encoders, through Model_C19)',
                      'Model_C02.v (reference answer) is the formal reading of the property text; Model_C02M.v (mechanism: set cache keyed '
                      'by value, flush, Get / ForEach / cursor scans) is tied to inverted.go, string.go, array.go by reading and, through '
                      'the theorems c02_search_exact_*, to the same set comprehension the replay checks the real answers against',
                      'KV.v cursor models of diskstore/bbolt.go and memstore.go (validated by the scan cases of C19)'],
}

# reported verdict = code + 1000 * (step index + 1)
CODES = {
    151: 'a filter query returned an id set different from the points whose stored document satisfies it (reference answer)',
    152: 'a filter query that the reference spec can answer failed with an error',
    153: 'a filter query returned the same point more than once',
    290: 'the model cannot judge the query (fold entry missing, query kind outside the filter fragment) -- tooling',
}

LEVEL = {
    'text': 'Machine-checked proof (Coq) over an executable mechanism model of one inverted index as the code keeps it (bucket key -> id set; '
            'processChange through a set cache keyed by VALUE, flush of dirty sets with deletion of empty ones; Search through Get, ForEach, '
            'and the bbolt cursor loops of PrefixScan / RangeScan with the start / end / inclusive arguments the code passes; the per-Search '
            'cache keyed by the decoded key; array diffing through two sets; case folding of stored, query and end values): for ALL histories '
            'of batches in which the previous value handed to the index is the stored one, the bucket holds under key k exactly the nodes '
            'whose stored value encodes to k, no empty sets, unique sorted keys; and for EVERY operator, value and end value the search '
            'result is, as a set, { n | stored value of n satisfies the operator } -- int64 (all values incl. min/max), float64 (all non-NaN '
            'bit patterns, IEEE order, -0.0 = +0.0, subnormals, infinities), strings under any folding function incl. startsWith = is-prefix, '
            'string arrays (containsAll / containsAny) -- by the order-embedding theorems of C19 and the cursor-scan theorems of KV.v; '
            'points lacking the field are in no posting set and no answer; _and / _or are intersection / union (spec and mechanism); both '
            'store backends give the same answer; Go map iteration order at flush is immaterial. The two defects of the pinned tree '
            '(-0.0 float key, end value of case-insensitive ranges not folded) are kept as theorems that the OLD definitions violate the '
            'statements. The real shard is tied to the same set comprehension by replay: after every batch of seeded histories 18-27 '
            'queries (every operator, boundary and stale values, _and/_or trees, nested paths, _id lookups, both backends) are compared '
            'with the reference answer over the documents read back.',
    'design_ref': 'DESIGN.md 4.2',
    'note': 'Trusted: Coq kernel; Model_C02.v / Model_C02M.v / KV.v / Model_C19.v (tied to the Go sources by the replay and by C19); the '
            'harness. Not proved: the dispatcher layer between documents and per-index changes (covered by the replay and C01), roaring '
            'bitmaps, strings.ToLower, msgpack. All theorems of Props_C02.v are closed under the global context.',
    'technique': 'Coq proof (posting-list invariant by induction over histories; search = set comprehension via the order-embedding theorems '
                 'of C19 and the cursor-scan theorems) + replay of real query answers against the reference answer',
}

CFG['rule'] = CFG['rule'] + ' ' + 'Strings of the pool now include a 4-byte UTF-8 character (U+10000 and above, lead byte 0xF0..0xF4) directly after a prefix that is queried.'
CFG['rule'] = CFG['rule'] + ' ' + 'A quarter of the string-array updates keep the words and their order and move the element boundaries (two neighbours joined with a blank, or an element split at its blank). Id pools contain the all-zero / all-ones uuid.'
