"""C05 -- text search matches, ranks and limits by tf-idf over the current corpus."""

CFG = {
    'sub': 'c05',
    'gens': [],
    'coq_files': ['Bytes.v', 'U64.v', 'KeyLayout.v', 'Value.v', 'Obs.v', 'Pack.v', 'Dyadic.v', 'Model_C19.v', 'Model_C01.v', 'Model_C02.v',
                  'Model_C04.v', 'Model_C05.v', 'Model_C05M.v', 'Proofs_C05.v', 'Props_C05.v', 'Run_C05.v'],
    'props': 'Props_C05.v', 'run': 'Run_C05.v',
    'code_mod': 1000,
    'widen_runs': 2,
    'rule': 'histories on a real shard (80 quick / 2000 thorough, backend configurations cycling through bbolt + unlimited cache, reopen after every '
            'batch, in-memory, cache disabled): schema {text index on "txt" or on the nested path "meta.body" (alternating), integer "i", string array '
            '"tags"}; 6-13 batches per history over a pool of 10-15 point ids: step 0 inserts 3-7 points, then insert (45%) / update of 1-5 live or dead '
            'ids (30%) / delete of 1-4 ids or of all but one live point (25%); ids within a batch are distinct except one deliberately rejected '
            'duplicate-id insert; every indexed field is present with probability 70% (35% in updates), may be nil, of the wrong type, or carry the '
            '"_delete" marker, so text fields are inserted, rewritten, removed, blanked and re-filled; texts are 0-8 words from a 45-entry vocabulary '
            'with stop words (the, a, of, and, is, to, in, it), mixed case (Wizard/wizard, Gandalf/gandalf), unicode (ueber with umlaut, cafe with acute, naive '
            'with diaeresis, CJK), digits, apostrophe / hyphen words and punctuation-only tokens, plus the fixed blanks "the of and a" and "!!! ... -" '
            '(1 in 6) and the empty text (1 in 10). After EVERY batch 7 text queries: stop-words-only, punctuation-only, one word repeated in two cases '
            '(w w UPPER(w)), the full text of a stored document, or 1-3 vocabulary words; operator containsAll / containsAny at random; limit from '
            '1..75, 1..2 or 1..(points+2); weight absent or from {-2,-1,-0.5,0,0.5,1,3}; with probability 1/3 a pre-filter (integer / string-array / '
            'id leaf or and/or of them). Recorded per step: live documents, the rows (id, score bits, hybrid bits, distance) of every query, the '
            'analysed tokens of every stored text and of every query, log10(n/(df+1)) as float64 bits for the current corpus size n and every '
            'df in 0..n. Coq judges every query of every step with Model_C05.text_code against the candidates {matching documents of the corpus '
            'with their exact tf-idf score in Q}. distinct = distinct histories (canonical text), hash-set counted',
    'assumptions': ['the bleve "standard" analyser is external and not modelled: the harness calls the same analyser (text.VerifAnalyse) independently '
                    'of the index for every stored text and every query and hands the token lists to Coq',
                    'log10 is evaluated by the harness in float64 for each (corpus size, document frequency) pair and handed to Coq as a table; '
                    'this and float32 rounding of tf, idf and their sum (in Go map iteration order) are validated by the run with relative tolerance '
                    '1e-4 (hybrid = weight * score: 1e-6), not proved',
                    'ids within one update batch are distinct (the code analyses the documents of a batch concurrently, so with a repeated id the '
                    'order in which its versions reach processAnalysedDoc is not determined; c05_batch_order_irrelevant covers distinct ids)',
                    'a text query that analyses to zero terms matches nothing (DESIGN.md 4.5: non-vacuous reading of containsAll; proved for the model, '
                    'c05_zero_terms, and required of the code by the checker)',
                    'the text index sees uint64 node ids; the theorems use the point ids (an injective renaming of the live points, property C01); '
                    'numDocs++ is modelled without uint64 wrap (at most 2^64 - 1 documents), numDocs-- with the wrap, shown unreachable',
                    'the changes reaching the index are (id, analysed text of the stored field, no tokens when the field is absent, not a string, '
                    'removed or the point deleted): dispatch.go/preProcessText, tied to the live store by c05_spec_corpus and the run',
                    'limit >= 1 (request validation, C18); ties in score may be cut either way (unstable sort): the checker accepts every top-limit selection'],
    'trusted_extra': ['hook /repo/shard/index/text/export_verif.go (VerifAnalyse: wrapper around the index\'s own analyser constructor; adds no behaviour)',
                      'Model_C05M.v as a reading of text.go (processAnalysedDoc, flush, Search); the run judges the real answers with the reference '
                      'spec Model_C05.v / text_code, which the theorems tie to the mechanism model',
                      'harness-side float64 log10 table and float bit-pattern printing'],
}

CODES = {
    171: 'text search returned the same document twice',
    172: 'text search returned a document that does not match the query within the pre-filter (or is not in the corpus)',
    173: 'a row without score, or a NaN / infinite score',
    174: 'reported score differs from tf-idf = sum over distinct query terms of freq/len * log10(corpus size / (document frequency + 1)) (rel. 1e-4)',
    175: 'number of rows != min(limit, number of matching documents)',
    176: 'rows are not in non-increasing score order',
    177: 'a matching document with a higher score than the lowest returned one was left out',
    178: 'hybrid score != weight * score',
    179: 'text search returned an error (or, from text_code 9: a distance is present on a text row)',
    290: 'cannot judge: text query on a property without text index, token table incomplete or pre-filter not evaluable (tooling)',
    291: 'cannot judge: logarithm missing from the table for a (corpus size, document frequency) pair (tooling)',
}

LEVEL = {
    'text': 'Machine-checked proof (Coq) about a mechanism model of shard/index/text/text.go, for EVERY history of batches that insert, rewrite, '
            'blank out (no tokens), re-fill and delete text fields: by induction over histories the posting sets, their cardinalities (document '
            'frequencies), the per-document frequency tables and lengths and numDocs equal the ones derived from the current corpus (last change per id), '
            'no empty posting set is stored, the processing order inside a batch of distinct ids is irrelevant (c05_index_inv, c05_freq_table, '
            'c05_corpus_of_history, c05_batch_order_irrelevant); for every query term list (repeated terms, none), both operators and every pre-filter '
            'Search before the cut returns exactly the corpus documents accepted by the reference text_matches on the distinct terms, within the filter '
            '(c05_match_exact); a query with zero terms matches nothing for both operators (c05_zero_terms); the integers handed to the scoring formula '
            'are (term frequency, document length, corpus size, document frequency) and the formula on them is the reference score_ref (c05_components, '
            'c05_score_from_components); for EVERY score function and every sort returning a sorted permutation the cut at limit is a top-limit '
            'selection: min(limit, matches) rows, non-increasing, every left-out match scores <= every returned one, returned set = returned rows '
            '(c05_topk, c05_search_spec); the checker used by the run is sound: code 0 implies the relational specification (c05_checker_sound); the '
            'corpus the run derives from the live store represents the store\'s token function (c05_spec_corpus). The analyser, log10 and float32 '
            'rounding are OUTSIDE the theorems: real text searches after every batch of random histories are replayed and judged by the verified '
            'checker against exact rational tf-idf scores built from harness-side tokens and a float64 log10 table (tolerance 1e-4).',
    'design_ref': 'DESIGN.md 4.5',
    'note': 'Trusted: Coq kernel; Model_C05M.v as a reading of text.go; the bleve analyser (shared, called independently); float64 log10 and float32 '
            'rounding (validated with tolerance, not proved). All theorems of Props_C05.v are closed under the global context. Only the soundness '
            'direction of the checker is proved.',
    'technique': 'Coq proof (posting/frequency/corpus-size invariant by induction over histories; match set exact; top-k for every score function) '
                 '+ replay of real text searches judged by the checker',
}

CFG['rule'] = CFG['rule'] + ' ' + "Additions: half of the updates rewrite the point's OWN stored text into a variant (a word dropped, doubled, replaced or case-changed) and queries are drawn from recently written texts, so that stale postings and stale term frequencies are hit."
CFG['rule'] = CFG['rule'] + ' ' + 'One text in 25 writes one term 250..270 times (more than a byte counts) next to one other word.'
CFG['rule'] = CFG['rule'] + ' ' + 'One history in three indexes the text under a property name of 47 bytes (map keys of 32 bytes and more are encoded with another header).'
