"""Per-property configuration of the /verif checks: loads lib/pp/Cxx.py modules.

Each module defines
  CFG   : dict(sub=<harness sub-command>, gens=[(generator, output.v)], coq_files=[...], props='Props_Cxx.v',
               run='Run_Cxx.v', rule=..., assumptions=[...], trusted_extra=[...], widen_runs=int, widen_n=int)
  CODES : {verdict code: meaning}   codes < 200 = the observation violates the property (SPECFAIL),
                                    codes >= 200 = the implementation differs from the model (MISMATCH)
  LEVEL : dict(text=..., design_ref=..., note=..., technique=...)   (MANIFEST level_claimed)
"""
import importlib, os, sys

ALLOWED_AXIOMS = {
    # axioms the standard library declares; named in DESIGN.md section 5
    'ClassicalDedekindReals.sig_forall_dec', 'ClassicalDedekindReals.sig_not_dec',
    'FunctionalExtensionality.functional_extensionality_dep',
    'Classical_Prop.classic',
}

TRUSTED_BASE = [
    'Coq 8.16.1 kernel and vm_compute (no native_compute)',
    'hand-written Gallina models coq/Model_*.v tied to /repo by the correspondence run of this check',
    'Go harness /verif/harness (generation, canonicalisation, Gallina printing) and this orchestrator',
    'no axioms of our own; axioms per theorem as listed under axioms_per_theorem (Print Assumptions)',
]

PROPS, CODES, LEVEL = {}, {}, {}
_d = os.path.join(os.path.dirname(os.path.abspath(__file__)), 'pp')
sys.path.insert(0, _d)
for _f in sorted(os.listdir(_d)):
    if _f.endswith('.py') and _f[0] == 'C':
        _m = importlib.import_module(_f[:-3])
        PROPS[_f[:-3]] = _m.CFG
        CODES[_f[:-3]] = getattr(_m, 'CODES', {})
        LEVEL[_f[:-3]] = _m.LEVEL


def describe(pid, code):
    return CODES.get(pid, {}).get(code, 'code %d' % code)
