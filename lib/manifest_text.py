"""Texts of the MANIFEST entries (level claimed per property)."""

HOOK_COMMITS = ['bf96384', 'fee918b', '9fd4f9c', 'c46c2cb', '19cb2d4']

NOTES = ('All checks: ./check <id> [--tier quick|thorough]; VERIF_SEED / VERIF_TIER honoured. '
         'Fix commits in /repo (unguarded, "fix:"): see known_findings.json entries with status fixed.')

NOT_APPLICABLE = {}

