"""Texts of the MANIFEST entries (level claimed per property)."""

HOOK_COMMITS = ['bf96384']

NOTES = ('All checks: ./check <id> [--tier quick|thorough]; VERIF_SEED / VERIF_TIER honoured. '
         'Fix commits in /repo (unguarded, "fix:"): see known_findings.json entries with status fixed.')

NOT_APPLICABLE = {}

LEVEL = {
    'C19': {
        'text': 'Machine-checked proof (Coq) over executable models of every encoder/decoder: round trip and order embedding for all int64, '
                'all float64 bit patterns (IEEE identity), all byte strings, uint64, float32 vectors and edge lists of any length, node/point/'
                'document/term keys incl. family disjointness, and exactness of range/prefix scans for both store backends on any sorted bucket. '
                'The layout constants and xor masks are regenerated from the Go sources on every run (translator) and the theorems re-checked; '
                'the models are compared with the real functions on boundary pools + random values and on real bbolt/memstore scans.',
        'design_ref': 'DESIGN.md 4.19',
        'note': 'Trusted: Coq kernel; the models Model_C19.v/KV.v (tied by the correspondence run); gen_key_layout.py; bbolt cursor order = byte order '
                '(validated by scans, not proved); sign-magnitude order on bit patterns is taken as IEEE order on non-NaN doubles.',
        'technique': 'Coq proof (round-trip / order-embedding theorems over generated constants) + differential correspondence run',
    },
}
