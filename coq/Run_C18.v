(* Run_C18.v -- verdicts on HTTP exchanges observed by the harness (harness/c18.go).

   One case = one request sent through the real HTTP stack (router, middleware, both API
   versions, JSON or MessagePack) of an in-process cluster node, plus what was observed: the
   status code, whether a panic was recovered, whether the digest of all collections changed,
   whether the serving process died.  The request is described by what the layers of the stack
   look at: route, headers, collection id in the URI, content type, and the body AS DECODED by
   Go's decoders (abstracted to lengths / operators / limits / type tags), or BUndecodable.

   Codes.  SPECFAIL (the observation violates the property):
     101 status 5xx or recovered panic                    105 the serving process died
     102 a request that violates a documented limit / is undecodable / does not fit the addressed
         collection (vector length, types, point size) / exceeds a plan limit was answered 2xx                            103 digest changed although 4xx
     104 a request that passes validation (finite numbers) was answered 4xx
     106 a read request changed the digest
   sub-codes of 101 / 105 / 102 for the defects confirmed on the pinned tree.  Still open (known
   findings): 113 select path that runs into a scalar / non-numeric segment on an array -> 5xx;
     116 response carries a stored non-finite float -> 5xx; 117 MessagePack nesting ~1e6: stack
     overflow, process dies; 123 missing indexSchema accepted.
   Repaired in /repo (a recurrence is a violation): 111 v1 handler on a collection without a vamana
     index named "vector" (nil dereference); 112 search on a collection whose product quantizer
     cannot be built -> 5xx; 114 offset + limit overflows int, process dies; 115 GET collection whose
     stored alpha is NaN -> 5xx; 121 alpha = NaN accepted; 122 binary quantizer triggerThreshold
     outside the documented range accepted.
   MISMATCH (the implementation differs from the model):
     201 model rejects, answer 2xx (within documented limits)  202 model predicts a panic, none seen
     203 status class is none of 2xx / 4xx / 5xx               299 inconsistent case (harness) *)
From Coq Require Import List ZArith NArith Bool String.
From Semadb Require Import DocLimits Dyadic Model_C18.
Import ListNotations.
Open Scope Z_scope.

Inductive endpoint := EpPing | EpList | EpCreate | EpGet | EpDelCol | EpInsert | EpUpdate | EpDelPts | EpSearch | EpNoRoute.
Inductive rclass := CValid | CMutated | CRaw.
Inductive hdr := HOk | HMissing | HBadUser | HUnknownPlan.
Inductive uri := UriNone | Uri (len : Z) (found : bool).
Inductive ctype := CtJson | CtMsgpack | CtOther.

Inductive abody :=
| BNone | BUndecodable
| BCreate2 (r : create2) | BCreate1 (r : create1)
| BPoints2 (r : points2) | BPoints1 (r : points1)
| BIds (ids : list bool)
| BSearch2 (r : search2) | BSearch1 (r : search1).

(* state the outcome depends on: schema of the addressed collection, schemas of all collections of
   the user (v1 list), and the plan arithmetic of the cluster calls *)
Record ctx := mkCtx { cx_schema : ischema; cx_all : list ischema;
                      cx_exists : bool; cx_count : Z; cx_maxcols : Z; cx_total : Z; cx_quota : Z }.
(* f_finite: every number of the request is finite and small enough for distances to stay finite;
   f_sel_scalar: a select path runs into a scalar (or a non-numeric segment meets an array) in a
   stored point; f_sel_nonfinite: the answer would carry a stored NaN/Inf; f_depth: nesting depth *)
Record flags := mkFl { f_finite : bool; f_sel_scalar : bool; f_sel_nonfinite : bool; f_depth : Z }.
(* o_over: after the request some stored point is larger than the point size limit of its collection's plan *)
Record obs := mkObs { o_status : Z; o_panic : bool; o_changed : bool; o_died : bool; o_over : bool }.

Record c18case := mkCase { k_tag : string; k_ver : Z; k_ep : endpoint; k_class : rclass;
                           k_hdr : hdr; k_uri : uri; k_ct : ctype; k_body : abody;
                           k_ctx : ctx; k_flags : flags; k_obs : obs }.

(* long lists of identical items *)
Definition rep {A : Type} (n : N) (x : A) : list A := List.repeat x (N.to_nat n).

(* The verdicts judge by what the dispatcher will index, i.e. the nested walk, whatever the translator
   found about CheckCompatibleMap: the literal root keys are dropped, so that ccm_value = pval_of. *)
Definition spec_point (p : point) : point := mkPt (pt_id p) (pt_vals p) (pt_size p) [].
Definition spec_points (r : points2) : points2 := mkPts (map spec_point (ps_points r)) (ps_maxsize r).

Inductive expect := XReject | XRefused | XPanic | XCall (o : op) | XBad.

Definition of_hres (h : hres) : expect :=
  match h with Reject => XReject | Panic => XPanic | Call o => XCall o end.

Definition uri_ok (ver : Z) (u : uri) : option expect :=   (* None = passes the URI middleware *)
  match u with
  | UriNone => Some XBad
  | Uri len found =>
      let ok := if ver =? 1 then in_range enf_v1_uri_collection_id_min enf_v1_uri_collection_id_max len
                else in_range enf_v2_uri_collection_id_min enf_v2_uri_collection_id_max len in
      if negb ok then Some XReject else if negb found then Some XReject else None
  end.

Definition with_body (c : c18case) (k : abody -> expect) : expect :=
  match k_ct c with
  | CtOther => XReject
  | _ => match k_body c with BUndecodable => XReject | BNone => XBad | b => k b end
  end.

Definition create_refused (x : ctx) : bool := cx_exists x || (cx_maxcols x <=? cx_count x).
Definition insert_refused (x : ctx) (n : Z) : bool := cx_quota x <? cx_total x + n.

Definition expected (c : c18case) : expect :=
  let x := k_ctx c in
  let v1 := k_ver c =? 1 in
  match k_hdr c with
  | HOk =>
    match k_ep c with
    | EpNoRoute => XReject
    | EpPing => XCall OpList
    | EpList => if v1 then of_hres (handler_list1 (cx_all x)) else XCall OpList
    | EpCreate =>
        with_body c (fun b =>
          match b with
          | BCreate2 r => if v1 then XBad else
                          match handler_create2 r with Call o => if create_refused x then XRefused else XCall o | h => of_hres h end
          | BCreate1 r => if v1 then
                          match handler_create1 r with Call o => if create_refused x then XRefused else XCall o | h => of_hres h end
                          else XBad
          | _ => XBad end)
    | EpGet => match uri_ok (k_ver c) (k_uri c) with Some e => e | None =>
                 if v1 then of_hres (handler_get1 (cx_schema x)) else XCall OpGet end
    | EpDelCol => match uri_ok (k_ver c) (k_uri c) with Some e => e | None => XCall OpDeleteCollection end
    | EpInsert => match uri_ok (k_ver c) (k_uri c) with Some e => e | None =>
        with_body c (fun b =>
          match b with
          | BPoints2 r => if v1 then XBad else
              match handler_insert2 (cx_schema x) (spec_points r) with
              | Call (OpInsert n) => if insert_refused x n then XRefused else XCall (OpInsert n)
              | h => of_hres h end
          | BPoints1 r => if v1 then
              match handler_insert1 (cx_schema x) r with
              | Call (OpInsert n) => if insert_refused x n then XRefused else XCall (OpInsert n)
              | h => of_hres h end else XBad
          | _ => XBad end) end
    | EpUpdate => match uri_ok (k_ver c) (k_uri c) with Some e => e | None =>
        with_body c (fun b =>
          match b with
          | BPoints2 r => if v1 then XBad else of_hres (handler_update2 (cx_schema x) (spec_points r))
          | BPoints1 r => if v1 then of_hres (handler_update1 (cx_schema x) r) else XBad
          | _ => XBad end) end
    | EpDelPts => match uri_ok (k_ver c) (k_uri c) with Some e => e | None =>
        with_body c (fun b =>
          match b with
          | BIds ids => of_hres (if v1 then handler_delete1 ids else handler_delete2 ids)
          | _ => XBad end) end
    | EpSearch => match uri_ok (k_ver c) (k_uri c) with Some e => e | None =>
        with_body c (fun b =>
          match b with
          | BSearch2 r => if v1 then XBad else of_hres (handler_search2 (cx_schema x) r)
          | BSearch1 r => if v1 then of_hres (handler_search1 (cx_schema x) r) else XBad
          | _ => XBad end) end
    end
  | _ => XReject
  end.

(* ---- the documented limits the request violates (0 = none / not applicable) *)
Definition doc_violation (c : c18case) : N :=
  match k_body c with
  | BCreate2 r => doc_create2 r
  | BCreate1 r => doc_create1 r
  | BSearch2 r => if doc_search2 r then 0%N else 2%N
  | BSearch1 r => if doc_search1 r then 0%N else 2%N
  | BPoints2 r => match k_ep c with
                  | EpInsert => if doc_count doc_points_insert_max (ps_points r) then 0%N else 2%N
                  | _ => if doc_count doc_points_update_max (ps_points r) then 0%N else 2%N end
  | BPoints1 r => match k_ep c with
                  | EpInsert => if doc_count doc_v1_points_insert_max (ps1_points r) then 0%N else 2%N
                  | _ => if doc_count doc_v1_points_update_max (ps1_points r) then 0%N else 2%N end
  | BIds ids => if doc_count (if k_ver c =? 1 then doc_v1_delete_ids_max else doc_delete_ids_max) ids
                   && forallb (fun b => b) ids then 0%N else 2%N
  | BUndecodable => 2%N
  | BNone => 0%N
  end.

(* the request was turned away before the body was looked at (headers, route, URI, content type) *)
Definition outer_reject (c : c18case) : bool :=
  match k_hdr c with HOk => false | _ => true end
  || match k_ep c with EpNoRoute => true | _ => false end
  || match k_ep c, uri_ok (k_ver c) (k_uri c) with
     | (EpGet | EpDelCol | EpInsert | EpUpdate | EpDelPts | EpSearch), Some XReject => true
     | _, _ => false end
  || match k_ep c, k_ct c with
     | (EpCreate | EpInsert | EpUpdate | EpDelPts | EpSearch), CtOther => true
     | _, _ => false end.

(* the request passes the schema-independent validation but does not fit the addressed collection:
   vector length differs from the index dimension, wrong type for an indexed property, query on a
   property that is not indexed, bad point id, point larger than the plan allows *)
Definition collection_level_reject (c : c18case) : bool :=
  let s := cx_schema (k_ctx c) in
  match k_body c with
  | BSearch2 r => validate_request r && negb (validate_schema s (sr_query r))
  | BSearch1 r => validate_search1 r && match v1_dim s with Some d => negb (s1_len r =? d) | None => false end
  | BPoints2 r =>
      match k_ep c with
      | EpInsert => count_ok enf_points_insert_min enf_points_insert_max (ps_points r) && negb (validate_insert2 s (spec_points r))
      | _ => count_ok enf_points_update_min enf_points_update_max (ps_points r) && negb (validate_update2 s (spec_points r))
      end
  | BPoints1 r =>
      match v1_dim s with
      | Some d => (match k_ep c with EpInsert => validate_insert1 r | _ => validate_update1 r end) && negb (points1_fit d r)
      | None => false
      end
  | _ => false
  end.

(* the v1 API speaks to "the vamana index named vector": a v1 insert / update that is accepted although the
   property `vector` of the collection is not a vamana index, or although a vector's length differs from the
   dimension of the index the property really has (the parameter block that goes with its type) *)
Definition v1_wrong_index (c : c18case) : bool :=
  (k_ver c =? 1) &&
  match k_ep c, k_body c with
  | (EpInsert | EpUpdate), BPoints1 r =>
      match lookup "vector" (cx_schema (k_ctx c)) with
      | Some iv =>
          match dim_of iv with
          | Some d => negb (seq (iv_type iv) "vectorVamana") || negb (points1_fit d r)
          | None => true
          end
      | None => true
      end
  | _, _ => false
  end.

(* ---- shapes of the confirmed defects *)
Definition schema_pq_unbuildable (s : ischema) : bool :=
  existsb (fun kv => (seq (iv_type (snd kv)) "vectorFlat" && match iv_flat (snd kv) with Some p => pq_unbuildable p | None => false end)
                  || (seq (iv_type (snd kv)) "vectorVamana" && match iv_vamana (snd kv) with Some p => pq_unbuildable p | None => false end)) s.
Definition schema_nan_alpha (s : ischema) : bool :=
  existsb (fun kv => match iv_vamana (snd kv) with Some p => f32_is_nan (vp_alpha p) | None => false end) s.
Definition max_int64 : Z := 9223372036854775807.
Definition offset_overflows (c : c18case) : bool :=
  match k_body c with BSearch2 r => max_int64 <? sr_offset r + sr_limit r | _ => false end.
Definition deep_msgpack (c : c18case) : bool :=
  match k_ct c with CtMsgpack => 100000 <=? f_depth (k_flags c) | _ => false end.

Definition is2xx (s : Z) : bool := (200 <=? s) && (s <? 300).
Definition is4xx (s : Z) : bool := (400 <=? s) && (s <? 500).
Definition is5xx (s : Z) : bool := (500 <=? s) && (s <? 600).
Definition read_only (o : op) : bool :=
  match o with OpList | OpGet | OpSearch => true | _ => false end.

Definition verdict (c : c18case) : N :=
  let x := expected c in
  let o := k_obs c in
  let f := k_flags c in
  let v1 := k_ver c =? 1 in
  match x with XBad => 299%N | _ =>
  if o_died o then
    (if offset_overflows c then 114 else if deep_msgpack c then 117 else 105)%N
  else if o_over o then 118%N
  else if is5xx (o_status o) || o_panic o then
    match x with
    | XPanic => 111%N
    | _ =>
      if (match k_ep c with EpSearch => true | _ => false end) && negb v1 && schema_pq_unbuildable (cx_schema (k_ctx c)) then 112%N
      else if (match k_ep c with EpSearch => true | _ => false end) && f_sel_scalar f then 113%N
      else if (match k_ep c with EpGet => true | _ => false end) && negb v1 && schema_nan_alpha (cx_schema (k_ctx c)) then 115%N
      else if (match k_ep c with EpSearch => true | _ => false end) && f_sel_nonfinite f then 116%N
      else match x with
           | XCall _ => if f_finite f then 101%N else (if o_panic o then 101%N else 0%N)
           | _ => 101%N
           end
    end
  else
    match x with
    | XPanic => 202%N
    | XReject =>
        if is2xx (o_status o) then
          (if outer_reject c || negb (N.eqb (doc_violation c) 0) || collection_level_reject c then 102%N else 201%N)
        else if is4xx (o_status o) then (if o_changed o then 103%N else 0%N)
        else 203%N
    | XRefused =>
        if is2xx (o_status o) then 102%N
        else if is4xx (o_status o) then (if o_changed o then 103%N else 0%N)
        else 203%N
    | XCall op =>
        if is2xx (o_status o) then
          (if v1_wrong_index c then 119%N else
           if N.eqb (doc_violation c) 0 then (if read_only op && o_changed o then 106%N else 0%N)
           else if N.eqb (doc_violation c) 21 then 121%N
           else if N.eqb (doc_violation c) 22 then 122%N
           else if N.eqb (doc_violation c) 23 then 123%N
           else 102%N)
        else if is4xx (o_status o) then
          (if o_changed o then 103%N else if f_finite f then 104%N else 0%N)
        else 203%N
    | XBad => 299%N
    end
  end.

Fixpoint bad_from (i : N) (cs : list c18case) : list (N * N) :=
  match cs with
  | [] => []
  | c :: r => let v := verdict c in
              if N.eqb v 0 then bad_from (i + 1) r else (i, v) :: bad_from (i + 1) r
  end.
Definition bad (cs : list c18case) : list (N * N) := bad_from 0%N cs.
