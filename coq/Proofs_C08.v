(* Proofs_C08.v -- lemmas for property C08 (write-back item cache). *)
From Coq Require Import List NArith PeanoNat Bool Lia Permutation Eqdep_dec.
From Coq Require Import ZifyBool ZifyN ZifyNat.
From Semadb Require Import Bytes U64 KeyLayout Model_C19 Proofs_C19 Model_ItemCache.
Import ListNotations.
Open Scope N_scope.

Ltac csplit := repeat match goal with |- _ /\ _ => split end.

(* ======================================================================== *)
(* A. lookup functions and actions                                           *)

Lemma bytes_eqb_refl k : bytes_eqb k k = true.
Proof. now apply bytes_eqb_eq. Qed.

Lemma bytes_eqb_neq a b : a <> b -> bytes_eqb a b = false.
Proof. intros H. destruct (bytes_eqb a b) eqn:E; [|reflexivity]. apply bytes_eqb_eq in E. contradiction. Qed.

Lemma bytes_eqb_dec (a b : bytes) : {a = b} + {a <> b}.
Proof. destruct (bytes_eqb a b) eqn:E; [left; now apply bytes_eqb_eq|right; intros H; apply bytes_eqb_eq in H; congruence]. Qed.

Lemma kv_apply_local acts : forall g g' k, g k = g' k -> kv_apply acts g k = kv_apply acts g' k.
Proof.
  induction acts as [|[k0 a] r IH]; intros g g' k H; cbn [kv_apply]; [exact H|].
  apply IH. unfold kv_upd. now destruct (bytes_eqb k0 k).
Qed.

Lemma kv_apply_frame acts : forall g k, (forall a, ~ In (k, a) acts) -> kv_apply acts g k = g k.
Proof.
  induction acts as [|[k0 a] r IH]; intros g k H; cbn [kv_apply]; [reflexivity|].
  rewrite IH by (intros a' Hin; apply (H a'); now right).
  unfold kv_upd. destruct (bytes_eqb k0 k) eqn:E; [|reflexivity].
  apply bytes_eqb_eq in E. subst. exfalso. apply (H a). now left.
Qed.

Lemma kv_apply_app a1 a2 g : kv_apply (a1 ++ a2) g = kv_apply a2 (kv_apply a1 g).
Proof. revert g; induction a1 as [|[k a] r IH]; intros g; cbn [app kv_apply]; [reflexivity|apply IH]. Qed.

Lemma bk_apply_get B (L : BucketLaws B) acts : forall b k,
  bk_get B (bk_apply B acts b) k = kv_apply acts (bk_get B b) k.
Proof.
  induction acts as [|[k0 [v|]] r IH]; intros b k; cbn [bk_apply kv_apply]; [reflexivity| |].
  - rewrite IH. apply kv_apply_local. unfold kv_upd. apply (bl_get_put B L).
  - rewrite IH. apply kv_apply_local. unfold kv_upd. apply (bl_get_del B L).
Qed.

(* deleting a list of keys *)
Lemma kv_dels_in ks : forall g k, In k ks -> kv_apply (map (fun k => (k, None)) ks) g k = None.
Proof.
  induction ks as [|k0 r IH]; intros g k Hin; [destruct Hin|].
  cbn [map kv_apply]. destruct (in_dec bytes_eqb_dec k r) as [Hr|Hr].
  - now apply IH.
  - rewrite kv_apply_frame.
    + destruct Hin as [->|Hin]; [|contradiction]. unfold kv_upd. now rewrite bytes_eqb_refl.
    + intros a Hin'. apply in_map_iff in Hin'. destruct Hin' as (k' & E & Hk'). inversion E; subst. contradiction.
Qed.

Lemma kv_dels_out ks g k : ~ In k ks -> kv_apply (map (fun k => (k, None)) ks) g k = g k.
Proof.
  intros H. apply kv_apply_frame. intros a Hin. apply in_map_iff in Hin.
  destruct Hin as (k' & E & Hk'). inversion E; subst. contradiction.
Qed.

(* ======================================================================== *)
(* B. the two list backends satisfy the bucket laws                          *)

Lemma al_get_del k b k' : al_get (al_del k b) k' = if bytes_eqb k k' then None else al_get b k'.
Proof.
  induction b as [|[k0 v0] r IH]; cbn [al_del filter al_get fst]; [now destruct (bytes_eqb k k')|].
  fold (al_del k r).
  destruct (bytes_eqb k k0) eqn:E0; cbn [negb].
  - apply bytes_eqb_eq in E0. subst k0. rewrite IH.
    destruct (bytes_eqb k k') eqn:E; reflexivity.
  - cbn [al_get]. rewrite IH. destruct (bytes_eqb k0 k') eqn:E1; [|reflexivity].
    apply bytes_eqb_eq in E1. subst k'. now rewrite E0.
Qed.

Lemma al_get_app b1 b2 k : al_get (b1 ++ b2) k = match al_get b1 k with Some v => Some v | None => al_get b2 k end.
Proof. induction b1 as [|[k0 v0] r IH]; cbn [app al_get]; [reflexivity|]. now destruct (bytes_eqb k0 k). Qed.

Lemma al_get_in b k : al_get b k <> None <-> In k (map fst b).
Proof.
  induction b as [|[k0 v0] r IH]; cbn [al_get map fst In]; [tauto|].
  destruct (bytes_eqb k0 k) eqn:E.
  - apply bytes_eqb_eq in E. split; [now left|discriminate].
  - rewrite IH. split; [now right|]. intros [H|H]; [|exact H]. subst. now rewrite bytes_eqb_refl in E.
Qed.

Lemma mem_bytes_b_in k l : mem_bytes_b k l = true <-> In k l.
Proof.
  induction l as [|x r IH]; cbn [mem_bytes_b In]; [split; [discriminate|tauto]|].
  rewrite orb_true_iff, IH, bytes_eqb_eq. split; intros [H|H]; auto.
Qed.

Lemma dedup_in l k : In k (dedup l) <-> In k l.
Proof.
  induction l as [|x r IH]; cbn [dedup In]; [tauto|].
  destruct (mem_bytes_b x r) eqn:E.
  - rewrite IH. apply mem_bytes_b_in in E. split; [now right|]. intros [->|H]; auto.
  - cbn [In]. now rewrite IH.
Qed.

Lemma dedup_nodup l : NoDup (dedup l).
Proof.
  induction l as [|x r IH]; cbn [dedup]; [constructor|].
  destruct (mem_bytes_b x r) eqn:E; [exact IH|].
  constructor; [|exact IH]. rewrite dedup_in. intros H. apply mem_bytes_b_in in H. congruence.
Qed.

Lemma AL_laws : BucketLaws AL.
Proof.
  constructor; cbn [AL bk bk_get bk_put bk_del bk_keys].
  - intros b k v k'. unfold al_put_front. cbn [al_get].
    destruct (bytes_eqb k k') eqn:E; [reflexivity|]. now rewrite al_get_del, E.
  - intros b k k'. apply al_get_del.
  - intros b k. rewrite dedup_in. symmetry. apply al_get_in.
  - intros b. apply dedup_nodup.
Qed.

Lemma AL2_laws : BucketLaws AL2.
Proof.
  constructor; cbn [AL2 bk bk_get bk_put bk_del bk_keys].
  - intros b k v k'. unfold al_put_back. rewrite al_get_app, al_get_del. cbn [al_get].
    destruct (bytes_eqb k k') eqn:E; [reflexivity|]. now destruct (al_get b k').
  - intros b k k'. apply al_get_del.
  - intros b k. rewrite <- in_rev, dedup_in. symmetry. apply al_get_in.
  - intros b. apply NoDup_rev. apply dedup_nodup.
Qed.

(* ======================================================================== *)
(* C. association lists of cache entries                                     *)

Lemma NoDup_app_one {A} (l : list A) x : NoDup l -> ~ In x l -> NoDup (l ++ [x]).
Proof.
  induction l as [|y r IH]; cbn [app]; intros Hnd Hn; [constructor; [tauto|constructor]|].
  inversion Hnd as [|? ? Hy Hr]; subst. constructor.
  - rewrite in_app_iff. cbn [In]. intros [H|[H|[]]]; [tauto|]. subst. apply Hn. now left.
  - apply IH; [exact Hr|]. intros H. apply Hn. now right.
Qed.

Section Assoc.
Context {K V : Type} (eqb : K -> K -> bool).
Hypothesis eqb_spec : forall i j, eqb i j = true <-> i = j.

Lemma eqb_rfl i : eqb i i = true. Proof. now apply eqb_spec. Qed.
Lemma eqb_neq i j : i <> j -> eqb i j = false.
Proof. intros H. destruct (eqb i j) eqn:E; [apply eqb_spec in E; contradiction|reflexivity]. Qed.
Lemma eqb_decide (i j : K) : {i = j} + {i <> j}.
Proof. destruct (eqb i j) eqn:E; [left; now apply eqb_spec|right; intros H; apply eqb_spec in H; congruence]. Qed.

Lemma lk_set_same i (e : V) l : ic_lookup eqb i (ic_set eqb i e l) = Some e.
Proof.
  induction l as [|[j e'] r IH]; cbn [ic_set ic_lookup]; [now rewrite eqb_rfl|].
  destruct (eqb i j) eqn:E; cbn [ic_lookup]; rewrite E; [reflexivity|exact IH].
Qed.

Lemma lk_set_other i j (e : V) l : i <> j -> ic_lookup eqb j (ic_set eqb i e l) = ic_lookup eqb j l.
Proof.
  intros Hne. induction l as [|[j0 e'] r IH]; cbn [ic_set ic_lookup].
  - rewrite eqb_neq by congruence. reflexivity.
  - destruct (eqb i j0) eqn:E; cbn [ic_lookup]; [|now rewrite IH].
    apply eqb_spec in E. subst j0. rewrite (eqb_neq j i) by congruence. reflexivity.
Qed.

Lemma lk_none i (l : list (K * V)) : ic_lookup eqb i l = None <-> ~ In i (map fst l).
Proof.
  induction l as [|[j e] r IH]; cbn [ic_lookup map fst In]; [tauto|].
  destruct (eqb i j) eqn:E.
  - apply eqb_spec in E. subst. split; [discriminate|]. intros H. exfalso. apply H. now left.
  - rewrite IH. split; [|tauto]. intros H [H'|H']; [|tauto]. subst. now rewrite eqb_rfl in E.
Qed.

Lemma lk_in i (e : V) l : ic_lookup eqb i l = Some e -> In (i, e) l.
Proof.
  induction l as [|[j e'] r IH]; cbn [ic_lookup In]; [discriminate|].
  destruct (eqb i j) eqn:E.
  - apply eqb_spec in E. subst. intros H. inversion H. now left.
  - intros H. right. now apply IH.
Qed.

Lemma in_lk i (e : V) l : NoDup (map fst l) -> In (i, e) l -> ic_lookup eqb i l = Some e.
Proof.
  induction l as [|[j e'] r IH]; cbn [ic_lookup In map fst]; [tauto|].
  intros Hnd [H|H].
  - inversion H; subst. now rewrite eqb_rfl.
  - inversion Hnd as [|? ? Hn Hnd']; subst.
    destruct (eqb i j) eqn:E.
    + apply eqb_spec in E. subst. exfalso. apply Hn. apply in_map_iff. now exists (j, e).
    + now apply IH.
Qed.

Lemma set_fst_old i (e : V) l : ic_lookup eqb i l <> None -> map fst (ic_set eqb i e l) = map fst l.
Proof.
  induction l as [|[j e'] r IH]; cbn [ic_lookup ic_set map fst]; [congruence|].
  destruct (eqb i j) eqn:E; cbn [map fst]; [reflexivity|]. intros H. now rewrite IH.
Qed.

Lemma set_fst_new i (e : V) l : ic_lookup eqb i l = None -> map fst (ic_set eqb i e l) = map fst l ++ [i].
Proof.
  induction l as [|[j e'] r IH]; cbn [ic_lookup ic_set map fst app]; [reflexivity|].
  destruct (eqb i j) eqn:E; cbn [map fst]; [discriminate|]. intros H. now rewrite IH.
Qed.

Lemma set_nodup i (e : V) l : NoDup (map fst l) -> NoDup (map fst (ic_set eqb i e l)).
Proof.
  intros H. destruct (ic_lookup eqb i l) eqn:E.
  - rewrite set_fst_old by congruence. exact H.
  - rewrite set_fst_new by exact E. apply NoDup_app_one; [exact H|]. now apply lk_none.
Qed.
End Assoc.

Lemma nodup_app {A} (l1 l2 : list A) :
  NoDup l1 -> NoDup l2 -> (forall x, In x l1 -> ~ In x l2) -> NoDup (l1 ++ l2).
Proof.
  induction l1 as [|x r IH]; cbn [app]; intros H1 H2 Hd; [exact H2|].
  inversion H1 as [|? ? Hx Hr]; subst. constructor.
  - rewrite in_app_iff. intros [H|H]; [tauto|]. apply (Hd x); [now left|exact H].
  - apply IH; [exact Hr|exact H2|]. intros y Hy. apply Hd. now right.
Qed.

(* ======================================================================== *)
(* D. the generic cache                                                      *)

Section Generic.
Variable S : Storable.
Variable B : BucketImpl.
Variable P : StorableSpec S.
Hypothesis LB : BucketLaws B.
Hypothesis LS : StorableLaws S P.

Notation id := (st_id S).
Notation item := (st_item S).
Notation lookup := (lookup S).
Notation setit := (setit S).
Notation norm := (sp_norm P).
Notation inv := (inv S P).
Notation settled := (settled S P).
Notation absmap := (absmap S).
Notation nabs := (nabs S P).

Let eqs := sl_eqb S P LS.

Lemma id_dec (i j : id) : {i = j} + {i <> j}.
Proof. exact (eqb_decide (st_eqb S) eqs i j). Qed.

Lemma lookup_set_same i e l : lookup i (setit i e l) = Some e.
Proof. exact (lk_set_same (st_eqb S) eqs i e l). Qed.
Lemma lookup_set_other i j e l : i <> j -> lookup j (setit i e l) = lookup j l.
Proof. exact (lk_set_other (st_eqb S) eqs i j e l). Qed.
Lemma lookup_in i e l : lookup i l = Some e -> In (i, e) l.
Proof. exact (lk_in (st_eqb S) eqs i e l). Qed.
Lemma in_lookup i e l : NoDup (map fst l) -> In (i, e) l -> lookup i l = Some e.
Proof. exact (in_lk (st_eqb S) eqs i e l). Qed.
Lemma lookup_none i (l : list (id * entry S)) : lookup i l = None <-> ~ In i (map fst l).
Proof. exact (lk_none (st_eqb S) eqs i l). Qed.
Lemma setit_nodup i e l : NoDup (map fst l) -> NoDup (map fst (setit i e l)).
Proof. exact (set_nodup (st_eqb S) eqs i e l). Qed.

Lemma eqb_id_refl i : st_eqb S i i = true. Proof. now apply eqs. Qed.
Lemma eqb_id_neq i j : i <> j -> st_eqb S i j = false.
Proof. exact (eqb_neq (st_eqb S) eqs i j). Qed.

(* ---- what one cache entry has to satisfy ---- *)
Definition entry_ok (g : kv) (i : id) (e : entry S) : Prop :=
  match e with
  | (v, d, del) =>
      (del = false -> d = false -> st_self_dirty S v = false -> st_read S i g = Some (norm v)) /\
      (del = false -> d = true \/ st_self_dirty S v = true -> sp_valid P i v g) /\
      (sp_deletable P = false -> del = false)
  end.

Lemma inv_entry_ok c g i e : inv c g -> lookup i (c_items c) = Some e -> entry_ok g i e.
Proof.
  intros I E. destruct e as [[v d] del]. unfold entry_ok. csplit.
  - intros -> -> Hs. exact (inv_clean S P c g I i v E Hs).
  - intros -> Hd. exact (inv_valid S P c g I i v d E Hd).
  - intros Hn. destruct del; [|reflexivity]. exfalso. exact (inv_del S P c g I Hn i v d E).
Qed.

Definition entry_abs (e : entry S) : option item :=
  match e with (v, _, del) => if del then None else Some v end.

Lemma absmap_lookup c g i : absmap c g i = match lookup i (c_items c) with Some e => entry_abs e | None => st_read S i g end.
Proof. unfold Model_ItemCache.absmap. destruct (lookup i (c_items c)) as [[[v d] [|]]|]; reflexivity. Qed.

Lemma inv_set c g i e :
  inv c g -> entry_ok g i e -> inv (mkCache (setit i e (c_items c)) (c_all c)) g.
Proof.
  intros I He. destruct e as [[v d] del]. destruct He as (H1 & H2 & H3).
  constructor; cbn [c_items c_all].
  - apply setit_nodup. exact (inv_nodup S P c g I).
  - intros j v' E Hs. destruct (id_dec i j) as [<-|Hne].
    + rewrite lookup_set_same in E. inversion E; subst. now apply H1.
    + rewrite lookup_set_other in E by exact Hne. exact (inv_clean S P c g I j v' E Hs).
  - intros j v' d' E Hd. destruct (id_dec i j) as [<-|Hne].
    + rewrite lookup_set_same in E. inversion E; subst. now apply H2.
    + rewrite lookup_set_other in E by exact Hne. exact (inv_valid S P c g I j v' d' E Hd).
  - intros Ha k j Hk Hj. destruct (id_dec i j) as [<-|Hne].
    + rewrite lookup_set_same. discriminate.
    + rewrite lookup_set_other by exact Hne. exact (inv_all S P c g I Ha k j Hk Hj).
  - intros Hn j v' d' E. destruct (id_dec i j) as [<-|Hne].
    + rewrite lookup_set_same in E. inversion E; subst. specialize (H3 Hn). discriminate.
    + rewrite lookup_set_other in E by exact Hne. exact (inv_del S P c g I Hn j v' d' E).
Qed.

Lemma absmap_set c g i e j :
  absmap (mkCache (setit i e (c_items c)) (c_all c)) g j = if st_eqb S i j then entry_abs e else absmap c g j.
Proof.
  rewrite !absmap_lookup. cbn [c_items]. destruct (id_dec i j) as [<-|Hne].
  - now rewrite lookup_set_same, eqb_id_refl.
  - now rewrite lookup_set_other, eqb_id_neq.
Qed.

Lemma settled_set c g i v :
  settled c g -> st_read S i g = Some (norm v) -> settled (mkCache (setit i (v, false, false) (c_items c)) (c_all c)) g.
Proof.
  intros Hs Hr j v' d del E. cbn [c_items] in E. destruct (id_dec i j) as [<-|Hne].
  - rewrite lookup_set_same in E. inversion E; subst. auto.
  - rewrite lookup_set_other in E by exact Hne. exact (Hs j v' d del E).
Qed.

Lemma read_clean_entry i g w : st_read S i g = Some w -> entry_ok g i (w, false, false).
Proof.
  intros R. pose proof (sl_read_normal S P LS i g w R) as Hn. unfold entry_ok. csplit.
  - intros _ _ _. now rewrite Hn.
  - intros _ [H|H]; [discriminate|]. rewrite <- Hn, (sl_norm_clean S P LS) in H. discriminate.
  - reflexivity.
Qed.

(* caching what the bucket holds *)
Lemma add_clean c g i w :
  inv c g -> lookup i (c_items c) = None -> st_read S i g = Some w ->
  let c' := mkCache (setit i (w, false, false) (c_items c)) (c_all c) in
  inv c' g /\ (forall j, absmap c' g j = absmap c g j) /\ (settled c g -> settled c' g).
Proof.
  intros I E R c'. split; [|split].
  - apply inv_set; [exact I|]. now apply read_clean_entry.
  - intros j. unfold c'. rewrite absmap_set. destruct (st_eqb S i j) eqn:Eq; [|reflexivity].
    apply eqs in Eq. subst j. rewrite absmap_lookup, E. cbn [entry_abs]. now rewrite R.
  - intros Hs. apply settled_set; [exact Hs|]. now rewrite (sl_read_normal S P LS i g w R).
Qed.

(* ---- Get ---- *)
Lemma get_spec c b i r c' :
  let g := bk_get B b in
  inv c g -> c_get S B i c b = (r, c') ->
  r = absmap c g i /\ inv c' g /\ (forall j, absmap c' g j = absmap c g j) /\
  (settled c g -> settled c' g) /\ c_all c' = c_all c.
Proof.
  intros g I. unfold c_get. rewrite absmap_lookup.
  destruct (lookup i (c_items c)) as [[[v d] [|]]|] eqn:E.
  - intros H; inversion H; subst. cbn [entry_abs]. auto.
  - intros H; inversion H; subst. cbn [entry_abs]. auto.
  - fold g. destruct (st_read S i g) as [w|] eqn:R; intros H; inversion H; subst; [|auto].
    destruct (add_clean c g i w I E R) as (H1 & H2 & H3). cbn [c_all]. auto.
Qed.

(* ---- GetMany ---- *)
Lemma get_many_spec ids : forall c b l c',
  let g := bk_get B b in
  inv c g -> c_get_many S B ids c b = (l, c') ->
  l = found S (absmap c g) ids /\ inv c' g /\ (forall j, absmap c' g j = absmap c g j) /\
  (settled c g -> settled c' g) /\ c_all c' = c_all c.
Proof.
  induction ids as [|i r IH]; intros c b l c' g I; cbn [c_get_many found flat_map].
  - intros H; inversion H; subst. auto.
  - destruct (c_get S B i c b) as [x c1] eqn:G.
    destruct (c_get_many S B r c1 b) as [xs c2] eqn:GM. intros H; inversion H; subst.
    destruct (get_spec c b i x c1 I G) as (Hx & I1 & A1 & S1 & L1).
    destruct (IH c1 b xs c' I1 GM) as (Hxs & I2 & A2 & S2 & L2). fold g in Hx, A1, Hxs, A2.
    split; [|split; [exact I2|split; [|split]]].
    + rewrite Hx, Hxs. fold (found S (absmap c g) r).
      replace (found S (absmap c1 g) r) with (found S (absmap c g) r).
      * now destruct (absmap c g i).
      * unfold found. apply flat_map_ext. intros j. now rewrite A1.
    + intros j. now rewrite A2, A1.
    + auto.
    + congruence.
Qed.

(* ---- Put ---- *)
Lemma put_spec c g i v :
  inv c g -> sp_valid P i v g ->
  inv (c_put S i v c) g /\ (forall j, absmap (c_put S i v c) g j = if st_eqb S i j then Some v else absmap c g j).
Proof.
  intros I Hv. unfold c_put. split.
  - apply inv_set; [exact I|]. unfold entry_ok. csplit; auto. intros _ ?. discriminate.
  - intros j. now rewrite absmap_set.
Qed.

(* ---- Delete ---- *)
Lemma delete_spec c b i :
  let g := bk_get B b in
  inv c g -> sp_deletable P = true ->
  inv (c_delete S B i c b) g /\ (forall j, absmap (c_delete S B i c b) g j = if st_eqb S i j then None else absmap c g j).
Proof.
  intros g I Hd. unfold c_delete.
  assert (Hok : forall v d, entry_ok g i (v, d, true)).
  { intros v d. unfold entry_ok. csplit; try discriminate. intros H. congruence. }
  destruct (lookup i (c_items c)) as [[[v d] del]|] eqn:E.
  - split; [apply inv_set; auto|]. intros j. now rewrite absmap_set.
  - fold g. destruct (st_read S i g) as [w|] eqn:R.
    + split; [apply inv_set; auto|]. intros j. now rewrite absmap_set.
    + split; [exact I|]. intros j. destruct (st_eqb S i j) eqn:Eq; [|reflexivity].
      apply eqs in Eq. subst j. now rewrite absmap_lookup, E.
Qed.

(* ---- in-place mutation ---- *)
Lemma modify_spec c b i f :
  let g := bk_get B b in
  inv c g ->
  (forall v, absmap c g i = Some v -> f v = v \/ (st_self_dirty S (f v) = true /\ sp_valid P i (f v) g)) ->
  inv (c_modify S B i f c b) g /\
  (forall j, absmap (c_modify S B i f c b) g j = if st_eqb S i j then option_map f (absmap c g i) else absmap c g j).
Proof.
  intros g I Hf. unfold c_modify.
  destruct (c_get S B i c b) as [r c1] eqn:G. cbn [snd].
  destruct (get_spec c b i r c1 I G) as (Hr & I1 & A1 & _ & _). fold g in Hr, A1.
  pose proof (A1 i) as Ai. rewrite (absmap_lookup c1) in Ai.
  destruct (lookup i (c_items c1)) as [[[v d] [|]]|] eqn:E; cbn [entry_abs] in Ai.
  - split; [exact I1|]. intros j. rewrite A1. destruct (st_eqb S i j) eqn:Eq; [|reflexivity].
    apply eqs in Eq. subst j. now rewrite <- Ai.
  - split.
    + apply inv_set; [exact I1|]. pose proof (inv_entry_ok c1 g i _ I1 E) as (H1 & H2 & H3).
      destruct (Hf v (eq_sym Ai)) as [Hfv|[Hsd Hval]].
      * rewrite Hfv. unfold entry_ok. csplit; auto.
      * unfold entry_ok. csplit; auto. intros _ -> Hs. congruence.
    + intros j. rewrite absmap_set. cbn [entry_abs]. rewrite <- Ai. cbn [option_map].
      destruct (st_eqb S i j); [reflexivity|apply A1].
  - (* not cached after Get: the bucket does not have it *)
    split; [exact I1|]. intros j. rewrite A1. destruct (st_eqb S i j) eqn:Eq; [|reflexivity].
    apply eqs in Eq. subst j. clear Ai.
    assert (Hn : absmap c g i = None); [|now rewrite Hn].
    unfold c_get in G. rewrite absmap_lookup.
    destruct (lookup i (c_items c)) as [[[v0 d0] [|]]|] eqn:E0.
    + inversion G; subst. congruence.
    + inversion G; subst. congruence.
    + fold g in G. destruct (st_read S i g) as [w|] eqn:R; [|reflexivity].
      inversion G; subst. cbn [c_items] in E. rewrite lookup_set_same in E. discriminate.
Qed.

(* ---- ForEach ---- *)
Lemma load_spec ks : forall l a ok l' g,
  inv (mkCache l a) g -> load_keys S ks g l = (ok, l') ->
  inv (mkCache l' a) g /\ (forall j, absmap (mkCache l' a) g j = absmap (mkCache l a) g j) /\
  (forall j e, lookup j l = Some e -> lookup j l' = Some e) /\
  (settled (mkCache l a) g -> settled (mkCache l' a) g) /\
  (ok = true -> forall k i, In k ks -> st_id_from_key S k = Some i -> lookup i l' <> None) /\
  ((forall k i, In k ks -> st_id_from_key S k = Some i -> st_read S i g <> None) -> ok = true).
Proof.
  induction ks as [|k r IH]; intros l a ok l' g I; cbn [load_keys].
  - intros H; inversion H; subst. csplit; auto; try (intros _ ? ? []; fail).
  - destruct (st_id_from_key S k) as [i|] eqn:Ek.
    2:{ intros H. destruct (IH l a ok l' g I H) as (H1 & H2 & H3 & H4 & H5 & H6).
        csplit; auto.
        - intros Hok k' i' [<-|Hin] Hi'; [congruence|]. eapply H5; eauto.
        - intros Hall. apply H6. intros k' i' Hin. apply Hall. now right. }
    destruct (lookup i l) as [e|] eqn:El.
    + intros H. destruct (IH l a ok l' g I H) as (H1 & H2 & H3 & H4 & H5 & H6).
      csplit; auto.
      * intros Hok k' i' [<-|Hin] Hi'; [|eapply H5; eauto].
        assert (i' = i) by congruence. subst i'. rewrite (H3 i e El). discriminate.
      * intros Hall. apply H6. intros k' i' Hin. apply Hall. now right.
    + destruct (st_read S i g) as [w|] eqn:R.
      * intros H.
        destruct (add_clean (mkCache l a) g i w I El R) as (I1 & A1 & S1). cbn [c_items c_all] in I1, A1, S1.
        destruct (IH _ a ok l' g I1 H) as (H1 & H2 & H3 & H4 & H5 & H6).
        csplit; auto.
        -- intros j. now rewrite H2, A1.
        -- intros j e Ej. apply H3. destruct (id_dec i j) as [<-|Hne]; [congruence|].
           now rewrite lookup_set_other.
        -- intros Hok k' i' [<-|Hin] Hi'; [|eapply H5; eauto].
           assert (i' = i) by congruence. subst i'. rewrite (H3 i (w, false, false)); [discriminate|].
           apply lookup_set_same.
        -- intros Hall. apply H6. intros k' i' Hin. apply Hall. now right.
      * intros H; inversion H; subst. csplit; auto; try discriminate.
        intros Hall. exfalso. apply (Hall k i); [now left|exact Ek|exact R].
Qed.

Lemma live_items_fst l : forall i, In i (map fst (live_items S l)) -> In i (map fst l).
Proof.
  induction l as [|[j [[v d] [|]]] r IH]; intros i; cbn [live_items flat_map map fst app In]; auto.
  intros [H|H]; auto.
Qed.

Lemma live_items_nodup l : NoDup (map fst l) -> NoDup (map fst (live_items S l)).
Proof.
  induction l as [|[j [[v d] [|]]] r IH]; cbn [live_items flat_map map fst app]; intros H.
  - constructor.
  - inversion H; subst. now apply IH.
  - inversion H as [|? ? Hn Hr]; subst. constructor; [|now apply IH].
    intros Hin. apply Hn. now apply live_items_fst.
Qed.

Lemma live_items_in l i v : NoDup (map fst l) ->
  (In (i, v) (live_items S l) <-> exists d, lookup i l = Some (v, d, false)).
Proof.
  intros Hnd. split.
  - intros Hin. assert (exists d, In (i, (v, d, false)) l) as [d Hd].
    { clear Hnd. induction l as [|[j [[v' d'] [|]]] r IH]; cbn [live_items flat_map app In] in Hin.
      - destruct Hin.
      - destruct (IH Hin) as [d Hd]. exists d. now right.
      - destruct Hin as [H|H].
        + inversion H; subst. exists d'. now left.
        + destruct (IH H) as [d Hd]. exists d. now right. }
    exists d. now apply in_lookup.
  - intros [d E]. apply lookup_in in E. clear Hnd.
    induction l as [|[j [[v' d'] del]] r IH]; [destruct E|].
    cbn [live_items flat_map]. apply in_or_app. destruct E as [E|E].
    + inversion E; subst. left. now left.
    + right. now apply IH.
Qed.

Lemma norm_listing_in l i w : In (i, w) (norm_listing S P l) <-> exists v, In (i, v) l /\ w = norm v.
Proof.
  unfold norm_listing. rewrite in_map_iff. split.
  - intros ([j v] & E & Hin). cbn [fst snd] in E. inversion E; subst. eauto.
  - intros (v & Hin & ->). exists (i, v). auto.
Qed.

Lemma norm_listing_fst l : map fst (norm_listing S P l) = map fst l.
Proof. unfold norm_listing. rewrite map_map. reflexivity. Qed.

Lemma listing_all c g :
  inv c g -> c_all c = true -> Enumerable S ->
  is_listing S (nabs c g) (norm_listing S P (live_items S (c_items c))).
Proof.
  intros I Ha En. pose proof (inv_nodup S P c g I) as Hnd. split.
  - rewrite norm_listing_fst. now apply live_items_nodup.
  - intros i w. rewrite norm_listing_in. unfold Model_ItemCache.nabs. rewrite absmap_lookup. split.
    + intros (v & Hin & ->). apply live_items_in in Hin; [|exact Hnd]. destruct Hin as [d E].
      now rewrite E.
    + destruct (lookup i (c_items c)) as [[[v d] [|]]|] eqn:E; cbn [entry_abs option_map]; try discriminate.
      * intros H; inversion H; subst. exists v. split; [|reflexivity]. apply live_items_in; eauto.
      * destruct (st_read S i g) as [v|] eqn:R; [|discriminate]. exfalso.
        destruct (en_complete S En i g v R) as (k & Hk & Hi).
        exact (inv_all S P c g I Ha k i Hk Hi E).
Qed.

Lemma inv_all_flag l a g : inv (mkCache l a) g ->
  (forall k i, g k <> None -> st_id_from_key S k = Some i -> lookup i l <> None) -> inv (mkCache l true) g.
Proof.
  intros I H. constructor; cbn [c_items c_all].
  - exact (inv_nodup S P _ g I).
  - exact (inv_clean S P _ g I).
  - exact (inv_valid S P _ g I).
  - intros _. exact H.
  - exact (inv_del S P _ g I).
Qed.

Lemma foreach_spec c b ok l c' :
  let g := bk_get B b in
  inv c g -> c_foreach S B c b = (ok, l, c') ->
  inv c' g /\ (forall j, absmap c' g j = absmap c g j) /\ (settled c g -> settled c' g) /\
  (Enumerable S -> ok = true /\ is_listing S (nabs c g) (norm_listing S P l)).
Proof.
  intros g I. unfold c_foreach. destruct (c_all c) eqn:Ha.
  - intros H; inversion H; subst. csplit; auto.
    intros En. split; [reflexivity|]. apply (listing_all c' g I Ha En).
  - destruct (load_keys S (bk_keys B b) (bk_get B b) (c_items c)) as [ok' l'] eqn:Ld. fold g in Ld.
    assert (I0 : inv (mkCache (c_items c) false) g) by (destruct c; cbn in *; now subst).
    destruct (load_spec _ _ _ _ _ _ I0 Ld) as (I1 & A1 & M1 & S1 & C1 & K1).
    assert (A0 : forall j, absmap (mkCache (c_items c) false) g j = absmap c g j) by (intros j; now rewrite !absmap_lookup).
    assert (S0 : settled c g -> settled (mkCache (c_items c) false) g) by (intros Hs j; apply Hs).
    assert (Hk : Enumerable S -> ok' = true).
    { intros En. apply K1. intros k i Hin Hi. apply (en_sound S En i g k); [|exact Hi]. now apply (bl_keys B LB). }
    destruct ok'; intros H; inversion H; subst.
    + assert (I2 : inv (mkCache l' true) g).
      { apply (inv_all_flag l' false g I1). intros k i Hg Hi. apply (C1 eq_refl k i); [|exact Hi]. now apply (bl_keys B LB). }
      assert (A2 : forall j, absmap (mkCache l' true) g j = absmap c g j).
      { intros j. rewrite <- A0, <- A1. now rewrite !absmap_lookup. }
      csplit; auto.
      intros En. split; [reflexivity|].
        pose proof (listing_all (mkCache l' true) g I2 eq_refl En) as [L1 L2]. cbn [c_items] in L1, L2.
        split; [exact L1|]. intros i w. rewrite L2. unfold Model_ItemCache.nabs. now rewrite A2.
    + csplit; auto; try (intros j; now rewrite A1, A0).
      intros En. specialize (Hk En). discriminate.
Qed.

(* ---- Count ---- *)
Definition count_extra (l : list (id * entry S)) (g : kv) (k : bytes) : list (id * item) :=
  match st_id_from_key S k with
  | Some i => match lookup i l with
              | None => match st_read S i g with Some w => [(i, w)] | None => [] end
              | Some _ => []
              end
  | None => []
  end.

Lemma count_extra_in l g ks i w :
  In (i, w) (flat_map (count_extra l g) ks) <->
  exists k, In k ks /\ st_id_from_key S k = Some i /\ lookup i l = None /\ st_read S i g = Some w.
Proof.
  rewrite in_flat_map. split.
  - intros (k & Hk & Hin). exists k. split; [exact Hk|]. unfold count_extra in Hin.
    destruct (st_id_from_key S k) as [i'|]; [|destruct Hin].
    destruct (lookup i' l) eqn:El; [destruct Hin|].
    destruct (st_read S i' g) eqn:R; [|destruct Hin].
    destruct Hin as [H|[]]. inversion H; subst. auto.
  - intros (k & Hk & Hi & El & R). exists k. split; [exact Hk|].
    unfold count_extra. rewrite Hi, El, R. now left.
Qed.

Lemma count_extra_len l g ks : (forall k, In k ks -> g k <> None) -> Enumerable S ->
  length (flat_map (count_extra l g) ks) = length (filter (count_key S l) ks).
Proof.
  intros Hg En. induction ks as [|k r IH]; [reflexivity|].
  cbn [flat_map filter]. rewrite app_length, IH by (intros k' Hk'; apply Hg; now right).
  unfold count_extra, count_key. fold lookup.
  destruct (st_id_from_key S k) as [i|] eqn:Ei; [|reflexivity].
  destruct (lookup i l); [reflexivity|].
  destruct (st_read S i g) eqn:R; [reflexivity|].
  exfalso. apply (en_sound S En i g k); auto. apply Hg. now left.
Qed.

Lemma count_extra_nodup l g ks : NoDup ks -> (forall k, In k ks -> g k <> None) -> enum_unique S g ->
  NoDup (map fst (flat_map (count_extra l g) ks)).
Proof.
  intros Hnd Hg Hu. induction ks as [|k r IH]; [constructor|].
  inversion Hnd as [|? ? Hk Hr]; subst. cbn [flat_map]. rewrite map_app.
  assert (IHr : NoDup (map fst (flat_map (count_extra l g) r))) by (apply IH; [exact Hr|intros k' Hk'; apply Hg; now right]).
  unfold count_extra at 1.
  destruct (st_id_from_key S k) as [i|] eqn:Ei; [|exact IHr].
  destruct (lookup i l) eqn:El; [exact IHr|].
  destruct (st_read S i g) as [w|] eqn:R; [|exact IHr].
  cbn [map fst app]. constructor; [|exact IHr].
  intros Hin. apply in_map_iff in Hin. destruct Hin as ([i' w'] & E & Hin). cbn [fst] in E. subst i'.
  apply count_extra_in in Hin. destruct Hin as (k' & Hk' & Hi' & _ & _).
  assert (k = k').
  { apply (Hu k k' i); auto; apply Hg; [now left|now right]. }
  subst k'. contradiction.
Qed.

Lemma count_spec c b :
  let g := bk_get B b in
  inv c g -> Enumerable S -> enum_unique S g ->
  exists l, is_listing S (nabs c g) l /\ c_count S B c b = length l.
Proof.
  intros g I En Hu. pose proof (inv_nodup S P c g I) as Hnd.
  assert (Hg : forall k, In k (bk_keys B b) -> g k <> None) by (intros k Hk; now apply (bl_keys B LB)).
  exists (norm_listing S P (live_items S (c_items c)) ++ flat_map (count_extra (c_items c) g) (bk_keys B b)).
  split; [split|].
  - rewrite map_app. apply nodup_app.
    + rewrite norm_listing_fst. now apply live_items_nodup.
    + apply count_extra_nodup; auto. apply (bl_keys_nodup B LB).
    + intros i H1 H2. rewrite norm_listing_fst in H1. apply live_items_fst in H1.
      apply in_map_iff in H2. destruct H2 as ([i' w] & E & Hin). cbn [fst] in E. subst i'.
      apply count_extra_in in Hin. destruct Hin as (k & _ & _ & El & _).
      apply lookup_none in El. contradiction.
  - intros i w. rewrite in_app_iff, norm_listing_in, count_extra_in.
    unfold Model_ItemCache.nabs. rewrite absmap_lookup. split.
    + intros [(v & Hin & ->)|(k & Hk & Hi & El & R)].
      * apply live_items_in in Hin; [|exact Hnd]. destruct Hin as [d E]. now rewrite E.
      * rewrite El, R. cbn [option_map]. now rewrite (sl_read_normal S P LS i g w R).
    + destruct (lookup i (c_items c)) as [[[v d] [|]]|] eqn:E; cbn [entry_abs option_map]; try discriminate.
      * intros H; inversion H; subst. left. exists v. split; [|reflexivity]. apply live_items_in; eauto.
      * destruct (st_read S i g) as [v|] eqn:R; [|discriminate]. cbn [option_map].
        intros H; inversion H; subst. right.
        destruct (en_complete S En i g v R) as (k & Hk & Hi). exists k.
        rewrite (sl_read_normal S P LS i g v R). csplit; auto. now apply (bl_keys B LB).
  - unfold c_count. rewrite app_length. unfold norm_listing at 1. rewrite map_length.
    rewrite count_extra_len by auto. lia.
Qed.


(* ---- Flush ---- *)
Definition fstep (x : id * entry S) (b : bk B) : option (entry S) * bk B :=
  match x with
  | (i, (v, d, del)) =>
      if del then (None, bk_apply B (st_dels S i) b)
      else if d then (Some (v, false, false), bk_apply B (st_writes S i v) b)
      else if st_self_dirty S v then
        (Some (st_clear_dirty S v, false, false), bk_apply B (st_writes S i (st_clear_dirty S v)) b)
      else (Some (v, false, false), b)
  end.

Lemma flush_items_cons x r b :
  flush_items S B (x :: r) b =
  let '(oe, b1) := fstep x b in
  let '(r', b') := flush_items S B r b1 in
  (match oe with Some e => (fst x, e) :: r' | None => r' end, b').
Proof.
  destruct x as [i [[v d] del]]. cbn [flush_items fstep fst].
  destruct del; [now destruct (flush_items S B r _)|].
  destruct d; [now destruct (flush_items S B r _)|].
  destruct (st_self_dirty S v); now destruct (flush_items S B r _).
Qed.

Lemma flush_items_cons' x r b oe b1 r' b' :
  fstep x b = (oe, b1) -> flush_items S B r b1 = (r', b') ->
  flush_items S B (x :: r) b = (match oe with Some e => (fst x, e) :: r' | None => r' end, b').
Proof. intros H1 H2. rewrite flush_items_cons, H1, H2. reflexivity. Qed.

Lemma dels_frame i g k : ~ In k (st_del_keys S i) -> kv_apply (st_dels S i) g k = g k.
Proof. intros H. unfold st_dels. now apply kv_dels_out. Qed.

Lemma writes_frame i v g k : ~ In k (st_del_keys S i) -> kv_apply (st_writes S i v) g k = g k.
Proof.
  intros H. apply kv_apply_frame. intros a Hin. apply H. exact (sl_writes_own S P LS i v k a Hin).
Qed.

Lemma written_read i v (g g1 : kv) :
  sp_valid P i v g -> (forall k, g1 k = kv_apply (st_writes S i v) g k) ->
  st_read S i g1 = Some (norm v) /\ sp_valid P i v g1.
Proof.
  intros Hv Hg. split.
  - rewrite <- (sl_read_write S P LS i v g Hv). apply (sl_read_ext S P LS). intros k _. apply Hg.
  - apply (sl_valid_ext S P LS i v (kv_apply (st_writes S i v) g)).
    + intros k _. symmetry. apply Hg.
    + now apply (sl_valid_written S P LS).
Qed.

Lemma fstep_spec i v d del b oe b1 :
  let g := bk_get B b in let g1 := bk_get B b1 in
  entry_ok g i (v, d, del) -> fstep (i, (v, d, del)) b = (oe, b1) ->
  (forall k, ~ In k (st_del_keys S i) -> g1 k = g k) /\
  (del = true -> oe = None /\ forall k, In k (st_del_keys S i) -> g1 k = None) /\
  (del = false -> exists v', oe = Some (v', false, false) /\ st_read S i g1 = Some (norm v) /\
                  norm v' = norm v /\ (st_self_dirty S v' = true -> sp_valid P i v' g1)).
Proof.
  intros g g1 (H1 & H2 & H3). unfold fstep.
  destruct del.
  - intros H; inversion H; subst. csplit; try discriminate.
    + intros k Hk. unfold g1. rewrite (bk_apply_get B LB). now apply dels_frame.
    + intros _. split; [reflexivity|]. intros k Hk. unfold g1. rewrite (bk_apply_get B LB).
      unfold st_dels. now apply kv_dels_in.
  - destruct d.
    + intros H; inversion H; subst. csplit; try discriminate.
      * intros k Hk. unfold g1. rewrite (bk_apply_get B LB). now apply writes_frame.
      * intros _. exists v.
        destruct (written_read i v g g1 (H2 eq_refl (or_introl eq_refl))) as [R V].
        { intros k. apply (bk_apply_get B LB). }
        csplit; auto.
    + destruct (st_self_dirty S v) eqn:Sd.
      * intros H; inversion H; subst. csplit; try discriminate.
        -- intros k Hk. unfold g1. rewrite (bk_apply_get B LB). now apply writes_frame.
        -- intros _. exists (st_clear_dirty S v).
           assert (Hv : sp_valid P i (st_clear_dirty S v) g).
           { apply (sl_valid_clear S P LS). apply H2; auto. }
           destruct (written_read i _ g g1 Hv) as [R V].
           { intros k. apply (bk_apply_get B LB). }
           rewrite (sl_norm_clear S P LS) in R. csplit; auto; try apply (sl_norm_clear S P LS).
           all: try (rewrite (sl_clear_clean S P LS); discriminate).
      * intros H; inversion H; subst. csplit; try discriminate; auto.
        intros _. exists v. csplit; auto. congruence.
Qed.

Lemma entry_ok_frame g g1 i e :
  (forall k, In k (st_del_keys S i) -> g1 k = g k) -> entry_ok g i e -> entry_ok g1 i e.
Proof.
  intros Hg. destruct e as [[v d] del]. intros (H1 & H2 & H3). unfold entry_ok. csplit; auto.
  - intros a b0 c0. rewrite <- (H1 a b0 c0). apply (sl_read_ext S P LS). exact Hg.
  - intros a b0. apply (sl_valid_ext S P LS i v g); [|auto]. intros k Hk. symmetry. now apply Hg.
Qed.

Definition ent_pre (g : kv) (x : id * entry S) : Prop := entry_ok g (fst x) (snd x).

Lemma flush_items_spec l : forall b l' b',
  let g := bk_get B b in let g' := bk_get B b' in
  NoDup (map fst l) -> Forall (ent_pre g) l -> flush_items S B l b = (l', b') ->
  (forall k, (forall j, In j (map fst l) -> ~ In k (st_del_keys S j)) -> g' k = g k) /\
  (forall i v d, In (i, (v, d, true)) l -> forall k, In k (st_del_keys S i) -> g' k = None) /\
  (forall i v d, In (i, (v, d, false)) l -> st_read S i g' = Some (norm v) /\ In i (map fst l')) /\
  (forall i v' d' del', In (i, (v', d', del')) l' ->
     d' = false /\ del' = false /\ st_read S i g' = Some (norm v') /\
     (st_self_dirty S v' = true -> sp_valid P i v' g') /\ In i (map fst l)) /\
  NoDup (map fst l').
Proof.
  induction l as [|[i [[v d] del]] r IH]; intros b l' b' g g' Hnd Hpre.
  - cbn [flush_items]. intros H; inversion H; subst. csplit; auto; try (intros; contradiction); try constructor.
  - destruct (fstep (i, (v, d, del)) b) as [oe b1] eqn:Fs.
    destruct (flush_items S B r b1) as [r' b''] eqn:Fr.
    intros H. pose proof (eq_trans (eq_sym H) (flush_items_cons' _ _ _ _ _ _ _ Fs Fr)) as E.
    cbn [fst] in E. inversion E; subst l' b'; clear E H.
    inversion Hnd as [|? ? Hi Hr]; subst. inversion Hpre as [|? ? Hx Hpr]; subst.
    unfold ent_pre in Hx. cbn [fst snd] in Hx.
    destruct (fstep_spec i v d del b oe b1 Hx Fs) as (F1 & F2 & F3).
    set (g1 := bk_get B b1) in *.
    assert (Hpre1 : Forall (ent_pre g1) r).
    { apply Forall_forall. intros [j e] Hin. unfold ent_pre. cbn [fst snd].
      apply (entry_ok_frame g g1).
      - intros k Hk. apply F1. intros Hk'.
        assert (i = j) by exact (sl_keys_disjoint S P LS i j k Hk' Hk). subst j.
        apply Hi. apply in_map_iff. now exists (i, e).
      - rewrite Forall_forall in Hpr. exact (Hpr (j, e) Hin). }
    destruct (IH b1 r' b'' Hr Hpre1 Fr) as (R1 & R2 & R3 & R4 & R5). fold g' in R1, R2, R3, R4.
    (* the keys of the head id are not touched by the rest *)
    assert (Hown : forall k, In k (st_del_keys S i) -> g' k = g1 k).
    { intros k Hk. apply R1. intros j Hj Hk'.
      assert (j = i) by exact (sl_keys_disjoint S P LS j i k Hk' Hk). subst j. contradiction. }
    assert (Hnr : ~ In i (map fst r')).
    { intros Hin. apply in_map_iff in Hin. destruct Hin as ([i' [[v' d'] del']] & E & Hin). cbn [fst] in E. subst i'.
      destruct (R4 i v' d' del' Hin) as (_ & _ & _ & _ & Hir). contradiction. }
    csplit.
    + intros k Hk. rewrite R1.
      * apply F1. apply Hk. now left.
      * intros j Hj. apply Hk. now right.
    + intros i0 v0 d0 [E|Hin] k Hk.
      * inversion E; subst. rewrite (Hown k Hk). now apply (proj2 (F2 eq_refl)).
      * exact (R2 i0 v0 d0 Hin k Hk).
    + intros i0 v0 d0 [E|Hin].
      * inversion E; subst. destruct (F3 eq_refl) as (v' & -> & Rd & _ & _). split.
        -- rewrite <- Rd. apply (sl_read_ext S P LS). exact Hown.
        -- now left.
      * destruct (R3 i0 v0 d0 Hin) as [Ra Rb]. split; [exact Ra|].
        destruct oe; [now right|exact Rb].
    + intros i0 v' d' del' Hin.
      assert (Hrest : In (i0, (v', d', del')) r' -> d' = false /\ del' = false /\ st_read S i0 g' = Some (norm v') /\
                (st_self_dirty S v' = true -> sp_valid P i0 v' g') /\ In i0 (map fst ((i, (v, d, del)) :: r))).
      { intros Hin'. destruct (R4 i0 v' d' del' Hin') as (A1 & A2 & A3 & A4 & A5). csplit; auto. now right. }
      destruct oe as [e|]; [|now apply Hrest].
      destruct Hin as [E|Hin]; [|now apply Hrest].
      destruct del; [destruct (F2 eq_refl) as [Hoe _]; discriminate|].
      destruct (F3 eq_refl) as (v1 & Hoe & Rd & Hn & Hv). inversion Hoe; subst e. inversion E; subst.
      csplit; auto.
      * rewrite Hn, <- Rd. apply (sl_read_ext S P LS). exact Hown.
      * intros Hs. apply (sl_valid_ext S P LS i0 v' g1); [|auto]. intros k Hk. symmetry. now apply Hown.
      * now left.
    + destruct oe; [|exact R5]. cbn [map fst]. constructor; assumption.
Qed.

Lemma cold_nabs g i : nabs c_empty g i = st_read S i g.
Proof.
  unfold Model_ItemCache.nabs, Model_ItemCache.absmap. cbn.
  destruct (st_read S i g) as [w|] eqn:R; [|reflexivity]. cbn. now rewrite (sl_read_normal S P LS i g w R).
Qed.

Lemma settled_nabs c g i : settled c g -> nabs c g i = st_read S i g.
Proof.
  intros Hs. unfold Model_ItemCache.nabs. rewrite absmap_lookup.
  destruct (lookup i (c_items c)) as [[[v d] del]|] eqn:E.
  - destruct (Hs i v d del E) as (_ & -> & R). cbn. now rewrite R.
  - destruct (st_read S i g) as [w|] eqn:R; [|reflexivity]. cbn. now rewrite (sl_read_normal S P LS i g w R).
Qed.

Lemma flush_spec c b c' b' :
  let g := bk_get B b in let g' := bk_get B b' in
  inv c g -> c_flush S B c b = (c', b') ->
  (forall i, st_read S i g' = nabs c g i) /\ settled c' g' /\ inv c' g' /\
  (forall i, nabs c' g' i = nabs c g i) /\ c_all c' = c_all c.
Proof.
  intros g g' I. unfold c_flush.
  destruct (flush_items S B (c_items c) b) as [l' b''] eqn:F. intros H; inversion H; subst. clear H.
  pose proof (inv_nodup S P c g I) as Hnd.
  assert (Hpre : Forall (ent_pre g) (c_items c)).
  { apply Forall_forall. intros [i e] Hin. unfold ent_pre. cbn [fst snd].
    apply (inv_entry_ok c g i e I). now apply in_lookup. }
  destruct (flush_items_spec _ _ _ _ Hnd Hpre F) as (R1 & R2 & R3 & R4 & R5). fold g' in R1, R2, R3, R4.
  assert (Hpers : forall i, st_read S i g' = nabs c g i).
  { intros i. unfold Model_ItemCache.nabs. rewrite absmap_lookup.
    destruct (lookup i (c_items c)) as [[[v d] [|]]|] eqn:E; cbn [entry_abs option_map].
    - apply lookup_in in E.
      assert (Hd : sp_deletable P = true).
      { destruct (sp_deletable P) eqn:Hd; [reflexivity|]. exfalso.
        apply (inv_del S P c g I Hd i v d). now apply in_lookup. }
      rewrite <- (sl_read_deleted S P LS i g' Hd). apply (sl_read_ext S P LS).
      intros k Hk. rewrite (R2 i v d E k Hk). symmetry. unfold st_dels. now apply kv_dels_in.
    - apply lookup_in in E. exact (proj1 (R3 i v d E)).
    - apply lookup_none in E.
      assert (Hr : st_read S i g' = st_read S i g).
      { apply (sl_read_ext S P LS). intros k Hk. apply R1. intros j Hj Hk'.
        assert (j = i) by exact (sl_keys_disjoint S P LS j i k Hk' Hk). subst j. contradiction. }
      rewrite Hr. destruct (st_read S i g) as [w|] eqn:R; [|reflexivity]. cbn.
      now rewrite (sl_read_normal S P LS i g w R). }
  assert (Hset : settled (mkCache l' (c_all c)) g').
  { intros i v d del E. cbn [c_items] in E. apply lookup_in in E.
    destruct (R4 i v d del E) as (A1 & A2 & A3 & _). auto. }
  assert (Hinv : inv (mkCache l' (c_all c)) g').
  { constructor; cbn [c_items c_all].
    - exact R5.
    - intros i v E _. apply lookup_in in E. now destruct (R4 i v false false E) as (_ & _ & A3 & _).
    - intros i v d E Hd. apply lookup_in in E. destruct (R4 i v d false E) as (A1 & _ & _ & A4 & _).
      destruct Hd as [Hd|Hd]; [congruence|auto].
    - intros Ha k i Hk Hi Hl.
      pose proof (sl_idfk_own S P LS k i Hi) as Hown.
      destruct (lookup i (c_items c)) as [[[v d] [|]]|] eqn:E.
      + apply lookup_in in E. now rewrite (R2 i v d E k Hown) in Hk.
      + apply lookup_in in E. destruct (R3 i v d E) as [_ Hin]. now apply lookup_none in Hl.
      + assert (Hg : g' k = g k).
        { apply R1. intros j Hj Hk'.
          assert (j = i) by exact (sl_keys_disjoint S P LS j i k Hk' Hown). subst j.
          apply lookup_none in E. contradiction. }
        rewrite Hg in Hk. exact (inv_all S P c g I Ha k i Hk Hi E).
    - intros _ i v d E. apply lookup_in in E. destruct (R4 i v d true E) as (_ & A2 & _). discriminate. }
  csplit; auto.
  intros i. rewrite (settled_nabs _ g' i Hset). apply Hpers.
Qed.


(* ---- one operation, operation sequences ---- *)
Notation amap_eq := (amap_eq S).

Lemma inv_empty g : inv c_empty g.
Proof.
  constructor; cbn; try discriminate; try constructor; try (intros _ i v d H; discriminate).
Qed.
Lemma settled_empty g : settled c_empty g.
Proof. intros i v d del E. discriminate. Qed.

Lemma found_map m ids : map norm (found S m ids) = found S (fun i => option_map norm (m i)) ids.
Proof.
  unfold found. induction ids as [|i r IH]; [reflexivity|]. cbn [flat_map]. rewrite map_app, IH.
  now destruct (m i).
Qed.

Lemma found_ext m m' ids : amap_eq m m' -> found S m ids = found S m' ids.
Proof. intros H. unfold found. apply flat_map_ext. intros i. now rewrite H. Qed.

Lemma listing_ext m m' l : amap_eq m m' -> is_listing S m l -> is_listing S m' l.
Proof. intros H [H1 H2]. split; [exact H1|]. intros i w. now rewrite H2, H. Qed.

Lemma spec_step_ext o m m' : amap_eq m m' -> amap_eq (spec_step S P o m) (spec_step S P o m').
Proof.
  intros H i. destruct o; cbn [spec_step]; unfold amap_upd; auto.
  - now destruct (st_eqb S i0 i).
  - now destruct (st_eqb S i0 i).
  - rewrite (H i0). now destruct (st_eqb S i0 i).
Qed.

Lemma spec_run_ext ops : forall m m', amap_eq m m' -> amap_eq (spec_run S P ops m) (spec_run S P ops m').
Proof. induction ops as [|o r IH]; intros m m' H; cbn [spec_run]; [exact H|]. apply IH. now apply spec_step_ext. Qed.

Lemma obs_ok_ext m m' o x : amap_eq m m' -> obs_ok S P m o x -> obs_ok S P m' o x.
Proof.
  intros H. destruct o, x; cbn [obs_ok]; auto.
  - now rewrite H.
  - now rewrite (found_ext m m' ids H).
  - intros [H1 H2]. split; [exact H1|]. now apply (listing_ext m m').
  - intros (l & H1 & H2). exists l. split; [now apply (listing_ext m m')|exact H2].
Qed.

Lemma trace_ok_ext ops : forall m m' xs, amap_eq m m' -> trace_ok S P m ops xs -> trace_ok S P m' ops xs.
Proof.
  induction ops as [|o r IH]; intros m m' [|x xs] H; cbn [trace_ok]; auto.
  intros [H1 H2]. split; [now apply (obs_ok_ext m m')|]. apply (IH (spec_step S P o m) (spec_step S P o m')); [now apply spec_step_ext|exact H2].
Qed.

Lemma nabs_of_absmap c c' g g' : (forall j, absmap c' g' j = absmap c g j) -> forall j, nabs c' g' j = nabs c g j.
Proof. intros H j. unfold Model_ItemCache.nabs. now rewrite H. Qed.

Lemma step_spec o c b c' b' x :
  let g := bk_get B b in let g' := bk_get B b' in
  inv c g -> wf_op S P c g o -> step S B o c b = (c', b', x) ->
  inv c' g' /\ obs_ok S P (nabs c g) o x /\ (forall i, nabs c' g' i = spec_step S P o (nabs c g) i) /\
  (read_only S o = true -> b' = b /\ (settled c g -> settled c' g')).
Proof.
  intros g g' I W. destruct o; cbn [step spec_step wf_op read_only obs_ok] in *.
  - destruct (c_get S B i c b) as [r c1] eqn:G. intros H; inversion H; subst. subst g'.
    destruct (get_spec c b' i r c' I G) as (Hr & I1 & A1 & S1 & _). fold g in Hr, I1, A1, S1.
    csplit; auto.
    + rewrite Hr. reflexivity.
    + now apply nabs_of_absmap.
  - destruct (c_get_many S B ids c b) as [l c1] eqn:G. intros H; inversion H; subst. subst g'.
    destruct (get_many_spec ids c b' l c' I G) as (Hr & I1 & A1 & S1 & _). fold g in Hr, I1, A1, S1.
    csplit; auto.
    + rewrite Hr. apply found_map.
    + now apply nabs_of_absmap.
  - intros H; inversion H; subst. subst g'. destruct (put_spec c g i v I W) as [I1 A1].
    csplit; auto; try discriminate.
    intros j. unfold Model_ItemCache.nabs, amap_upd. rewrite A1. now destruct (st_eqb S i j).
  - intros H; inversion H; subst. subst g'. destruct (delete_spec c b' i I W) as [I1 A1]. fold g in I1, A1.
    csplit; auto; try discriminate.
    intros j. unfold Model_ItemCache.nabs, amap_upd. rewrite A1. now destruct (st_eqb S i j).
  - intros H; inversion H; subst. subst g'. destruct W as [Wc Wv].
    destruct (modify_spec c b' i f I Wv) as [I1 A1]. fold g in I1, A1.
    csplit; auto; try discriminate.
    intros j. unfold Model_ItemCache.nabs, amap_upd. rewrite A1. destruct (st_eqb S i j); [|reflexivity].
    destruct (absmap c g i) as [v|]; [|reflexivity]. cbn [option_map]. f_equal.
    apply Wc. symmetry. apply (sl_norm_idem S P LS).
  - destruct (c_foreach S B c b) as [[ok l] c1] eqn:G. intros H; inversion H; subst. subst g'.
    destruct (foreach_spec c b' ok l c' I G) as (I1 & A1 & S1 & L1). fold g in I1, A1, S1, L1.
    destruct (L1 W) as [Lo Ll]. csplit; auto. now apply nabs_of_absmap.
  - intros H; inversion H; subst. subst g'. destruct W as [En Hu].
    csplit; auto. apply (count_spec c' b' I En Hu).
  - destruct (c_flush S B c b) as [c1 b1] eqn:G. intros H; inversion H; subst.
    destruct (flush_spec c b c' b' I G) as (_ & _ & I1 & A1 & _). fold g g' in I1, A1.
    csplit; auto. discriminate.
Qed.

Lemma run_spec ops : forall c b c' b' xs,
  let g := bk_get B b in let g' := bk_get B b' in
  inv c g -> wf_run S B P ops c b -> run S B ops c b = (c', b', xs) ->
  inv c' g' /\ trace_ok S P (nabs c g) ops xs /\ (forall i, nabs c' g' i = spec_run S P ops (nabs c g) i) /\
  (forallb (read_only S) ops = true -> b' = b /\ (settled c g -> settled c' g')).
Proof.
  induction ops as [|o r IH]; intros c b c' b' xs g g' I W; cbn [run wf_run spec_run trace_ok forallb] in *.
  - intros H; inversion H; subst. subst g'. csplit; auto.
  - destruct W as [Wo Wr].
    destruct (step S B o c b) as [[c1 b1] x] eqn:St.
    destruct (run S B r c1 b1) as [[c2 b2] xs'] eqn:Rn. intros H; inversion H; subst.
    destruct (step_spec o c b c1 b1 x I Wo St) as (I1 & O1 & A1 & R1).
    destruct (IH c1 b1 c' b' xs' I1 Wr Rn) as (I2 & T2 & A2 & R2).
    csplit; auto.
    + apply (trace_ok_ext r (nabs c1 (bk_get B b1))); [exact A1|exact T2].
    + intros i. rewrite A2. apply spec_run_ext. exact A1.
    + intros Hro. apply andb_true_iff in Hro. destruct Hro as [Ho Hr].
      destruct (R1 Ho) as [-> S1]. destruct (R2 Hr) as [-> S2]. split; auto.
Qed.

(* ---- two observations of one reference state ---- *)
Lemma listing_perm m (l l' : list (id * item)) : is_listing S m l -> is_listing S m l' -> perm_eq l l'.
Proof.
  intros [N1 M1] [N2 M2].
  assert (Hin : forall x, In x l <-> In x l') by (intros [i w]; now rewrite M1, M2).
  assert (D1 : NoDup l) by (now apply (NoDup_map_inv fst)).
  assert (D2 : NoDup l') by (now apply (NoDup_map_inv fst)).
  constructor; auto. apply Permutation_length. now apply NoDup_Permutation.
Qed.

Lemma obs_ok_det m o x y : obs_ok S P m o x -> obs_ok S P m o y -> obs_equiv P x y.
Proof.
  destruct o, x, y; cbn [obs_ok obs_equiv]; try tauto; try congruence.
  - intros [-> H1] [-> H2]. csplit; auto. now apply (listing_perm m).
  - intros (l & L1 & ->) (l' & L2 & ->). now destruct (listing_perm m l l' L1 L2).
Qed.

Lemma trace_ok_det ops : forall m xs ys, trace_ok S P m ops xs -> trace_ok S P m ops ys -> Forall2 (obs_equiv P) xs ys.
Proof.
  induction ops as [|o r IH]; intros m [|x xs] [|y ys]; cbn [trace_ok]; try tauto; [constructor|].
  intros [H1 H2] [H3 H4]. constructor; [now apply (obs_ok_det m o)|now apply (IH (spec_step S P o m))].
Qed.

(* ---- transactions ---- *)
Definition spec_txn (t : txn S) (m : amap S) : amap S :=
  match t_kind t with TFail => m | _ => spec_run S P (t_ops t) m end.

Lemma run_txn_spec t c b c' b' xs :
  let g := bk_get B b in let g' := bk_get B b' in
  inv c g -> settled c g -> wf_txn S B P t c b -> run_txn S B t c b = (c', b', xs) ->
  inv c' g' /\ settled c' g' /\ trace_ok S P (nabs c g) (t_ops t) xs /\
  amap_eq (nabs c' g') (spec_txn t (nabs c g)).
Proof.
  intros g g' I Hs [W Wr]. unfold run_txn, spec_txn.
  set (c0 := if t_drop t then c_empty else c) in *.
  assert (I0 : inv c0 g) by (unfold c0; destruct (t_drop t); [apply inv_empty|exact I]).
  assert (S0 : settled c0 g) by (unfold c0; destruct (t_drop t); [apply settled_empty|exact Hs]).
  assert (A0 : amap_eq (nabs c0 g) (nabs c g)) by (intros i; now rewrite !settled_nabs).
  destruct (run S B (t_ops t) c0 b) as [[c1 b1] xs1] eqn:Rn.
  destruct (run_spec _ _ _ _ _ _ I0 W Rn) as (I1 & T1 & A1 & R1). fold g in T1, A1, R1.
  assert (T : trace_ok S P (nabs c g) (t_ops t) xs1) by (apply (trace_ok_ext _ (nabs c0 g)); auto).
  destruct (t_kind t) eqn:K.
  - intros H; inversion H; subst. destruct (R1 (Wr eq_refl)) as [-> S1]. subst g'.
    csplit; auto. intros i. rewrite A1. now apply spec_run_ext.
  - destruct (c_flush S B c1 b1) as [c2 b2] eqn:F. intros H; inversion H; subst.
    destruct (flush_spec c1 b1 c' b' I1 F) as (_ & S2 & I2 & A2 & _). fold g' in S2, I2, A2.
    csplit; auto. intros i. rewrite A2, A1. now apply spec_run_ext.
  - intros H; inversion H; subst. subst g'. csplit; auto.
    + apply inv_empty.
    + apply settled_empty.
    + intros i. fold g. now rewrite !settled_nabs by (auto using settled_empty).
Qed.

End Generic.

(* ======================================================================== *)
(* E. two executions of one history, possibly on two backends                *)

Section Sim.
Variable S : Storable.
Variable P : StorableSpec S.
Variables B1 B2 : BucketImpl.
Hypothesis L1 : BucketLaws B1.
Hypothesis L2 : BucketLaws B2.
Hypothesis LS : StorableLaws S P.

Lemma spec_txn_same t t' m : same_history S t t' -> spec_txn S P t m = spec_txn S P t' m.
Proof. intros [E1 E2]. unfold spec_txn. now rewrite E1, E2. Qed.

Lemma spec_txn_ext t m m' : amap_eq S m m' -> amap_eq S (spec_txn S P t m) (spec_txn S P t m').
Proof. intros H. unfold spec_txn. destruct (t_kind t); auto; now apply spec_run_ext. Qed.

Lemma sim_txs ts1 : forall ts2 c1 b1 c2 b2 c1' b1' xs1 c2' b2' xs2,
  Forall2 (same_history S) ts1 ts2 ->
  inv S P c1 (bk_get B1 b1) -> settled S P c1 (bk_get B1 b1) ->
  inv S P c2 (bk_get B2 b2) -> settled S P c2 (bk_get B2 b2) ->
  amap_eq S (nabs S P c1 (bk_get B1 b1)) (nabs S P c2 (bk_get B2 b2)) ->
  wf_txs S B1 P ts1 c1 b1 -> wf_txs S B2 P ts2 c2 b2 ->
  run_txs S B1 ts1 c1 b1 = (c1', b1', xs1) -> run_txs S B2 ts2 c2 b2 = (c2', b2', xs2) ->
  Forall2 (Forall2 (obs_equiv P)) xs1 xs2 /\
  amap_eq S (nabs S P c1' (bk_get B1 b1')) (nabs S P c2' (bk_get B2 b2')) /\
  (inv S P c1' (bk_get B1 b1') /\ settled S P c1' (bk_get B1 b1')) /\
  (inv S P c2' (bk_get B2 b2') /\ settled S P c2' (bk_get B2 b2')).
Proof.
  induction ts1 as [|t1 r1 IH]; intros ts2 c1 b1 c2 b2 c1' b1' xs1 c2' b2' xs2 HF I1 S1 I2 S2 A W1 W2.
  - inversion HF; subst. cbn [run_txs]. intros H H'; inversion H; inversion H'; subst. csplit; auto.
  - inversion HF as [|? t2 ? r2 Hh HF']; subst. cbn [run_txs wf_txs] in *.
    destruct W1 as [Wt1 Wr1]. destruct W2 as [Wt2 Wr2].
    destruct (run_txn S B1 t1 c1 b1) as [[d1 e1] x1] eqn:R1.
    destruct (run_txn S B2 t2 c2 b2) as [[d2 e2] x2] eqn:R2.
    destruct (run_txs S B1 r1 d1 e1) as [[f1 g1] y1] eqn:Q1.
    destruct (run_txs S B2 r2 d2 e2) as [[f2 g2] y2] eqn:Q2.
    intros H H'; inversion H; inversion H'; subst.
    destruct (run_txn_spec S B1 P L1 LS t1 c1 b1 d1 e1 x1 I1 S1 Wt1 R1) as (J1 & T1 & O1 & M1).
    destruct (run_txn_spec S B2 P L2 LS t2 c2 b2 d2 e2 x2 I2 S2 Wt2 R2) as (J2 & T2 & O2 & M2).
    assert (A' : amap_eq S (nabs S P d1 (bk_get B1 e1)) (nabs S P d2 (bk_get B2 e2))).
    { intros i. rewrite M1, M2. rewrite (spec_txn_same t1 t2 _ Hh). now apply spec_txn_ext. }
    destruct (IH r2 d1 e1 d2 e2 c1' b1' y1 c2' b2' y2 HF' J1 T1 J2 T2 A' Wr1 Wr2 Q1 Q2) as (F & Af & K1 & K2).
    destruct K1 as [K1a K1b]. destruct K2 as [K2a K2b].
    csplit; auto. constructor; [|exact F].
    destruct Hh as [Eo _]. rewrite <- Eo in O2.
    apply (trace_ok_det S P (t_ops t1) (nabs S P c1 (bk_get B1 b1))); [exact O1|].
    apply (trace_ok_ext S P (t_ops t1) (nabs S P c2 (bk_get B2 b2))); [|exact O2].
    intros i. symmetry. apply A.
Qed.
End Sim.

(* ======================================================================== *)
(* F. ids and keys of the instances                                          *)

Lemma suffixes_ok : suffixes_ok_b = true.
Proof. vm_compute. reflexivity. Qed.

Lemma pos_size_nat_lt p : forall k, (Pos.size_nat p <= k)%nat <-> Npos p < 2 ^ N.of_nat k.
Proof.
  induction p as [p IH|p IH|]; intros k; cbn [Pos.size_nat].
  - destruct k as [|k]; [split; [lia|]; cbn; lia|].
    rewrite Nat2N.inj_succ, N.pow_succ_r', <- Nat.succ_le_mono, IH. lia.
  - destruct k as [|k]; [split; [lia|]; cbn; lia|].
    rewrite Nat2N.inj_succ, N.pow_succ_r', <- Nat.succ_le_mono, IH. lia.
  - destruct k as [|k]; [split; [lia|]; cbn; lia|].
    rewrite Nat2N.inj_succ, N.pow_succ_r'.
    assert (0 < 2 ^ N.of_nat k) by (apply N.neq_0_lt_0; apply N.pow_nonzero; lia). lia.
Qed.

Lemma fits64_lt n : fits64 n = true <-> n < two64.
Proof.
  unfold fits64. rewrite Nat.leb_le. destruct n as [|p]; cbn [N.size_nat].
  - split; [intros _; reflexivity|lia].
  - rewrite pos_size_nat_lt. reflexivity.
Qed.

Lemma u64_val_lt i : u64_val i < two64.
Proof. destruct i as [n H]. cbn. now apply fits64_lt. Qed.

Lemma u64_ext i j : u64_val i = u64_val j -> i = j.
Proof.
  destruct i as [n Hn], j as [m Hm]. cbn. intros ->. f_equal.
  apply (UIP_dec bool_dec).
Qed.

Lemma u64_eqb_spec i j : u64_eqb i j = true <-> i = j.
Proof.
  unfold u64_eqb. rewrite N.eqb_eq. split; [apply u64_ext|now intros ->].
Qed.

Lemma mk_u64_val n i : mk_u64 n = Some i -> u64_val i = n.
Proof. unfold mk_u64. destruct (bool_dec (fits64 n) true); intros H; inversion H. reflexivity. Qed.

Lemma mk_u64_of i : mk_u64 (u64_val i) = Some i.
Proof.
  unfold mk_u64. destruct (bool_dec (fits64 (u64_val i)) true) as [H|H].
  - apply (f_equal Some). now apply u64_ext.
  - exfalso. apply H. apply fits64_lt. apply u64_val_lt.
Qed.

Lemma is_bytes_all k : is_bytes k = true <-> all_bytes k.
Proof.
  unfold is_bytes, all_bytes. rewrite forallb_forall, Forall_forall.
  split; intros H x Hx; specialize (H x Hx); [now apply N.ltb_lt|now apply N.ltb_lt].
Qed.

Lemma nkey_inj i s j s' : nkey i s = nkey j s' -> i = j /\ s = s'.
Proof.
  unfold nkey. intros E. apply node_key_inj in E; try apply u64_val_lt.
  destruct E as [E1 E2]. split; [now apply u64_ext|exact E2].
Qed.

Lemma nkey_bytes i s : s < 256 -> is_bytes (nkey i s) = true.
Proof.
  intros Hs. apply is_bytes_all. unfold nkey, node_key, all_bytes. constructor; [vm_compute; reflexivity|].
  apply Forall_app. split; [apply le_all_bytes|]. constructor; [exact Hs|constructor].
Qed.

(* NodeIdFromKey accepts exactly the node keys with that suffix *)
Lemma node_id_from_key_inv k s n :
  is_bytes k = true -> node_id_from_key k s = Some n -> k = node_key n s /\ n < two64.
Proof.
  intros Hb. unfold node_id_from_key.
  destruct node_layout_ok as (-> & -> & -> & -> & ->).
  destruct (Nat.eqb (length k) 10) eqn:El; cbn [negb]; [|discriminate].
  apply Nat.eqb_eq in El.
  do 11 (destruct k as [|? k]; try discriminate El). clear El.
  cbn [nth]. destruct (n0 =? node_prefix) eqn:E0; cbn [negb]; [|discriminate].
  destruct (n9 =? s) eqn:E9; cbn [negb]; [|discriminate].
  apply N.eqb_eq in E0, E9. subst n0 n9. cbn [length Nat.sub skipn firstn].
  intros H. assert (Hn : n = unle [n1; n2; n3; n4; n5; n6; n7; n8]) by congruence. clear H. subst n.
  apply is_bytes_all in Hb. unfold all_bytes in Hb.
  assert (Hm : all_bytes [n1; n2; n3; n4; n5; n6; n7; n8]).
  { inversion Hb as [|? ? _ Hb1]; subst. unfold all_bytes.
    repeat (match goal with H : Forall _ (_ :: _) |- _ => inversion H; subst; clear H end).
    repeat constructor; assumption. }
  split.
  - unfold node_key. f_equal. change u64_width with (length [n1; n2; n3; n4; n5; n6; n7; n8]).
    rewrite (le_unle _ Hm). reflexivity.
  - pose proof (unle_bound _ Hm) as Hbd. exact Hbd.
Qed.

Lemma node_idfk_go_inv sfx : forall k i, is_bytes k = true -> node_idfk_go sfx k = Some i ->
  exists s, In s sfx /\ k = nkey i s.
Proof.
  induction sfx as [|s r IH]; intros k i Hb; cbn [node_idfk_go]; [discriminate|].
  destruct (node_id_from_key k s) as [n|] eqn:E.
  - intros Hm. apply mk_u64_val in Hm. subst n.
    destruct (node_id_from_key_inv k s _ Hb E) as [-> _]. exists s. split; [now left|reflexivity].
  - intros H. destruct (IH k i Hb H) as (s' & Hs' & ->). exists s'. split; [now right|reflexivity].
Qed.

Lemma node_idfk_inv sfx k i : node_idfk sfx k = Some i -> exists s, In s sfx /\ k = nkey i s.
Proof.
  unfold node_idfk. destruct (is_bytes k) eqn:Hb; [|discriminate]. now apply node_idfk_go_inv.
Qed.

Lemma node_idfk_go_key sfx : forall i s, In s sfx -> node_idfk_go sfx (nkey i s) = Some i.
Proof.
  induction sfx as [|s0 r IH]; intros i s Hin; [destruct Hin|]. cbn [node_idfk_go].
  destruct (N.eq_dec s0 s) as [->|Hne].
  - unfold nkey. rewrite node_key_roundtrip by apply u64_val_lt. apply mk_u64_of.
  - unfold nkey at 1. rewrite node_key_other_suffix by congruence.
    apply IH. destruct Hin as [H|H]; [congruence|exact H].
Qed.

Lemma node_idfk_key sfx i s : s < 256 -> In s sfx -> node_idfk sfx (nkey i s) = Some i.
Proof. intros Hs Hin. unfold node_idfk. rewrite nkey_bytes by exact Hs. now apply node_idfk_go_key. Qed.

Lemma doc_id_from_key_inv k n :
  is_bytes k = true -> doc_id_from_key k = Some n -> k = doc_key n /\ n < two64.
Proof.
  intros Hb. unfold doc_id_from_key.
  destruct doc_layout_ok as (-> & -> & ->).
  destruct (Nat.eqb (length k) 9) eqn:El; cbn [negb]; [|discriminate].
  apply Nat.eqb_eq in El.
  do 10 (destruct k as [|? k]; try discriminate El). clear El.
  cbn [nth]. destruct (n0 =? doc_prefix) eqn:E0; cbn [negb]; [|discriminate].
  apply N.eqb_eq in E0. subst n0. cbn [skipn].
  intros H. assert (Hn : n = unle [n1; n2; n3; n4; n5; n6; n7; n8]) by congruence. clear H. subst n.
  apply is_bytes_all in Hb. unfold all_bytes in Hb.
  assert (Hm : all_bytes [n1; n2; n3; n4; n5; n6; n7; n8]).
  { inversion Hb as [|? ? _ Hb1]; subst. exact Hb1. }
  split.
  - unfold doc_key. f_equal. change u64_width with (length [n1; n2; n3; n4; n5; n6; n7; n8]).
    rewrite (le_unle _ Hm). reflexivity.
  - exact (unle_bound _ Hm).
Qed.

Lemma doc_idfk_inv k i : doc_idfk k = Some i -> k = doc_key (u64_val i).
Proof.
  unfold doc_idfk. destruct (is_bytes k) eqn:Hb; [|discriminate].
  destruct (doc_id_from_key k) as [n|] eqn:E; [|discriminate].
  intros Hm. apply mk_u64_val in Hm. subst n. now destruct (doc_id_from_key_inv k _ Hb E).
Qed.

Lemma doc_idfk_key i : doc_idfk (doc_key (u64_val i)) = Some i.
Proof.
  unfold doc_idfk.
  assert (Hb : is_bytes (doc_key (u64_val i)) = true).
  { apply is_bytes_all. unfold doc_key, all_bytes. constructor; [vm_compute; reflexivity|apply le_all_bytes]. }
  rewrite Hb, doc_key_roundtrip by apply u64_val_lt. apply mk_u64_of.
Qed.

Lemma doc_key_u64_inj i j : doc_key (u64_val i) = doc_key (u64_val j) -> i = j.
Proof. intros E. apply u64_ext. apply doc_key_inj in E; auto using u64_val_lt. Qed.

Lemma term_from_key_inv k t : term_from_key k = Some t -> k = term_key t.
Proof.
  unfold term_from_key. destruct term_layout_ok as (-> & -> & ->).
  destruct (Nat.ltb (length k) 2) eqn:El; [discriminate|]. apply Nat.ltb_ge in El.
  destruct k as [|a k]; [cbn in El; lia|]. cbn [nth].
  destruct (a =? term_prefix) eqn:Ea; cbn [negb]; [|discriminate]. apply N.eqb_eq in Ea. subst a.
  destruct (last (term_prefix :: k) 256 =? term_suffix) eqn:Es; cbn [negb]; [|discriminate].
  apply N.eqb_eq in Es. intros H; inversion H; subst t. clear H. cbn [tl].
  assert (Hk : k <> []) by (destruct k; [cbn in El; lia|discriminate]).
  unfold term_key. f_equal.
  rewrite (app_removelast_last 256 Hk) at 1. f_equal. f_equal.
  rewrite <- Es. destruct k; [contradiction|reflexivity].
Qed.

(* ======================================================================== *)
(* G. the instances satisfy the laws                                         *)

Lemma sfx_vq : sfx_v <> sfx_q. Proof. discriminate. Qed.
Lemma nkey_vq i j : nkey i sfx_v <> nkey j sfx_q.
Proof. intros E. apply nkey_inj in E. destruct E as [_ E]. discriminate. Qed.
Lemma nkey_qv i j : nkey i sfx_q <> nkey j sfx_v.
Proof. intros E. apply nkey_inj in E. destruct E as [_ E]. discriminate. Qed.

Lemma f32_rt v : f32_words v -> f32s_of_le (f32s_le v) = v.
Proof. apply f32s_roundtrip. Qed.
Lemma u64_rt v : u64_words v -> edges_of_le (edges_le v) = v.
Proof. apply edges_roundtrip. Qed.

Ltac kvs :=
  cbn [kv_apply app map]; unfold kv_upd;
  repeat (rewrite ?bytes_eqb_refl, ?(bytes_eqb_neq _ _ (nkey_vq _ _)), ?(bytes_eqb_neq _ _ (nkey_qv _ _))).

(* ---- plain vector ---- *)
Lemma plain_laws : StorableLaws plain_inst plain_spec.
Proof.
  constructor; cbn [plain_inst plain_spec st_id st_item st_eqb st_writes st_del_keys st_read st_id_from_key
                     st_self_dirty st_clear_dirty sp_norm sp_valid sp_deletable st_dels]; auto.
  - exact u64_eqb_spec.
  - intros i g g' H. now rewrite (H _ (or_introl eq_refl)).
  - intros i j k [<-|[]] [E|[]]. now destruct (nkey_inj _ _ _ _ E).
  - intros i v k a [E|[]]. inversion E. now left.
  - intros k i H. destruct (node_idfk_inv _ _ _ H) as (s & Hs & ->).
    pose proof suffixes_ok as Ok. unfold suffixes_ok_b in Ok.
    destruct plain_suffixes as [|a [|]]; try discriminate. destruct Hs as [<-|[]].
    destruct bq_suffixes as [|? [|? [|]]]; try discriminate. destruct edge_suffixes as [|? [|]]; try discriminate.
    apply andb_true_iff in Ok. destruct Ok as [Ok _]. apply andb_true_iff in Ok. destruct Ok as [Ok _].
    apply andb_true_iff in Ok. destruct Ok as [Ok _]. apply N.eqb_eq in Ok. subst. now left.
  - intros i v g Hv. kvs. cbn [option_map]. now rewrite f32_rt.
  - intros i g _. unfold st_dels. cbn [st_del_keys plain_inst]. kvs. reflexivity.
Qed.

Lemma sfx_in_plain : In sfx_v plain_suffixes.
Proof. vm_compute. auto. Qed.
Lemma plain_sfx_only s : In s plain_suffixes -> s = sfx_v.
Proof. vm_compute. intros [H|[]]. now symmetry. Qed.

Lemma plain_enumerable : Enumerable plain_inst.
Proof.
  constructor; cbn [plain_inst st_read st_id_from_key].
  - intros i g w H. exists (nkey i sfx_v). split.
    + destruct (g (nkey i sfx_v)); [discriminate|discriminate H].
    + apply node_idfk_key; [reflexivity|exact sfx_in_plain].
  - intros i g k Hk Hi. destruct (node_idfk_inv _ _ _ Hi) as (s & Hs & ->).
    rewrite (plain_sfx_only s Hs) in Hk. destruct (g (nkey i sfx_v)); [discriminate|contradiction].
Qed.

Lemma plain_enum_unique g : enum_unique plain_inst g.
Proof.
  intros k k' i _ _ H H'. cbn [plain_inst st_id_from_key] in H, H'.
  destruct (node_idfk_inv _ _ _ H) as (s & Hs & ->). destruct (node_idfk_inv _ _ _ H') as (s' & Hs' & ->).
  now rewrite (plain_sfx_only s Hs), (plain_sfx_only s' Hs').
Qed.

(* for the plain instance legality does not depend on the state *)
Definition plain_op_ok (o : op plain_inst) : Prop :=
  match o with OPut _ v => f32_words v | OModify _ _ => False | _ => True end.
Definition plain_txn_ok (t : txn plain_inst) : Prop :=
  Forall plain_op_ok (t_ops t) /\ (t_kind t = TRead -> forallb (read_only plain_inst) (t_ops t) = true).

Lemma plain_wf_op c g o : plain_op_ok o -> wf_op plain_inst plain_spec c g o.
Proof.
  destruct o; cbn [plain_op_ok wf_op]; auto.
  - intros [].
  - intros _. exact plain_enumerable.
  - intros _. split; [exact plain_enumerable|apply plain_enum_unique].
Qed.

Lemma plain_wf_run B ops : forall c b, Forall plain_op_ok ops -> wf_run plain_inst B plain_spec ops c b.
Proof.
  induction ops as [|o r IH]; intros c b H; cbn [wf_run]; [exact I|].
  inversion H; subst. split; [now apply plain_wf_op|].
  destruct (step plain_inst B o c b) as [[c1 b1] x]. now apply IH.
Qed.

Lemma plain_wf_txs B ts : forall c b, Forall plain_txn_ok ts -> wf_txs plain_inst B plain_spec ts c b.
Proof.
  induction ts as [|t r IH]; intros c b H; cbn [wf_txs]; [exact I|].
  inversion H as [|? ? [H1 H2] Hr]; subst. split.
  - split; [now apply plain_wf_run|exact H2].
  - destruct (run_txn plain_inst B t c b) as [[c1 b1] x]. now apply IH.
Qed.

(* ---- binary quantised point ---- *)
Lemma bq_norm_idem v : bq_norm (bq_norm v) = bq_norm v.
Proof. destruct v as [vec [|c code] d]; reflexivity. Qed.

Lemma two_keys_disjoint i j k :
  In k [nkey i sfx_v; nkey i sfx_q] -> In k [nkey j sfx_v; nkey j sfx_q] -> i = j.
Proof.
  intros [<-|[<-|[]]] [E|[E|[]]]; now destruct (nkey_inj _ _ _ _ E).
Qed.

Lemma binary_laws a : (forall s, In s a -> s = sfx_v \/ s = sfx_q) ->
  StorableLaws (binary_inst_with a) (binary_spec_with a).
Proof.
  intros Ha.
  constructor; cbn [binary_inst_with binary_spec_with st_id st_item st_eqb st_writes st_del_keys st_read st_id_from_key
                     st_self_dirty st_clear_dirty sp_norm sp_valid sp_deletable st_dels].
  - exact u64_eqb_spec.
  - intros i g g' H. unfold bq_read.
    rewrite (H (nkey i sfx_q)) by (right; now left). rewrite (H (nkey i sfx_v)) by now left. reflexivity.
  - exact two_keys_disjoint.
  - intros i [vec code d] k x. unfold bq_writes. cbn [bq_vec bq_code].
    destruct code; cbn [is_nil negb].
    + destruct vec; cbn [is_nil negb]; [intros []|]. intros [E|[]]. inversion E. now left.
    + intros [E|[]]. inversion E. right. now left.
  - intros k i H. destruct (node_idfk_inv _ _ _ H) as (s & Hs & ->).
    destruct (Ha s Hs) as [->| ->]; [now left|right; now left].
  - intros i [vec code d] g (Hv & Hc & Hne). cbn [bq_vec bq_code] in *. unfold bq_writes, bq_read, bq_norm.
    cbn [bq_vec bq_code]. destruct code as [|c code]; cbn [is_nil negb].
    + destruct Hne as [Hne|[Hne Hq]]; [congruence|]. destruct vec as [|x vec]; [congruence|]. cbn [is_nil negb].
      kvs. rewrite Hq. now rewrite f32_rt.
    + kvs. now rewrite u64_rt.
  - intros i g _. unfold st_dels, bq_read. cbn [st_del_keys binary_inst_with]. kvs. reflexivity.
  - intros i g w. unfold bq_read.
    destruct (g (nkey i sfx_q)) as [b|]; [intros [= <-]; unfold bq_norm; cbn [bq_code]; now destruct (edges_of_le b)|].
    destruct (g (nkey i sfx_v)) as [b|]; [intros [= <-]; reflexivity|discriminate].
  - exact bq_norm_idem.
  - intros [vec [|c code] d]; reflexivity.
  - intros [vec [|c code] d]; reflexivity.
  - intros v. reflexivity.
  - intros i v g g' H (Hv & Hc & Hne). unfold bq_valid. csplit; auto.
    destruct Hne as [Hne|[Hne Hq]]; [now left|right]. split; [exact Hne|].
    rewrite <- Hq. symmetry. apply H. right. now left.
  - intros i [vec code d] g H. exact H.
  - intros i [vec code d] g (Hv & Hc & Hne). unfold bq_valid in *. cbn [bq_vec bq_code] in *.
    csplit; auto. destruct code as [|c code]; [|left; discriminate].
    destruct Hne as [Hne|[Hne Hq]]; [congruence|]. right. split; [exact Hne|].
    unfold bq_writes. cbn [bq_vec bq_code is_nil negb].
    destruct vec; cbn [is_nil negb]; kvs; exact Hq.
Qed.

Lemma bq_accepts : forall s, In s bq_idfromkey_suffixes -> s = sfx_v \/ s = sfx_q.
Proof. vm_compute. intros s [H|[H|[]]]; subst; auto. Qed.
Lemma bq_accepts_q : In sfx_q bq_idfromkey_suffixes. Proof. vm_compute. auto. Qed.
Lemma bq_accepts_v : In sfx_v bq_idfromkey_suffixes. Proof. vm_compute. auto. Qed.

Lemma binary_inst_laws : StorableLaws binary_inst binary_spec.
Proof. exact (binary_laws _ bq_accepts). Qed.

Lemma binary_v0_laws : StorableLaws binary_inst_v0 (binary_spec_with [sfx_v]).
Proof. apply binary_laws. intros s [<-|[]]. now left. Qed.

(* holds only because 'q' is among the accepted suffixes *)
Lemma binary_enumerable : Enumerable binary_inst.
Proof.
  constructor; cbn [binary_inst binary_inst_with st_read st_id_from_key]; unfold bq_read.
  - intros i g w H. destruct (g (nkey i sfx_q)) eqn:Eq.
    + exists (nkey i sfx_q). split; [congruence|]. apply node_idfk_key; [reflexivity|exact bq_accepts_q].
    + destruct (g (nkey i sfx_v)) eqn:Ev; [|discriminate].
      exists (nkey i sfx_v). split; [congruence|]. apply node_idfk_key; [reflexivity|exact bq_accepts_v].
  - intros i g k Hk Hi. destruct (node_idfk_inv _ _ _ Hi) as (s & Hs & ->).
    destruct (g (nkey i sfx_q)) eqn:Eq; [discriminate|].
    destruct (bq_accepts s Hs) as [->| ->]; [|congruence].
    destruct (g (nkey i sfx_v)); [discriminate|contradiction].
Qed.


(* ---- product quantised point ---- *)
Lemma product_laws : StorableLaws product_inst product_spec.
Proof.
  constructor; cbn [product_inst product_spec st_id st_item st_eqb st_writes st_del_keys st_read st_id_from_key
                     st_self_dirty st_clear_dirty sp_norm sp_valid sp_deletable st_dels].
  - exact u64_eqb_spec.
  - intros i g g' H. unfold pq_read.
    rewrite (H (nkey i sfx_q)) by (right; now left). rewrite (H (nkey i sfx_v)) by now left. reflexivity.
  - exact two_keys_disjoint.
  - intros i [vec code d] k x. unfold pq_writes. cbn [bq_vec bq_code]. rewrite in_app_iff.
    intros [H|H].
    + destruct vec; cbn [is_nil negb] in H; [destruct H|]. destruct H as [E|[]]. inversion E. now left.
    + destruct code; cbn [is_nil negb] in H; [destruct H|]. destruct H as [E|[]]. inversion E. right. now left.
  - intros k i H. destruct (node_idfk_inv _ _ _ H) as (s & [<-|[]] & ->). now left.
  - intros i [vec code d] g (Hv & Hne). cbn [bq_vec bq_code] in *. unfold pq_writes, pq_read, bq_norm.
    cbn [bq_vec bq_code]. destruct code as [|c code]; cbn [is_nil negb].
    + destruct Hne as [Hne|[Hne Hq]]; [congruence|]. destruct vec as [|x vec]; [congruence|]. cbn [is_nil negb].
      kvs. rewrite Hq. now rewrite f32_rt.
    + destruct vec as [|x vec]; cbn [is_nil negb]; kvs; reflexivity.
  - intros i g _. unfold st_dels, pq_read. cbn [st_del_keys product_inst]. kvs. reflexivity.
  - intros i g w. unfold pq_read.
    destruct (g (nkey i sfx_q)) as [b|]; [intros [= <-]; unfold bq_norm; cbn [bq_code]; now destruct b|].
    destruct (g (nkey i sfx_v)) as [b|]; [intros [= <-]; reflexivity|discriminate].
  - exact bq_norm_idem.
  - intros [vec [|c code] d]; reflexivity.
  - intros [vec [|c code] d]; reflexivity.
  - intros v. reflexivity.
  - intros i v g g' H (Hv & Hne). unfold pq_valid. csplit; auto.
    destruct Hne as [Hne|[Hne Hq]]; [now left|right]. split; [exact Hne|].
    rewrite <- Hq. symmetry. apply H. right. now left.
  - intros i [vec code d] g H. exact H.
  - intros i [vec code d] g (Hv & Hne). unfold pq_valid in *. cbn [bq_vec bq_code] in *.
    csplit; auto. destruct code as [|c code]; [|left; discriminate].
    destruct Hne as [Hne|[Hne Hq]]; [congruence|]. right. split; [exact Hne|].
    unfold pq_writes. cbn [bq_vec bq_code is_nil negb].
    destruct vec; cbn [is_nil negb]; kvs; exact Hq.
Qed.

(* ---- graph node ---- *)
Lemma edge_sfx_only s : In s edge_suffixes -> s = sfx_e.
Proof. vm_compute. intros [H|[]]. now symmetry. Qed.
Lemma sfx_in_edge : In sfx_e edge_suffixes.
Proof. vm_compute. auto. Qed.

Lemma node_laws : StorableLaws node_inst node_spec.
Proof.
  constructor; cbn [node_inst node_spec st_id st_item st_eqb st_writes st_del_keys st_read st_id_from_key
                     st_self_dirty st_clear_dirty sp_norm sp_valid sp_deletable st_dels].
  - exact u64_eqb_spec.
  - intros i g g' H. now rewrite (H _ (or_introl eq_refl)).
  - intros i j k [<-|[]] [E|[]]. now destruct (nkey_inj _ _ _ _ E).
  - intros i v k a [E|[]]. inversion E. now left.
  - intros k i H. destruct (node_idfk_inv _ _ _ H) as (s & Hs & ->). rewrite (edge_sfx_only s Hs). now left.
  - intros i v g Hv. kvs. cbn [option_map]. now rewrite u64_rt.
  - intros i g _. unfold st_dels. cbn [st_del_keys node_inst]. kvs. reflexivity.
  - intros i g w. destruct (g (nkey i sfx_e)); [intros [= <-]; reflexivity|discriminate].
  - intros v. reflexivity.
  - intros v. reflexivity.
  - intros v. reflexivity.
  - intros v. reflexivity.
  - intros i v g g' _ H. exact H.
  - intros i v g H. exact H.
  - intros i v g H. exact H.
Qed.

Lemma node_enumerable : Enumerable node_inst.
Proof.
  constructor; cbn [node_inst st_read st_id_from_key].
  - intros i g w H. exists (nkey i sfx_e). split.
    + destruct (g (nkey i sfx_e)); [discriminate|discriminate H].
    + apply node_idfk_key; [reflexivity|exact sfx_in_edge].
  - intros i g k Hk Hi. destruct (node_idfk_inv _ _ _ Hi) as (s & Hs & ->).
    rewrite (edge_sfx_only s Hs) in Hk. destruct (g (nkey i sfx_e)); [discriminate|contradiction].
Qed.

Lemma node_enum_unique g : enum_unique node_inst g.
Proof.
  intros k k' i _ _ H H'. cbn [node_inst st_id_from_key] in H, H'.
  destruct (node_idfk_inv _ _ _ H) as (s & Hs & ->). destruct (node_idfk_inv _ _ _ H') as (s' & Hs' & ->).
  now rewrite (edge_sfx_only s Hs), (edge_sfx_only s' Hs').
Qed.

(* ---- text posting set, for every codec that round-trips ---- *)
Section TextSet.
Variable enc : list N -> bytes.
Variable dec : bytes -> list N.
Hypothesis dec_enc : forall s, dec (enc s) = s.

Lemma textset_laws : StorableLaws (textset_inst enc dec) (textset_spec enc dec).
Proof.
  constructor; cbn [textset_inst textset_spec st_id st_item st_eqb st_writes st_del_keys st_read st_id_from_key
                     st_self_dirty st_clear_dirty sp_norm sp_valid sp_deletable st_dels].
  - exact bytes_eqb_eq.
  - intros t g g' H. now rewrite (H _ (or_introl eq_refl)).
  - intros t u k [<-|[]] [E|[]]. symmetry. now apply term_key_inj.
  - intros t v k a. destruct (is_nil (fst v)); intros [E|[]]; inversion E; now left.
  - intros k t H. left. symmetry. now apply term_from_key_inv.
  - intros t [s d] g _. cbn [fst]. destruct s as [|x s]; cbn [is_nil]; kvs; [reflexivity|]. now rewrite dec_enc.
  - discriminate.
  - intros t g w [= <-]. now destruct (g (term_key t)).
  - intros v. reflexivity.
  - intros v. reflexivity.
  - intros v. reflexivity.
  - intros v. reflexivity.
  - auto.
  - auto.
  - auto.
Qed.
End TextSet.

(* ---- text document record, for every codec that round-trips ---- *)
Section TextDoc.
Variable T : Type.
Variable enc : T * N -> bytes.
Variable dec : bytes -> T * N.
Hypothesis dec_enc : forall v, dec (enc v) = v.

Lemma textdoc_laws : StorableLaws (textdoc_inst T enc dec) (textdoc_spec T enc dec).
Proof.
  constructor; cbn [textdoc_inst textdoc_spec st_id st_item st_eqb st_writes st_del_keys st_read st_id_from_key
                     st_self_dirty st_clear_dirty sp_norm sp_valid sp_deletable st_dels].
  - exact u64_eqb_spec.
  - intros i g g' H. now rewrite (H _ (or_introl eq_refl)).
  - intros i j k [<-|[]] [E|[]]. symmetry. now apply doc_key_u64_inj.
  - intros i v k a. destruct (snd v =? 0); intros [E|[]]; inversion E; now left.
  - intros k i H. left. symmetry. now apply doc_idfk_inv.
  - intros i v g Hv. apply N.eqb_neq in Hv. rewrite Hv. kvs. cbn [option_map]. now rewrite dec_enc.
  - intros i g _. unfold st_dels. cbn [st_del_keys textdoc_inst]. kvs. reflexivity.
  - auto.
  - auto.
  - auto.
  - auto.
  - auto.
  - auto.
  - auto.
  - auto.
Qed.

Lemma textdoc_enumerable : Enumerable (textdoc_inst T enc dec).
Proof.
  constructor; cbn [textdoc_inst st_read st_id_from_key].
  - intros i g w H. exists (doc_key (u64_val i)). split.
    + destruct (g (doc_key (u64_val i))); [discriminate|discriminate H].
    + apply doc_idfk_key.
  - intros i g k Hk Hi. rewrite (doc_idfk_inv k i Hi) in Hk.
    destruct (g (doc_key (u64_val i))); [discriminate|contradiction].
Qed.

Lemma textdoc_enum_unique g : enum_unique (textdoc_inst T enc dec) g.
Proof.
  intros k k' i _ _ H H'. cbn [textdoc_inst st_id_from_key] in H, H'.
  now rewrite (doc_idfk_inv k i H), (doc_idfk_inv k' i H').
Qed.
End TextDoc.

(* ======================================================================== *)
(* H. the statements of Props_C08                                            *)

Lemma perm_eq_length {A} (l l' : list A) : perm_eq l l' -> length l = length l'.
Proof. intros H. now inversion H. Qed.

Section Top.
Variable S : Storable.
Variable P : StorableSpec S.
Hypothesis LS : StorableLaws S P.

(* exact (un-normalised) listing of a fully loaded cache *)
Lemma listing_all_exact c g :
  inv S P c g -> c_all c = true -> Enumerable S ->
  NoDup (map fst (live_items S (c_items c))) /\
  forall i v, In (i, v) (live_items S (c_items c)) <-> absmap S c g i = Some v.
Proof.
  intros I Ha En. pose proof (inv_nodup S P c g I) as Hnd. split; [now apply live_items_nodup|].
  intros i v. rewrite (live_items_in S P LS) by exact Hnd. rewrite absmap_lookup. split.
  - intros [d E]. now rewrite E.
  - destruct (lookup S i (c_items c)) as [[[v' d] [|]]|] eqn:E; cbn [entry_abs]; try discriminate.
    + intros [= <-]. eauto.
    + intros R. exfalso. destruct (en_complete S En i g v R) as (k & Hk & Hi).
      exact (inv_all S P c g I Ha k i Hk Hi E).
Qed.

Lemma exact_listing_norm (m : amap S) l :
  NoDup (map fst l) -> (forall i v, In (i, v) l <-> m i = Some v) ->
  is_listing S (fun i => option_map (sp_norm P) (m i)) (norm_listing S P l).
Proof.
  intros Hnd Hin. split; [now rewrite norm_listing_fst|].
  intros i w. rewrite norm_listing_in. split.
  - intros (v & Hv & ->). apply Hin in Hv. now rewrite Hv.
  - destruct (m i) as [v|] eqn:E; [|discriminate]. intros [= <-]. exists v. split; [now apply Hin|reflexivity].
Qed.

Variable B : BucketImpl.
Hypothesis LB : BucketLaws B.

Lemma cache_ops_exact c b :
  let g := bk_get B b in
  inv S P c g ->
  (forall i r c', c_get S B i c b = (r, c') ->
     r = absmap S c g i /\ inv S P c' g /\ forall j, absmap S c' g j = absmap S c g j) /\
  (forall ids l c', c_get_many S B ids c b = (l, c') ->
     l = found S (absmap S c g) ids /\ inv S P c' g /\ forall j, absmap S c' g j = absmap S c g j) /\
  (forall i v, sp_valid P i v g ->
     inv S P (c_put S i v c) g /\
     forall j, absmap S (c_put S i v c) g j = if st_eqb S i j then Some v else absmap S c g j) /\
  (forall i, sp_deletable P = true ->
     inv S P (c_delete S B i c b) g /\
     forall j, absmap S (c_delete S B i c b) g j = if st_eqb S i j then None else absmap S c g j) /\
  (forall ok l c', c_foreach S B c b = (ok, l, c') ->
     inv S P c' g /\ (forall j, absmap S c' g j = absmap S c g j) /\
     (Enumerable S -> ok = true /\ NoDup (map fst l) /\ forall i v, In (i, v) l <-> absmap S c g i = Some v)) /\
  (Enumerable S -> enum_unique S g -> forall l, NoDup (map fst l) ->
     (forall i v, In (i, v) l <-> absmap S c g i = Some v) -> c_count S B c b = length l).
Proof.
  intros g I. csplit.
  - intros i r c' G. destruct (get_spec S B P LS c b i r c' I G) as (H1 & H2 & H3 & _). auto.
  - intros ids l c' G. destruct (get_many_spec S B P LS ids c b l c' I G) as (H1 & H2 & H3 & _). auto.
  - intros i v Hv. exact (put_spec S P LS c g i v I Hv).
  - intros i Hd. exact (delete_spec S B P LS c b i I Hd).
  - intros ok l c' G. destruct (foreach_spec S B P LB LS c b ok l c' I G) as (I1 & A1 & _ & L1). fold g in I1, A1, L1.
    csplit; auto. intros En. destruct (L1 En) as [-> _]. split; [reflexivity|].
    (* the cache after ForEach holds everything *)
    unfold c_foreach in G. destruct (c_all c) eqn:Ha.
    + inversion G; subst. apply (listing_all_exact c' g I Ha En).
    + destruct (load_keys S (bk_keys B b) (bk_get B b) (c_items c)) as [ok' l'] eqn:Ld.
      destruct ok'; inversion G; subst.
      destruct (listing_all_exact (mkCache l' true) g I1 eq_refl En) as [N1 M1]. cbn [c_items] in N1, M1.
      split; [exact N1|]. intros i v. now rewrite M1, A1.
  - intros En Hu l Hnd Hin.
    destruct (count_spec S B P LB LS c b I En Hu) as (l0 & L0 & ->).
    pose proof (exact_listing_norm (absmap S c g) l Hnd Hin) as L1.
    pose proof (perm_eq_length _ _ (listing_perm S _ l0 (norm_listing S P l) L0 L1)) as Hlen.
    rewrite Hlen. unfold norm_listing. now rewrite map_length.
Qed.

Lemma cache_refines_map ops c b c' b' xs :
  inv S P c (bk_get B b) -> wf_run S B P ops c b -> run S B ops c b = (c', b', xs) ->
  inv S P c' (bk_get B b') /\
  trace_ok S P (nabs S P c (bk_get B b)) ops xs /\
  amap_eq S (nabs S P c' (bk_get B b')) (spec_run S P ops (nabs S P c (bk_get B b))).
Proof.
  intros I W R. destruct (run_spec S B P LB LS ops c b c' b' xs I W R) as (H1 & H2 & H3 & _). auto.
Qed.

Lemma flush_persists c b c' b' :
  inv S P c (bk_get B b) -> c_flush S B c b = (c', b') ->
  (forall i, st_read S i (bk_get B b') = nabs S P c (bk_get B b) i) /\
  amap_eq S (nabs S P c_empty (bk_get B b')) (nabs S P c (bk_get B b)) /\
  amap_eq S (nabs S P c' (bk_get B b')) (nabs S P c (bk_get B b)) /\
  settled S P c' (bk_get B b') /\ inv S P c' (bk_get B b') /\ c_all c' = c_all c.
Proof.
  intros I F. destruct (flush_spec S B P LB LS c b c' b' I F) as (H1 & H2 & H3 & H4 & H5).
  csplit; auto. intros i. rewrite (cold_nabs S P LS). apply H1.
Qed.

Lemma warm_equals_cold ts1 ts2 b0 c1 b1 xs1 c2 b2 xs2 :
  Forall2 (same_history S) ts1 ts2 ->
  wf_txs S B P ts1 c_empty b0 -> wf_txs S B P ts2 c_empty b0 ->
  run_txs S B ts1 c_empty b0 = (c1, b1, xs1) -> run_txs S B ts2 c_empty b0 = (c2, b2, xs2) ->
  Forall2 (Forall2 (obs_equiv P)) xs1 xs2 /\
  amap_eq S (nabs S P c1 (bk_get B b1)) (nabs S P c2 (bk_get B b2)) /\
  amap_eq S (nabs S P c1 (bk_get B b1)) (nabs S P c_empty (bk_get B b1)) /\
  (forall i, st_read S i (bk_get B b1) = st_read S i (bk_get B b2)).
Proof.
  intros HF W1 W2 R1 R2.
  destruct (sim_txs S P B B LB LB LS ts1 ts2 c_empty b0 c_empty b0 c1 b1 xs1 c2 b2 xs2 HF
              (inv_empty S P _) (settled_empty S P _) (inv_empty S P _) (settled_empty S P _)
              (fun i => eq_refl) W1 W2 R1 R2) as (F & A & [I1 S1] & [I2 S2]).
  csplit; auto.
  - intros i. rewrite (settled_nabs S P LS c1 _ i S1). now rewrite (cold_nabs S P LS).
  - intros i. rewrite <- (settled_nabs S P LS c1 _ i S1), <- (settled_nabs S P LS c2 _ i S2). apply A.
Qed.
End Top.

Lemma backend_independent S P (LS : StorableLaws S P) B1 B2 (L1 : BucketLaws B1) (L2 : BucketLaws B2)
    ts1 ts2 b01 b02 c1 b1 xs1 c2 b2 xs2 :
  (forall i, st_read S i (bk_get B1 b01) = st_read S i (bk_get B2 b02)) ->
  Forall2 (same_history S) ts1 ts2 ->
  wf_txs S B1 P ts1 c_empty b01 -> wf_txs S B2 P ts2 c_empty b02 ->
  run_txs S B1 ts1 c_empty b01 = (c1, b1, xs1) -> run_txs S B2 ts2 c_empty b02 = (c2, b2, xs2) ->
  Forall2 (Forall2 (obs_equiv P)) xs1 xs2 /\
  amap_eq S (nabs S P c1 (bk_get B1 b1)) (nabs S P c2 (bk_get B2 b2)) /\
  (forall i, st_read S i (bk_get B1 b1) = st_read S i (bk_get B2 b2)).
Proof.
  intros H0 HF W1 W2 R1 R2.
  assert (A0 : amap_eq S (nabs S P c_empty (bk_get B1 b01)) (nabs S P c_empty (bk_get B2 b02))).
  { intros i. rewrite !(cold_nabs S P LS). apply H0. }
  destruct (sim_txs S P B1 B2 L1 L2 LS ts1 ts2 c_empty b01 c_empty b02 c1 b1 xs1 c2 b2 xs2 HF
              (inv_empty S P _) (settled_empty S P _) (inv_empty S P _) (settled_empty S P _)
              A0 W1 W2 R1 R2) as (F & A & [I1 S1] & [I2 S2]).
  csplit; auto.
  intros i. rewrite <- (settled_nabs S P LS c1 _ i S1), <- (settled_nabs S P LS c2 _ i S2). apply A.
Qed.

(* a bucket that is extensionally the same reads the same *)
Lemma kv_eq_read S P (LS : StorableLaws S P) g g' : kv_eq g g' -> forall i, st_read S i g = st_read S i g'.
Proof. intros H i. apply (sl_read_ext S P LS). intros k _. apply H. Qed.

(* ======================================================================== *)
(* I. what fails without the hypotheses: concrete witnesses                  *)

Definition id1 : u64id := exist _ 1 eq_refl.
Definition id2 : u64id := exist _ 2 eq_refl.

(* --- F3: with only 'v' accepted a quantised point has no enumerating key --- *)
Definition bq_cold_bucket : alist := [(nkey id1 sfx_q, edges_le [5])].
Definition bq_cold_item : bq_item := mkBq [] [5] false.

Lemma binary_v0_not_enumerable : ~ Enumerable binary_inst_v0.
Proof.
  intros En.
  destruct (en_complete _ En id1 (al_get bq_cold_bucket) bq_cold_item) as (k & Hk & Hi).
  - vm_compute. reflexivity.
  - unfold bq_cold_bucket in Hk. cbn [al_get] in Hk.
    destruct (bytes_eqb (nkey id1 sfx_q) k) eqn:E; [|contradiction].
    apply bytes_eqb_eq in E. subst k. vm_compute in Hi. discriminate.
Qed.

Lemma binary_idfromkey_witness :
  absmap binary_inst_v0 c_empty (al_get bq_cold_bucket) id1 = Some bq_cold_item /\
  fst (c_foreach binary_inst_v0 AL c_empty bq_cold_bucket) = (true, []) /\
  c_count binary_inst_v0 AL c_empty bq_cold_bucket = 0%nat /\
  fst (c_foreach binary_inst AL c_empty bq_cold_bucket) = (true, [(id1, bq_cold_item)]) /\
  c_count binary_inst AL c_empty bq_cold_bucket = 1%nat.
Proof. vm_compute. repeat split. Qed.

(* --- Count counts keys: a point fitted after it was stored has both keys --- *)
Definition bq_unfitted : bq_item := mkBq [1065353216] [] false.
Definition bq_fit (v : bq_item) : bq_item := mkBq (bq_vec v) [1] true.
Definition bq_fit_history : list (txn binary_inst) :=
  [ @mkTxn binary_inst false [@OPut binary_inst id1 bq_unfitted] TWrite;                (* stored before the quantiser is fitted: 'v' *)
    @mkTxn binary_inst false [@OModify binary_inst id1 bq_fit] TWrite ].                 (* Fit re-encodes in place: 'q' written, 'v' stays *)

Ltac eval_run_txn :=
  match goal with
  | |- context [run_txn ?S ?B ?t ?c ?b] =>
      let r := fresh "r" in set (r := run_txn S B t c b); vm_compute in r; subst r; cbv beta iota
  end.

Lemma bq_fit_history_wf : wf_txs binary_inst AL binary_spec bq_fit_history c_empty [].
Proof.
  unfold bq_fit_history. cbn [wf_txs]. split.
  - split; [|discriminate]. cbn [wf_run t_ops t_drop wf_op]. split; [|exact I].
    cbn [binary_spec binary_spec_with sp_valid]. unfold bq_valid, bq_unfitted. cbn [bq_vec bq_code].
    split; [repeat constructor|]. split; [constructor|]. right. split; [discriminate|reflexivity].
  - eval_run_txn. split; [|exact I]. split; [|discriminate].
    cbn [wf_run t_ops t_drop wf_op]. split; [|exact I]. split.
    + intros v v' _. reflexivity.
    + intros v Hv. vm_compute in Hv. injection Hv as <-.
      right. split; [reflexivity|].
      cbn [binary_spec binary_spec_with sp_valid]. unfold bq_valid, bq_fit. cbn [bq_vec bq_code].
      split; [repeat constructor|]. split; [repeat constructor|]. left. discriminate.
Qed.

Lemma binary_count_witness :
  let '(c, b, _) := run_txs binary_inst AL bq_fit_history c_empty [] in
  c_count binary_inst AL c_empty b = 2%nat /\
  length (snd (fst (c_foreach binary_inst AL c_empty b))) = 1%nat /\
  c_count binary_inst AL c b = 1%nat /\
  ~ enum_unique binary_inst (al_get b).
Proof.
  set (r := run_txs binary_inst AL bq_fit_history c_empty []). vm_compute in r. subst r. cbv beta iota.
  split; [vm_compute; reflexivity|]. split; [vm_compute; reflexivity|]. split; [vm_compute; reflexivity|].
  intros Hu.
  specialize (Hu (nkey id1 sfx_q) (nkey id1 sfx_v) id1).
  assert (E : nkey id1 sfx_q = nkey id1 sfx_v); [|apply nkey_inj in E; destruct E; discriminate].
  apply Hu; vm_compute; congruence.
Qed.

(* --- posting sets cannot be enumerated: an absent term reads as the empty set --- *)
Lemma textset_not_enumerable enc dec : ~ Enumerable (textset_inst enc dec).
Proof.
  intros En. destruct (en_complete _ En [] kv_empty ([], false) eq_refl) as (k & Hk & _).
  now apply Hk.
Qed.

(* --- IsDirty short-circuits CheckAndClearDirty: a point that was Put and then
       re-encoded in the same transaction keeps its own flag after Flush --- *)
Lemma selfdirty_leftover_witness :
  let c := c_modify binary_inst AL id1 bq_fit (c_put binary_inst id1 bq_unfitted c_empty) [] in
  let '(c', b') := c_flush binary_inst AL c [] in
  c_items c' = [(id1, (bq_fit bq_unfitted, false, false))] /\
  st_self_dirty binary_inst (bq_fit bq_unfitted) = true /\
  bq_read id1 (al_get b') = Some (bq_norm (bq_fit bq_unfitted)).
Proof. vm_compute. repeat split. Qed.

(* --- F6: a cache registered from a snapshot that predates a commit --- *)
Definition vecA : list N := [1065353216].      (* 1.0 *)
Definition vecB : list N := [1073741824].      (* 2.0 *)
Definition stale_b0 : alist := [(nkey id1 sfx_v, f32s_le vecA)].
Definition stale_reader : list (op plain_inst) := [@OGet plain_inst id1].
Definition stale_writer : list (op plain_inst) := [@OPut plain_inst id1 vecB].

Lemma stale_witness :
  let '(cr, b1) := stale_state plain_inst AL stale_reader stale_writer stale_b0 in
  inv plain_inst plain_spec cr (al_get stale_b0) /\
  settled plain_inst plain_spec cr (al_get stale_b0) /\
  fst (c_get plain_inst AL id1 cr b1) = Some vecA /\
  fst (c_get plain_inst AL id1 c_empty b1) = Some vecB /\
  nabs plain_inst plain_spec cr (al_get b1) id1 <> nabs plain_inst plain_spec c_empty (al_get b1) id1 /\
  ~ inv plain_inst plain_spec cr (al_get b1).
Proof.
  assert (Hrun : run plain_inst AL stale_reader c_empty stale_b0 =
                 (@mkCache plain_inst [(id1, (vecA, false, false))] false, stale_b0, [@ObsGet plain_inst (Some vecA)])) by (vm_compute; reflexivity).
  assert (I0 : inv plain_inst plain_spec (@mkCache plain_inst [(id1, (vecA, false, false))] false) (al_get stale_b0) /\
               settled plain_inst plain_spec (@mkCache plain_inst [(id1, (vecA, false, false))] false) (al_get stale_b0)).
  { pose proof (run_spec plain_inst AL plain_spec AL_laws plain_laws stale_reader c_empty stale_b0 _ _ _
                  (inv_empty _ _ _) (conj I I) Hrun) as (H1 & _ & _ & H4).
    split; [exact H1|]. destruct (H4 eq_refl) as [_ H5]. apply H5. apply settled_empty. }
  unfold stale_state. rewrite Hrun.
  replace (run_txn plain_inst AL (mkTxn false stale_writer TWrite) c_empty stale_b0)
    with (@mkCache plain_inst [(id1, (vecB, false, false))] false, [(nkey id1 sfx_v, f32s_le vecB)], [@ObsUnit plain_inst])
    by (vm_compute; reflexivity).
  destruct I0 as [I0 S0]. split; [exact I0|]. split; [exact S0|].
  split; [vm_compute; reflexivity|]. split; [vm_compute; reflexivity|].
  split; [vm_compute; discriminate|].
  intros Hinv. pose proof (inv_clean _ _ _ _ Hinv id1 vecA) as Hc.
  assert (E : Some vecB = Some vecA) by (apply Hc; vm_compute; reflexivity).
  vm_compute in E. discriminate.
Qed.

(* a failed transaction whose cache is NOT scrapped would leave the same kind
   of state behind: unflushed entries over a rolled-back bucket *)
Lemma noscrap_witness :
  let c := c_put plain_inst id1 vecB c_empty in
  absmap plain_inst c (al_get stale_b0) id1 = Some vecB /\
  absmap plain_inst c_empty (al_get stale_b0) id1 = Some vecA.
Proof. vm_compute. split; reflexivity. Qed.

(* ---- the refutations in the form Props_C08 states them ---- *)
Lemma binary_idfromkey_refuted :
  ~ Enumerable binary_inst_v0 /\
  exists (b : alist) (i : u64id) (v : bq_item),
    absmap binary_inst_v0 c_empty (al_get b) i = Some v /\
    fst (c_foreach binary_inst_v0 AL c_empty b) = (true, []) /\
    c_count binary_inst_v0 AL c_empty b = 0%nat /\
    fst (c_foreach binary_inst AL c_empty b) = (true, [(i, v)]) /\
    c_count binary_inst AL c_empty b = 1%nat.
Proof.
  split; [exact binary_v0_not_enumerable|].
  exists bq_cold_bucket, id1, bq_cold_item. exact binary_idfromkey_witness.
Qed.

Lemma binary_count_refuted :
  exists ts : list (txn binary_inst),
    wf_txs binary_inst AL binary_spec ts c_empty [] /\
    let '(c, b, _) := run_txs binary_inst AL ts c_empty [] in
    c_count binary_inst AL c_empty b = 2%nat /\
    length (snd (fst (c_foreach binary_inst AL c_empty b))) = 1%nat /\
    c_count binary_inst AL c b = 1%nat /\
    ~ enum_unique binary_inst (al_get b).
Proof. exists bq_fit_history. split; [exact bq_fit_history_wf|exact binary_count_witness]. Qed.

Lemma stale_refuted :
  exists (b0 : alist) (reader_ops writer_ops : list (op plain_inst)) (i : u64id),
    let '(cr, b1) := stale_state plain_inst AL reader_ops writer_ops b0 in
    inv plain_inst plain_spec cr (al_get b0) /\
    settled plain_inst plain_spec cr (al_get b0) /\
    fst (c_get plain_inst AL i cr b1) <> fst (c_get plain_inst AL i c_empty b1) /\
    nabs plain_inst plain_spec cr (al_get b1) i <> nabs plain_inst plain_spec c_empty (al_get b1) i /\
    ~ inv plain_inst plain_spec cr (al_get b1).
Proof.
  exists stale_b0, stale_reader, stale_writer, id1.
  pose proof stale_witness as H.
  destruct (stale_state plain_inst AL stale_reader stale_writer stale_b0) as [cr b1].
  destruct H as (H1 & H2 & H3 & H4 & H5 & H6). csplit; auto.
  rewrite H3, H4. vm_compute. discriminate.
Qed.

Lemma flush_selfdirty_leftover :
  exists (c : cache binary_inst) (b : alist),
    inv binary_inst binary_spec c (al_get b) /\
    let '(c', b') := c_flush binary_inst AL c b in
    exists i v, c_items c' = [(i, (v, false, false))] /\ st_self_dirty binary_inst v = true /\
                st_read binary_inst i (al_get b') = Some (sp_norm binary_spec v).
Proof.
  exists (c_modify binary_inst AL id1 bq_fit (c_put binary_inst id1 bq_unfitted c_empty) []), [].
  split.
  - assert (I1 : inv binary_inst binary_spec (c_put binary_inst id1 bq_unfitted c_empty) (al_get [])).
    { apply (put_spec binary_inst binary_spec binary_inst_laws); [apply inv_empty|].
      cbn [binary_spec binary_spec_with sp_valid]. unfold bq_valid, bq_unfitted. cbn [bq_vec bq_code].
      split; [repeat constructor|]. split; [constructor|]. right. split; [discriminate|reflexivity]. }
    apply (modify_spec binary_inst AL binary_spec binary_inst_laws _ [] id1 bq_fit I1).
    intros v Hv. vm_compute in Hv. injection Hv as <-. right. split; [reflexivity|].
    cbn [binary_spec binary_spec_with sp_valid]. unfold bq_valid, bq_fit. cbn [bq_vec bq_code].
    split; [repeat constructor|]. split; [repeat constructor|]. left. discriminate.
  - pose proof selfdirty_leftover_witness as H. cbv zeta in H.
    destruct (c_flush binary_inst AL _ []) as [c' b']. destruct H as (H1 & H2 & H3).
    exists id1, (bq_fit bq_unfitted). auto.
Qed.
