(* Props_C01.v -- property C01: stored points follow the documented insert /
   update / delete semantics.  Only statements; every proof is `exact <lemma>`.

   S = the plain-map reference spec of Model_C01.v (insert_spec / update_spec /
   delete_spec / apply_spec, runS); M = the bucket-level mechanism model of
   Model_C01M.v (runM; the node ids the allocator hands out are an input,
   checked for legality).  Quantifiers: every index schema, every size limit,
   every finite history of batches (any ids, any documents), every resolution
   of the node-id choices. *)
From Coq Require Import List NArith ZArith Bool.
From Semadb Require Import Bytes U64 Value Obs KeyLayout Model_C19 Model_C01 Model_C01M Proofs_C01.
Import ListNotations.
Open Scope N_scope.

(* ---- M refines S: same ids, same documents, same outputs, same count ---- *)
Theorem c01_refines :
  forall (sc : schema) (maxsize : N) (h : list batch) (css : list (list N)) (m : mstate) (outs : list sout),
    runM sc maxsize h css m_init = Some (m, outs) ->
    store_same (abs m) (fst (runS sc maxsize h [])) /\
    store_equiv (abs m) (fst (runS sc maxsize h [])) /\
    outs = snd (runS sc maxsize h []).
Proof. exact refines. Qed.
Print Assumptions c01_refines.

Theorem c01_count :
  forall (sc : schema) (maxsize : N) (h : list batch) (css : list (list N)) (m : mstate) (outs : list sout),
    runM sc maxsize h css m_init = Some (m, outs) ->
    count m = N.of_nat (length (fst (runS sc maxsize h []))).
Proof. exact refines_count. Qed.
Print Assumptions c01_count.

(* the same in terms of the boolean the correspondence run uses (store_eqb: equal id sets, doc_eqb documents),
   for histories whose documents have unique keys (decoded msgpack maps) *)
Theorem c01_refines_eqb :
  forall (sc : schema) (maxsize : N) (h : list batch) (css : list (list N)) (m : mstate) (outs : list sout),
    hist_wf h -> runM sc maxsize h css m_init = Some (m, outs) ->
    store_eqb (abs m) (fst (runS sc maxsize h [])) = true.
Proof. exact refines_eqb. Qed.
Print Assumptions c01_refines_eqb.

(* reads by id: GetPointByUUID on M's bucket = the document abs / S hold *)
Theorem c01_reads :
  forall (sc : schema) (maxsize : N) (m : mstate), reachable sc maxsize m ->
    forall u, lookup (pts m) u = st_get u (abs m).
Proof. exact reads. Qed.
Print Assumptions c01_reads.

(* ---- the invariant holds in every reachable M state ---- *)
Theorem c01_inv : forall (sc : schema) (maxsize : N) (m : mstate), reachable sc maxsize m -> InvM m.
Proof. exact reachable_inv. Qed.
Print Assumptions c01_inv.

(* ---- a rejected batch leaves M, hence abs, unchanged ---- *)
Theorem c01_failed_batch_noop :
  forall (sc : schema) (maxsize : N) (b : batch) (cs : list N) (m m' : mstate) (es : list N),
    m_apply sc maxsize b cs m = Some (m', SErr es) -> m' = m /\ abs m' = abs m.
Proof. exact failed_batch_noop. Qed.
Print Assumptions c01_failed_batch_noop.

(* ---- the allocator can always proceed (runM is not vacuously None) ---- *)
Theorem c01_choice_exists :
  forall (sc : schema) (maxsize : N) (b : batch) (m : mstate),
    nextfree m + batch_points b < two64 -> exists cs, m_apply sc maxsize b cs m <> None.
Proof. exact choice_exists. Qed.
Print Assumptions c01_choice_exists.

Theorem c01_run_exists :
  forall (sc : schema) (maxsize : N) (h : list batch),
    first_node_id + hist_points h < two64 ->
    exists css m outs, runM sc maxsize h css m_init = Some (m, outs).
Proof. exact run_exists_init. Qed.
Print Assumptions c01_run_exists.

(* ---- what the property text says about S ---- *)
(* an insert is rejected as a whole iff an id repeats, an id is stored already,
   or a document is ill-typed for the schema; otherwise it adds exactly the batch *)
Theorem c01_spec_insert_rejects :
  forall (sc : schema) (ps : list (uuid * doc)) (s : store),
    (insert_bad sc ps s -> exists es, es <> [] /\ insert_spec sc ps s = (s, SErr es)) /\
    (~ insert_bad sc ps s ->
       snd (insert_spec sc ps s) = SOk [] /\
       forall id, st_get id (fst (insert_spec sc ps s)) =
                  match st_get id ps with Some d => Some d | None => st_get id s end).
Proof. exact spec_insert_rejects. Qed.
Print Assumptions c01_spec_insert_rejects.

(* the ids an update reports are exactly the requested ids that existed; no id appears or disappears *)
Theorem c01_spec_update_reports :
  forall (sc : schema) (maxsize : N) (ps : list (uuid * doc)) (s s' : store) (ids : list uuid),
    update_spec sc maxsize ps s = (s', SOk ids) ->
    (forall id, In id ids <-> (In id (map fst ps) /\ st_get id s <> None)) /\
    (forall id, st_get id s' <> None <-> st_get id s <> None).
Proof. exact spec_update_reports. Qed.
Print Assumptions c01_spec_update_reports.

(* the shallow merge, key by key: "_delete" removes, any other value overwrites, other keys stay *)
Theorem c01_spec_merge :
  forall (inc old : doc) (k : bytes), NoDup (map fst inc) ->
    doc_get k (merge_doc delete_value old inc) =
    match doc_get k inc with Some v => merge_entry delete_value v | None => doc_get k old end.
Proof. exact spec_merge. Qed.
Print Assumptions c01_spec_merge.

(* a delete reports exactly the requested ids that existed, removes them, and touches nothing else *)
Theorem c01_spec_delete_reports :
  forall (ids : list uuid) (s s' : store) (known : list uuid),
    delete_spec ids s = (s', SOk known) ->
    NoDup known /\
    (forall id, In id known <-> (In id ids /\ st_get id s <> None)) /\
    (forall id, In id ids -> st_get id s' = None) /\
    (forall id, ~ In id ids -> st_get id s' = st_get id s).
Proof. exact spec_delete_reports. Qed.
Print Assumptions c01_spec_delete_reports.

Theorem c01_spec_rejected_unchanged :
  forall (sc : schema) (maxsize : N) (b : batch) (s : store) (es : list N),
    snd (apply_spec sc maxsize b s) = SErr es -> fst (apply_spec sc maxsize b s) = s.
Proof. exact spec_rejected_unchanged. Qed.
Print Assumptions c01_spec_rejected_unchanged.

(* a string or string-array index cannot hold the empty string (the file store refuses the empty key when the
   index is flushed): an insert batch that carries one at an indexed path is rejected as a whole *)
Theorem c01_spec_empty_key_rejected :
  forall (sc : schema) (ps : list (uuid * doc)) (s : store) (p : uuid * doc) (path : bytes) (cs : bool),
    In p ps ->
    (In (path, IStr cs) sc /\ prop_value path (snd p) = QFound (VStr [])) \/
    (In (path, IStrArr cs) sc /\ exists l, prop_value path (snd p) = QFound (VArr l) /\ In (VStr []) l) ->
    exists es, es <> [] /\ insert_spec sc ps s = (s, SErr es).
Proof. exact spec_empty_key_rejected. Qed.
Print Assumptions c01_spec_empty_key_rejected.

(* ---- the checker that judges dumped buckets is sound ---- *)
Theorem c01_dump_checker_sound : forall d : dump, dump_inv_b d = true -> DumpInv d.
Proof. exact dump_checker_sound. Qed.
Print Assumptions c01_dump_checker_sound.

(* ---- boolean mirrors ---- *)
Theorem c01_store_equivb_spec : forall a b : store, store_equivb a b = true <-> store_equiv a b.
Proof. exact store_equivb_spec. Qed.
Print Assumptions c01_store_equivb_spec.
Theorem c01_doc_eqb_sound : forall a b : doc, doc_eqb a b = true -> doc_equiv a b.
Proof. exact doc_eqb_sound. Qed.
Print Assumptions c01_doc_eqb_sound.

(* ======================= examples ========================================= *)
(* a history with re-insertion of a deleted id, node-id reuse, an empty
   document, a "_delete", a duplicate-id insert, an insert of an existing id,
   an update of an unknown id and a delete of an unknown id; 3 live points at
   the end *)
Definition ua : uuid := repeat 1 16.
Definition ub : uuid := repeat 2 16.
Definition uc : uuid := repeat 3 16.
Definition ud : uuid := repeat 4 16.
Definition kx : bytes := [120].
Definition ky : bytes := [121].
Definition ex_h : list batch :=
  [ BInsert [(ua, [(kx, VInt 1)]); (ub, []); (uc, [(kx, VInt 3); (ky, VStr [104; 105])])];
    BInsert [(ud, []); (ud, [])];                                 (* duplicate id: rejected *)
    BInsert [(ud, []); (ua, [])];                                 (* ua exists: rejected *)
    BDelete [ub; ud];                                             (* ud unknown *)
    BUpdate [(uc, [(ky, VStr delete_value); (kx, VInt 4)]); (ud, [(kx, VInt 9)])];
    BInsert [(ud, [(ky, VBool true)])];                           (* reuses node id 3 *)
    BDelete [ua];
    BInsert [(ua, []); (ub, [(kx, VNil)])];                       (* re-insertion; ids 2 and 5 *)
    BDelete [uc] ].
Definition ex_css : list (list N) := [[2; 3; 4]; []; []; []; []; [3]; []; [2; 5]; []].

Example c01_example_run :
  exists m outs,
    runM [] 1000 ex_h ex_css m_init = Some (m, outs) /\
    outs = [SOk []; SErr [ERR_DUP]; SErr [ERR_EXISTS]; SOk [ub]; SOk [uc]; SOk []; SOk [ua]; SOk []; SOk [uc]] /\
    count m = 3 /\ free m = [4] /\ nextfree m = 6 /\
    store_equivb (abs m) [(ua, []); (ub, [(kx, VNil)]); (ud, [(ky, VBool true)])] = true /\
    store_equivb (abs m) (fst (runS [] 1000 ex_h [])) = true.
Proof. eexists. eexists. vm_compute. repeat split; reflexivity. Qed.

Example c01_example_hist_wf : hist_wf ex_h.
Proof. repeat constructor; cbn; intuition discriminate. Qed.

(* the choice [4] instead of [3] (not the free id) is illegal, and so is a fresh id while the free list is non-empty *)
Example c01_example_illegal_choice :
  runM [] 1000 ex_h [[2; 3; 4]; []; []; []; []; [6]; []; [2; 5]; []] m_init = None /\
  runM [] 1000 ex_h [[2; 3; 4]; []; []; []; []; [4]; []; [2; 5]; []] m_init = None.
Proof. vm_compute. split; reflexivity. Qed.

(* hypotheses of c01_inv / c01_reads: a reachable state with live and free ids *)
Example c01_example_reachable :
  exists m, reachable [] 1000 m /\ length (abs m) = 3%nat /\ free m = [4].
Proof.
  destruct c01_example_run as (m & outs & H & _ & _ & Hf & _ & He & _).
  exists m. split; [now exists ex_h, ex_css, outs|]. split; [|assumption].
  revert H. vm_compute. intros H. inversion H. reflexivity.
Qed.

(* hypothesis of c01_failed_batch_noop: an insert of an existing id on a non-empty state *)
Example c01_example_rejected :
  exists m, m_apply [] 1000 (BInsert [(ua, [])]) [] m = Some (m, SErr [ERR_EXISTS]) /\ pts m <> [].
Proof.
  exists (mkM (set_point [] 2 ua []) 1 [] 3). vm_compute. split; [reflexivity|discriminate].
Qed.

(* hypothesis of c01_dump_checker_sound: a dump with two live points and one free id *)
Definition ex_dump : dump :=
  mkDump [(k_uuid 2, ua); (k_uuid 4, ub); (k_node ua, u64_le 2); (k_node ub, u64_le 4)]
         [(k_data 2, []); (k_data 4, [(kx, VInt 1)])]
         [(free_node_ids_key, edges_le [3]); (next_free_node_id_key, u64_le 5); (point_count_key, u64_le 2)].
Example c01_example_dump :
  dump_inv_b ex_dump = true /\ dump_live ex_dump = [2; 4] /\ dump_free ex_dump = [3] /\
  dump_abs ex_dump = [(ua, []); (ub, [(kx, VInt 1)])] /\
  (* and the checker refuses a free id that is live, a missing inverse entry, a wrong count *)
  dump_inv_b (mkDump (d_points ex_dump) (d_docs ex_dump)
                     [(free_node_ids_key, edges_le [4]); (next_free_node_id_key, u64_le 5); (point_count_key, u64_le 2)]) = false /\
  dump_inv_b (mkDump (tl (d_points ex_dump)) (d_docs ex_dump) (d_internal ex_dump)) = false /\
  dump_inv_b (mkDump (d_points ex_dump) (d_docs ex_dump)
                     [(free_node_ids_key, edges_le [3]); (next_free_node_id_key, u64_le 5); (point_count_key, u64_le 3)]) = false.
Proof. vm_compute. repeat split; reflexivity. Qed.

(* hypothesis of the spec lemmas *)
Example c01_example_spec :
  insert_bad [] [(ua, []); (ua, [])] [] /\
  ~ insert_bad [] [(ua, []); (ub, [])] [] /\
  snd (update_spec [] 1000 [(ua, [(kx, VInt 1)]); (ub, [])] [(ua, [])]) = SOk [ua] /\
  snd (delete_spec [ua; ub; ua] [(ua, [])]) = SOk [ua].
Proof.
  split; [left; intros H; inversion H as [|? ? H1 H2]; apply H1; now left|].
  split; [|split; reflexivity].
  intros [H|[(p & Hp & Hm)|(p & Hp & Hm)]].
  - apply H. repeat constructor; cbn; intuition discriminate.
  - now apply Hm.
  - destruct Hp as [<-|[<-|[]]]; discriminate.
Qed.

(* hypothesis of c01_spec_empty_key_rejected: tags = ["a"; ""] under a string-array index on "tags" *)
Example c01_example_empty_key :
  insert_spec [([116; 97; 103; 115], IStrArr false)] [(ua, [([116; 97; 103; 115], VArr [VStr [97]; VStr []])])] [] = ([], SErr [ERR_TYPE]) /\
  insert_spec [([116; 97; 103; 115], IStrArr false)] [(ua, [([116; 97; 103; 115], VArr [VStr [97]; VStr [98]])])] [] =
    ([(ua, [([116; 97; 103; 115], VArr [VStr [97]; VStr [98]])])], SOk []).
Proof. vm_compute. split; reflexivity. Qed.
