(* Model_C16.v -- tenant isolation (definitions only).

   What is modelled (cluster/rpchandlers.go, cluster/actions.go,
   cluster/shardmgr.go, httpapi/{middleware/appheaders.go,v1,v2}):

   * node database, bucket userCollections: key  userId ++ "/" ++ collectionId
     ([rec_key]), value = the stored models.Collection ([record]: UserId, Id,
     ShardIds).  RPCCreateCollection counts the keys with prefix userId ++ "/"
     for the quota, RPCListCollections returns the values of that prefix scan
     ([scan]; KV.bbolt_prefix_spec: the bbolt cursor loop IS this filter).
   * directories: filepath.Join(RootDir, "userCollections", UserId,
     CollectionId, shardId).  [join_clean] has the semantics of
     filepath.Join / Clean restricted to '/', ".", ".." and empty elements on a
     rooted path.  The file system is the set of shard directories (full
     cleaned paths) with an abstract content of the shard file each;
     intermediate directories exist iff something is below them.
   * DeleteCollectionShards: ReadDir(collectionDir), RemoveAll of every
     sub-directory, then Remove of the (now empty) collection and user
     directory = every shard directory strictly below collectionDir disappears.
   * the requests of one user as a state machine [step]; every request first
     fetches the record by the key built from the REQUEST's user and
     collection id and afterwards works with the fields of the STORED record
     (as CollectionURIMiddleware + DeleteCollection / InsertPoints do).
   * [http_step] = [step] behind the X-User-Id check of fix 6ba5263;
     the pinned tree is [step] itself (no check).
   * [view]: everything user u can observe. *)
From Coq Require Import List NArith Bool Arith.
From Semadb Require Import Bytes KV.
Import ListNotations.
Open Scope N_scope.

(* ------------------------------------------------------------ bytes ---- *)
Definition slash : N := 47.
Definition bslash : N := 92.
Definition dot : bytes := [46].
Definition dotdot : bytes := [46; 46].
(* "userCollections" *)
Definition ucols : bytes := [117;115;101;114;67;111;108;108;101;99;116;105;111;110;115].

Fixpoint has_byte (x : N) (b : bytes) : bool :=
  match b with [] => false | y :: r => (y =? x) || has_byte x r end.

(* a directory-level-neutral, delimiter-free name *)
Definition no_slash (b : bytes) : Prop := ~ In slash b.
Definition plain (b : bytes) : Prop := ~ In slash b /\ b <> [] /\ b <> dot /\ b <> dotdot.
Definition plain_b (b : bytes) : bool :=
  negb (has_byte slash b) && negb (bytes_eqb b []) && negb (bytes_eqb b dot) && negb (bytes_eqb b dotdot).

(* AppHeaderMiddleware after fix 6ba5263: non-empty, not "." or "..", no '/' and no '\' *)
Definition user_ok_b (u : bytes) : bool := plain_b u && negb (has_byte bslash u).

(* --------------------------------------------------- association lists -- *)
Section Assoc.
  Context {K V : Type} (eqb : K -> K -> bool).
  Fixpoint al_get (l : list (K * V)) (k : K) : option V :=
    match l with [] => None | (k', v) :: t => if eqb k' k then Some v else al_get t k end.
  Fixpoint al_put (l : list (K * V)) (k : K) (v : V) : list (K * V) :=
    match l with
    | [] => [(k, v)]
    | (k', v') :: t => if eqb k' k then (k, v) :: t else (k', v') :: al_put t k v
    end.
  Fixpoint al_remove (l : list (K * V)) (k : K) : list (K * V) :=
    match l with
    | [] => []
    | (k', v') :: t => if eqb k' k then al_remove t k else (k', v') :: al_remove t k
    end.
End Assoc.

(* ------------------------------------------------------- node database -- *)
Definition rec_key (u c : bytes) : bytes := u ++ [slash] ++ c.
Definition user_prefix (u : bytes) : bytes := u ++ [slash].

Record record := mkrec { r_user : bytes; r_col : bytes; r_shards : list bytes }.
Definition db := list (bytes * record).

Definition db_get (d : db) (k : bytes) : option record := al_get bytes_eqb d k.
Definition db_put (d : db) (k : bytes) (r : record) : db := al_put bytes_eqb d k r.
Definition db_remove (d : db) (k : bytes) : db := al_remove bytes_eqb d k.

(* Bucket.PrefixScan: the entries whose key has the prefix (KV.mem_prefix on the keys;
   equal to the bbolt cursor loop KV.bbolt_prefix on a sorted bucket) *)
Definition scan (d : db) (p : bytes) : db := filter (fun kv => is_prefix p (fst kv)) d.

Definition user_count (d : db) (u : bytes) : N := N.of_nat (length (scan d (user_prefix u))).
Definition list_collections (d : db) (u : bytes) : list bytes :=
  map (fun kv => r_col (snd kv)) (scan d (user_prefix u)).
Definition get_collection (d : db) (u c : bytes) : option record := db_get d (rec_key u c).

(* -------------------------------------------------------- directories --- *)
Definition path := list bytes.

(* strings.Split(s, "/") *)
Fixpoint split_slash (b : bytes) : list bytes :=
  match b with
  | [] => [[]]
  | x :: r =>
      if x =? slash then [] :: split_slash r
      else match split_slash r with
           | h :: t => (x :: h) :: t
           | [] => [[x]]
           end
  end.

(* one step of Clean on a rooted path; the stack holds the segments so far, last one first *)
Definition push_seg (stk : list bytes) (s : bytes) : list bytes :=
  if bytes_eqb s [] || bytes_eqb s dot then stk
  else if bytes_eqb s dotdot then tl stk
  else s :: stk.
Definition clean_segs (segs : list bytes) : path := rev (fold_left push_seg segs []).
(* filepath.Join(parts...) = Clean(strings.Join(parts, "/")) *)
Definition join_clean (parts : list bytes) : path := clean_segs (flat_map split_slash parts).

Definition user_dir (root u : bytes) : path := join_clean [root; ucols; u].
Definition collection_dir (root u c : bytes) : path := join_clean [root; ucols; u; c].
Definition shard_dir (root u c s : bytes) : path := join_clean [root; ucols; u; c; s].

Fixpoint path_eqb (a b : path) : bool :=
  match a, b with
  | [], [] => true
  | x :: a', y :: b' => bytes_eqb x y && path_eqb a' b'
  | _, _ => false
  end.
(* d lies strictly below the directory p *)
Fixpoint strictly_below (p d : path) : bool :=
  match p, d with
  | [], _ :: _ => true
  | x :: p', y :: d' => bytes_eqb x y && strictly_below p' d'
  | _, _ => false
  end.

(* shard directory -> abstract content of its shard file *)
Definition fs := list (path * N).
Definition fs_get (f : fs) (p : path) : option N := al_get path_eqb f p.
Definition fs_put (f : fs) (p : path) (x : N) : fs := al_put path_eqb f p x.
(* os.MkdirAll + open: an existing shard keeps its content *)
Definition fs_mkdir (f : fs) (p : path) : fs :=
  match fs_get f p with Some _ => f | None => fs_put f p 0 end.

Definition below_b (p : path) (e : path * N) : bool := strictly_below p (fst e).

(* ShardManager.DeleteCollectionShards *)
Definition delete_collection_shards (f : fs) (root u c : bytes) : fs :=
  filter (fun e => negb (below_b (collection_dir root u c) e)) f.

(* ------------------------------------------------------------ requests -- *)
Record state := mkst { st_db : db; st_fs : fs }.

Definition is_lower (b : N) : bool := (97 <=? b) && (b <=? 122).
Definition is_upper (b : N) : bool := (65 <=? b) && (b <=? 90).
Definition is_digit (b : N) : bool := (48 <=? b) && (b <=? 57).
Definition len_between (lo hi : N) (c : bytes) : bool :=
  let n := N.of_nat (length c) in (lo <=? n) && (n <=? hi).
(* CreateCollectionRequest.Validate: v1 [a-zA-Z0-9]{3,16}, v2 [a-z0-9]{3,24} *)
Definition valid_col (v : N) (c : bytes) : bool :=
  if v =? 1 then len_between 3 16 c && forallb (fun b => is_lower b || is_upper b || is_digit b) c
  else len_between 3 24 c && forallb (fun b => is_lower b || is_digit b) c.
(* CollectionURIMiddleware: only the length of the path segment *)
Definition valid_uri (v : N) (c : bytes) : bool :=
  if v =? 1 then len_between 3 16 c else len_between 3 24 c.

Inductive op :=
| OCreate (v : N) (c : bytes) (maxc : N)      (* POST /collections, plan.MaxCollections = maxc *)
| OList                                        (* GET /collections *)
| OGet (v : N) (c : bytes)                     (* GET /collections/c *)
| ODelete (v : N) (c : bytes)                  (* DELETE /collections/c *)
| OCreateShard (v : N) (c s : bytes)           (* insert that makes RPCCreateShard return id s + loadShard *)
| OWriteShard (v : N) (c s : bytes) (x : N)    (* insert / update / delete points of shard s *)
| OReadShard (v : N) (c s : bytes)             (* search / shard info *)
| ODeleteShards (v : N) (c : bytes).           (* RPCDeleteCollectionShards alone *)

Inductive answer :=
| AInvalid | ACreated | AExists | AQuota | ANotFound | AOk
| AList (cols : list bytes)
| ACol (c : bytes) (shards : list bytes)
| AContent (x : option N).

Definition with_col (u : bytes) (v : N) (c : bytes) (st : state)
           (f : record -> state * answer) : state * answer :=
  if negb (valid_uri v c) then (st, AInvalid)
  else match get_collection (st_db st) u c with
       | None => (st, ANotFound)
       | Some r => f r
       end.

Definition has_shard (r : record) (s : bytes) : bool := existsb (bytes_eqb s) (r_shards r).

Definition step (root u : bytes) (o : op) (st : state) : state * answer :=
  let d := st_db st in
  let f := st_fs st in
  match o with
  | OCreate v c maxc =>
      if negb (valid_col v c) then (st, AInvalid)
      else match db_get d (rec_key u c) with
           | Some _ => (st, AExists)
           | None =>
               if maxc <=? user_count d u then (st, AQuota)
               else (mkst (db_put d (rec_key u c) (mkrec u c [])) f, ACreated)
           end
  | OList => (st, AList (list_collections d u))
  | OGet v c => with_col u v c st (fun r => (st, ACol (r_col r) (r_shards r)))
  | ODelete v c =>
      with_col u v c st (fun r =>
        (mkst (db_remove d (rec_key (r_user r) (r_col r)))
              (match r_shards r with
               | [] => f
               | _ :: _ => delete_collection_shards f root (r_user r) (r_col r)
               end), AOk))
  | OCreateShard v c s =>
      with_col u v c st (fun r =>
        (mkst (db_put d (rec_key (r_user r) (r_col r)) (mkrec (r_user r) (r_col r) (r_shards r ++ [s])))
              (fs_mkdir f (shard_dir root (r_user r) (r_col r) s)), AOk))
  | OWriteShard v c s x =>
      with_col u v c st (fun r =>
        if has_shard r s then (mkst d (fs_put f (shard_dir root (r_user r) (r_col r) s) x), AOk)
        else (st, ANotFound))
  | OReadShard v c s =>
      with_col u v c st (fun r =>
        if has_shard r s then (st, AContent (fs_get f (shard_dir root (r_user r) (r_col r) s)))
        else (st, ANotFound))
  | ODeleteShards v c =>
      with_col u v c st (fun r => (mkst d (delete_collection_shards f root (r_user r) (r_col r)), AOk))
  end.

(* the current tree: every request passes AppHeaderMiddleware first *)
Definition http_step (root u : bytes) (o : op) (st : state) : state * answer :=
  if user_ok_b u then step root u o st else (st, AInvalid).

Fixpoint run (root u : bytes) (os : list op) (st : state) : state :=
  match os with [] => st | o :: r => run root u r (fst (step root u o st)) end.
Fixpoint http_run (root u : bytes) (os : list op) (st : state) : state :=
  match os with [] => st | o :: r => http_run root u r (fst (http_step root u o st)) end.

(* interleaved histories of any number of users; the answers are kept with the user *)
Fixpoint run_all (root : bytes) (h : list (bytes * op)) (st : state) : state * list (bytes * answer) :=
  match h with
  | [] => (st, [])
  | (u, o) :: r =>
      let sa := step root u o st in
      let rest := run_all root r (fst sa) in
      (fst rest, (u, snd sa) :: snd rest)
  end.
Definition of_user {A} (u : bytes) (l : list (bytes * A)) : list (bytes * A) :=
  filter (fun e => bytes_eqb (fst e) u) l.

(* ---------------------------------------------------------------- view -- *)
(* what user u can observe: its records (hence the listing, every get-collection
   answer and the quota count) and every shard directory below userCollections/u *)
Record view := mkview { v_recs : db; v_count : N; v_dirs : fs }.
Definition view_of (root u : bytes) (st : state) : view :=
  mkview (scan (st_db st) (user_prefix u)) (user_count (st_db st) u)
         (filter (below_b (user_dir root u)) (st_fs st)).

(* well-formed node database: every entry sits under the key of its own fields,
   written by requests of plain users for validated collection ids, with
   server-generated (plain) shard ids *)
Definition rec_wf (kv : bytes * record) : Prop :=
  fst kv = rec_key (r_user (snd kv)) (r_col (snd kv)) /\
  plain (r_user (snd kv)) /\ plain (r_col (snd kv)) /\ Forall plain (r_shards (snd kv)).
Definition wf (st : state) : Prop := Forall rec_wf (st_db st).

(* shard ids named in a history are server-generated uuids *)
Definition op_ok (o : op) : Prop :=
  match o with OCreateShard _ _ s => plain s | _ => True end.
