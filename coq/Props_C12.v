(* Props_C12.v -- property C12: shard loading, idle unloading and collection deletion are
   safe and deadlock-free.  Statements only; proofs in Proofs_C12.v / Proofs_C12b.v.
   All theorems quantify over ARBITRARY schedules, any number of request threads, shard
   directories and deletions ([reachable] = any execution from any initial state
   [init ndirs specs]).  [fixed = true] is the current lock order of the idle routine,
   [fixed = false] the pinned one (mu kept while taking shardLock). *)
From Coq Require Import List Arith Bool Lia.
From Semadb Require Import Model_C12 Proofs_C12 Proofs_C12b.
Import ListNotations.

(* 1. Safety, for both lock orders: in every reachable state a callback runs only on an entry
   whose shard is open, on which the thread holds a read lock and whose directory exists; no
   shard file has two open handles; a directory with an open handle exists. *)
Theorem c12_safety : forall fixed st, reachable fixed st -> safe st.
Proof. exact safety. Qed.
Print Assumptions c12_safety.

(* 1b. The same as a statement about the removal step: when a deletion is about to
   os.RemoveAll a shard directory, no handle is open on it and no callback runs on it. *)
Theorem c12_remove_only_unused : forall fixed st n d r,
  reachable fixed st -> T st n = CDel (DRemove (d :: r)) ->
  d_handles (D st d) = 0 /\ forall m e, ~ uses (T st m) d e.
Proof. exact remove_safe. Qed.
Print Assumptions c12_remove_only_unused.

(* 2. The pinned lock order deadlocks: a reachable state with unfinished threads in which no
   thread can move (idle routine holds mu and waits for shardLock, the deletion holds
   shardLock and waits for mu). *)
Theorem c12_deadlock_refuted :
  exists st, reachable false st /\ unfinished st /\ forall t, step false st t = None.
Proof. exact deadlock_witness. Qed.
Print Assumptions c12_deadlock_refuted.

(* 3. Deadlock freedom of the current lock order: in every reachable state with an unfinished
   thread (a call that has not returned, or an idle routine that has not exited) some thread
   has an enabled step. *)
Theorem c12_progress : forall st, reachable true st -> unfinished st -> exists t, enabled true st t.
Proof. exact progress. Qed.
Print Assumptions c12_progress.

(* 4. Termination: every step strictly decreases [measure]; so every execution from st has at
   most [measure st] steps, whatever the schedule ... *)
Theorem c12_terminates : forall fixed st sched st',
  exec fixed st sched st' -> length sched + measure st' <= measure st.
Proof. exact exec_measure. Qed.
Print Assumptions c12_terminates.

(* ... and (current lock order) an execution that cannot be extended has finished every call
   and every idle routine.  With 3 and 4: under any schedule that keeps running enabled
   threads every shard-manager call returns. *)
Theorem c12_maximal_runs_finish : forall st,
  reachable true st -> (forall t, step true st t = None) -> forall t, finished st t = true.
Proof. exact maximal_finished. Qed.
Print Assumptions c12_maximal_runs_finish.

(* 5. Afterwards new requests can load shards again: in a reachable state where all calls have
   returned and no idle routine is in the middle of unloading, a new request on any directory
   runs alone to completion in 8 steps, its callback runs (result ok) and no lock stays held. *)
Theorem c12_reload_after : forall st d,
  reachable true st -> clients_done st -> idle_quiet st -> d < length (dirs st) ->
  let n := length (thr st) in
  exists st', exec true (add_req st d) (repeat (TC n) 8) st' /\
              T st' n = CReq d (RDone ROk) /\ locks_free st'.
Proof. exact reload_after. Qed.
Print Assumptions c12_reload_after.

(* 6. A request that obtained an entry whose shard is closed (it stands before RLock) never
   runs its callback, under any continuation, and if it returns, it returns the clean
   "already closed" error -- for both lock orders. *)
Theorem c12_stale_entry_clean_error : forall fixed st n d e sched,
  reachable fixed st -> T st n = CReq d (RRLock e) -> e_open (E st e) = false ->
  let st' := run fixed sched st in
  (exists p, T st' n = CReq d p /\ stale_pc e p = true) /\
  (forall e', T st' n <> CReq d (RBegin e') /\ T st' n <> CReq d (REnd e')) /\
  (forall r, T st' n = CReq d (RDone r) -> r = RClosed).
Proof. exact stale_entry_clean_error. Qed.
Print Assumptions c12_stale_entry_clean_error.

(* ------------------------------------------------------------------ *)
(* Examples: the hypotheses are satisfiable by non-trivial states *)

Definition reach_by (fixed : bool) (nd : nat) (specs : list spec) (sched : list tid) (st : state) : Prop :=
  exec_b fixed (init nd specs) sched = Some st.

Lemma reach_by_reachable : forall fixed nd specs sched st,
  forallb (fun s => match s with SReq d => d <? nd | SDel => true end) specs = true ->
  reach_by fixed nd specs sched st -> reachable fixed st.
Proof.
  intros fixed nd specs sched st Hok H. exists nd, specs, sched. split.
  - rewrite forallb_forall in Hok. apply Forall_forall. intros s Hs. specialize (Hok s Hs).
    destruct s; simpl in *; auto. apply Nat.ltb_lt. auto.
  - apply exec_b_sound. auto.
Qed.

(* two requests inside their callbacks on the same shard while the idle routine has announced
   mu.Lock(): a reachable state to which c12_safety applies non-trivially *)
Example ex_safety_state :
  exists st, reachable true st /\ uses (T st 0) 0 0 /\ uses (T st 1) 0 0 /\ e_idle (E st 0) = ILockPend
             /\ e_rd (E st 0) = [1; 0] /\ d_handles (D st 0) = 1.
Proof.
  destruct (exec_b true (init 1 [SReq 0; SReq 0])
              [TC 0; TC 0; TC 0; TC 0; TC 0; TC 0; TC 1; TC 1; TC 1; TC 1; TC 1; TC 1; TI 0; TI 0]) as [st|] eqn:Hx;
    [|vm_compute in Hx; discriminate].
  exists st. split; [eapply reach_by_reachable; [|exact Hx]; reflexivity|].
  vm_compute in Hx. inversion Hx. vm_compute. repeat split; auto.
Qed.

(* a deletion about to remove the directory of a shard that was loaded: c12_remove_only_unused *)
Example ex_remove_state :
  exists st, reachable true st /\ T st 1 = CDel (DRemove [0]) /\ d_exists (D st 0) = true.
Proof.
  destruct (exec_b true (init 1 [SReq 0; SDel])
              [TC 0; TC 0; TC 0; TC 0; TC 0; TC 0; TC 0; TC 0;
               TC 1; TC 1; TC 1; TC 1; TC 1; TC 1; TC 1; TC 1; TC 1]) as [st|] eqn:Hx;
    [|vm_compute in Hx; discriminate].
  exists st. split; [eapply reach_by_reachable; [|exact Hx]; reflexivity|].
  vm_compute in Hx. inversion Hx. vm_compute. auto.
Qed.

(* progress: a reachable state with blocked threads (deletion waits for mu held by the idle
   routine; a request waits for shardLock) in which the idle routine can move *)
Example ex_progress_state :
  exists st, reachable true st /\ unfinished st /\ step true st (TC 1) = None /\ step true st (TC 2) = None
             /\ enabled true st (TI 0).
Proof.
  destruct (exec_b true (init 1 [SReq 0; SDel; SReq 0])
              [TC 0; TC 0; TC 0; TC 0; TC 0; TC 0; TC 0; TC 0; TI 0; TI 0; TI 0; TC 1; TC 1; TC 1]) as [st|] eqn:Hx;
    [|vm_compute in Hx; discriminate].
  exists st. split; [eapply reach_by_reachable; [|exact Hx]; reflexivity|].
  vm_compute in Hx. inversion Hx. split; [exists (TC 1); reflexivity|].
  split; [reflexivity|]. split; [reflexivity|]. unfold enabled. vm_compute. discriminate.
Qed.

(* reload: all calls returned, the idle routine of the loaded shard still waits (entry is
   reused), and a state where everything has been unloaded (fresh load) *)
Example ex_reload_reuse :
  exists st, reachable true st /\ clients_done st /\ idle_quiet st /\ 0 < length (dirs st)
             /\ d_store (D st 0) = Some 0.
Proof.
  destruct (exec_b true (init 1 [SReq 0]) [TC 0; TC 0; TC 0; TC 0; TC 0; TC 0; TC 0; TC 0]) as [st|] eqn:Hx;
    [|vm_compute in Hx; discriminate].
  exists st. split; [eapply reach_by_reachable; [|exact Hx]; reflexivity|].
  vm_compute in Hx. inversion Hx. repeat split; auto.
  - intros [|[|n]]; reflexivity.
  - intros [|[|e]]; vm_compute; auto.
Qed.

Example ex_reload_fresh :
  exists st, reachable true st /\ clients_done st /\ idle_quiet st /\ 0 < length (dirs st)
             /\ d_store (D st 0) = None /\ length (ents st) = 1.
Proof.
  destruct (exec_b true (init 1 [SReq 0; SDel])
              ([TC 0; TC 0; TC 0; TC 0; TC 0; TC 0; TC 0; TC 0] ++ repeat (TC 1) 12)) as [st|] eqn:Hx;
    [|vm_compute in Hx; discriminate].
  exists st. split; [eapply reach_by_reachable; [|exact Hx]; reflexivity|].
  vm_compute in Hx. inversion Hx. repeat split; auto.
  - intros [|[|[|n]]]; reflexivity.
  - intros [|[|e]]; vm_compute; auto.
Qed.

(* stale entry: the idle routine has closed the shard while the request stands before RLock *)
Example ex_stale_state :
  exists st, reachable true st /\ T st 0 = CReq 0 (RRLock 0) /\ e_open (E st 0) = false.
Proof.
  destruct (exec_b true (init 1 [SReq 0]) [TC 0; TC 0; TC 0; TI 0; TI 0; TI 0; TI 0; TI 0]) as [st|] eqn:Hx;
    [|vm_compute in Hx; discriminate].
  exists st. split; [eapply reach_by_reachable; [|exact Hx]; reflexivity|].
  vm_compute in Hx. inversion Hx. vm_compute. auto.
Qed.

(* the measure of a small initial state: a bound on the length of every execution from it *)
Example ex_measure : measure (init 2 [SReq 0; SReq 1; SDel]) = 18 + 18 + 28.
Proof. reflexivity. Qed.

(* --- what the theorems above presuppose of a callback: that it returns without waiting for another
   DoWithShard on the same entry. Thread 0 is inside its callback (REnd), the idle timer has fired and the
   routine has announced itself on the entry lock (ILockPend); thread 1 stands for a DoWithShard the callback
   of thread 0 makes itself (the same goroutine) and waits for. Thread 1 cannot take the read lock (a writer
   is announced), the routine cannot take the write lock (thread 0 holds a read lock), and the only thread
   that can move is thread 0 -- which, waiting for thread 1, does not: a callback that re-enters never returns
   once the timer has fired. The run executes the five real callbacks of the node under exactly this schedule
   (Run_C12.CRpc). *)
Definition nested_sched : list tid := [TC 0; TC 0; TC 0; TC 0; TC 0; TC 0; TI 0; TI 0; TC 1; TC 1; TC 1].
Theorem c12_reentrant_callback_blocks :
  let st := run true nested_sched (init 1 [SReq 0; SReq 0]) in
  T st 0 = CReq 0 (REnd 0) /\ T st 1 = CReq 0 (RRLock 0) /\
  e_idle (E st 0) = ILockPend /\ e_w (E st 0) = Some (TI 0, false) /\ e_rd (E st 0) = [0] /\
  enabledb true st (TC 1) = false /\ enabledb true st (TI 0) = false /\
  forall t, enabledb true st t = true -> In t (all_tids st) -> t = TC 0.
Proof.
  cbv zeta. repeat split; try (vm_compute; reflexivity).
  intros t He Hin.
  assert (Hall : all_tids (run true nested_sched (init 1 [SReq 0; SReq 0])) = [TC 0; TC 1; TI 0]) by (vm_compute; reflexivity).
  rewrite Hall in Hin. destruct Hin as [H|[H|[H|[]]]]; subst t; [reflexivity| |]; vm_compute in He; discriminate.
Qed.
Print Assumptions c12_reentrant_callback_blocks.
