(* Props_C07.v -- property C07: a write batch is all-or-nothing under rejection,
   storage faults and crashes.  Only statements; every proof is `exact <lemma>`.

   Model (Model_C07.v): the committed buckets `disk`, the overlay of the running
   write transaction (bbolt Update: an error of the callback drops it, nil
   installs it atomically), the shared caches of cache.Manager (the cache named
   c holds a lazily loaded partial copy of bucket c), a batch = any list of
   operations Get / Put / Del / Scan / CGet / CPut each of which may depend on
   everything read before.  `run_tx fault linger crash p st`: the fault-th
   failable operation returns an error (Get cannot fail in the diskstore
   interface; failing cache creation = failing CPut / CGet = index
   construction), up to `linger` operations of other goroutines of the batch
   still execute inside the transaction before the callback returns, the
   process is killed at the k-th operation / before / right after the commit.
   `observe st q`: q is an ADAPTIVE list of reads (point reads through the
   registered cache when there is a usable one, scans on the committed
   buckets).  `unchanged st d' cs'`: d' is the old file, the caches are
   coherent, and every query answers as before on the running instance (warm)
   and on a fresh instance over the file (cold).

   Quantifiers: every state with coherent caches, every batch program, every
   fault position, every number of lingering operations, every crash point,
   every query. *)
From Coq Require Import List NArith ZArith Bool Arith.
From Semadb Require Import Bytes Value Obs KeyLayout Model_C01 Model_C07 Proofs_C07.
Import ListNotations.

(* ---- a storage fault at any failable operation: as if the batch had never been issued ---- *)
Theorem c07_fault_atomic :
  forall (st : state) (p : prog) (k linger : nat), coh st ->
    match run_tx (Some k) linger None p st with
    | Aborted d' cs' => unchanged st d' cs'                                (* the fault fired *)
    | Committed d' cs' => run_tx None linger None p st = Committed d' cs'   (* the batch has fewer than k+1 failable operations *)
    | Crashed _ => False
    end.
Proof. exact fault_atomic. Qed.
Print Assumptions c07_fault_atomic.

(* the fault fires for every k below the number of failable operations of the batch *)
Theorem c07_fault_fires :
  forall (st : state) (p : prog) (k linger : nat),
    (k < count_failable (fst st) p (tx0 (snd st)))%nat ->
    exists d' cs', run_tx (Some k) linger None p st = Aborted d' cs'.
Proof. exact fault_fires_aborts. Qed.
Print Assumptions c07_fault_fires.

(* whatever made the call report an error (any fault position, with or without a pending kill) *)
Theorem c07_error_unchanged :
  forall (st : state) (p : prog) (fault : option nat) (linger : nat) (crash : option crashpt) (d' : disk) (cs' : caches),
    coh st -> run_tx fault linger crash p st = Aborted d' cs' -> unchanged st d' cs'.
Proof. exact aborted_unchanged. Qed.
Print Assumptions c07_error_unchanged.

(* ---- process death: the reopened file is the old state, or the new one only past the commit point ---- *)
Theorem c07_crash_atomic :
  forall (st : state) (p : prog) (fault : option nat) (linger : nat) (cp : crashpt) (file : disk), coh st ->
    run_tx fault linger (Some cp) p st = Crashed file ->
    match cp with
    | AfterCommit =>
        exists d' cs', run_tx fault linger None p st = Committed d' cs' /\ file = d' /\
                       forall q, observe (recover file) q = observe (cold (d', cs')) q
    | _ => file = fst st /\ forall q, observe (recover file) q = observe st q
    end.
Proof. exact crash_atomic. Qed.
Print Assumptions c07_crash_atomic.

Theorem c07_crash_old_or_new :
  forall (st : state) (p : prog) (fault : option nat) (linger : nat) (cp : crashpt) (file : disk), coh st ->
    run_tx fault linger (Some cp) p st = Crashed file ->
    file = fst st \/
    (cp = AfterCommit /\ exists cs', run_tx fault linger None p st = Committed file cs').
Proof. exact crash_old_or_new. Qed.
Print Assumptions c07_crash_old_or_new.

(* ---- success: all effects are visible, warm and cold ---- *)
Theorem c07_success_visible :
  forall (st : state) (p : prog) (fault : option nat) (linger : nat) (crash : option crashpt) (d' : disk) (cs' : caches),
    coh st -> mirrors p st ->
    run_tx fault linger crash p st = Committed d' cs' ->
    d' = materialize (fst st) (tx_writes p st) /\
    (forall b k, d_get d' b k = match ov_find b k (tx_writes p st) with
                                | Some o => o                    (* the batch's latest write to (b,k) *)
                                | None => d_get (fst st) b k     (* untouched *)
                                end) /\
    coh (d', cs') /\
    (forall q, observe (d', cs') q = observe (recover d') q).
Proof. exact success_visible. Qed.
Print Assumptions c07_success_visible.

Theorem c07_crash_after_commit_visible :
  forall (st : state) (p : prog) (fault : option nat) (linger : nat) (file : disk), coh st -> mirrors p st ->
    run_tx fault linger (Some AfterCommit) p st = Crashed file ->
    exists cs', run_tx fault linger None p st = Committed file cs' /\
                forall q, observe (recover file) q = observe (file, cs') q.
Proof. exact crash_after_commit_visible. Qed.
Print Assumptions c07_crash_after_commit_visible.

(* `mirrors` is implied by a discipline that is checked operation by operation: write-through
   (CPut c k o immediately followed by the bucket write of the same entry; other bucket writes
   only to buckets without a usable shared cache and not opened by the transaction) *)
Theorem c07_write_through_mirrors :
  forall (st : state) (p : prog), coh st ->
    write_through (snd st) (fst st) p (tx0 (snd st)) = true -> mirrors p st.
Proof. exact write_through_mirrors. Qed.
Print Assumptions c07_write_through_mirrors.

Theorem c07_success_visible_write_through :
  forall (st : state) (p : prog) (fault : option nat) (linger : nat) (crash : option crashpt) (d' : disk) (cs' : caches),
    coh st -> write_through (snd st) (fst st) p (tx0 (snd st)) = true ->
    run_tx fault linger crash p st = Committed d' cs' ->
    d' = materialize (fst st) (tx_writes p st) /\
    coh (d', cs') /\
    (forall q, observe (d', cs') q = observe (recover d') q).
Proof. exact success_visible_write_through. Qed.
Print Assumptions c07_success_visible_write_through.

(* a coherent warm instance and a cold one are indistinguishable *)
Theorem c07_warm_is_cold :
  forall (st : state) (q : query), coh st -> observe (cold st) q = observe st q.
Proof. exact observe_cold. Qed.
Print Assumptions c07_warm_is_cold.

(* ---- validation rejections (reference spec of C01) are failures before commit ---- *)
Theorem c07_rejections :
  forall (sc : schema) (maxsize : N) (b : batch) (s : store) (es : list N)
         (compile : batch -> prog) (k : nat) (st : state), coh st ->
    snd (apply_spec sc maxsize b s) = SErr es ->
    es <> [] /\ (forall e, In e es -> In e [ERR_DUP; ERR_EXISTS; ERR_SIZE; ERR_TYPE]) /\
    fst (apply_spec sc maxsize b s) = s /\
    exists cs', run_batch sc maxsize b s compile k st = Aborted (fst st) cs' /\ unchanged st (fst st) cs'.
Proof. exact rejections. Qed.
Print Assumptions c07_rejections.

(* "rejected => as if never issued", for each of the four rejection kinds *)
Theorem c07_rejected_kind :
  forall (sc : schema) (maxsize : N) (b : batch) (s : store) (es : list N) (kind : N)
         (compile : batch -> prog) (k : nat) (st : state), coh st ->
    In kind [ERR_DUP; ERR_EXISTS; ERR_SIZE; ERR_TYPE] ->
    snd (apply_spec sc maxsize b s) = SErr es -> In kind es ->
    fst (apply_spec sc maxsize b s) = s /\
    exists cs', run_batch sc maxsize b s compile k st = Aborted (fst st) cs' /\ unchanged st (fst st) cs'.
Proof. exact rejected_kind. Qed.
Print Assumptions c07_rejected_kind.

(* ---- goroutines of the batch that are still running after the callback returned ---- *)
(* with the txGuard of diskstore/bbolt.go and the done flag of cache.Transaction every one of
   their operations is refused: nothing changes and the next transaction runs normally *)
Theorem c07_straggler_harmless :
  forall (st : state) (p : prog) (fault : option nat) (linger : nat) (crash : option crashpt)
         (s : sys) (ops : list op) (p2 : prog),
    sys_after (run_tx fault linger crash p st) = Some s ->
    straggle true s ops = s /\
    next_tx (straggle true s ops) p2 = Ran (run_tx None 0 None p2 (y_disk s, y_caches s)).
Proof. exact straggler_harmless. Qed.
Print Assumptions c07_straggler_harmless.

Theorem c07_fault_then_stragglers :
  forall (st : state) (p : prog) (fault : option nat) (linger : nat) (crash : option crashpt)
         (d' : disk) (cs' : caches) (ops : list op), coh st ->
    run_tx fault linger crash p st = Aborted d' cs' ->
    exists s, sys_after (Aborted d' cs') = Some s /\
      let s' := straggle true s ops in
      y_alive s' = true /\ y_locked s' = [] /\ unchanged st (y_disk s') (y_caches s').
Proof. exact fault_then_stragglers. Qed.
Print Assumptions c07_fault_then_stragglers.

(* the in-memory backend behaves like bbolt on batches that succeed *)
Theorem c07_memstore_success :
  forall (st : state) (p : prog) (fault : option nat) (linger : nat) (d' : disk) (cs' : caches),
    run_tx_mem fault linger p st = Committed d' cs' <-> run_tx fault linger None p st = Committed d' cs'.
Proof. exact mem_success. Qed.
Print Assumptions c07_memstore_success.

(* the boolean checkers used by the examples *)
Theorem c07_cohb_sound : forall st : state, cohb st = true -> coh st.
Proof. exact cohb_sound. Qed.
Print Assumptions c07_cohb_sound.
Theorem c07_mirrorsb_sound : forall (p : prog) (st : state), mirrorsb p st = true -> mirrors p st.
Proof. exact mirrorsb_sound. Qed.
Print Assumptions c07_mirrorsb_sound.

(* ======================= examples and refutations ========================= *)
Open Scope N_scope.
(* bucket "a" has a shared cache (a graph bucket), bucket "p" has none (the points bucket) *)
Definition bA : name := [97].
Definition bP : name := [112].
Definition ex_disk : disk := [(bA, [([1], [10]); ([2], [20])]); (bP, [([1], [100])])].
Definition ex_caches : caches := [(bA, ([([1], Some [10]); ([9], None)], false))].   (* holds key 1, knows 9 is absent *)
Definition ex_st : state := (ex_disk, ex_caches).
Definition first_val (v : view) : val := match rev v with RVal (Some x) :: _ => x | _ => [] end.
(* the value written depends on what was read; cache writes are flushed to the bucket *)
Definition ex_prog : prog :=
  [ fun _ => Get bP [1];
    fun _ => CGet bA [1];
    fun v => CPut bA [2] (Some (first_val v ++ [1]));
    fun v => Put bA [2] (first_val v ++ [1]);
    fun _ => Put bP [3] [33];
    fun _ => CPut bA [1] None;
    fun _ => Del bA [1];
    fun _ => Scan bP ].
(* an adaptive query: the last read uses the first key of the preceding scan *)
Definition ex_q : query :=
  [ fun _ => RGet bA [2]; fun _ => RGet bA [1]; fun _ => RScan bP;
    fun v => RGet bP (match v with RList ((k, _) :: _) :: _ => k | _ => [] end) ].

Example c07_example_hyps :
  coh ex_st /\ mirrors ex_prog ex_st /\ count_failable ex_disk ex_prog (tx0 ex_caches) = 7%nat /\
  write_through ex_caches ex_disk ex_prog (tx0 ex_caches) = true.
Proof.
  split; [apply cohb_sound; vm_compute; reflexivity|].
  split; [apply mirrorsb_sound; vm_compute; reflexivity|]. vm_compute. split; reflexivity.
Qed.

(* a batch that writes the cached bucket behind the cache's back is not disciplined, and indeed
   leaves the shared cache stale after its commit (this is what `mirrors` excludes) *)
Example c07_example_undisciplined :
  let p := [fun _ : view => Put bA [1] [11]] in
  write_through ex_caches ex_disk p (tx0 ex_caches) = false /\ mirrorsb p ex_st = false /\
  exists d cs, run_tx None 0 None p ex_st = Committed d cs /\ cohb (d, cs) = false /\
               observe (d, cs) [fun _ => RGet bA [1]] <> observe (recover d) [fun _ => RGet bA [1]].
Proof.
  cbv zeta. split; [vm_compute; reflexivity|]. split; [vm_compute; reflexivity|].
  eexists. eexists. split; [vm_compute; reflexivity|]. split; [vm_compute; reflexivity|].
  vm_compute. discriminate.
Qed.

(* every fault position aborts (the shared cache survives only when it was not touched yet);
   position 7 is past the last failable operation: the batch commits *)
Example c07_example_faults :
  run_tx (Some 0%nat) 0 None ex_prog ex_st = Aborted ex_disk ex_caches /\
  map (fun k => run_tx (Some k) 1 None ex_prog ex_st) (seq 0 7) = repeat (Aborted ex_disk []) 7 /\
  run_tx (Some 7%nat) 1 None ex_prog ex_st =
    Committed [(bA, [([2], [100; 1])]); (bP, [([3], [33]); ([1], [100])])]
              [(bA, ([([1], None); ([2], Some [100; 1]); ([9], None)], false))] /\
  observe ex_st ex_q = [RVal (Some [100]); RList [([1], [100])]; RVal (Some [10]); RVal (Some [20])].
Proof. vm_compute. repeat split; reflexivity. Qed.

(* after the commit every effect is visible, warm and cold *)
Example c07_example_success :
  exists d cs, run_tx None 0 None ex_prog ex_st = Committed d cs /\
    observe (d, cs) ex_q = [RVal (Some [33]); RList [([3], [33]); ([1], [100])]; RVal None; RVal (Some [100; 1])] /\
    observe (recover d) ex_q = observe (d, cs) ex_q.
Proof. eexists. eexists. vm_compute. repeat split; reflexivity. Qed.

(* kills: at the 5th operation and before commit the file is the old one, right after commit the new one *)
Example c07_example_crashes :
  run_tx None 0 (Some (AtOp 5)) ex_prog ex_st = Crashed ex_disk /\
  run_tx None 0 (Some BeforeCommit) ex_prog ex_st = Crashed ex_disk /\
  run_tx None 0 (Some AfterCommit) ex_prog ex_st =
    Crashed [(bA, [([2], [100; 1])]); (bP, [([3], [33]); ([1], [100])])] /\
  run_tx (Some 2%nat) 3 (Some (AtOp 5)) ex_prog ex_st = Crashed ex_disk.   (* killed while other goroutines linger after a fault *)
Proof. vm_compute. repeat split; reflexivity. Qed.

(* the four rejection kinds of the reference spec *)
Definition ua : uuid := repeat 1 16.
Definition kx : bytes := [120].
Example c07_example_rejections :
  snd (apply_spec [] 1000 (BInsert [(ua, []); (ua, [])]) []) = SErr [ERR_DUP] /\
  snd (apply_spec [] 1000 (BInsert [(ua, [])]) [(ua, [])]) = SErr [ERR_EXISTS] /\
  snd (apply_spec [] 0 (BUpdate [(ua, [(kx, VInt 1%Z)])]) [(ua, [])]) = SErr [ERR_SIZE] /\
  snd (apply_spec [(kx, IInt)] 1000 (BInsert [(ua, [(kx, VStr [104])])]) []) = SErr [ERR_TYPE] /\
  run_batch [] 1000 (BInsert [(ua, [])]) [(ua, [])] (fun _ => ex_prog) 5 ex_st = Aborted ex_disk [].
Proof. vm_compute. repeat split; reflexivity. Qed.

(* ---- refutation: the pinned tree (no txGuard, no done flag) ---- *)
(* the batch fails at its 3rd failable operation; a goroutine of the batch that is still running
   after the callback returned (a) takes write access to the graph cache, or (b) writes through
   the bucket of the closed bbolt transaction.  The next batch (a) blocks forever on the cache
   lock, (b) runs in a process whose memory was corrupted / that was killed by SIGSEGV.  With
   the two fix commits the same schedules are harmless. *)
Theorem c07_straggler_refuted_v0 :
  exists (st : state) (p p2 : prog) (k : nat) (d' : disk) (cs' : caches) (s : sys) (ops1 ops2 : list op),
    coh st /\ run_tx (Some k) 0 None p st = Aborted d' cs' /\ sys_after (Aborted d' cs') = Some s /\
    (exists c, next_tx (straggle false s ops1) p2 = Blocked c) /\
    next_tx (straggle false s ops2) p2 = Dead /\
    (exists d2 cs2, next_tx (straggle true s ops1) p2 = Ran (Committed d2 cs2)) /\
    (exists d2 cs2, next_tx (straggle true s ops2) p2 = Ran (Committed d2 cs2)).
Proof.
  exists ex_st, ex_prog, ex_prog, 2%nat, ex_disk, [], (mkSys ex_disk [] true [] true),
         [CPut bA [2] (Some [7])], [Put bA [2] [7]].
  split; [apply cohb_sound; vm_compute; reflexivity|].
  split; [vm_compute; reflexivity|]. split; [reflexivity|].
  split; [exists bA; vm_compute; reflexivity|]. split; [vm_compute; reflexivity|].
  split; eexists; eexists; vm_compute; reflexivity.
Qed.
Print Assumptions c07_straggler_refuted_v0.

(* ---- refutation: the in-memory backend has no rollback ---- *)
(* the batch fails at the Put into the points bucket after it wrote the graph bucket: bbolt
   leaves the old state, the in-memory store keeps the partial write and the next read sees it *)
Theorem c07_memstore_refuted :
  exists (st : state) (p : prog) (k : nat) (d' : disk) (cs' : caches) (q : query),
    coh st /\ run_tx_mem (Some k) 0 p st = Aborted d' cs' /\
    observe (d', cs') q <> observe st q /\
    exists cs2, run_tx (Some k) 0 None p st = Aborted (fst st) cs2 /\ observe (fst st, cs2) q = observe st q.
Proof.
  exists ex_st, ex_prog, 3%nat, [(bA, [([2], [100; 1]); ([1], [10])]); (bP, [([1], [100])])], [], ex_q.
  split; [apply cohb_sound; vm_compute; reflexivity|].
  split; [vm_compute; reflexivity|]. split; [vm_compute; discriminate|].
  exists []. split; vm_compute; reflexivity.
Qed.
Print Assumptions c07_memstore_refuted.
