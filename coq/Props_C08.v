(* Props_C08.v -- property C08: committed data is durable and answers do not
   depend on cache state or backend.  Only statements; every proof is
   `exact <lemma>` (Proofs_C08.v).

   M = Model_ItemCache.v: the write-back ItemCache of shard/cache/itemcache.go,
       generic in the Storable instance (plain vector, binary / product quantised
       point, graph node, text posting set, text document record) and in the
       bucket implementation; transactions on a shared cache as cache/manager.go
       hands them out (t_drop = fresh cache: limit 0, eviction, Release, restart;
       TFail = bbolt rollback + scrapped cache).
   S = a plain finite map  id -> option item:  absmap (exact) and
       nabs = absmap up to sp_norm, i.e. up to what a cold ReadFrom gives back
       (own dirty flag cleared; a quantised point loses its full vector once it
       has a code -- distances use the code only from then on).

   Hypotheses that are stated, not proved:
   - BucketLaws: bbolt and the in-memory store satisfy the get/put/delete/keys
     laws (trusted base; proved here for two list implementations);
   - the roaring and msgpack codecs round-trip (the two text instances are
     generic in the codec);
   - wf_run / wf_txs: the operations are legal where they run (vector words are
     float32, edges uint64, documents non-empty, in-place mutations set the
     item's own flag, Delete is not used on posting sets, ForEach / Count only on
     Enumerable instances);
   - SERIALITY: run_txs executes transactions one after the other on the cache.
     Without it coherence fails: c08_stale_refuted (finding F6, handled under
     C11 / C09). *)
From Coq Require Import List NArith Bool Permutation.
From Semadb Require Import Bytes U64 KeyLayout Model_C19 Model_ItemCache Proofs_C08.
Import ListNotations.
Open Scope N_scope.

(* ---------------------------------------------------------------------------
   The trusted interface is inhabited: two list backends with different
   ForEach orders satisfy the bucket laws. *)
Theorem c08_list_backends_lawful : BucketLaws AL /\ BucketLaws AL2.
Proof. exact (conj AL_laws AL2_laws). Qed.
Print Assumptions c08_list_backends_lawful.

(* Every instance satisfies the laws the generic theorems need: WriteTo then
   ReadFrom gives the item back (up to sp_norm), DeleteFrom then ReadFrom gives
   ErrNotFound, ReadFrom looks only at the keys of its id, ids own disjoint keys,
   IdFromKey only accepts keys of the id it returns, and the item's own dirty
   flag behaves (CheckAndClearDirty clears it and changes nothing else). *)
Theorem c08_instances_lawful :
  StorableLaws plain_inst plain_spec /\
  StorableLaws binary_inst binary_spec /\
  StorableLaws product_inst product_spec /\
  StorableLaws node_inst node_spec /\
  (forall (enc : list N -> bytes) (dec : bytes -> list N), (forall s, dec (enc s) = s) ->
     StorableLaws (textset_inst enc dec) (textset_spec enc dec)) /\
  (forall (T : Type) (enc : T * N -> bytes) (dec : bytes -> T * N), (forall v, dec (enc v) = v) ->
     StorableLaws (textdoc_inst T enc dec) (textdoc_spec T enc dec)).
Proof.
  exact (conj plain_laws (conj binary_inst_laws (conj product_laws (conj node_laws
          (conj textset_laws textdoc_laws))))).
Qed.
Print Assumptions c08_instances_lawful.

(* The well-formedness predicate ForEach / Count rely on ("every stored item has
   a key from which IdFromKey recovers its id, and every accepted key belongs to
   a readable item") holds for the plain, binary, graph-node and document
   instances; plain, node and document have one enumerating key per id in every
   bucket. *)
(* NOT covered: the product-quantised instance.  Its IdFromKey accepts only 'v'
   while ReadFrom prefers 'q', so
     Enumerable product_inst
   fails on a bucket that holds n<id>q without n<id>v.  semadb never produces such
   a bucket (Set always carries the full vector and WriteTo writes 'v' whenever
   it is present), but that is an invariant of the bucket, outside the per-instance
   laws used here; the flush / warm = cold / backend theorems do cover the product
   instance (c08_instances_lawful), the ForEach / Count statements do not. *)
Theorem c08_instances_enumerable :
  Enumerable plain_inst /\ Enumerable binary_inst /\ Enumerable node_inst /\
  (forall T enc dec, Enumerable (textdoc_inst T enc dec)) /\
  (forall g, enum_unique plain_inst g) /\ (forall g, enum_unique node_inst g) /\
  (forall T enc dec g, enum_unique (textdoc_inst T enc dec) g).
Proof.
  exact (conj plain_enumerable (conj binary_enumerable (conj node_enumerable (conj textdoc_enumerable
          (conj plain_enum_unique (conj node_enum_unique textdoc_enum_unique)))))).
Qed.
Print Assumptions c08_instances_enumerable.

(* ... and for the binary instance it holds ONLY because 'q' is accepted: with
   accepted = ['v'] (the pinned tree before repair F3) a quantised point stored
   under n<id>q is readable but has no enumerating key; a cold ForEach / Count
   misses it, the repaired instance finds it. *)
Theorem c08_binary_idfromkey_refuted :
  ~ Enumerable binary_inst_v0 /\
  exists (b : alist) (i : u64id) (v : bq_item),
    absmap binary_inst_v0 c_empty (al_get b) i = Some v /\
    fst (c_foreach binary_inst_v0 AL c_empty b) = (true, []) /\
    c_count binary_inst_v0 AL c_empty b = 0%nat /\
    fst (c_foreach binary_inst AL c_empty b) = (true, [(i, v)]) /\
    c_count binary_inst AL c_empty b = 1%nat.
Proof. exact binary_idfromkey_refuted. Qed.
Print Assumptions c08_binary_idfromkey_refuted.

(* ---------------------------------------------------------------------------
   c08_cache_refines_map: EVERY operation sequence (Get, GetMany, Put, Delete,
   in-place mutation, ForEach, Count, Flush in any order) started in a state
   satisfying the representation invariant behaves like the plain map
   nabs c b: every observation is the one the map determines (trace_ok: Get
   returns the entry, GetMany the found entries in order, ForEach lists exactly
   the ids with an entry, each once, Count is the number of such ids), the map
   changes only by Put / Delete / mutation, pointwise (spec_run), and the
   invariant is kept. *)
Theorem c08_cache_refines_map :
  forall (S : Storable) (P : StorableSpec S) (B : BucketImpl),
  StorableLaws S P -> BucketLaws B ->
  forall (ops : list (op S)) (c : cache S) (b : bk B) (c' : cache S) (b' : bk B) (xs : list (obs S)),
  inv S P c (bk_get B b) -> wf_run S B P ops c b -> run S B ops c b = (c', b', xs) ->
  inv S P c' (bk_get B b') /\
  trace_ok S P (nabs S P c (bk_get B b)) ops xs /\
  amap_eq S (nabs S P c' (bk_get B b')) (spec_run S P ops (nabs S P c (bk_get B b))).
Proof. exact (fun S P B LS LB => cache_refines_map S P LS B LB). Qed.
Print Assumptions c08_cache_refines_map.

(* The same, operation by operation and EXACT (no normalisation): Get returns
   absmap; Put / Delete update absmap at that id only; Get, GetMany, ForEach
   leave absmap unchanged; ForEach enumerates exactly the ids with absmap = Some,
   each once, and does not fail; Count is the number of those ids. *)
Theorem c08_cache_ops_exact :
  forall (S : Storable) (P : StorableSpec S) (B : BucketImpl),
  StorableLaws S P -> BucketLaws B ->
  forall (c : cache S) (b : bk B),
  let g := bk_get B b in
  inv S P c g ->
  (forall i r c', c_get S B i c b = (r, c') ->
     r = absmap S c g i /\ inv S P c' g /\ forall j, absmap S c' g j = absmap S c g j) /\
  (forall ids l c', c_get_many S B ids c b = (l, c') ->
     l = found S (absmap S c g) ids /\ inv S P c' g /\ forall j, absmap S c' g j = absmap S c g j) /\
  (forall i v, sp_valid P i v g ->
     inv S P (c_put S i v c) g /\
     forall j, absmap S (c_put S i v c) g j = if st_eqb S i j then Some v else absmap S c g j) /\
  (forall i, sp_deletable P = true ->
     inv S P (c_delete S B i c b) g /\
     forall j, absmap S (c_delete S B i c b) g j = if st_eqb S i j then None else absmap S c g j) /\
  (forall ok l c', c_foreach S B c b = (ok, l, c') ->
     inv S P c' g /\ (forall j, absmap S c' g j = absmap S c g j) /\
     (Enumerable S -> ok = true /\ NoDup (map fst l) /\ forall i v, In (i, v) l <-> absmap S c g i = Some v)) /\
  (Enumerable S -> enum_unique S g -> forall l, NoDup (map fst l) ->
     (forall i v, In (i, v) l <-> absmap S c g i = Some v) -> c_count S B c b = length l).
Proof. exact (fun S P B LS LB => cache_ops_exact S P LS B LB). Qed.
Print Assumptions c08_cache_ops_exact.

(* Count counts KEYS.  In the repaired binary instance a point that was stored
   before the quantiser was fitted and re-encoded by Fit afterwards owns both
   n<id>v and n<id>q: a cold Count reports 2 for one point (a warm one 1).  The
   history below is legal (wf_txs); semadb does not reach the wrong count because
   Fit short-circuits on `threshold != nil` before calling Count. *)
Theorem c08_binary_count_refuted :
  exists ts : list (txn binary_inst),
    wf_txs binary_inst AL binary_spec ts c_empty [] /\
    let '(c, b, _) := run_txs binary_inst AL ts c_empty [] in
    c_count binary_inst AL c_empty b = 2%nat /\
    length (snd (fst (c_foreach binary_inst AL c_empty b))) = 1%nat /\
    c_count binary_inst AL c b = 1%nat /\
    ~ enum_unique binary_inst (al_get b).
Proof. exact binary_count_refuted. Qed.
Print Assumptions c08_binary_count_refuted.

(* Posting sets cannot be enumerated (ReadFrom never reports ErrNotFound: an
   absent term is the empty set); text.go never calls ForEach / Count on them. *)
Theorem c08_textset_enum_refuted : forall enc dec, ~ Enumerable (textset_inst enc dec).
Proof. exact textset_not_enumerable. Qed.
Print Assumptions c08_textset_enum_refuted.

(* ---------------------------------------------------------------------------
   c08_flush_persists: after Flush the bucket ALONE represents the map: for every
   id ReadFrom on the new bucket returns the entry of the map before the flush
   (up to sp_norm), so a fresh (cold) cache over the new bucket has the same
   view as the warm one; no IsDirty / IsDeleted entry is left and every cached
   value is what the bucket decodes to (settled).  Generic in the instance: with
   c08_instances_lawful it holds for plain, binary, product, node, posting set
   and document items, own dirty flags (Fit, ClearNeighbours / AddNeighbour,
   CheckedAdd / CheckedRemove) and delete-on-empty included. *)
Theorem c08_flush_persists :
  forall (S : Storable) (P : StorableSpec S) (B : BucketImpl),
  StorableLaws S P -> BucketLaws B ->
  forall (c : cache S) (b : bk B) (c' : cache S) (b' : bk B),
  inv S P c (bk_get B b) -> c_flush S B c b = (c', b') ->
  (forall i, st_read S i (bk_get B b') = nabs S P c (bk_get B b) i) /\
  amap_eq S (nabs S P c_empty (bk_get B b')) (nabs S P c (bk_get B b)) /\
  amap_eq S (nabs S P c' (bk_get B b')) (nabs S P c (bk_get B b)) /\
  settled S P c' (bk_get B b') /\ inv S P c' (bk_get B b') /\ c_all c' = c_all c.
Proof. exact (fun S P B LS LB => flush_persists S P LS B LB). Qed.
Print Assumptions c08_flush_persists.

(* `item.IsDirty || item.value.CheckAndClearDirty()` short-circuits: an item that
   was Put and re-encoded in the same transaction keeps its own flag after Flush.
   It has been written (settled), so the only effect is a redundant rewrite by the
   next Flush of the warm cache. *)
Theorem c08_flush_selfdirty_leftover :
  exists (c : cache binary_inst) (b : alist),
    inv binary_inst binary_spec c (al_get b) /\
    let '(c', b') := c_flush binary_inst AL c b in
    exists i v, c_items c' = [(i, (v, false, false))] /\ st_self_dirty binary_inst v = true /\
                st_read binary_inst i (al_get b') = Some (sp_norm binary_spec v).
Proof. exact flush_selfdirty_leftover. Qed.
Print Assumptions c08_flush_selfdirty_leftover.

(* ---------------------------------------------------------------------------
   c08_warm_equals_cold: two executions of the SAME history of transactions
   (searches, committed write batches, failed batches) from the same bucket
   that differ only in when the manager hands out a fresh cache (never = warm
   unlimited cache; always = cache disabled / restart after every batch; any
   other pattern = eviction) make the same observations (up to sp_norm and the
   order in which ForEach visits), end with the same view, the warm view is the
   cold view of its own bucket, and a restart reads the same from either bucket.
   Stated for arbitrary lists, so it holds at every transaction boundary. *)
Theorem c08_warm_equals_cold :
  forall (S : Storable) (P : StorableSpec S) (B : BucketImpl),
  StorableLaws S P -> BucketLaws B ->
  forall (ts1 ts2 : list (txn S)) (b0 : bk B) c1 b1 xs1 c2 b2 xs2,
  Forall2 (same_history S) ts1 ts2 ->
  wf_txs S B P ts1 c_empty b0 -> wf_txs S B P ts2 c_empty b0 ->
  run_txs S B ts1 c_empty b0 = (c1, b1, xs1) -> run_txs S B ts2 c_empty b0 = (c2, b2, xs2) ->
  Forall2 (Forall2 (obs_equiv P)) xs1 xs2 /\
  amap_eq S (nabs S P c1 (bk_get B b1)) (nabs S P c2 (bk_get B b2)) /\
  amap_eq S (nabs S P c1 (bk_get B b1)) (nabs S P c_empty (bk_get B b1)) /\
  (forall i, st_read S i (bk_get B b1) = st_read S i (bk_get B b2)).
Proof. exact (fun S P B LS LB => warm_equals_cold S P LS B LB). Qed.
Print Assumptions c08_warm_equals_cold.

(* ---------------------------------------------------------------------------
   c08_backend_independent: the same history on ANY two bucket implementations
   satisfying the laws, started from buckets that read the same, makes the same
   observations and ends with the same view; a restart reads the same from both.
   (Cache schedules may differ as well.) *)
Theorem c08_backend_independent :
  forall (S : Storable) (P : StorableSpec S), StorableLaws S P ->
  forall (B1 B2 : BucketImpl), BucketLaws B1 -> BucketLaws B2 ->
  forall (ts1 ts2 : list (txn S)) (b01 : bk B1) (b02 : bk B2) c1 b1 xs1 c2 b2 xs2,
  (forall i, st_read S i (bk_get B1 b01) = st_read S i (bk_get B2 b02)) ->
  Forall2 (same_history S) ts1 ts2 ->
  wf_txs S B1 P ts1 c_empty b01 -> wf_txs S B2 P ts2 c_empty b02 ->
  run_txs S B1 ts1 c_empty b01 = (c1, b1, xs1) -> run_txs S B2 ts2 c_empty b02 = (c2, b2, xs2) ->
  Forall2 (Forall2 (obs_equiv P)) xs1 xs2 /\
  amap_eq S (nabs S P c1 (bk_get B1 b1)) (nabs S P c2 (bk_get B2 b2)) /\
  (forall i, st_read S i (bk_get B1 b1) = st_read S i (bk_get B2 b2)).
Proof. exact backend_independent. Qed.
Print Assumptions c08_backend_independent.

(* buckets with the same contents read the same *)
Theorem c08_same_contents_read_same :
  forall (S : Storable) (P : StorableSpec S), StorableLaws S P ->
  forall g g', kv_eq g g' -> forall i, st_read S i g = st_read S i g'.
Proof. exact kv_eq_read. Qed.
Print Assumptions c08_same_contents_read_same.

(* ---------------------------------------------------------------------------
   c08_stale_refuted (finding F6): without seriality coherence fails.  A reader
   registers a fresh cache whose bucket handle is a snapshot b0 taken before a
   concurrent writer commits, populates it, the writer commits b1, and the
   reader's cache stays in the manager: it satisfies the invariant for b0, not
   for b1, and Get on it differs from Get on a cold cache over b1. *)
Theorem c08_stale_refuted :
  exists (b0 : alist) (reader_ops writer_ops : list (op plain_inst)) (i : u64id),
    let '(cr, b1) := stale_state plain_inst AL reader_ops writer_ops b0 in
    inv plain_inst plain_spec cr (al_get b0) /\
    settled plain_inst plain_spec cr (al_get b0) /\
    fst (c_get plain_inst AL i cr b1) <> fst (c_get plain_inst AL i c_empty b1) /\
    nabs plain_inst plain_spec cr (al_get b1) i <> nabs plain_inst plain_spec c_empty (al_get b1) i /\
    ~ inv plain_inst plain_spec cr (al_get b1).
Proof. exact stale_refuted. Qed.
Print Assumptions c08_stale_refuted.

(* ===========================================================================
   Examples: the hypotheses are satisfiable by non-trivial data. *)

Ltac plain_ok := repeat constructor; try (intros; first [discriminate|reflexivity]).

Notation OPut' := (@OPut plain_inst).
Notation OGet' := (@OGet plain_inst).
Notation OGetMany' := (@OGetMany plain_inst).
Notation ODelete' := (@ODelete plain_inst).
Notation OForEach' := (@OForEach plain_inst).
Notation OCount' := (@OCount plain_inst).
Notation OFlush' := (@OFlush plain_inst).
Notation ObsUnit' := (@ObsUnit plain_inst).
Notation ObsGet' := (@ObsGet plain_inst).
Notation ObsMany' := (@ObsMany plain_inst).
Notation ObsEach' := (@ObsEach plain_inst).
Notation ObsCount' := (@ObsCount plain_inst).
Notation mkTxn' := (@mkTxn plain_inst).

Definition ex_ops : list (op plain_inst) :=
  [ OPut' id1 vecA; OGet' id1; OPut' id2 vecB; OForEach'; OCount'; OFlush';
    ODelete' id1; OGet' id1; OGetMany' [id1; id2]; OCount'; OFlush'; OForEach' ].

(* an operation sequence that is legal from the empty cache over the empty bucket,
   with what it observes *)
Example ex_refines_hyps :
  inv plain_inst plain_spec c_empty (bk_get AL []) /\
  wf_run plain_inst AL plain_spec ex_ops c_empty [] /\
  map view (snd (run plain_inst AL ex_ops c_empty [])) =
    [ VUnit; VGet (Some vecA); VUnit; VEach true [(1, vecA); (2, vecB)]; VCount 2; VUnit;
      VUnit; VGet None; VMany [vecB]; VCount 1; VUnit; VEach true [(2, vecB)] ].
Proof.
  split; [apply inv_empty|]. split; [apply plain_wf_run; plain_ok|vm_compute; reflexivity].
Qed.

(* the same history with a warm cache, and with a fresh cache for every transaction *)
Definition ex_history (drop : bool) : list (txn plain_inst) :=
  [ mkTxn' drop [OPut' id1 vecA; OPut' id2 vecA] TWrite;
    mkTxn' drop [OForEach'] TRead;
    mkTxn' drop [OGet' id1; OForEach'] TRead;
    mkTxn' drop [OPut' id2 vecB; ODelete' id1] TWrite;
    mkTxn' drop [OPut' id1 vecB] TFail;
    mkTxn' drop [OGet' id1; OGet' id2; OCount'; OForEach'] TRead ].

Example ex_warm_cold_hyps :
  Forall2 (same_history plain_inst) (ex_history false) (ex_history true) /\
  wf_txs plain_inst AL plain_spec (ex_history false) c_empty [] /\
  wf_txs plain_inst AL plain_spec (ex_history true) c_empty [] /\
  wf_txs plain_inst AL2 plain_spec (ex_history false) c_empty [] /\
  map (map view) (snd (run_txs plain_inst AL (ex_history false) c_empty [])) =
    [ [VUnit; VUnit]; [VEach true [(1, vecA); (2, vecA)]]; [VGet (Some vecA); VEach true [(1, vecA); (2, vecA)]];
      [VUnit; VUnit]; [VUnit]; [VGet None; VGet (Some vecB); VCount 1; VEach true [(2, vecB)]] ] /\
  (* a cold ForEach visits in bucket order: equal up to permutation only *)
  map (map view) (snd (run_txs plain_inst AL (ex_history true) c_empty [])) =
    [ [VUnit; VUnit]; [VEach true [(2, vecA); (1, vecA)]]; [VGet (Some vecA); VEach true [(1, vecA); (2, vecA)]];
      [VUnit; VUnit]; [VUnit]; [VGet None; VGet (Some vecB); VCount 1; VEach true [(2, vecB)]] ] /\
  map (map view) (snd (run_txs plain_inst AL2 (ex_history false) c_empty [])) =
    map (map view) (snd (run_txs plain_inst AL (ex_history false) c_empty [])).
Proof.
  split; [repeat constructor|].
  split; [apply plain_wf_txs; plain_ok|].
  split; [apply plain_wf_txs; plain_ok|].
  split; [apply plain_wf_txs; plain_ok|].
  split; [vm_compute; reflexivity|]. split; vm_compute; reflexivity.
Qed.

(* a non-trivial state satisfying the invariant, for c08_flush_persists: a dirty
   entry, a deleted entry and a clean entry over a non-empty bucket *)
Example ex_flush_hyps :
  let '(c, b, _) := run plain_inst AL [OPut' id1 vecA; OPut' id2 vecA; OFlush'; OPut' id1 vecB; ODelete' id2] c_empty [] in
  inv plain_inst plain_spec c (bk_get AL b) /\ c_items c <> [] /\ b <> [] /\
  ~ settled plain_inst plain_spec c (bk_get AL b).
Proof.
  match goal with
  | |- context [run ?S ?B ?ops ?c ?b] =>
      let v := eval vm_compute in (run S B ops c b) in
      assert (R : run S B ops c b = v) by (vm_compute; reflexivity); rewrite R
  end.
  cbv beta iota.
  match type of R with
  | run _ _ ?ops ?c ?b = (?c', ?b', ?xs) =>
      assert (W : wf_run plain_inst AL plain_spec ops c b) by (apply plain_wf_run; plain_ok);
      destruct (cache_refines_map plain_inst plain_spec plain_laws AL AL_laws ops c b c' b' xs (inv_empty _ _ _) W R)
        as (I1 & _ & _)
  end.
  split; [exact I1|]. split; [discriminate|]. split; [discriminate|].
  intros Hs. destruct (Hs id1 vecB true false eq_refl) as [Hd _]. discriminate.
Qed.

(* the codec hypotheses of the two text instances are satisfiable *)
Example ex_text_codecs :
  StorableLaws (textset_inst (fun s => s) (fun b => b)) (textset_spec (fun s => s) (fun b => b)) /\
  StorableLaws (textdoc_inst N (fun v => [fst v; snd v]) (fun b => (nth 0 b 0, nth 1 b 0)))
               (textdoc_spec N (fun v => [fst v; snd v]) (fun b => (nth 0 b 0, nth 1 b 0))).
Proof.
  split; [apply textset_laws; reflexivity|apply textdoc_laws; intros [a b]; reflexivity].
Qed.

(* the flush theorem on the text items: an emptied posting set and a deleted
   document disappear from the bucket, and the cold view equals the warm one *)
Example ex_text_flush :
  let S := textset_inst (fun s => s) (fun b => b) in
  let '(c, b, _) := run S AL [@OModify S [104; 105] (fun _ => ([7], true)); @OFlush S;
                              @OModify S [104; 105] (fun _ => ([], true)); @OFlush S] c_empty [] in
  b = [] /\ absmap S c (al_get b) [104; 105] = Some ([], false).
Proof. vm_compute. split; reflexivity. Qed.
