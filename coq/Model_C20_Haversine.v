(* Model_C20_Haversine.v -- the haversine formula of distance/distance.go over the
   real numbers, and its symmetry.  Only the symmetry is claimed (the value of
   the float64 computation is not modelled); asin is an abstract function of
   the section because symmetry only needs that its argument is symmetric.
   Kept apart from Model_C20.v / Proofs_C20.v so that the other C20 theorems stay
   closed under the global context (Reals brings the standard library's axioms). *)
From Coq Require Import Reals.
Open Scope R_scope.

Section Haversine.
  Variable asin_f : R -> R.

  Definition deg_to_rad : R := PI / 180.
  Definition earth_radius : R := 6371000.

  (* a := sinDlat*sinDlat + cos(latx)*cos(laty)*sinDlon*sinDlon *)
  Definition hav_a (x0 x1 y0 y1 : R) : R :=
    let latx := x0 * deg_to_rad in let lonx := x1 * deg_to_rad in
    let laty := y0 * deg_to_rad in let lony := y1 * deg_to_rad in
    let dlat := latx - laty in let dlon := lonx - lony in
    let sin_dlat := sin (dlat / 2) in let sin_dlon := sin (dlon / 2) in
    sin_dlat * sin_dlat + cos latx * cos laty * sin_dlon * sin_dlon.

  (* c := 2*asin(sqrt a); return earthRadius * c *)
  Definition haversine (x0 x1 y0 y1 : R) : R := earth_radius * (2 * asin_f (sqrt (hav_a x0 x1 y0 y1))).

  Lemma hav_a_sym : forall x0 x1 y0 y1, hav_a x0 x1 y0 y1 = hav_a y0 y1 x0 x1.
  Proof.
    intros. unfold hav_a. cbv zeta.
    replace ((y0 * deg_to_rad - x0 * deg_to_rad) / 2) with (- ((x0 * deg_to_rad - y0 * deg_to_rad) / 2)) by field.
    replace ((y1 * deg_to_rad - x1 * deg_to_rad) / 2) with (- ((x1 * deg_to_rad - y1 * deg_to_rad) / 2)) by field.
    rewrite !sin_neg. ring.
  Qed.

  Lemma haversine_sym : forall x0 x1 y0 y1, haversine x0 x1 y0 y1 = haversine y0 y1 x0 x1.
  Proof. intros. unfold haversine. rewrite (hav_a_sym x0 x1 y0 y1). reflexivity. Qed.
End Haversine.
