(* Run_C20.v -- verdict functions evaluated on the observations the harness
   recorded from the real code.  Codes: 0 OK; 1xx the observation violates the
   property itself (SPECFAIL); 2xx the code differs from the model (MISMATCH).

   CKern: integer-valued float32 data chosen so that every float32 operation of
   the kernels is exact (all partial sums below 2^24 in magnitude; checked here,
   code 290 otherwise), hence the AVX kernel, the scalar reference loop and the
   exact Z value must agree bit for bit.
     which = 0 asm.Dot, 1 asm.SquaredEuclideanDistance (called directly),
             2 "dot" (= -dot), 3 "cosine" (= 1 - dot), 4 "euclidean" (through GetFloatDistanceFn).
   CSym: bit patterns of f(x,y) and f(y,x); which = 0..4 as above, 5 haversine, 6 hamming, 7 jaccard.
   CBits: thresholds and values are passed multiplied by 2 (so that the threshold 0.5
   is the integer 1); hamBits/jacBits are float32 patterns.
   CFloatStream: result of the tolerance TEST the harness performs on arbitrary floats.
   CPq*: product quantiser (shard/vectorstore/product.go), observed through a store built by
   vectorstore.New over a memory bucket; metric 0 euclidean, 1 dot, 2 cosine (mapped to euclidean
   by newProductQuantizer); m sub-vectors of length sl, k centroids each; cents = the trained flat
   centroids, table = the flat centroid distance table, both as float32 patterns.  Everything is
   recomputed exactly (Z, units of 2^-149) from the bit patterns; when all the data involved is on
   the grid of multiples of 1/8 up to 16 every float32 operation is exact and the comparison is
   exact, otherwise a result may deviate by 2^-18 of the sum of the magnitudes of its terms.
     CPqTable: every table entry (i,j,j') = distFn(centroid j, centroid j'), the diagonal included.
     CPqCode:  v was written after training; its code is, per sub-vector, a minimiser over the
               centroids of distFn(sub-vector, centroid) (ties free).
     CPqPair:  DistanceFromPoint(a)(b) = sum_i distFn(c_i(a), c_i(b)), and = DistanceFromPoint(b)(a).
     CPqQuery: DistanceFromFloat(q)(b) = sum_i distFn(q_i, c_i(b)) for each listed (code of b, result). *)
From Coq Require Import List NArith ZArith Bool QArith.
From Semadb Require Import AsmParams Model_C20.
Import ListNotations.
Open Scope N_scope.

Definition first_fail (l : list (bool * N)) : N :=
  fold_right (fun (p : bool * N) acc => if fst p then acc else snd p) 0 l.
Fixpoint lneq (a b : list N) : bool :=
  match a, b with [], [] => true | x :: a', y :: b' => (x =? y) && lneq a' b' | _, _ => false end.

(* slices of shared backing vectors, with point modifications (position relative to the slice) *)
Fixpoint setnth (i : nat) (v : Z) (l : list Z) : list Z :=
  match l with [] => [] | x :: r => match i with O => v :: r | S i' => x :: setnth i' v r end end.
Definition vec_of (base : list Z) (off n : N) (mods : list (N * Z)) : list Z :=
  fold_left (fun l m => setnth (N.to_nat (fst m)) (snd m) l) mods (firstn (N.to_nat n) (skipn (N.to_nat off) base)).

Inductive c20case :=
| CKern (which : N) (xs ys : list Z) (asmBits goBits : N)
| CSym (which : N) (bitsXY bitsYX : N)
| CBits (threshold v1 v2 : list Z) (packed1 packed2 : list N) (hamBits jacBits : N)
(* a binary vector store built by vectorstore.New for an index whose metric is hamming (0) or jaccard (1), whatever
   quantiser block the schema carries: the distance between two stored points (DistanceFromPoint) and between a
   query vector and a stored point (DistanceFromFloat), values passed multiplied by 2 as in CBits. The distance used
   for ranking is the bit-count definition OF THE INDEX METRIC on the vectors thresholded at 0.5 *)
| CStoreBits (metric : N) (v1 v2 : list Z) (fromPointBits fromFloatBits : N)
| CFloatStream (ok : bool)
| CPqTable (metric m k sl : N) (cents table : list N)
| CPqCode (metric m k sl : N) (cents v code : list N)
| CPqPair (metric m k sl : N) (cents codeA codeB : list N) (dAB dBA : N)
| CPqQuery (metric m k sl : N) (cents q : list N) (obs : list (list N * N)).

Fixpoint absdot (xs ys : list Z) : Z :=
  match xs, ys with x :: xs', y :: ys' => (Z.abs (x * y) + absdot xs' ys')%Z | _, _ => 0%Z end.
Definition exact_range (which : N) (xs ys : list Z) : bool :=
  (length xs =? length ys)%nat &&
  (if (which =? 1) || (which =? 4) then small (sqeuclid xs ys) && forallb small xs && forallb small ys
   else small (1 + absdot xs ys)).

Definition spec_bits (which : N) (xs ys : list Z) : N :=
  match which with
  | 0 => f32_bits_of_small_Z (dot xs ys)
  | 1 | 4 => f32_bits_of_small_Z (sqeuclid xs ys)
  | 2 => f32_neg (f32_bits_of_small_Z (dot xs ys))          (* -(+0.0) = -0.0 *)
  | _ => f32_bits_of_small_Z (cosine xs ys)
  end.
Definition model_bits (which : N) (xs ys : list Z) : option N :=
  match which with
  | 0 => option_map f32_bits_of_small_Z (kernel dot_params xs ys)
  | 1 | 4 => option_map f32_bits_of_small_Z (kernel euc_params xs ys)
  | 2 => option_map (fun d => f32_neg (f32_bits_of_small_Z d)) (kernel dot_params xs ys)
  | _ => option_map (fun d => f32_bits_of_small_Z (1 - d)) (kernel dot_params xs ys)
  end.
Definition opt_eqb (o : option N) (b : N) : bool := match o with Some a => a =? b | None => false end.

Definition q_tol : Q := Qmake 1 4194304.   (* 2^-22 *)
Definition jaccard_close (i u jacBits : N) : bool :=
  if u =? 0 then jacBits =? 0
  else match f32_to_Q jacBits with
       | None => false
       | Some q => let want := (1 - Qmake (Z.of_N i) (N.succ_pos (u - 1)))%Q in
                   Qle_bool (q - want) q_tol && Qle_bool (want - q) q_tol
       end.

(* product quantiser *)
Definition pq_shape (m k sl : N) (ncents : nat) : bool :=
  (0 <? m) && (0 <? k) && (0 <? sl) && (N.of_nat ncents =? m * k * sl).
Definition pq_code_ok (m k : N) (code : list N) : bool :=
  (N.of_nat (length code) =? m) && forallb (fun c => c <? k) code.
Definition nats (l : list N) : list nat := map N.to_nat l.
Definition pq_close (exact : bool) (abs_terms : Z) (bits : N) (want : Z) : bool :=
  match f32_to_u bits with
  | Some g => close_to (pq_tol exact abs_terms) (g * u_unit)%Z want
  | None => false
  end.
Definition pq_verdict (m k sl : N) (cents : list N) (f : list Z -> N) : N :=
  match f32s_to_u cents with
  | Some cz => if pq_shape m k sl (length cz) then f cz else 241
  | None => 241
  end.

Definition verdict (c : c20case) : N :=
  match c with
  | CKern which xs ys asmB goB =>
      if negb (exact_range which xs ys) then 290
      else first_fail [ (asmB =? goB, 101); (asmB =? spec_bits which xs ys, 102);
                        (opt_eqb (model_bits which xs ys) asmB, 201) ]
  | CSym which a b => first_fail [ (a =? b, 111) ]
  | CBits th v1 v2 p1 p2 hamB jacB =>
      let b1 := bits_of th v1 in let b2 := bits_of th v2 in
      let '(i, u) := jaccard_def b1 b2 in
      let '(mi, mu) := jaccard p1 p2 in
      first_fail [ (hamB =? f32_bits_of_small_Z (Z.of_N (hamming_def b1 b2)), 121);
                   (jaccard_close i u jacB, 122);
                   (lneq p1 (pack th v1) && lneq p2 (pack th v2), 221);
                   (hamB =? f32_bits_of_small_Z (Z.of_N (hamming p1 p2)), 222);
                   (jaccard_close mi mu jacB, 223) ]
  | CStoreBits metric v1 v2 dp df =>
      let th := repeat 1%Z (length v1) in
      let b1 := bits_of th v1 in let b2 := bits_of th v2 in
      if metric =? 0 then
        first_fail [ (dp =? f32_bits_of_small_Z (Z.of_N (hamming_def b1 b2)), 123);
                     (df =? f32_bits_of_small_Z (Z.of_N (hamming_def b1 b2)), 123) ]
      else
        let '(i, u) := jaccard_def b1 b2 in
        first_fail [ (jaccard_close i u dp, 124); (jaccard_close i u df, 124) ]
  | CFloatStream ok => first_fail [ (ok, 131) ]
  | CPqTable metric m k sl cents table =>
      pq_verdict m k sl cents (fun cz =>
        match f32s_to_u table with
        | Some tz =>
            if negb (N.of_nat (length tz) =? m * k * k) then 241
            else first_fail [ (pq_table_ok metric (forallb on_grid cz) (N.to_nat m) (N.to_nat k) (N.to_nat sl) cz tz, 141) ]
        | None => 241
        end)
  | CPqCode metric m k sl cents v code =>
      pq_verdict m k sl cents (fun cz =>
        match f32s_to_u v with
        | Some vz =>
            if negb (N.of_nat (length vz) =? m * sl) then 290
            else first_fail [ (pq_code_ok m k code, 146);
                              (pq_codes_argmin metric (forallb on_grid cz && forallb on_grid vz) (N.to_nat sl) (N.to_nat k) cz vz 0 (nats code), 142) ]
        | None => 290
        end)
  | CPqPair metric m k sl cents ca cb dAB dBA =>
      pq_verdict m k sl cents (fun cz =>
        let sl' := N.to_nat sl in let k' := N.to_nat k in
        first_fail [ (pq_code_ok m k ca && pq_code_ok m k cb, 146);
                     (pq_close (forallb on_grid cz) (pq_point_abs metric sl' k' cz (nats ca) (nats cb)) dAB
                               (pq_point_dist metric sl' k' cz (nats ca) (nats cb)), 143);
                     (dAB =? dBA, 144) ])
  | CPqQuery metric m k sl cents q obs =>
      pq_verdict m k sl cents (fun cz =>
        match f32s_to_u q with
        | Some qz =>
            if negb (N.of_nat (length qz) =? m * sl) then 290
            else
              let sl' := N.to_nat sl in let k' := N.to_nat k in
              let exact := forallb on_grid cz && forallb on_grid qz in
              first_fail (flat_map (fun o : list N * N =>
                [ (pq_code_ok m k (fst o), 146);
                  (pq_close exact (pq_query_abs metric sl' k' cz qz (nats (fst o))) (snd o)
                            (pq_query_dist metric sl' k' cz qz (nats (fst o))), 145) ]) obs)
        | None => 290
        end)
  end.

Fixpoint bad_from (i : N) (cs : list c20case) : list (N * N) :=
  match cs with
  | [] => []
  | c :: r => let v := verdict c in
              if v =? 0 then bad_from (i + 1) r else (i, v) :: bad_from (i + 1) r
  end.
Definition bad (cs : list c20case) : list (N * N) := bad_from 0 cs.
