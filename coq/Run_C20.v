(* Run_C20.v -- verdict functions evaluated on the observations the harness
   recorded from the real code.  Codes: 0 OK; 1xx the observation violates the
   property itself (SPECFAIL); 2xx the code differs from the model (MISMATCH).

   CKern: integer-valued float32 data chosen so that every float32 operation of
   the kernels is exact (all partial sums below 2^24 in magnitude; checked here,
   code 290 otherwise), hence the AVX kernel, the scalar reference loop and the
   exact Z value must agree bit for bit.
     which = 0 asm.Dot, 1 asm.SquaredEuclideanDistance (called directly),
             2 "dot" (= -dot), 3 "cosine" (= 1 - dot), 4 "euclidean" (through GetFloatDistanceFn).
   CSym: bit patterns of f(x,y) and f(y,x); which = 0..4 as above, 5 haversine, 6 hamming, 7 jaccard.
   CBits: thresholds and values are passed multiplied by 2 (so that the threshold 0.5
   is the integer 1); hamBits/jacBits are float32 patterns.
   CFloatStream: result of the tolerance TEST the harness performs on arbitrary floats. *)
From Coq Require Import List NArith ZArith Bool QArith.
From Semadb Require Import AsmParams Model_C20.
Import ListNotations.
Open Scope N_scope.

Definition first_fail (l : list (bool * N)) : N :=
  fold_right (fun (p : bool * N) acc => if fst p then acc else snd p) 0 l.
Fixpoint lneq (a b : list N) : bool :=
  match a, b with [], [] => true | x :: a', y :: b' => (x =? y) && lneq a' b' | _, _ => false end.

(* slices of shared backing vectors, with point modifications (position relative to the slice) *)
Fixpoint setnth (i : nat) (v : Z) (l : list Z) : list Z :=
  match l with [] => [] | x :: r => match i with O => v :: r | S i' => x :: setnth i' v r end end.
Definition vec_of (base : list Z) (off n : N) (mods : list (N * Z)) : list Z :=
  fold_left (fun l m => setnth (N.to_nat (fst m)) (snd m) l) mods (firstn (N.to_nat n) (skipn (N.to_nat off) base)).

Inductive c20case :=
| CKern (which : N) (xs ys : list Z) (asmBits goBits : N)
| CSym (which : N) (bitsXY bitsYX : N)
| CBits (threshold v1 v2 : list Z) (packed1 packed2 : list N) (hamBits jacBits : N)
| CFloatStream (ok : bool).

Fixpoint absdot (xs ys : list Z) : Z :=
  match xs, ys with x :: xs', y :: ys' => (Z.abs (x * y) + absdot xs' ys')%Z | _, _ => 0%Z end.
Definition exact_range (which : N) (xs ys : list Z) : bool :=
  (length xs =? length ys)%nat &&
  (if (which =? 1) || (which =? 4) then small (sqeuclid xs ys) && forallb small xs && forallb small ys
   else small (1 + absdot xs ys)).

Definition spec_bits (which : N) (xs ys : list Z) : N :=
  match which with
  | 0 => f32_bits_of_small_Z (dot xs ys)
  | 1 | 4 => f32_bits_of_small_Z (sqeuclid xs ys)
  | 2 => f32_neg (f32_bits_of_small_Z (dot xs ys))          (* -(+0.0) = -0.0 *)
  | _ => f32_bits_of_small_Z (cosine xs ys)
  end.
Definition model_bits (which : N) (xs ys : list Z) : option N :=
  match which with
  | 0 => option_map f32_bits_of_small_Z (kernel dot_params xs ys)
  | 1 | 4 => option_map f32_bits_of_small_Z (kernel euc_params xs ys)
  | 2 => option_map (fun d => f32_neg (f32_bits_of_small_Z d)) (kernel dot_params xs ys)
  | _ => option_map (fun d => f32_bits_of_small_Z (1 - d)) (kernel dot_params xs ys)
  end.
Definition opt_eqb (o : option N) (b : N) : bool := match o with Some a => a =? b | None => false end.

Definition q_tol : Q := Qmake 1 4194304.   (* 2^-22 *)
Definition jaccard_close (i u jacBits : N) : bool :=
  if u =? 0 then jacBits =? 0
  else match f32_to_Q jacBits with
       | None => false
       | Some q => let want := (1 - Qmake (Z.of_N i) (N.succ_pos (u - 1)))%Q in
                   Qle_bool (q - want) q_tol && Qle_bool (want - q) q_tol
       end.

Definition verdict (c : c20case) : N :=
  match c with
  | CKern which xs ys asmB goB =>
      if negb (exact_range which xs ys) then 290
      else first_fail [ (asmB =? goB, 101); (asmB =? spec_bits which xs ys, 102);
                        (opt_eqb (model_bits which xs ys) asmB, 201) ]
  | CSym which a b => first_fail [ (a =? b, 111) ]
  | CBits th v1 v2 p1 p2 hamB jacB =>
      let b1 := bits_of th v1 in let b2 := bits_of th v2 in
      let '(i, u) := jaccard_def b1 b2 in
      let '(mi, mu) := jaccard p1 p2 in
      first_fail [ (hamB =? f32_bits_of_small_Z (Z.of_N (hamming_def b1 b2)), 121);
                   (jaccard_close i u jacB, 122);
                   (lneq p1 (pack th v1) && lneq p2 (pack th v2), 221);
                   (hamB =? f32_bits_of_small_Z (Z.of_N (hamming p1 p2)), 222);
                   (jaccard_close mi mu jacB, 223) ]
  | CFloatStream ok => first_fail [ (ok, 131) ]
  end.

Fixpoint bad_from (i : N) (cs : list c20case) : list (N * N) :=
  match cs with
  | [] => []
  | c :: r => let v := verdict c in
              if v =? 0 then bad_from (i + 1) r else (i, v) :: bad_from (i + 1) r
  end.
Definition bad (cs : list c20case) : list (N * N) := bad_from 0 cs.
