(* Model_C07.v -- a small generic model of the transactional store with the
   shared write-back cache layer on top (shard.go InsertPoints / UpdatePoints /
   DeletePoints: `cacheTx := NewTransaction(); err := db.Write(func(bm) ...);
   if err != nil { cacheTx.Commit(true) } else { cacheTx.Commit(false) }`).
   Definitions only.

   disk       committed buckets (bbolt file): bucket name -> key -> value
   overlay    the puts / deletes of the running write transaction (bbolt Update:
              an error of the callback drops them, nil installs them atomically)
   caches     cache.Manager.sharedCaches: name -> (cached entries, scrapped);
              the cache called c holds entries of the bucket called c (a
              partial, lazily loaded copy; `None` = "known absent")
   prog       the batch: a list of operations each of which may depend on
              everything read so far (the view)
   run_tx     executes the batch with an optional storage fault at the k-th
              failable operation, `linger` further operations of other pipeline
              goroutines that are still in flight when the callback returns
              (utils.MergeErrorsWithContext returns on the FIRST error), and an
              optional process kill at the k-th operation / before / after commit
   observe    a read-only query: an adaptive list of reads, each answered from
              the registered cache when there is a usable one, else from disk
   run_tx_mem the in-memory backend: no rollback
   sys / straggle / next_tx   what goroutines of the batch do AFTER the callback
              returned, with (fixed) and without (v0) the txGuard of
              diskstore/bbolt.go and the `done` flag of cache.Transaction. *)
From Coq Require Import List NArith Bool Arith.
From Semadb Require Import Bytes Value Obs Model_C01.
Import ListNotations.

Definition name := bytes.
Definition key := bytes.
Definition val := bytes.

(* ------------- association lists keyed by byte strings (first binding wins) ------------- *)
Fixpoint alookup {A} (k : bytes) (l : list (bytes * A)) : option A :=
  match l with
  | [] => None
  | (k', a) :: r => if bytes_eqb k k' then Some a else alookup k r
  end.
Fixpoint aremove {A} (k : bytes) (l : list (bytes * A)) : list (bytes * A) :=
  match l with
  | [] => []
  | (k', a) :: r => if bytes_eqb k k' then aremove k r else (k', a) :: aremove k r
  end.
Definition aset {A} (k : bytes) (a : A) (l : list (bytes * A)) : list (bytes * A) := (k, a) :: aremove k l.
Definition mem (c : bytes) (l : list bytes) : bool := existsb (bytes_eqb c) l.

(* ------------- committed state ------------- *)
Definition bucket := list (key * val).
Definition disk := list (name * bucket).

Definition d_bucket (d : disk) (b : name) : bucket := match alookup b d with Some x => x | None => [] end.
Definition d_get (d : disk) (b : name) (k : key) : option val := alookup k (d_bucket d b).
Definition d_put (d : disk) (b : name) (k : key) (v : val) : disk := aset b (aset k v (d_bucket d b)) d.
Definition d_del (d : disk) (b : name) (k : key) : disk := aset b (aremove k (d_bucket d b)) d.

(* ------------- the overlay of a write transaction (latest write first) ------------- *)
Definition wr := (name * key * option val)%type.
Definition overlay := list wr.
Definition apply_wr (w : wr) (d : disk) : disk :=
  match w with
  | (b, k, Some v) => d_put d b k v
  | (b, k, None) => d_del d b k
  end.
(* what the transaction itself reads, and what commit installs *)
Definition materialize (d : disk) (ov : overlay) : disk := fold_right apply_wr d ov.
(* the latest write of the overlay to (b,k), if any *)
Fixpoint ov_find (b : name) (k : key) (ov : overlay) : option (option val) :=
  match ov with
  | [] => None
  | (b', k', o) :: r => if bytes_eqb b b' && bytes_eqb k k' then Some o else ov_find b k r
  end.

(* ------------- the shared caches ------------- *)
Definition centries := list (key * option val).
Definition caches := list (name * (centries * bool)).       (* (entries, scrapped) *)
Definition usable (cs : caches) (c : name) : option centries :=
  match alookup c cs with
  | Some (x, false) => Some x
  | _ => None
  end.
Definition cache_entries (cs : caches) (c : name) : centries :=
  match usable cs c with Some x => x | None => [] end.      (* createFn: a fresh cold cache *)
(* Commit(true): every written cache is marked scrapped and deleted from the manager *)
Definition scrap (written : list name) (cs : caches) : caches :=
  filter (fun e => negb (mem (fst e) written)) cs.

Definition state := (disk * caches)%type.

(* ------------- operations and programs ------------- *)
Inductive op :=
| Get (b : name) (k : key)                 (* Bucket.Get: cannot fail in the diskstore interface *)
| Put (b : name) (k : key) (v : val)
| Del (b : name) (k : key)
| Scan (b : name)                          (* ForEach / PrefixScan / RangeScan *)
| CGet (c : name) (k : key)                (* read through cache c with write access (With(name, false, ...)) *)
| CPut (c : name) (k : key) (o : option val).  (* write an entry of cache c; creating the cache may fail (index construction) *)

Inductive res := RVal (o : option val) | RList (l : bucket) | RUnit.
Definition view := list res.               (* everything read so far, latest first *)
Definition prog := list (view -> op).

Definition failable (o : op) : bool := match o with Get _ _ => false | _ => true end.

Record txs := mkT { t_ov : overlay; t_cs : caches; t_wr : list name; t_view : view }.
Definition tx0 (cs : caches) : txs := mkT [] cs [] [].

(* write access to cache c: it is (re)registered with contents x, stays write-locked
   and is remembered in writtenCaches until Commit *)
Definition touch (t : txs) (c : name) (x : centries) (r : res) : txs :=
  mkT (t_ov t) (aset c (x, false) (t_cs t)) (c :: t_wr t) (r :: t_view t).

Definition exec_op (d : disk) (t : txs) (o : op) : txs :=
  let cur := materialize d (t_ov t) in
  match o with
  | Get b k => mkT (t_ov t) (t_cs t) (t_wr t) (RVal (d_get cur b k) :: t_view t)
  | Scan b => mkT (t_ov t) (t_cs t) (t_wr t) (RList (d_bucket cur b) :: t_view t)
  | Put b k v => mkT ((b, k, Some v) :: t_ov t) (t_cs t) (t_wr t) (RUnit :: t_view t)
  | Del b k => mkT ((b, k, None) :: t_ov t) (t_cs t) (t_wr t) (RUnit :: t_view t)
  | CGet c k =>
      let x := cache_entries (t_cs t) c in
      match alookup k x with
      | Some o => touch t c x (RVal o)
      | None => let o := d_get cur c k in touch t c (aset k o x) (RVal o)   (* miss: load from the transaction's view *)
      end
  | CPut c k o => touch t c (aset k o (cache_entries (t_cs t) c)) RUnit
  end.

Definition dec (c : option nat) : option nat := match c with Some (S n) => Some n | x => x end.

Inductive stop :=
| RDone (t : txs)
| RFault (t : txs) (rest : prog) (crash : option nat)   (* the failing operation did not execute *)
| RCrash.

(* fault = Some k: the k-th FAILABLE operation (from 0) returns an error;
   crash = Some k: the process dies when it is about to issue its k-th operation (from 0) *)
Fixpoint run_ops (d : disk) (fault crash : option nat) (p : prog) (t : txs) : stop :=
  match p with
  | [] => RDone t
  | f :: r =>
      let o := f (t_view t) in
      match crash with
      | Some O => RCrash
      | _ =>
          if failable o then
            match fault with
            | Some O => RFault t r (dec crash)
            | _ => run_ops d (dec fault) (dec crash) r (exec_op d t o)
            end
          else run_ops d fault (dec crash) r (exec_op d t o)
      end
  end.

(* plain execution *)
Fixpoint exec_all (d : disk) (p : prog) (t : txs) : txs :=
  match p with
  | [] => t
  | f :: r => exec_all d r (exec_op d t (f (t_view t)))
  end.

Inductive crashpt := AtOp (k : nat) | BeforeCommit | AfterCommit.
Definition crash_at (c : option crashpt) : option nat := match c with Some (AtOp k) => Some k | _ => None end.

Inductive outcome :=
| Committed (d : disk) (cs : caches)      (* the call reported success *)
| Aborted (d : disk) (cs : caches)        (* the call reported an error *)
| Crashed (file : disk).                  (* the process died; what is in the file *)

Definition abort (d : disk) (t : txs) : outcome := Aborted d (scrap (t_wr t) (t_cs t)).

Definition run_tx (fault : option nat) (linger : nat) (crash : option crashpt) (p : prog) (st : state) : outcome :=
  let d := fst st in
  match run_ops d fault (crash_at crash) p (tx0 (snd st)) with
  | RCrash => Crashed d
  | RFault t r c' =>
      (* the callback is about to return the error; up to `linger` further operations of other
         goroutines of the batch still execute inside the transaction (txGuard.finish waits for them) *)
      match run_ops d None c' (firstn linger r) t with
      | RCrash => Crashed d
      | RDone t' => abort d t'
      | RFault t' _ _ => abort d t'
      end
  | RDone t =>
      match crash with
      | Some BeforeCommit => Crashed d
      | Some AfterCommit => Crashed (materialize d (t_ov t))
      | _ => Committed (materialize d (t_ov t)) (t_cs t)      (* Commit(false): the written caches stay *)
      end
  end.

(* a validation rejection: the callback returns an error of its own after k operations *)
Definition run_reject (k : nat) (p : prog) (st : state) : outcome :=
  abort (fst st) (exec_all (fst st) (firstn k p) (tx0 (snd st))).

(* the writes / written caches of the undisturbed run *)
Definition tx_final (p : prog) (st : state) : txs := exec_all (fst st) p (tx0 (snd st)).
Definition tx_writes (p : prog) (st : state) : overlay := t_ov (tx_final p st).

(* the in-memory backend (diskstore/memstore.go Write): the bucket maps are written in
   place, a failing callback leaves what it wrote *)
Definition abort_mem (d : disk) (t : txs) : outcome := Aborted (materialize d (t_ov t)) (scrap (t_wr t) (t_cs t)).
Definition run_tx_mem (fault : option nat) (linger : nat) (p : prog) (st : state) : outcome :=
  let d := fst st in
  match run_ops d fault None p (tx0 (snd st)) with
  | RCrash => Crashed []
  | RFault t r c' =>
      match run_ops d None c' (firstn linger r) t with
      | RCrash => Crashed []
      | RDone t' => abort_mem d t'
      | RFault t' _ _ => abort_mem d t'
      end
  | RDone t => Committed (materialize d (t_ov t)) (t_cs t)
  end.

(* ------------- observations ------------- *)
Inductive rd := RGet (b : name) (k : key) | RScan (b : name).
Definition read1 (st : state) (r : rd) : res :=
  match r with
  | RGet b k =>
      match usable (snd st) b with
      | Some x => match alookup k x with
                  | Some o => RVal o
                  | None => RVal (d_get (fst st) b k)
                  end
      | None => RVal (d_get (fst st) b k)
      end
  | RScan b => RList (d_bucket (fst st) b)
  end.
Definition query := list (view -> rd).     (* adaptive: graph walks, id -> node -> document chains ... *)
Fixpoint observe_from (st : state) (q : query) (v : view) : view :=
  match q with
  | [] => v
  | f :: r => observe_from st r (read1 st (f v) :: v)
  end.
Definition observe (st : state) (q : query) : view := observe_from st q [].

Definition recover (file : disk) : state := (file, []).     (* a fresh process: empty cache manager *)
Definition cold (st : state) : state := (fst st, []).

(* every usable registered cache agrees with the committed disk on every entry it holds *)
Definition coh (st : state) : Prop :=
  forall c x, usable (snd st) c = Some x ->
  forall k o, alookup k x = Some o -> d_get (fst st) c k = o.

Definition oval_eqb (a b : option val) : bool :=
  match a, b with
  | Some x, Some y => bytes_eqb x y
  | None, None => true
  | _, _ => false
  end.
Definition entries_okb (d : disk) (c : name) (x : centries) : bool :=
  forallb (fun ko => oval_eqb (d_get d c (fst ko)) (snd ko)) x.
Definition cohb (st : state) : bool :=
  forallb (fun e => snd (snd e) || entries_okb (fst st) (fst e) (fst (snd e))) (snd st).

(* the discipline of the index code on an undisturbed run ("cache and overlay in sync"):
   (1) a bucket that has a usable shared cache is only written by a transaction that holds
       write access to that cache; (2) when the callback returns, every entry of a written
       cache agrees with the transaction's view (dirty entries flushed, loads were from the view) *)
Definition mirrors_final (cs0 : caches) (d : disk) (t : txs) : Prop :=
  (forall b k o, In (b, k, o) (t_ov t) -> In b (t_wr t) \/ usable cs0 b = None) /\
  (forall c x, In c (t_wr t) -> usable (t_cs t) c = Some x ->
     forall k o, alookup k x = Some o -> d_get (materialize d (t_ov t)) c k = o).
Definition mirrors (p : prog) (st : state) : Prop := mirrors_final (snd st) (fst st) (tx_final p st).

Definition mirrors_finalb (cs0 : caches) (d : disk) (t : txs) : bool :=
  forallb (fun w : wr => mem (fst (fst w)) (t_wr t) || match usable cs0 (fst (fst w)) with None => true | Some _ => false end) (t_ov t)
  && forallb (fun e => negb (mem (fst e) (t_wr t)) || snd (snd e)
                       || entries_okb (materialize d (t_ov t)) (fst e) (fst (snd e))) (t_cs t).
Definition mirrorsb (p : prog) (st : state) : bool := mirrors_finalb (snd st) (fst st) (tx_final p st).

(* a syntactic discipline that implies `mirrors` (checked along the undisturbed run): write-through.
   A bucket write is either preceded IMMEDIATELY by the write of the same entry into the cache of
   that bucket (CPut c k (Some v); Put c k v  /  CPut c k None; Del c k), or it goes to a bucket
   that has no usable shared cache and whose cache the transaction has not opened. *)
Fixpoint write_through (cs0 : caches) (d : disk) (p : prog) (t : txs) : bool :=
  match p with
  | [] => true
  | f :: r =>
      let o := f (t_view t) in
      let t1 := exec_op d t o in
      match o with
      | CPut c k ov =>
          match r with
          | g :: r' =>
              let o2 := g (t_view t1) in
              match o2, ov with
              | Put b k' v, Some v' => bytes_eqb b c && bytes_eqb k' k && bytes_eqb v v'
              | Del b k', None => bytes_eqb b c && bytes_eqb k' k
              | _, _ => false
              end && write_through cs0 d r' (exec_op d t1 o2)
          | [] => false
          end
      | Put b _ _ | Del b _ =>
          negb (mem b (t_wr t)) && match usable cs0 b with None => true | Some _ => false end
          && write_through cs0 d r t1
      | _ => write_through cs0 d r t1
      end
  end.

(* ------------- rejected batches (link to the reference spec of C01) ------------- *)
(* `compile` is whatever sequence of storage / cache operations the code issues for the batch;
   when the reference spec rejects the batch the callback returns the validation error after
   some number k of them *)
Definition run_batch (sc : schema) (maxsize : N) (b : batch) (s : store) (compile : batch -> prog)
           (k : nat) (st : state) : outcome :=
  match snd (apply_spec sc maxsize b s) with
  | SErr _ => run_reject k (compile b) st
  | SOk _ => run_tx None 0 None (compile b) st
  end.

(* ------------- after the callback returned: stragglers ------------- *)
Record sys := mkSys {
  y_disk : disk; y_caches : caches;
  y_done : bool;              (* txGuard.done / Transaction.done of the batch that just ended *)
  y_locked : list name;       (* caches write-locked on behalf of a transaction nobody will Commit again *)
  y_alive : bool }.           (* false: a bbolt page of a closed transaction was touched (SIGSEGV in bbolt DB.page) *)

Definition sys_after (o : outcome) : option sys :=
  match o with
  | Committed d cs => Some (mkSys d cs true [] true)
  | Aborted d cs => Some (mkSys d cs true [] true)
  | Crashed _ => None
  end.

(* fixed = true: the tree with commits 581ddda (txGuard) and 1944012 (done flag);
   fixed = false: the pinned tree *)
Definition straggle1 (fixed : bool) (s : sys) (o : op) : sys :=
  if fixed && y_done s then s             (* errTxDone / "transaction has already finished": refused *)
  else match o with
       | Get _ _ | Put _ _ _ | Del _ _ | Scan _ =>
           mkSys (y_disk s) (y_caches s) (y_done s) (y_locked s) false
       | CGet c _ | CPut c _ _ =>
           (* With(name, false, ...): existingCache.mu.Lock() or a new registered cache with s.mu.Lock();
              writtenCaches of a transaction that is already committed: never unlocked *)
           mkSys (y_disk s)
                 (match alookup c (y_caches s) with Some _ => y_caches s | None => aset c ([], false) (y_caches s) end)
                 (y_done s) (c :: y_locked s) (y_alive s)
       end.
Definition straggle (fixed : bool) (s : sys) (ops : list op) : sys := fold_left (straggle1 fixed) ops s.

Inductive outcome2 := Ran (o : outcome) | Blocked (c : name) | Dead.
(* the next write transaction on the same process *)
Definition next_tx (s : sys) (p : prog) : outcome2 :=
  if negb (y_alive s) then Dead
  else match find (fun c => mem c (y_locked s)) (rev (t_wr (tx_final p (y_disk s, y_caches s)))) with
       | Some c => Blocked c               (* existingCache.mu.Lock() waits forever *)
       | None => Ran (run_tx None 0 None p (y_disk s, y_caches s))
       end.

(* ------------- vocabulary of the theorems ------------- *)
(* "answers exactly as if the batch had never been issued" *)
Definition unchanged (st : state) (d' : disk) (cs' : caches) : Prop :=
  d' = fst st /\ coh (d', cs') /\
  (forall q, observe (d', cs') q = observe st q) /\          (* warm: the surviving caches *)
  (forall q, observe (recover d') q = observe st q).         (* cold: a fresh instance on the file *)


(* the number of failable operations the undisturbed batch issues from t on *)
Fixpoint count_failable (d : disk) (p : prog) (t : txs) : nat :=
  match p with
  | [] => O
  | f :: r => (if failable (f (t_view t)) then 1 else 0) + count_failable d r (exec_op d t (f (t_view t)))
  end.

