(* Proofs_Vamana.v -- lemmas about the Vamana mechanism model (Model_Vamana.v):
   association lists, DistSet invariants, greedy search never fails on a closed node set,
   inductive well-formedness under insert / prune / delete / batches. *)
From Coq Require Import List NArith QArith Bool Arith Lia Permutation Sorted.
From Coq Require Import ZifyBool ZifyN ZifyNat.
From Semadb Require Import Model_Vamana.
Import ListNotations.

Local Arguments add_with_limit {vec} dist ds p : simpl never.
Local Arguments add {vec} dist ds p : simpl never.

(* ------------------------------------------------------------------ *)
(* 0. basics                                                           *)
(* ------------------------------------------------------------------ *)

Lemma memb_In : forall x l, memb x l = true <-> In x l.
Proof.
  intros x l. unfold memb. rewrite existsb_exists. split.
  - intros [y [Hy He]]. apply N.eqb_eq in He. subst. exact Hy.
  - intros H. exists x. split; [exact H|apply N.eqb_refl].
Qed.

Lemma memb_false : forall x l, memb x l = false <-> ~ In x l.
Proof.
  intros x l. rewrite <- memb_In. destruct (memb x l); split; intros H.
  - discriminate.
  - exfalso. apply H. reflexivity.
  - intros H'. discriminate.
  - reflexivity.
Qed.

Lemma lookup_put : forall A x y (v : A) l, lookup y (put x v l) = if N.eqb y x then Some v else lookup y (del x l).
Proof. intros. unfold put. simpl. reflexivity. Qed.

Lemma lookup_del : forall A x y (l : list (N * A)), lookup y (del x l) = if N.eqb y x then None else lookup y l.
Proof.
  intros A x y l. induction l as [|[k w] r IH]; simpl.
  - destruct (N.eqb y x); reflexivity.
  - destruct (N.eqb k x) eqn:Ekx; simpl.
    + apply N.eqb_eq in Ekx. subst k. rewrite IH. destruct (N.eqb y x); reflexivity.
    + rewrite IH. destruct (N.eqb y k) eqn:Eyk.
      * apply N.eqb_eq in Eyk. subst k. rewrite Ekx. reflexivity.
      * reflexivity.
Qed.

Lemma lookup_put' : forall A x y (v : A) l, lookup y (put x v l) = if N.eqb y x then Some v else lookup y l.
Proof. intros. rewrite lookup_put, lookup_del. destruct (N.eqb y x); reflexivity. Qed.

Lemma lookup_dels : forall A xs y (l : list (N * A)), lookup y (dels xs l) = if memb y xs then None else lookup y l.
Proof.
  intros A xs y l. induction l as [|[k w] r IH]; simpl.
  - destruct (memb y xs); reflexivity.
  - destruct (memb k xs) eqn:Ek; simpl.
    + rewrite IH. destruct (N.eqb y k) eqn:Eyk.
      * apply N.eqb_eq in Eyk. subst k. rewrite Ek. reflexivity.
      * reflexivity.
    + rewrite IH. destruct (N.eqb y k) eqn:Eyk.
      * apply N.eqb_eq in Eyk. subst k. rewrite Ek. reflexivity.
      * reflexivity.
Qed.

Lemma lookup_Some_In : forall A x (v : A) l, lookup x l = Some v -> In (x, v) l.
Proof.
  intros A x v l. induction l as [|[k w] r IH]; simpl; intros H.
  - discriminate.
  - destruct (N.eqb x k) eqn:E.
    + apply N.eqb_eq in E. subst. inversion H. left. reflexivity.
    + right. apply IH. exact H.
Qed.

Lemma lookup_dom : forall A x (l : list (N * A)), In x (dom l) <-> exists v, lookup x l = Some v.
Proof.
  intros A x l. unfold dom. induction l as [|[k w] r IH]; simpl.
  - split; [intros []|intros [v H]; discriminate].
  - destruct (N.eqb x k) eqn:E.
    + apply N.eqb_eq in E. subst. split; intros _; [exists w; reflexivity|left; reflexivity].
    + apply N.eqb_neq in E. rewrite <- IH. split; intros H.
      * destruct H as [H|H]; [congruence|exact H].
      * right. exact H.
Qed.

Lemma lookup_None_dom : forall A x (l : list (N * A)), lookup x l = None <-> ~ In x (dom l).
Proof.
  intros A x l. rewrite lookup_dom. destruct (lookup x l) as [v|]; split; intros H.
  - discriminate.
  - exfalso. apply H. exists v. reflexivity.
  - intros [v Hv]. discriminate.
  - reflexivity.
Qed.

Lemma In_dom : forall A x (v : A) l, In (x, v) l -> In x (dom l).
Proof. intros A x v l H. unfold dom. apply in_map_iff. exists (x, v). split; [reflexivity|exact H]. Qed.

Lemma In_lookup_NoDup : forall A x (v : A) l, NoDup (dom l) -> In (x, v) l -> lookup x l = Some v.
Proof.
  intros A x v l. unfold dom. induction l as [|[k w] r IH]; simpl; intros Hnd Hin.
  - destruct Hin.
  - inversion Hnd as [|? ? Hk Hr]; subst. destruct Hin as [Hin|Hin].
    + inversion Hin; subst. rewrite N.eqb_refl. reflexivity.
    + destruct (N.eqb x k) eqn:E.
      * apply N.eqb_eq in E. subst. exfalso. apply Hk. apply (In_dom _ _ _ _ Hin).
      * apply IH; assumption.
Qed.

Lemma dom_del : forall A x y (l : list (N * A)), In y (dom (del x l)) <-> In y (dom l) /\ y <> x.
Proof.
  intros. rewrite !lookup_dom. rewrite lookup_del. destruct (N.eqb y x) eqn:E.
  - apply N.eqb_eq in E. split; [intros [v H]; discriminate|intros [_ H]; congruence].
  - apply N.eqb_neq in E. split; [intros H; split; assumption|intros [H _]; exact H].
Qed.

Lemma dom_put : forall A x y (v : A) l, In y (dom (put x v l)) <-> y = x \/ In y (dom l).
Proof.
  intros. rewrite !lookup_dom. rewrite lookup_put'. destruct (N.eqb y x) eqn:E.
  - apply N.eqb_eq in E. split; [intros _; left; exact E|intros _; exists v; reflexivity].
  - apply N.eqb_neq in E. split; [intros H; right; exact H|intros [H|H]; [congruence|exact H]].
Qed.

Lemma dom_dels : forall A xs y (l : list (N * A)), In y (dom (dels xs l)) <-> In y (dom l) /\ ~ In y xs.
Proof.
  intros. rewrite !lookup_dom. rewrite lookup_dels. destruct (memb y xs) eqn:E.
  - apply memb_In in E. split; [intros [v H]; discriminate|intros [_ H]; contradiction].
  - apply memb_false in E. split; [intros H; split; assumption|intros [H _]; exact H].
Qed.

Lemma NoDup_dom_filter : forall A (f : N * A -> bool) l, NoDup (dom l) -> NoDup (dom (filter f l)).
Proof.
  intros A f l. unfold dom. induction l as [|p r IH]; simpl; intros H.
  - constructor.
  - inversion H as [|? ? Hp Hr]; subst. destruct (f p); simpl.
    + constructor; [|apply IH; exact Hr]. intros Hin. apply Hp.
      apply in_map_iff in Hin. destruct Hin as [q [Hq Hin]]. apply filter_In in Hin.
      apply in_map_iff. exists q. split; [exact Hq|apply Hin].
    + apply IH. exact Hr.
Qed.

Lemma NoDup_dom_put : forall A x (v : A) l, NoDup (dom l) -> NoDup (dom (put x v l)).
Proof.
  intros A x v l H. unfold put. change (dom ((x, v) :: del x l)) with (x :: dom (del x l)).
  constructor.
  - rewrite dom_del. intros [_ Hne]. apply Hne. reflexivity.
  - apply NoDup_dom_filter. exact H.
Qed.

Lemma NoDup_dom_dels : forall A xs (l : list (N * A)), NoDup (dom l) -> NoDup (dom (dels xs l)).
Proof. intros. apply NoDup_dom_filter. assumption. Qed.

Lemma get_many_In : forall A i (v : A) ids0 l, In (i, v) (get_many ids0 l) <-> In i ids0 /\ lookup i l = Some v.
Proof.
  intros A i v ids0 l. unfold get_many. rewrite in_flat_map. split.
  - intros [j [Hj Hin]]. destruct (lookup j l) as [w|] eqn:E; simpl in Hin.
    + destruct Hin as [Hin|[]]. inversion Hin; subst. split; assumption.
    + destruct Hin.
  - intros [Hi Hl]. exists i. split; [exact Hi|]. rewrite Hl. left. reflexivity.
Qed.

Lemma get_many_length : forall A ids0 (l : list (N * A)), (length (get_many ids0 l) <= length ids0)%nat.
Proof.
  intros A ids0 l. induction ids0 as [|i r IH]; simpl.
  - lia.
  - rewrite app_length. destruct (lookup i l); simpl; lia.
Qed.

Lemma get_many_dom_NoDup : forall A ids0 (l : list (N * A)), NoDup ids0 -> NoDup (dom (get_many ids0 l)).
Proof.
  intros A ids0 l. induction ids0 as [|i r IH]; simpl; intros H.
  - constructor.
  - inversion H as [|? ? Hi Hr]; subst. destruct (lookup i l) as [v|] eqn:E; simpl.
    + change (dom ((i, v) :: get_many r l)) with (i :: dom (get_many r l)).
      constructor; [|apply IH; exact Hr]. intros Hin. apply Hi.
      unfold dom in Hin. apply in_map_iff in Hin. destruct Hin as [[j w] [Hj Hin]]. simpl in Hj. subst j.
      apply get_many_In in Hin. apply Hin.
    + apply IH. exact Hr.
Qed.

Lemma split_last_None : forall A (l : list A), split_last l = None <-> l = [].
Proof.
  intros A l. destruct l as [|x r]; simpl.
  - split; reflexivity.
  - destruct (split_last r) as [[p a]|]; split; intros H; discriminate.
Qed.

Lemma split_last_app : forall A (p : list A) a, split_last (p ++ [a]) = Some (p, a).
Proof.
  intros A p a. induction p as [|y p IH]; simpl.
  - reflexivity.
  - rewrite IH. reflexivity.
Qed.

Lemma split_last_Some : forall A (l : list A) p a, split_last l = Some (p, a) <-> l = p ++ [a].
Proof.
  intros A l p a. split.
  - revert p a. induction l as [|x r IH]; intros p a; simpl.
    + discriminate.
    + destruct (split_last r) as [[p' a']|] eqn:E; intros H; inversion H; subst.
      * simpl. f_equal. apply IH. reflexivity.
      * apply split_last_None in E. subst r. reflexivity.
  - intros H. subst l. apply split_last_app.
Qed.

Lemma Qlt_b_true : forall a b, Qlt_b a b = true <-> (a < b)%Q.
Proof.
  intros a b. unfold Qlt_b. rewrite negb_true_iff. split; intros H.
  - apply Qnot_le_lt. intros Hle. apply Qle_bool_iff in Hle. congruence.
  - destruct (Qle_bool b a) eqn:E; [|reflexivity]. apply Qle_bool_iff in E. exfalso. apply (Qlt_not_le _ _ H E).
Qed.

Lemma Qlt_b_false : forall a b, Qlt_b a b = false <-> (b <= a)%Q.
Proof.
  intros a b. unfold Qlt_b. rewrite negb_false_iff. apply Qle_bool_iff.
Qed.

Lemma fold_res_app : forall A B (f : A -> B -> result A) l1 l2 a,
  fold_res f (l1 ++ l2) a = bind (fold_res f l1 a) (fold_res f l2).
Proof.
  intros A B f l1. induction l1 as [|b r IH]; intros l2 a; simpl.
  - reflexivity.
  - destruct (f a b) as [a'|e]; simpl; [apply IH|reflexivity].
Qed.

(* generic invariant rule for fold_res *)
Lemma fold_res_inv : forall A B (f : A -> B -> result A) (I : A -> Prop) (Q : B -> Prop),
  (forall a b, I a -> Q b -> exists a', f a b = Ok a' /\ I a') ->
  forall l a, I a -> Forall Q l -> exists a', fold_res f l a = Ok a' /\ I a'.
Proof.
  intros A B f I Q Hstep l. induction l as [|b r IH]; intros a Ha HQ; simpl.
  - exists a. split; [reflexivity|exact Ha].
  - inversion HQ as [|? ? Hb Hr]; subst. destruct (Hstep a b Ha Hb) as [a' [E Ha']]. rewrite E. simpl.
    apply IH; assumption.
Qed.

(* ------------------------------------------------------------------ *)
(* 1. DistSet                                                          *)
(* ------------------------------------------------------------------ *)

Lemma sortedQ_app_l : forall a b, StronglySorted Qle (a ++ b) -> StronglySorted Qle a.
Proof.
  intros a b. induction a as [|x a IH]; simpl; intros H.
  - constructor.
  - inversion H as [|? ? Hs Hf]; subst. constructor.
    + apply IH. exact Hs.
    + apply Forall_app in Hf. apply Hf.
Qed.

Lemma sortedQ_mid : forall a y x s,
  StronglySorted Qle (a ++ y :: s) -> (y <= x)%Q -> Forall (Qle x) s -> StronglySorted Qle (a ++ y :: x :: s).
Proof.
  intros a y x s. induction a as [|z a IH]; simpl; intros H Hyx Hxs.
  - inversion H as [|? ? Hs Hf]; subst. constructor.
    + constructor; assumption.
    + constructor; assumption.
  - inversion H as [|? ? Hs Hf]; subst. constructor.
    + apply IH; assumption.
    + apply Forall_app in Hf. destruct Hf as [Hfa Hfy]. inversion Hfy as [|? ? Hzy Hzs]; subst.
      apply Forall_app. split; [exact Hfa|]. constructor; [exact Hzy|]. constructor; [|exact Hzs].
      apply (Qle_trans _ _ _ Hzy Hyx).
Qed.

Lemma sortedQ_last : forall a y, StronglySorted Qle (a ++ [y]) -> Forall (fun z => (z <= y)%Q) (a ++ [y]).
Proof.
  intros a y. induction a as [|z a IH]; simpl; intros H.
  - constructor; [apply Qle_refl|constructor].
  - inversion H as [|? ? Hs Hf]; subst. constructor.
    + apply Forall_app in Hf. destruct Hf as [_ Hy]. inversion Hy; subst. assumption.
    + apply IH. exact Hs.
Qed.

Lemma NoDup_map_inj : forall A B (f : A -> B) l a b, NoDup (map f l) -> In a l -> In b l -> f a = f b -> a = b.
Proof.
  intros A B f l a b. induction l as [|x r IH]; simpl; intros Hnd Ha Hb Hf.
  - destruct Ha.
  - inversion Hnd as [|? ? Hx Hr]; subst. destruct Ha as [Ha|Ha]; destruct Hb as [Hb|Hb].
    + congruence.
    + subst x. exfalso. apply Hx. rewrite Hf. apply in_map. exact Hb.
    + subst x. exfalso. apply Hx. rewrite <- Hf. apply in_map. exact Ha.
    + apply IH; assumption.
Qed.

Section DistSet.
Variable vec : Type.
Implicit Types (l pre suf rpre : list (item vec)) (ds : distset vec).

Definition dists l : list Q := map (@it_d vec) l.
Definition sorted l : Prop := StronglySorted Qle (dists l).

Lemma sorted_perm_ids : forall l l', Permutation l l' -> Permutation (ids l) (ids l').
Proof. intros. unfold ids. apply Permutation_map. assumption. Qed.

Lemma bubble_sorted : forall rpre x suf,
  sorted (rev rpre ++ suf) -> Forall (fun s => (it_d x < it_d s)%Q) suf -> sorted (bubble rpre x suf).
Proof.
  intros rpre x. induction rpre as [|y r IH]; intros suf Hs Hlt; simpl.
  - unfold sorted, dists in *. simpl in *. constructor; [exact Hs|].
    apply Forall_map. eapply Forall_impl; [|exact Hlt]. intros a Ha. apply Qlt_le_weak. exact Ha.
  - simpl in Hs. rewrite <- app_assoc in Hs. simpl in Hs.
    destruct (Qlt_b (it_d x) (it_d y)) eqn:E.
    + apply IH; [exact Hs|]. constructor; [apply Qlt_b_true; exact E|exact Hlt].
    + apply Qlt_b_false in E. rewrite rev_append_rev. simpl. try (rewrite <- app_assoc; simpl).
      unfold sorted, dists in *. rewrite map_app in *. simpl in *.
      apply sortedQ_mid; [exact Hs|exact E|].
      apply Forall_map. eapply Forall_impl; [|exact Hlt]. intros a Ha. apply Qlt_le_weak. exact Ha.
Qed.

Lemma bubble_perm : forall rpre x suf, Permutation (bubble rpre x suf) (x :: rev rpre ++ suf).
Proof.
  intros rpre x. induction rpre as [|y r IH]; intros suf; simpl.
  - apply Permutation_refl.
  - destruct (Qlt_b (it_d x) (it_d y)).
    + rewrite <- app_assoc. simpl. apply IH.
    + rewrite rev_append_rev.
      replace (rev r ++ y :: x :: suf) with ((rev r ++ [y]) ++ x :: suf) by (rewrite <- app_assoc; reflexivity).
      apply Permutation_sym. apply Permutation_middle.
Qed.

Lemma push_bubble_perm : forall pre x, Permutation (push_bubble pre x) (x :: pre).
Proof.
  intros pre x. unfold push_bubble. eapply Permutation_trans; [apply bubble_perm|].
  rewrite rev_involutive, app_nil_r. apply Permutation_refl.
Qed.

Lemma push_bubble_sorted : forall pre x, sorted pre -> sorted (push_bubble pre x).
Proof.
  intros pre x H. unfold push_bubble. apply bubble_sorted.
  - rewrite rev_involutive, app_nil_r. exact H.
  - constructor.
Qed.

Lemma sort_items_gen : forall l acc, sorted acc ->
  sorted (fold_left (@push_bubble vec) l acc) /\ Permutation (fold_left (@push_bubble vec) l acc) (acc ++ l).
Proof.
  intros l. induction l as [|a r IH]; intros acc Hs; simpl.
  - split; [exact Hs|]. rewrite app_nil_r. apply Permutation_refl.
  - destruct (IH (push_bubble acc a) (push_bubble_sorted acc a Hs)) as [H1 H2]. split; [exact H1|].
    eapply Permutation_trans; [exact H2|].
    eapply Permutation_trans; [apply Permutation_app_tail; apply push_bubble_perm|].
    simpl. apply Permutation_middle.
Qed.

Lemma sort_items_sorted : forall l, sorted (sort_items l).
Proof. intros l. unfold sort_items. apply sort_items_gen. constructor. Qed.

Lemma sort_items_perm : forall l, Permutation (sort_items l) l.
Proof. intros l. unfold sort_items. apply (sort_items_gen l []). constructor. Qed.

Lemma sorted_app_l : forall l1 l2, sorted (l1 ++ l2) -> sorted l1.
Proof. intros l1 l2. unfold sorted, dists. rewrite map_app. apply sortedQ_app_l. Qed.

Lemma sorted_last : forall pre x it, sorted (pre ++ [x]) -> In it (pre ++ [x]) -> (it_d it <= it_d x)%Q.
Proof.
  intros pre x it Hs Hin. unfold sorted, dists in Hs. rewrite map_app in Hs. simpl in Hs.
  apply sortedQ_last in Hs. rewrite Forall_forall in Hs. apply Hs.
  change (map (@it_d vec) pre ++ [it_d x]) with (map (@it_d vec) pre ++ map (@it_d vec) [x]).
  rewrite <- map_app. apply in_map. exact Hin.
Qed.

Definition ds_wok ds : Prop :=
  NoDup (ids (items ds)) /\ incl (ids (items ds)) (seen ds) /\ (length (items ds) <= cap ds)%nat.
Definition ds_ok ds : Prop := ds_wok ds /\ sorted (items ds).

Lemma empty_ds_ok : forall c, ds_ok (@empty_ds vec c).
Proof.
  intros c. unfold ds_ok, ds_wok, empty_ds. simpl. repeat split.
  - constructor.
  - intros x [].
  - lia.
  - constructor.
Qed.

Variable dist : vec -> Q.
Definition nw (id : N) (v : vec) : item vec := mkItem id v (dist v) false false.

Lemma awl_cases : forall ds id v, let ds' := add_with_limit dist ds (id, v) in
  (In id (seen ds) /\ ds' = ds) \/
  (~ In id (seen ds) /\ cap ds' = cap ds /\ seen ds' = id :: seen ds /\
   ((items ds' = items ds /\ length (items ds) = cap ds /\
       (forall pre lst, items ds = pre ++ [lst] -> (it_d lst < dist v)%Q)) \/
    (items ds' = push_bubble (items ds) (nw id v) /\ (length (items ds) < cap ds)%nat) \/
    (exists pre lst, items ds = pre ++ [lst] /\ items ds' = push_bubble pre (nw id v) /\
       ~ (length (items ds) < cap ds)%nat /\ (length (items ds) = cap ds -> (dist v <= it_d lst)%Q)))).
Proof.
  intros ds id v. unfold add_with_limit. simpl.
  destruct (memb id (seen ds)) eqn:Em.
  - left. split; [apply memb_In; exact Em|reflexivity].
  - right. apply memb_false in Em. split; [exact Em|].
    destruct (split_last (items ds)) as [[pre lst]|] eqn:Esl.
    + apply split_last_Some in Esl.
      destruct (Nat.eqb (length (items ds)) (cap ds) && Qlt_b (it_d lst) (dist v)) eqn:Ef.
      * simpl. split; [reflexivity|]. split; [reflexivity|]. left.
        apply andb_true_iff in Ef. destruct Ef as [Ef1 Ef2]. apply Nat.eqb_eq in Ef1. apply Qlt_b_true in Ef2.
        split; [reflexivity|]. split; [exact Ef1|]. intros pre' lst' H'. rewrite Esl in H'.
        apply app_inj_tail in H'. destruct H' as [_ H']. subst lst'. exact Ef2.
      * destruct (Nat.ltb (length (items ds)) (cap ds)) eqn:El; simpl.
        -- split; [reflexivity|]. split; [reflexivity|]. right. left. split; [reflexivity|].
           apply Nat.ltb_lt. exact El.
        -- split; [reflexivity|]. split; [reflexivity|]. right. right. exists pre, lst.
           split; [exact Esl|]. split; [reflexivity|]. split; [apply Nat.ltb_ge in El; lia|].
           intros Hc. apply Nat.eqb_eq in Hc. rewrite Hc in Ef. simpl in Ef. apply Qlt_b_false. exact Ef.
    + apply split_last_None in Esl.
      destruct (Nat.eqb (length (items ds)) (cap ds)) eqn:Ef; simpl.
      * split; [reflexivity|]. split; [reflexivity|]. left. apply Nat.eqb_eq in Ef.
        split; [reflexivity|]. split; [exact Ef|]. intros pre lst H'. rewrite Esl in H'. destruct pre; discriminate.
      * split; [reflexivity|]. split; [reflexivity|]. right. left. rewrite Esl. split; [reflexivity|].
        apply Nat.eqb_neq in Ef. rewrite Esl in Ef. simpl in *. lia.
Qed.

Lemma awl_cap : forall ds p, cap (add_with_limit dist ds p) = cap ds.
Proof.
  intros ds [id v]. destruct (awl_cases ds id v) as [[_ H]|[_ [H _]]].
  - rewrite H. reflexivity.
  - exact H.
Qed.

Lemma awl_seen_iff : forall ds id v x, In x (seen (add_with_limit dist ds (id, v))) <-> x = id \/ In x (seen ds).
Proof.
  intros ds id v x. destruct (awl_cases ds id v) as [[Hs H]|[_ [_ [H _]]]].
  - rewrite H. split; [intros Hx; right; exact Hx|]. intros [Hx|Hx]; [subst; exact Hs|exact Hx].
  - rewrite H. simpl. split; intros [Hx|Hx]; auto.
Qed.

Lemma awl_seen_incl : forall ds p, incl (seen ds) (seen (add_with_limit dist ds p)).
Proof. intros ds [id v] x Hx. apply awl_seen_iff. right. exact Hx. Qed.

Lemma awl_items_in : forall ds id v it, In it (items (add_with_limit dist ds (id, v))) ->
  In it (items ds) \/ (it = nw id v /\ ~ In id (seen ds)).
Proof.
  intros ds id v it Hin. destruct (awl_cases ds id v) as [[_ H]|[Hns [_ [_ H]]]].
  - rewrite H in Hin. left. exact Hin.
  - destruct H as [[H _]|[[H _]|[pre [lst [Hi [H _]]]]]]; rewrite H in Hin.
    + left. exact Hin.
    + apply (Permutation_in _ (push_bubble_perm _ _)) in Hin. destruct Hin as [Hin|Hin].
      * right. split; [symmetry; exact Hin|exact Hns].
      * left. exact Hin.
    + apply (Permutation_in _ (push_bubble_perm _ _)) in Hin. destruct Hin as [Hin|Hin].
      * right. split; [symmetry; exact Hin|exact Hns].
      * left. rewrite Hi. apply in_or_app. left. exact Hin.
Qed.

Lemma ids_app : forall l1 l2, ids (l1 ++ l2) = ids l1 ++ ids l2.
Proof. intros. unfold ids. apply map_app. Qed.

Lemma awl_wok : forall ds p, ds_wok ds -> ds_wok (add_with_limit dist ds p).
Proof.
  intros ds [id v] [Hnd [Hinc Hlen]]. destruct (awl_cases ds id v) as [[_ H]|[Hns [Hcap [Hseen H]]]].
  - rewrite H. repeat split; assumption.
  - unfold ds_wok. rewrite Hcap, Hseen.
    destruct H as [[H _]|[[H Hlt]|[pre [lst [Hi [H [Hnlt _]]]]]]]; rewrite H.
    + repeat split; [exact Hnd| |exact Hlen]. intros x Hx. right. apply Hinc. exact Hx.
    + pose proof (push_bubble_perm (items ds) (nw id v)) as Hp. repeat split.
      * apply (Permutation_NoDup (Permutation_sym (sorted_perm_ids _ _ Hp))). simpl. constructor; [|exact Hnd].
        intros Hin. apply Hns. apply Hinc. exact Hin.
      * intros x Hx. apply (Permutation_in _ (sorted_perm_ids _ _ Hp)) in Hx. simpl in Hx.
        destruct Hx as [Hx|Hx]; [left; exact Hx|right; apply Hinc; exact Hx].
      * rewrite (Permutation_length Hp). simpl. lia.
    + pose proof (push_bubble_perm pre (nw id v)) as Hp. rewrite Hi in Hnd, Hinc, Hlen.
      rewrite ids_app in Hnd, Hinc. rewrite app_length in Hlen. simpl in Hlen. repeat split.
      * apply (Permutation_NoDup (Permutation_sym (sorted_perm_ids _ _ Hp))). simpl. constructor.
        -- intros Hin. apply Hns. apply Hinc. apply in_or_app. left. exact Hin.
        -- apply NoDup_remove_1 in Hnd. rewrite app_nil_r in Hnd. exact Hnd.
      * intros x Hx. apply (Permutation_in _ (sorted_perm_ids _ _ Hp)) in Hx. simpl in Hx.
        destruct Hx as [Hx|Hx]; [left; exact Hx|right; apply Hinc; apply in_or_app; left; exact Hx].
      * rewrite (Permutation_length Hp). simpl. lia.
Qed.

Lemma awl_sorted : forall ds p, sorted (items ds) -> sorted (items (add_with_limit dist ds p)).
Proof.
  intros ds [id v] Hs. destruct (awl_cases ds id v) as [[_ H]|[_ [_ [_ H]]]].
  - rewrite H. exact Hs.
  - destruct H as [[H _]|[[H _]|[pre [lst [Hi [H _]]]]]]; rewrite H.
    + exact Hs.
    + apply push_bubble_sorted. exact Hs.
    + apply push_bubble_sorted. rewrite Hi in Hs. apply (sorted_app_l _ _ Hs).
Qed.

Lemma awl_ok : forall ds p, ds_ok ds -> ds_ok (add_with_limit dist ds p).
Proof. intros ds p [H1 H2]. split; [apply awl_wok; exact H1|apply awl_sorted; exact H2]. Qed.

(* folds *)
Lemma awl_all_wok : forall ps ds, ds_wok ds -> ds_wok (add_all_with_limit dist ds ps).
Proof.
  intros ps. unfold add_all_with_limit. induction ps as [|p r IH]; intros ds H; simpl; [exact H|].
  apply IH. apply awl_wok. exact H.
Qed.
Lemma awl_all_sorted : forall ps ds, sorted (items ds) -> sorted (items (add_all_with_limit dist ds ps)).
Proof.
  intros ps. unfold add_all_with_limit. induction ps as [|p r IH]; intros ds H; simpl; [exact H|].
  apply IH. apply awl_sorted. exact H.
Qed.
Lemma awl_all_ok : forall ps ds, ds_ok ds -> ds_ok (add_all_with_limit dist ds ps).
Proof. intros ps ds [H1 H2]. split; [apply awl_all_wok; exact H1|apply awl_all_sorted; exact H2]. Qed.
Lemma awl_all_cap : forall ps ds, cap (add_all_with_limit dist ds ps) = cap ds.
Proof.
  intros ps. unfold add_all_with_limit. induction ps as [|p r IH]; intros ds; simpl; [reflexivity|].
  rewrite IH. apply awl_cap.
Qed.
Lemma awl_all_seen_incl : forall ps ds, incl (seen ds) (seen (add_all_with_limit dist ds ps)).
Proof.
  intros ps. unfold add_all_with_limit. induction ps as [|p r IH]; intros ds; simpl; [apply incl_refl|].
  eapply incl_tran; [apply (awl_seen_incl ds p)|apply IH].
Qed.
Lemma awl_all_seen_iff : forall ps ds x,
  In x (seen (add_all_with_limit dist ds ps)) <-> In x (map fst ps) \/ In x (seen ds).
Proof.
  intros ps. unfold add_all_with_limit. induction ps as [|[id v] r IH]; intros ds x; cbn [fold_left map fst In].
  - split; [intros H; right; exact H|intros [[]|H]; exact H].
  - rewrite IH. rewrite awl_seen_iff. split.
    + intros [H|[H|H]]; [left; right; exact H|left; left; symmetry; exact H|right; exact H].
    + intros [[H|H]|H]; [right; left; symmetry; exact H|left; exact H|right; right; exact H].
Qed.
Lemma awl_all_items_in : forall ps ds it, In it (items (add_all_with_limit dist ds ps)) ->
  In it (items ds) \/ exists id v, In (id, v) ps /\ ~ In id (seen ds) /\ it = nw id v.
Proof.
  intros ps. unfold add_all_with_limit. induction ps as [|[id v] r IH]; intros ds it Hin; cbn [fold_left] in *.
  - left. exact Hin.
  - apply IH in Hin. destruct Hin as [Hin|[id' [v' [Hr [Hns Hit]]]]].
    + apply awl_items_in in Hin. destruct Hin as [Hin|[Hit Hns]].
      * left. exact Hin.
      * right. exists id, v. split; [left; reflexivity|]. split; assumption.
    + right. exists id', v'. split; [right; exact Hr|]. split; [|exact Hit].
      intros Hs. apply Hns. apply awl_seen_incl. exact Hs.
Qed.

(* Add *)
Lemma add_items_in : forall ds id v it, In it (items (add dist ds (id, v))) ->
  In it (items ds) \/ (it = nw id v /\ ~ In id (seen ds)).
Proof.
  intros ds id v it. unfold add. destruct (memb id (seen ds)) eqn:E; simpl.
  - intros H. left. exact H.
  - intros H. apply in_app_or in H. destruct H as [H|[H|[]]]; [left; exact H|].
    right. split; [symmetry; exact H|apply memb_false; exact E].
Qed.
Lemma add_seen_incl : forall ds p, incl (seen ds) (seen (add dist ds p)).
Proof.
  intros ds [id v] x Hx. unfold add. destruct (memb id (seen ds)); simpl; [exact Hx|right; exact Hx].
Qed.
Lemma add_inv : forall ds p,
  NoDup (ids (items ds)) -> incl (ids (items ds)) (seen ds) ->
  let ds' := add dist ds p in
  NoDup (ids (items ds')) /\ incl (ids (items ds')) (seen ds') /\
  (length (items ds') <= length (items ds) + 1)%nat /\ cap ds' = cap ds.
Proof.
  intros ds [id v] Hnd Hinc. unfold add. destruct (memb id (seen ds)) eqn:E; simpl.
  - repeat split; [exact Hnd|exact Hinc|lia].
  - apply memb_false in E. rewrite ids_app. simpl. repeat split.
    + apply (Permutation_NoDup (Permutation_cons_append _ _)). constructor; [|exact Hnd]. intros Hin. apply E. apply Hinc. exact Hin.
    + intros x Hx. apply in_app_or in Hx. destruct Hx as [Hx|[Hx|[]]]; [right; apply Hinc; exact Hx|left; exact Hx].
    + rewrite app_length. simpl. lia.
Qed.
End DistSet.

(* ---- the k best of what was offered ---- *)
Section KBest.
Variable vec : Type.
Variable dist : vec -> Q.
Implicit Types (ds : distset vec) (off : list (item vec)).

(* [off]: the distinct points offered so far (as fresh elements) *)
Definition kb ds off : Prop :=
  (forall x, In x (seen ds) <-> In x (ids off)) /\
  (forall it, In it (items ds) -> In it off) /\
  (forall o, In o off -> ~ In (it_id o) (ids (items ds)) -> forall it, In it (items ds) -> (it_d it <= it_d o)%Q) /\
  ((length (items ds) < cap ds)%nat -> forall o, In o off -> In o (items ds)) /\
  NoDup (ids off).

Lemma awl_kb_seen : forall ds off id v, kb ds off -> In id (seen ds) -> kb (add_with_limit dist ds (id, v)) off.
Proof.
  intros ds off id v H Hs. destruct (awl_cases vec dist ds id v) as [[_ E]|[Hns _]].
  - rewrite E. exact H.
  - contradiction.
Qed.

Lemma awl_kb_new : forall ds off id v, ds_wok vec ds -> sorted vec (items ds) -> kb ds off -> ~ In id (seen ds) ->
  kb (add_with_limit dist ds (id, v)) (nw vec dist id v :: off).
Proof.
  intros ds off id v [Hnd [Hinc Hlen]] Hsort [K1 [K2 [K3 [K4 K5]]]] Hns.
  assert (Hidoff : ~ In id (ids off)) by (intros Hc; apply Hns; apply K1; exact Hc).
  destruct (awl_cases vec dist ds id v) as [[Hs _]|[_ [Hcap [Hseen H]]]]; [contradiction|].
  unfold kb. rewrite Hcap, Hseen.
  assert (S1 : forall x, In x (id :: seen ds) <-> In x (ids (nw vec dist id v :: off))).
  { intros x. simpl. rewrite K1. reflexivity. }
  assert (S5 : NoDup (ids (nw vec dist id v :: off))) by (simpl; constructor; assumption).
  destruct H as [[H [Hfull Hlast]]|[[H Hlt]|[pre [lst [Hi [H [Hnlt Hle]]]]]]]; rewrite H.
  - (* skipped *)
    split; [exact S1|]. split; [intros it Hit; right; apply K2; exact Hit|]. split; [|split; [|exact S5]].
    + intros o Ho Hno it Hit. destruct Ho as [Ho|Ho].
      * subst o. simpl. destruct (split_last (items ds)) as [[pre lst]|] eqn:E.
        -- apply split_last_Some in E. specialize (Hlast pre lst E).
           apply Qle_trans with (it_d lst); [|apply Qlt_le_weak; exact Hlast].
           rewrite E in Hsort, Hit. apply (sorted_last vec pre lst it Hsort Hit).
        -- apply split_last_None in E. rewrite E in Hit. destruct Hit.
      * apply K3; assumption.
    + intros Hc. lia.
  - (* appended *)
    pose proof (push_bubble_perm vec (items ds) (nw vec dist id v)) as Hp.
    split; [exact S1|]. split; [|split; [|split; [|exact S5]]].
    + intros it Hit. apply (Permutation_in _ Hp) in Hit. destruct Hit as [Hit|Hit]; [left; exact Hit|right; apply K2; exact Hit].
    + intros o Ho Hno it Hit. exfalso. apply Hno.
      apply (Permutation_in _ (Permutation_sym (sorted_perm_ids vec _ _ Hp))). simpl.
      destruct Ho as [Ho|Ho]; [left; subst o; reflexivity|right]. apply in_map. apply K4; assumption.
    + intros _ o Ho. apply (Permutation_in _ (Permutation_sym Hp)).
      destruct Ho as [Ho|Ho]; [left; exact Ho|right; apply K4; assumption].
  - (* last element replaced *)
    pose proof (push_bubble_perm vec pre (nw vec dist id v)) as Hp.
    assert (Hlencap : length (items ds) = cap ds) by lia. specialize (Hle Hlencap).
    assert (Hlst : In lst (items ds)) by (rewrite Hi; apply in_or_app; right; left; reflexivity).
    assert (Hpre : forall it, In it pre -> In it (items ds)) by (intros it Hit; rewrite Hi; apply in_or_app; left; exact Hit).
    assert (Hprele : forall it, In it pre -> (it_d it <= it_d lst)%Q).
    { intros it Hit. rewrite Hi in Hsort. apply (sorted_last vec pre lst it Hsort). apply in_or_app. left. exact Hit. }
    split; [exact S1|]. split; [|split; [|split; [|exact S5]]].
    + intros it Hit. apply (Permutation_in _ Hp) in Hit. destruct Hit as [Hit|Hit]; [left; exact Hit|right; apply K2; apply Hpre; exact Hit].
    + intros o Ho Hno it Hit. apply (Permutation_in _ Hp) in Hit.
      assert (Hno' : ~ In (it_id o) (id :: ids pre)).
      { intros Hc. apply Hno. apply (Permutation_in _ (Permutation_sym (sorted_perm_ids vec _ _ Hp))). exact Hc. }
      destruct Ho as [Ho|Ho].
      * exfalso. apply Hno'. left. subst o. reflexivity.
      * destruct (N.eq_dec (it_id o) (it_id lst)) as [Heq|Hne].
        -- assert (o = lst) by (apply (NoDup_map_inj _ _ (@it_id vec) off o lst K5 Ho (K2 _ Hlst) Heq)). subst o.
           destruct Hit as [Hit|Hit]; [subst it; exact Hle|apply Hprele; exact Hit].
        -- assert (Hnold : ~ In (it_id o) (ids (items ds))).
           { rewrite Hi, ids_app. intros Hc. apply in_app_or in Hc. destruct Hc as [Hc|[Hc|[]]].
             - apply Hno'. right. exact Hc.
             - apply Hne. symmetry. exact Hc. }
           destruct Hit as [Hit|Hit].
           ++ subst it. simpl. apply Qle_trans with (it_d lst); [exact Hle|]. apply (K3 o Ho Hnold lst Hlst).
           ++ apply (K3 o Ho Hnold it (Hpre it Hit)).
    + intros Hc. exfalso. rewrite (Permutation_length Hp) in Hc. simpl in Hc.
      rewrite Hi, app_length in Hlencap. simpl in Hlencap. lia.
Qed.

Lemma awl_all_kb : forall ps ds off, ds_ok vec ds -> kb ds off ->
  NoDup (map fst ps) -> (forall p, In p ps -> ~ In (fst p) (seen ds)) ->
  kb (add_all_with_limit dist ds ps) (rev (map (fun p => nw vec dist (fst p) (snd p)) ps) ++ off).
Proof.
  intros ps. unfold add_all_with_limit. induction ps as [|[id v] r IH]; intros ds off Hok Hkb Hnd Hns; cbn [fold_left map rev fst snd].
  - exact Hkb.
  - inversion Hnd as [|? ? Hid Hr]; subst. rewrite <- app_assoc. simpl.
    apply IH.
    + apply awl_ok. exact Hok.
    + destruct Hok as [Hw Hs]. apply awl_kb_new; [exact Hw|exact Hs|exact Hkb|]. apply (Hns (id, v)). left. reflexivity.
    + exact Hr.
    + intros p Hp Hc. apply awl_seen_iff in Hc. destruct Hc as [Hc|Hc].
      * apply Hid. rewrite <- Hc. apply in_map. exact Hp.
      * apply (Hns p); [right; exact Hp|exact Hc].
Qed.

Lemma kb_empty : forall c, kb (@empty_ds vec c) [].
Proof.
  intros c. unfold kb, empty_ds. simpl.
  split; [intros x; split; intros []|]. split; [intros it []|]. split; [intros o []|].
  split; [intros _ o []|constructor].
Qed.

(* (a) DistSet invariants after any sequence of AddWithLimit calls *)
Lemma distset_invariants : forall c ps,
  let ds := add_all_with_limit dist (empty_ds c) ps in
  NoDup (ids (items ds)) /\ (length (items ds) <= c)%nat /\ sorted vec (items ds) /\
  (forall it, In it (items ds) -> In (it_id it, it_vec it) ps /\ it_d it = dist (it_vec it)).
Proof.
  intros c ps ds. pose proof (awl_all_ok vec dist ps (empty_ds c) (empty_ds_ok vec c)) as [[H1 [_ H3]] H4].
  fold ds in H1, H3, H4. split; [exact H1|]. split.
  - unfold ds in *. rewrite awl_all_cap in H3. exact H3.
  - split; [exact H4|]. intros it Hit. apply awl_all_items_in in Hit. destruct Hit as [[]|[id [v [Hin [_ E]]]]].
    subst it. simpl. split; [exact Hin|reflexivity].
Qed.

Lemma distset_kbest : forall c ps, NoDup (map fst ps) ->
  let ds := add_all_with_limit dist (empty_ds c) ps in
  (forall id v, In (id, v) ps -> ~ In id (ids (items ds)) -> forall it, In it (items ds) -> (it_d it <= dist v)%Q) /\
  length (items ds) = Nat.min c (length ps).
Proof.
  intros c ps Hnd ds.
  assert (Hkb : kb ds (rev (map (fun p => nw vec dist (fst p) (snd p)) ps) ++ [])).
  { apply awl_all_kb; [apply empty_ds_ok|apply kb_empty|exact Hnd|]. intros p _ []. }
  rewrite app_nil_r in Hkb. destruct Hkb as [K1 [K2 [K3 [K4 K5]]]].
  pose proof (awl_all_ok vec dist ps (empty_ds c) (empty_ds_ok vec c)) as [[H1 [_ H3]] H4].
  fold ds in H1, H3, H4. assert (Hcap : cap ds = c) by (unfold ds; apply awl_all_cap). rewrite Hcap in *.
  set (off := rev (map (fun p => nw vec dist (fst p) (snd p)) ps)) in *.
  assert (Hlenoff : length off = length ps) by (unfold off; rewrite rev_length, map_length; reflexivity).
  split.
  - intros id v Hin Hno it Hit.
    assert (Ho : In (nw vec dist id v) off).
    { unfold off. apply -> in_rev. apply in_map_iff. exists (id, v). split; [reflexivity|exact Hin]. }
    apply (K3 _ Ho Hno it Hit).
  - assert (Hle : (length (items ds) <= length off)%nat).
    { rewrite <- (map_length (@it_id vec) (items ds)), <- (map_length (@it_id vec) off).
      apply NoDup_incl_length; [exact H1|]. intros x Hx. apply in_map_iff in Hx. destruct Hx as [it [E Hit]].
      subst x. apply in_map. apply K2. exact Hit. }
    destruct (Nat.lt_ge_cases (length (items ds)) c) as [Hlt|Hge].
    + assert (Hge' : (length off <= length (items ds))%nat).
      { rewrite <- (map_length (@it_id vec) (items ds)), <- (map_length (@it_id vec) off).
        apply NoDup_incl_length; [exact K5|]. intros x Hx. apply in_map_iff in Hx. destruct Hx as [o [E Ho]].
        subst x. apply in_map. apply K4; assumption. }
      lia.
    + lia.
Qed.
End KBest.

(* ------------------------------------------------------------------ *)
(* 2. greedy search on a closed node set                               *)
(* ------------------------------------------------------------------ *)

Lemma split_unvisited_Some : forall vec (l : list (item vec)) p x s,
  split_unvisited l = Some (p, x, s) ->
  l = p ++ x :: s /\ it_vis x = false /\ Forall (fun y => it_vis y = true) p.
Proof.
  intros vec l. induction l as [|a r IH]; intros p x s H; simpl in H.
  - discriminate.
  - destruct (it_vis a) eqn:Ea.
    + destruct (split_unvisited r) as [[[p' y] s']|] eqn:E; [|discriminate]. inversion H; subst.
      destruct (IH p' x s eq_refl) as [H1 [H2 H3]]. subst r. split; [reflexivity|]. split; [exact H2|].
      constructor; assumption.
    + inversion H; subst. split; [reflexivity|]. split; [exact Ea|constructor].
Qed.

Lemma split_unvisited_None : forall vec (l : list (item vec)),
  split_unvisited l = None -> Forall (fun y => it_vis y = true) l.
Proof.
  intros vec l. induction l as [|a r IH]; intros H; simpl in H.
  - constructor.
  - destruct (it_vis a) eqn:Ea; [|discriminate].
    destruct (split_unvisited r) as [[[p' y] s']|] eqn:E; [discriminate|]. constructor; [exact Ea|apply IH; reflexivity].
Qed.

Section Search.
Variable vec : Type.
Variable g : graph vec.
Variable dist : vec -> Q.
Variable Lq : nat.
Variable flt : option (list N).
Variable Sp : N -> Prop.

Definition closed : Prop :=
  Sp START /\
  forall x, Sp x -> (exists v, lookup x (vecs g) = Some v) /\
                    exists es, lookup x (edges g) = Some es /\ forall t, In t es -> Sp t.

Definition good (it : item vec) : Prop :=
  Sp (it_id it) /\ lookup (it_id it) (vecs g) = Some (it_vec it) /\ it_d it = dist (it_vec it).

Lemma good_set_vis : forall x, good x -> good (set_vis x).
Proof. intros x H. exact H. Qed.

Lemma ids_set_vis : forall (pre post : list (item vec)) x, ids (pre ++ set_vis x :: post) = ids (pre ++ x :: post).
Proof. intros. rewrite !ids_app. reflexivity. Qed.

Lemma dists_set_vis : forall (pre post : list (item vec)) x, dists vec (pre ++ set_vis x :: post) = dists vec (pre ++ x :: post).
Proof. intros. unfold dists. rewrite !map_app. reflexivity. Qed.

Definition next_result (st : gstate vec) (x : item vec) : option (distset vec) :=
  match flt, gs_result st with
  | Some f, Some r => if memb (it_id x) f then Some (add_with_limit dist r (it_id x, it_vec x)) else Some r
  | _, r => r
  end.

Lemma gs_step_cases : forall st,
  match gs_step g dist Lq flt st with
  | GDone => split_unvisited (firstn Lq (items (gs_search st))) = None
  | GFail e => exists pre x post, items (gs_search st) = pre ++ x :: post /\ it_vis x = false /\
                 lookup (it_id x) (edges g) = None /\ e = EMissingNode (it_id x)
  | GNext st' => exists pre x post es,
      items (gs_search st) = pre ++ x :: post /\ it_vis x = false /\
      Forall (fun y => it_vis y = true) pre /\ (length pre < Lq)%nat /\
      lookup (it_id x) (edges g) = Some es /\
      gs_search st' = add_all_with_limit dist (mkDS (pre ++ set_vis x :: post) (seen (gs_search st)) (cap (gs_search st)))
                                         (get_many es (vecs g)) /\
      gs_visited st' = gs_visited st ++ [x] /\
      gs_result st' = next_result st x
  end.
Proof.
  intros st. unfold gs_step.
  destruct (split_unvisited (firstn Lq (items (gs_search st)))) as [[[pre x] post]|] eqn:E; [|reflexivity].
  apply split_unvisited_Some in E. destruct E as [E1 [E2 E3]].
  assert (Hit : items (gs_search st) = pre ++ x :: post ++ skipn Lq (items (gs_search st))).
  { rewrite <- (firstn_skipn Lq (items (gs_search st))) at 1. rewrite E1. rewrite <- app_assoc. reflexivity. }
  assert (Hlen : (length pre < Lq)%nat).
  { pose proof (firstn_le_length Lq (items (gs_search st))) as Hl. rewrite E1, app_length in Hl. simpl in Hl. lia. }
  destruct (lookup (it_id x) (edges g)) as [es|] eqn:El.
  - exists pre, x, (post ++ skipn Lq (items (gs_search st))), es.
    split; [exact Hit|]. split; [exact E2|]. split; [exact E3|]. split; [exact Hlen|]. split; [exact El|].
    simpl. split; [reflexivity|]. split; [reflexivity|]. unfold next_result.
    destruct flt as [f|]; destruct (gs_result st) as [r|]; reflexivity.
  - exists pre, x, (post ++ skipn Lq (items (gs_search st))). split; [exact Hit|]. split; [exact E2|]. split; [exact El|reflexivity].
Qed.

(* the loop returns a state satisfying every step-invariant, or the error of a step taken
   from such a state, or runs out of fuel *)
Lemma gs_loop_inv : forall (I : gstate vec -> Prop),
  (forall st st', I st -> gs_step g dist Lq flt st = GNext st' -> I st') ->
  forall fuel st, I st ->
  match gs_loop fuel g dist Lq flt st with
  | Ok st' => I st' /\ gs_step g dist Lq flt st' = GDone
  | Err e => e = EFuel \/ exists st', I st' /\ gs_step g dist Lq flt st' = GFail e
  end.
Proof.
  intros I Hstep fuel. induction fuel as [|f IH]; intros st HI; simpl.
  - destruct (gs_step g dist Lq flt st) as [|st'|e] eqn:E.
    + split; assumption.
    + left. reflexivity.
    + right. exists st. split; assumption.
  - destruct (gs_step g dist Lq flt st) as [|st'|e] eqn:E.
    + split; assumption.
    + apply IH. apply (Hstep st st' HI E).
    + right. exists st. split; assumption.
Qed.

Hypothesis Hclosed : closed.

Record ginv (st : gstate vec) : Prop := mkGinv {
  gi_wok : ds_wok vec (gs_search st);
  gi_good_s : Forall good (items (gs_search st));
  gi_good_v : Forall good (gs_visited st);
  gi_nodup_v : NoDup (ids (gs_visited st));
  gi_unvis : forall it, In it (items (gs_search st)) -> it_vis it = false -> ~ In (it_id it) (ids (gs_visited st));
  gi_vis_seen : incl (ids (gs_visited st)) (seen (gs_search st));
  gi_res : match gs_result st with
           | None => flt = None
           | Some r => ds_ok vec r /\ Forall good (items r) /\
                       exists f, flt = Some f /\ forall it, In it (items r) -> In (it_id it) f
           end;
  gi_sorted : flt = None -> sorted vec (items (gs_search st))
}.

Lemma ginv_step : forall st st', ginv st -> gs_step g dist Lq flt st = GNext st' -> ginv st'.
Proof.
  intros st st' HI E. pose proof (gs_step_cases st) as Hc. rewrite E in Hc.
  destruct Hc as [pre [x [post [es [Hit [Hvis [Hpre [_ [Hes [HS [HV HR]]]]]]]]]]].
  destruct HI as [Hwok Hgs Hgv Hndv Hunv Hvs Hres Hsort].
  set (S1 := mkDS (pre ++ set_vis x :: post) (seen (gs_search st)) (cap (gs_search st))) in *.
  assert (Hx : In x (items (gs_search st))) by (rewrite Hit; apply in_or_app; right; left; reflexivity).
  assert (Hgx : good x) by (rewrite Forall_forall in Hgs; apply Hgs; exact Hx).
  assert (Hwok1 : ds_wok vec S1).
  { destruct Hwok as [W1 [W2 W3]]. unfold ds_wok, S1. simpl. rewrite ids_set_vis, <- Hit.
    split; [exact W1|]. split; [exact W2|]. rewrite Hit in W3. rewrite app_length in *. simpl in *. exact W3. }
  assert (Hxseen : In (it_id x) (seen (gs_search st))).
  { destruct Hwok as [_ [W2 _]]. apply W2. unfold ids. apply in_map. exact Hx. }
  assert (Hgood1 : forall it, In it (items S1) -> good it).
  { intros it Hin. unfold S1 in Hin. simpl in Hin. rewrite Forall_forall in Hgs.
    apply in_app_or in Hin. destruct Hin as [Hin|[Hin|Hin]].
    - apply Hgs. rewrite Hit. apply in_or_app. left. exact Hin.
    - subst it. apply good_set_vis. exact Hgx.
    - apply Hgs. rewrite Hit. apply in_or_app. right. right. exact Hin. }
  assert (Hnew : forall id v, In (id, v) (get_many es (vecs g)) -> good (nw vec dist id v)).
  { intros id v Hin. apply get_many_In in Hin. destruct Hin as [Hin Hl]. unfold good. simpl.
    split; [|split; [exact Hl|reflexivity]].
    destruct Hclosed as [_ Hcl]. destruct Hgx as [Hspx _]. destruct (Hcl _ Hspx) as [_ [es' [Hes' Hall]]].
    rewrite Hes in Hes'. inversion Hes'; subst es'. apply Hall. exact Hin. }
  constructor.
  - rewrite HS. apply awl_all_wok. exact Hwok1.
  - rewrite HS. apply Forall_forall. intros it Hin. apply awl_all_items_in in Hin.
    destruct Hin as [Hin|[id [v [Hin [_ Eit]]]]]; [apply Hgood1; exact Hin|subst it; apply Hnew; exact Hin].
  - rewrite HV. apply Forall_app. split; [exact Hgv|]. constructor; [exact Hgx|constructor].
  - rewrite HV, ids_app. simpl. apply (Permutation_NoDup (Permutation_cons_append _ _)).
    constructor; [|exact Hndv]. apply Hunv; assumption.
  - intros it Hin Hnv. rewrite HS in Hin. rewrite HV, ids_app. simpl. intros Hc.
    apply in_app_or in Hc. apply awl_all_items_in in Hin. destruct Hin as [Hin|[id [v [Hin [Hns Eit]]]]].
    + unfold S1 in Hin. simpl in Hin. apply in_app_or in Hin. destruct Hin as [Hin|[Hin|Hin]].
      * rewrite Forall_forall in Hpre. rewrite (Hpre _ Hin) in Hnv. discriminate.
      * subst it. simpl in Hnv. discriminate.
      * destruct Hc as [Hc|[Hc|[]]].
        -- revert Hc. apply Hunv; [|exact Hnv]. rewrite Hit. apply in_or_app. right. right. exact Hin.
        -- destruct Hwok as [W1 _]. rewrite Hit, ids_app in W1. simpl in W1. apply NoDup_remove_2 in W1.
           apply W1. apply in_or_app. right. rewrite Hc. unfold ids. apply in_map. exact Hin.
    + subst it. simpl in Hc. unfold S1 in Hns. simpl in Hns. destruct Hc as [Hc|[Hc|[]]].
      * apply Hns. apply Hvs. exact Hc.
      * apply Hns. rewrite <- Hc. exact Hxseen.
  - rewrite HV, HS, ids_app. simpl. intros y Hy. apply awl_all_seen_incl. unfold S1. simpl.
    apply in_app_or in Hy. destruct Hy as [Hy|[Hy|[]]]; [apply Hvs; exact Hy|subst y; exact Hxseen].
  - rewrite HR. unfold next_result. destruct flt as [f|] eqn:Ef; destruct (gs_result st) as [r|] eqn:Er.
    + destruct Hres as [R1 [R2 [f' [R3 R4]]]]. inversion R3; subst f'.
      destruct (memb (it_id x) f) eqn:Em.
      * split; [apply awl_ok; exact R1|]. split.
        -- apply Forall_forall. intros it Hin. apply awl_items_in in Hin. destruct Hin as [Hin|[Hin _]].
           ++ rewrite Forall_forall in R2. apply R2. exact Hin.
           ++ subst it. unfold good, nw. simpl. destruct Hgx as [G1 [G2 _]]. split; [exact G1|]. split; [exact G2|reflexivity].
        -- exists f. split; [reflexivity|]. intros it Hin. apply awl_items_in in Hin. destruct Hin as [Hin|[Hin _]].
           ++ apply R4. exact Hin.
           ++ subst it. simpl. apply memb_In. exact Em.
      * split; [exact R1|]. split; [exact R2|]. exists f. split; [reflexivity|exact R4].
    + discriminate.
    + exact Hres.
    + reflexivity.
  - intros Hf. rewrite HS. apply awl_all_sorted. unfold S1. simpl. unfold sorted. rewrite dists_set_vis, <- Hit.
    apply Hsort. exact Hf.
Qed.

Lemma ginv_no_fail : forall st e, ginv st -> gs_step g dist Lq flt st <> GFail e.
Proof.
  intros st e HI E. pose proof (gs_step_cases st) as Hc. rewrite E in Hc.
  destruct Hc as [pre [x [post [Hit [_ [Hl _]]]]]].
  destruct HI as [_ Hgs _ _ _ _ _ _]. rewrite Forall_forall in Hgs.
  assert (Hgx : good x) by (apply Hgs; rewrite Hit; apply in_or_app; right; left; reflexivity).
  destruct Hclosed as [_ Hcl]. destruct Hgx as [Hspx _]. destruct (Hcl _ Hspx) as [_ [es [Hes _]]]. congruence.
Qed.

Lemma ginv_visited_bound : forall st, ginv st -> (length (gs_visited st) <= length (vecs g))%nat.
Proof.
  intros st HI. destruct HI as [_ _ Hgv Hndv _ _ _ _].
  rewrite <- (map_length (@it_id vec) (gs_visited st)), <- (map_length fst (vecs g)).
  apply NoDup_incl_length; [exact Hndv|]. intros y Hy. apply in_map_iff in Hy. destruct Hy as [it [E Hit]]. subst y.
  rewrite Forall_forall in Hgv. destruct (Hgv _ Hit) as [_ [Hl _]]. apply lookup_Some_In in Hl.
  apply (In_dom _ _ _ _ Hl).
Qed.

Lemma gs_loop_fuel : forall fuel st, ginv st -> (length (vecs g) < fuel + length (gs_visited st))%nat ->
  gs_loop fuel g dist Lq flt st <> Err EFuel.
Proof.
  intros fuel. induction fuel as [|f IH]; intros st HI Hlt; simpl.
  - pose proof (ginv_visited_bound st HI). lia.
  - destruct (gs_step g dist Lq flt st) as [|st'|e] eqn:E.
    + discriminate.
    + apply IH; [apply (ginv_step st st' HI E)|].
      pose proof (gs_step_cases st) as Hc. rewrite E in Hc.
      destruct Hc as [pre [x [post [es [_ [_ [_ [_ [_ [_ [HV _]]]]]]]]]]]. rewrite HV, app_length. simpl. lia.
    + intros Hc. inversion Hc; subst. apply (ginv_no_fail st EFuel HI E).
Qed.

Lemma gs_loop_ok : forall st, ginv st -> gs_visited st = [] ->
  exists st', gs_loop (S (length (vecs g))) g dist Lq flt st = Ok st' /\ ginv st' /\ gs_step g dist Lq flt st' = GDone.
Proof.
  intros st HI HV.
  pose proof (gs_loop_inv ginv ginv_step (S (length (vecs g))) st HI) as H.
  pose proof (gs_loop_fuel (S (length (vecs g))) st HI) as Hf.
  assert (Hlt : (length (vecs g) < S (length (vecs g)) + length (gs_visited st))%nat) by (rewrite HV; simpl; lia).
  specialize (Hf Hlt).
  destruct (gs_loop (S (length (vecs g))) g dist Lq flt st) as [st'|e].
  - exists st'. split; [reflexivity|exact H].
  - exfalso. destruct H as [H|[st' [HI' E]]].
    + subst e. apply Hf. reflexivity.
    + apply (ginv_no_fail st' e HI' E).
Qed.
End Search.

Lemma In_firstn : forall A n (l : list A) x, In x (firstn n l) -> In x l.
Proof.
  intros A n. induction n as [|n IH]; intros l x H; simpl in H.
  - destruct H.
  - destruct l as [|a r]; simpl in H; [destruct H|]. destruct H as [H|H]; [left; exact H|right; apply IH; exact H].
Qed.

Section AddAll.
Variable vec : Type.
Variable dist : vec -> Q.
Lemma add_all_inv : forall ps (ds : distset vec),
  NoDup (ids (items ds)) -> incl (ids (items ds)) (seen ds) ->
  let ds' := add_all dist ds ps in
  NoDup (ids (items ds')) /\ incl (ids (items ds')) (seen ds') /\
  (length (items ds') <= length (items ds) + length ps)%nat /\ cap ds' = cap ds.
Proof.
  intros ps. unfold add_all. induction ps as [|p r IH]; intros ds Hnd Hinc; cbn [fold_left].
  - split; [exact Hnd|]. split; [exact Hinc|]. split; [simpl; lia|reflexivity].
  - destruct (add_inv vec dist ds p Hnd Hinc) as [A1 [A2 [A3 A4]]].
    destruct (IH (add dist ds p) A1 A2) as [B1 [B2 [B3 B4]]].
    split; [exact B1|]. split; [exact B2|]. split; [simpl; lia|congruence].
Qed.
Lemma add_all_items_in : forall ps (ds : distset vec) it, In it (items (add_all dist ds ps)) ->
  In it (items ds) \/ exists id v, In (id, v) ps /\ it = nw vec dist id v.
Proof.
  intros ps. unfold add_all. induction ps as [|[id v] r IH]; intros ds it Hin; cbn [fold_left] in *.
  - left. exact Hin.
  - apply IH in Hin. destruct Hin as [Hin|[id' [v' [Hr Hit]]]].
    + apply add_items_in in Hin. destruct Hin as [Hin|[Hit _]].
      * left. exact Hin.
      * right. exists id, v. split; [left; reflexivity|exact Hit].
    + right. exists id', v'. split; [right; exact Hr|exact Hit].
Qed.
End AddAll.

Section GreedySearch.
Variable vec : Type.
Variable d : vec -> vec -> Q.
Variable g : graph vec.
Variable Sp : N -> Prop.
Hypothesis Hclosed : closed vec g Sp.

Definition gs_post (r : result (gstate vec)) : result (distset vec * list (item vec)) :=
  match r with
  | Err e => Err e
  | Ok st => Ok (match gs_result st with Some r => r | None => gs_search st end, sort_items (gs_visited st))
  end.

Lemma gs_finish : forall dist Lq flt st0,
  ginv vec g dist flt Sp st0 -> gs_visited st0 = [] ->
  exists rs vis, gs_post (gs_loop (S (length (vecs g))) g dist Lq flt st0) = Ok (rs, vis) /\
    ds_ok vec rs /\ Forall (good vec g dist Sp) (items rs) /\
    Forall (good vec g dist Sp) vis /\ NoDup (ids vis) /\ sorted vec vis /\
    (forall f, flt = Some f -> forall it, In it (items rs) -> In (it_id it) f).
Proof.
  intros dist Lq flt st0 HI HV.
  destruct (gs_loop_ok vec g dist Lq flt Sp Hclosed st0 HI HV) as [st' [El [HI' _]]].
  rewrite El. unfold gs_post. destruct HI' as [Hwok Hgs Hgv Hndv _ _ Hres Hsort].
  eexists. eexists. split; [reflexivity|].
  assert (Hvis : Forall (good vec g dist Sp) (sort_items (gs_visited st')) /\ NoDup (ids (sort_items (gs_visited st')))).
  { pose proof (sort_items_perm vec (gs_visited st')) as Hp. split.
    - apply Forall_forall. intros it Hin. rewrite Forall_forall in Hgv. apply Hgv. apply (Permutation_in _ Hp Hin).
    - apply (Permutation_NoDup (Permutation_sym (sorted_perm_ids vec _ _ Hp))). exact Hndv. }
  destruct Hvis as [Hv1 Hv2].
  destruct (gs_result st') as [r|].
  - destruct Hres as [R1 [R2 [f [R3 R4]]]]. split; [exact R1|]. split; [exact R2|]. split; [exact Hv1|]. split; [exact Hv2|].
    split; [apply sort_items_sorted|]. intros f' Hf' it Hin. rewrite R3 in Hf'. inversion Hf'; subst f'. apply R4. exact Hin.
  - split; [split; [exact Hwok|apply Hsort; exact Hres]|]. split; [exact Hgs|]. split; [exact Hv1|]. split; [exact Hv2|].
    split; [apply sort_items_sorted|]. intros f Hf. rewrite Hres in Hf. discriminate.
Qed.

Definition gs_init (q : vec) (k Lq : nat) (flt : option (list N)) (sv : vec) : gstate vec :=
  match flt with
  | None => mkGS (add_with_limit (d q) (empty_ds Lq) (START, sv)) [] None
  | Some f => let fps := get_many (firstn Lq f) (vecs g) in
              mkGS (add_with_limit (d q) (add_all (d q) (empty_ds Lq) fps) (START, sv)) []
                   (Some (add_all_with_limit (d q) (empty_ds k) fps))
  end.

Lemma greedy_search_unfold : forall q k Lq flt sv, (k <= Lq)%nat -> lookup START (vecs g) = Some sv ->
  greedy_search d g q k Lq flt = gs_post (gs_loop (S (length (vecs g))) g (d q) Lq flt (gs_init q k Lq flt sv)).
Proof.
  intros q k Lq flt sv Hk Hsv. unfold greedy_search, greedy_search_fuel, gs_init.
  assert (Hlt : Nat.ltb Lq k = false) by (apply Nat.ltb_ge; exact Hk). rewrite Hlt.
  destruct flt as [f|]; cbv beta iota zeta; rewrite Hsv; reflexivity.
Qed.

Lemma gs_init_ginv : forall q k Lq flt sv, lookup START (vecs g) = Some sv ->
  (forall f, flt = Some f -> forall x v, In x (firstn Lq f) -> lookup x (vecs g) = Some v -> Sp x) ->
  ginv vec g (d q) flt Sp (gs_init q k Lq flt sv) /\ gs_visited (gs_init q k Lq flt sv) = [].
Proof.
  intros q k Lq flt sv Hsv Hseed. destruct Hclosed as [Hst Hcl].
  set (dist := d q).
  assert (Hgst : good vec g dist Sp (nw vec dist START sv)).
  { unfold good, nw. simpl. split; [exact Hst|]. split; [exact Hsv|reflexivity]. }
  split; [|unfold gs_init; destruct flt; reflexivity].
  unfold gs_init. fold dist. destruct flt as [f|] eqn:Ef.
  - set (fps := get_many (firstn Lq f) (vecs g)). cbv zeta.
    assert (Hfps : forall id v, In (id, v) fps -> good vec g dist Sp (nw vec dist id v) /\ In id f).
    { intros id v Hin. unfold fps in Hin. apply get_many_In in Hin. destruct Hin as [Hin Hl].
      split; [|apply (In_firstn _ _ _ _ Hin)]. unfold good, nw. simpl.
      split; [apply (Hseed f eq_refl id v Hin Hl)|]. split; [exact Hl|reflexivity]. }
    destruct (add_all_inv vec dist fps (empty_ds Lq)) as [A1 [A2 [A3 A4]]]; [constructor|intros y []|].
    assert (Hw1 : ds_wok vec (add_all dist (empty_ds Lq) fps)).
    { split; [exact A1|]. split; [exact A2|]. rewrite A4. simpl in *.
      pose proof (get_many_length _ (firstn Lq f) (vecs g)) as G1. fold fps in G1.
      pose proof (firstn_le_length Lq f) as G2. lia. }
    constructor; simpl.
    + apply awl_wok. exact Hw1.
    + apply Forall_forall. intros it Hin. apply awl_items_in in Hin. destruct Hin as [Hin|[Hin _]].
      * apply add_all_items_in in Hin. destruct Hin as [[]|[id [v [Hin Eit]]]]. subst it. apply Hfps. exact Hin.
      * subst it. exact Hgst.
    + constructor.
    + constructor.
    + intros it _ _ [].
    + intros y [].
    + split; [apply awl_all_ok; apply empty_ds_ok|]. split.
      * apply Forall_forall. intros it Hin. apply awl_all_items_in in Hin. destruct Hin as [[]|[id [v [Hin [_ Eit]]]]].
        subst it. apply Hfps. exact Hin.
      * exists f. split; [reflexivity|]. intros it Hin. apply awl_all_items_in in Hin.
        destruct Hin as [[]|[id [v [Hin [_ Eit]]]]]. subst it. simpl. apply (Hfps id v Hin).
    + discriminate.
  - destruct (empty_ds_ok vec Lq) as [Hw Hs]. constructor; simpl.
    + apply awl_wok. exact Hw.
    + apply Forall_forall. intros it Hin. apply awl_items_in in Hin. destruct Hin as [[]|[Hin _]]. subst it. exact Hgst.
    + constructor.
    + constructor.
    + intros it _ _ [].
    + intros y [].
    + reflexivity.
    + intros _. apply awl_sorted. exact Hs.
Qed.

Lemma greedy_search_ok : forall q k Lq flt,
  (k <= Lq)%nat ->
  (forall f, flt = Some f -> forall x v, In x (firstn Lq f) -> lookup x (vecs g) = Some v -> Sp x) ->
  exists rs vis, greedy_search d g q k Lq flt = Ok (rs, vis) /\
    ds_ok vec rs /\ Forall (good vec g (d q) Sp) (items rs) /\
    Forall (good vec g (d q) Sp) vis /\ NoDup (ids vis) /\ sorted vec vis /\
    (forall f, flt = Some f -> forall it, In it (items rs) -> In (it_id it) f).
Proof.
  intros q k Lq flt Hk Hseed.
  destruct Hclosed as [Hst Hcl]. destruct (Hcl _ Hst) as [[sv Hsv] _].
  rewrite (greedy_search_unfold q k Lq flt sv Hk Hsv).
  destruct (gs_init_ginv q k Lq flt sv Hsv Hseed) as [HI HV].
  apply gs_finish; assumption.
Qed.
End GreedySearch.

(* ------------------------------------------------------------------ *)
(* 3. well-formedness with pending nodes; robust prune; single insert  *)
(* ------------------------------------------------------------------ *)

Local Arguments greedy_search {vec} d g q k Lq flt : simpl never.
Local Arguments robust_prune {vec} d P self cands : simpl never.
Local Arguments put {A} x v l : simpl never.
Local Arguments dom {A} l : simpl never.
Local Arguments dels {A} xs l : simpl never.

Section WF.
Variable vec : Type.
Variable d : vec -> vec -> Q.
Variable P : params.
Hypothesis HR : (1 <= pR P)%nat.
Hypothesis HL : (1 <= pL P)%nat.

(* the out-edges [es] of node [x] are fine: targets exist, are not pending, are not x itself;
   the degree bound holds unless x is the entry node *)
Definition node_ok (g : graph vec) (pend : list N) (x : N) (es : list N) : Prop :=
  (forall t, In t es -> In t (dom (edges g)) /\ ~ In t pend /\ t <> x) /\
  (x <> START -> (length es <= pR P)%nat).

(* [wf] generalised by a set [pend] of nodes whose edge lists are stale and unconstrained
   (updated points between removeInboundEdges and their re-insertion): no other node
   points to them *)
Definition pwf (g : graph vec) (live pend : list N) : Prop :=
  NoDup (dom (edges g)) /\ NoDup (dom (vecs g)) /\
  (forall x, In x (dom (edges g)) <-> x = START \/ In x live) /\
  (forall x, In x (dom (vecs g)) <-> x = START \/ In x live) /\
  (forall x es, lookup x (edges g) = Some es -> ~ In x pend -> node_ok g pend x es) /\
  (forall x, In x live -> x <> START -> (x <= maxid g)%N) /\
  ~ In START pend.

Lemma wf_pwf : forall g live, wf P g live <-> pwf g live [].
Proof.
  intros g live. unfold wf, pwf. split.
  - intros [W1 [W2 [W3 [W4 [W5 [W6 W7]]]]]]. split; [exact W1|]. split; [exact W2|]. split; [exact W3|]. split; [exact W4|].
    split; [|split; [|intros []]].
    + intros x es Hl _. apply lookup_Some_In in Hl. split.
      * intros t Ht. destruct (W5 x es t Hl Ht) as [A B]. split; [exact A|]. split; [intros []|exact B].
      * intros Hx. apply (W6 x es Hl Hx).
    + intros x Hx Hne. apply W7; [|exact Hne]. apply W3. right. exact Hx.
  - intros [W1 [W2 [W3 [W4 [W5 [W6 _]]]]]]. split; [exact W1|]. split; [exact W2|]. split; [exact W3|]. split; [exact W4|].
    split; [|split].
    + intros x es t Hin Ht. apply (In_lookup_NoDup _ _ _ _ W1) in Hin.
      destruct (W5 x es Hin (fun H => H)) as [A _]. destruct (A t Ht) as [B [_ C]]. split; assumption.
    + intros x es Hin Hx. apply (In_lookup_NoDup _ _ _ _ W1) in Hin.
      destruct (W5 x es Hin (fun H => H)) as [_ A]. apply A. exact Hx.
    + intros x Hx Hne. apply W3 in Hx. destruct Hx as [Hx|Hx]; [contradiction|]. apply W6; assumption.
Qed.

Lemma node_ok_ext : forall g g' pend pend' x es,
  (forall t, In t (dom (edges g)) -> In t (dom (edges g'))) -> incl pend' pend ->
  node_ok g pend x es -> node_ok g' pend' x es.
Proof.
  intros g g' pend pend' x es Hd Hp [A B]. split; [|exact B].
  intros t Ht. destruct (A t Ht) as [A1 [A2 A3]]. split; [apply Hd; exact A1|]. split; [|exact A3].
  intros Hc. apply A2. apply Hp. exact Hc.
Qed.

(* replacing the edge list of an existing node by a fine one *)
Lemma pwf_set_edges : forall g live pend x es,
  pwf g live pend -> In x (dom (edges g)) -> node_ok g pend x es -> pwf (set_edges g x es) live pend.
Proof.
  intros g live pend x es [W1 [W2 [W3 [W4 [W5 [W6 W7]]]]]] Hx Hok.
  assert (Hdom : forall t, In t (dom (edges (set_edges g x es))) <-> In t (dom (edges g))).
  { intros t. unfold set_edges. cbn [edges]. rewrite dom_put. split; [intros [H|H]; [subst; exact Hx|exact H]|intros H; right; exact H]. }
  unfold pwf. split; [unfold set_edges; cbn [edges]; apply NoDup_dom_put; exact W1|]. split; [exact W2|].
  split; [intros t; rewrite Hdom; apply W3|]. split; [exact W4|]. split; [|split; [exact W6|exact W7]].
  intros y esy Hl Hy. unfold set_edges in Hl. cbn [edges] in Hl. rewrite lookup_put' in Hl.
  destruct (N.eqb y x) eqn:E.
  - apply N.eqb_eq in E. subst y. inversion Hl; subst esy.
    apply (node_ok_ext g _ pend pend x es); [intros t Ht; apply Hdom; exact Ht|apply incl_refl|exact Hok].
  - apply (node_ok_ext g _ pend pend y esy); [intros t Ht; apply Hdom; exact Ht|apply incl_refl|].
    apply W5; assumption.
Qed.

(* ---- robust prune ---- *)
Lemma rp_loop_spec : forall self cands acc,
  (length acc < pR P)%nat ->
  let r := rp_loop d P self acc cands in
  (length r <= pR P)%nat /\
  forall p, In p r -> In p acc \/ exists c, In c cands /\ p = (it_id c, it_vec c) /\ it_id c <> self.
Proof.
  intros self cands. induction cands as [|c rest IH]; intros acc Hacc; simpl.
  - split; [lia|]. intros p Hp. left. exact Hp.
  - destruct (pruned d (pAlpha P) acc c || N.eqb (it_id c) self) eqn:E.
    + destruct (IH acc Hacc) as [A B]. split; [exact A|]. intros p Hp. destruct (B p Hp) as [H|[c' [H1 H2]]].
      * left. exact H.
      * right. exists c'. split; [right; exact H1|exact H2].
    + apply orb_false_iff in E. destruct E as [_ E]. apply N.eqb_neq in E.
      assert (Hnew : forall p, In p (acc ++ [(it_id c, it_vec c)]) ->
                     In p acc \/ exists c', In c' (c :: rest) /\ p = (it_id c', it_vec c') /\ it_id c' <> self).
      { intros p Hp. apply in_app_or in Hp. destruct Hp as [Hp|[Hp|[]]]; [left; exact Hp|].
        right. exists c. split; [left; reflexivity|]. split; [symmetry; exact Hp|exact E]. }
      destruct (Nat.leb (pR P) (length (acc ++ [(it_id c, it_vec c)]))) eqn:El.
      * split; [rewrite app_length in *; simpl in *; lia|exact Hnew].
      * apply Nat.leb_gt in El. destruct (IH (acc ++ [(it_id c, it_vec c)]) El) as [A B]. split; [exact A|].
        intros p Hp. destruct (B p Hp) as [H|[c' [H1 H2]]].
        -- apply Hnew. exact H.
        -- right. exists c'. split; [right; exact H1|exact H2].
Qed.

Lemma robust_prune_spec : forall self cands,
  (length (robust_prune d P self cands) <= pR P)%nat /\
  forall i v, In (i, v) (robust_prune d P self cands) ->
    i <> self /\ exists c, In c cands /\ it_id c = i /\ it_vec c = v.
Proof.
  intros self cands. unfold robust_prune. destruct (rp_loop_spec self cands []) as [A B]; [simpl; lia|].
  split; [exact A|]. intros i v Hin. destruct (B _ Hin) as [[]|[c [H1 [H2 H3]]]]. inversion H2; subst.
  split; [exact H3|]. exists c. split; [exact H1|]. split; reflexivity.
Qed.

(* ---- the back edge B -> A ---- *)
Lemma back_edge_pwf : forall g live pend id v nB vB,
  pwf g live pend -> In id (dom (edges g)) -> ~ In id pend ->
  In nB (dom (edges g)) -> ~ In nB pend -> nB <> id ->
  exists g', back_edge d P id v g (nB, vB) = Ok g' /\ pwf g' live pend /\
             (forall t, In t (dom (edges g')) <-> In t (dom (edges g))).
Proof.
  intros g live pend id v nB vB Hw Hid Hidp HnB HnBp Hne.
  assert (Hw' := Hw). destruct Hw' as [W1 [W2 [W3 [W4 [W5 [W6 W7]]]]]].
  unfold back_edge. apply lookup_dom in HnB. destruct HnB as [eB HeB]. rewrite HeB.
  destruct (W5 nB eB HeB HnBp) as [OkT OkL].
  assert (HnB : In nB (dom (edges g))) by (apply lookup_dom; exists eB; exact HeB).
  assert (Hdom : forall es t, In t (dom (edges (set_edges g nB es))) <-> In t (dom (edges g))).
  { intros es t. unfold set_edges. cbn [edges]. rewrite dom_put. split; [intros [H|H]; [subst; exact HnB|exact H]|intros H; right; exact H]. }
  destruct (Nat.ltb (pR P) (length eB + 1)) eqn:El.
  - eexists. split; [reflexivity|]. split; [|apply Hdom]. apply pwf_set_edges; [exact Hw|exact HnB|].
    set (cs := add (d vB) (add_all (d vB) (empty_ds (length eB + 1)) (get_many eB (vecs g))) (id, v)).
    destruct (robust_prune_spec nB (sort_items (items cs))) as [RL RS].
    split; [|intros _; rewrite map_length; exact RL].
    intros t Ht. apply in_map_iff in Ht. destruct Ht as [[i vi] [Ei Hin]]. simpl in Ei. subst i.
    destruct (RS t vi Hin) as [Htn [c [Hc [Hcid _]]]].
    apply (Permutation_in _ (sort_items_perm vec (items cs))) in Hc.
    unfold cs in Hc. apply add_items_in in Hc. destruct Hc as [Hc|[Hc _]].
    + apply add_all_items_in in Hc. destruct Hc as [[]|[i [vi' [Hi Ec]]]]. subst c. simpl in Hcid. subst i.
      apply get_many_In in Hi. destruct Hi as [Hi _]. destruct (OkT t Hi) as [A [B C]]. split; [exact A|]. split; assumption.
    + subst c. simpl in Hcid. subst t. split; [exact Hid|]. split; [exact Hidp|]. intros Hc. apply Hne. symmetry. exact Hc.
  - apply Nat.ltb_ge in El. eexists. split; [reflexivity|]. split; [|apply Hdom]. apply pwf_set_edges; [exact Hw|exact HnB|].
    split; [|intros _; rewrite app_length; simpl; lia].
    intros t Ht. apply in_app_or in Ht. destruct Ht as [Ht|[Ht|[]]].
    + apply OkT. exact Ht.
    + subst t. split; [exact Hid|]. split; [exact Hidp|]. intros Hc. apply Hne. symmetry. exact Hc.
Qed.

Definition rem (id : N) (pend : list N) : list N := filter (fun x => negb (N.eqb x id)) pend.

Lemma rem_In : forall id pend x, In x (rem id pend) <-> In x pend /\ x <> id.
Proof.
  intros id pend x. unfold rem. rewrite filter_In. rewrite negb_true_iff. rewrite N.eqb_neq. reflexivity.
Qed.

(* (b), generalised: inserting [id] (fresh, pending, or even already present) on a graph that
   is well-formed up to pending nodes never fails and yields such a graph where id is no
   longer pending *)
Lemma insert_single_pwf : forall g live pend id v,
  pwf g live pend -> id <> START -> (id <= maxid g)%N ->
  exists g', insert_single d P g id v = Ok g' /\ pwf g' (id :: live) (rem id pend).
Proof.
  intros g live pend id v Hw Hid Hmax.
  assert (Hw' := Hw). destruct Hw' as [W1 [W2 [W3 [W4 [W5 [W6 W7]]]]]].
  unfold insert_single.
  set (g1 := mkGraph (edges g) (put id v (vecs g)) (maxid g)).
  set (Sp := fun x => In x (dom (edges g)) /\ ~ In x pend).
  assert (Hclosed : closed vec g1 Sp).
  { split.
    - split; [apply W3; left; reflexivity|exact W7].
    - intros x [Hx Hxp]. split.
      + unfold g1. cbn [vecs]. apply lookup_dom. apply dom_put. right. apply W4. apply W3. exact Hx.
      + apply lookup_dom in Hx. destruct Hx as [es Hes]. exists es. split; [exact Hes|].
        intros t Ht. destruct (W5 x es Hes Hxp) as [A _]. destruct (A t Ht) as [A1 [A2 _]]. split; assumption. }
  destruct (greedy_search_ok vec d g1 Sp Hclosed v 1 (pL P) None HL) as [rs [vis [Egs [_ [_ [Hgv _]]]]]].
  { intros f Hf. discriminate. }
  rewrite Egs.
  set (eA := robust_prune d P id vis).
  destruct (robust_prune_spec id vis) as [RL RS]. fold eA in RL, RS.
  assert (HeA : forall i vi, In (i, vi) eA -> i <> id /\ In i (dom (edges g)) /\ ~ In i pend).
  { intros i vi Hin. destruct (RS i vi Hin) as [A [c [Hc [Hci _]]]]. split; [exact A|].
    rewrite Forall_forall in Hgv. destruct (Hgv c Hc) as [HS _]. rewrite Hci in HS. exact HS. }
  set (g2 := set_edges g1 id (map fst eA)).
  assert (Hdom2 : forall t, In t (dom (edges g2)) <-> t = id \/ In t (dom (edges g))).
  { intros t. unfold g2, set_edges, g1. cbn [edges]. apply dom_put. }
  assert (Hw2 : pwf g2 (id :: live) (rem id pend)).
  { unfold pwf. split; [unfold g2, set_edges, g1; cbn [edges]; apply NoDup_dom_put; exact W1|].
    split; [unfold g2, set_edges, g1; cbn [vecs]; apply NoDup_dom_put; exact W2|].
    split; [intros t; rewrite Hdom2, W3; cbn [In]; split; [intros [H|[H|H]]|intros [H|[H|H]]]; subst; auto|].
    split; [intros t; unfold g2, set_edges, g1; cbn [vecs]; rewrite dom_put, W4; cbn [In]; split; [intros [H|[H|H]]|intros [H|[H|H]]]; subst; auto|].
    split; [|split].
    - intros x es Hl Hxp. unfold g2, set_edges, g1 in Hl. cbn [edges] in Hl. rewrite lookup_put' in Hl.
      destruct (N.eqb x id) eqn:E.
      + apply N.eqb_eq in E. subst x. inversion Hl; subst es. split.
        * intros t Ht. apply in_map_iff in Ht. destruct Ht as [[i vi] [Ei Hin]]. simpl in Ei. subst i.
          destruct (HeA t vi Hin) as [A [B C]]. split; [apply Hdom2; right; exact B|]. split; [|exact A].
          intros Hc. apply rem_In in Hc. apply C. apply Hc.
        * intros _. rewrite map_length. exact RL.
      + apply N.eqb_neq in E. assert (Hxp' : ~ In x pend).
        { intros Hc. apply Hxp. apply rem_In. split; assumption. }
        apply (node_ok_ext g g2 pend (rem id pend) x es).
        * intros t Ht. apply Hdom2. right. exact Ht.
        * intros t Ht. apply rem_In in Ht. apply Ht.
        * apply W5; assumption.
    - intros x [Hx|Hx] Hne; unfold g2, set_edges, g1; cbn [maxid]; [subst x; exact Hmax|apply W6; assumption].
    - intros Hc. apply rem_In in Hc. apply W7. apply Hc. }
  (* the back edges *)
  assert (Hfold : forall l g0, pwf g0 (id :: live) (rem id pend) ->
            (forall t, In t (dom (edges g0)) <-> In t (dom (edges g2))) ->
            (forall i vi, In (i, vi) l -> In (i, vi) eA) ->
            exists g', fold_res (back_edge d P id v) l g0 = Ok g' /\ pwf g' (id :: live) (rem id pend)).
  { intros l. induction l as [|[nB vB] r IH]; intros g0 Hw0 Hd0 Hsub; cbn [fold_res].
    - exists g0. split; [reflexivity|exact Hw0].
    - destruct (HeA nB vB (Hsub nB vB (or_introl eq_refl))) as [A [B C]].
      destruct (back_edge_pwf g0 (id :: live) (rem id pend) id v nB vB Hw0) as [g' [E [Hw' Hd']]].
      + apply Hd0. apply Hdom2. left. reflexivity.
      + intros Hc. apply rem_In in Hc. destruct Hc as [_ Hc]. apply Hc. reflexivity.
      + apply Hd0. apply Hdom2. right. exact B.
      + intros Hc. apply rem_In in Hc. apply C. apply Hc.
      + exact A.
      + rewrite E. cbn [bind]. apply IH; [exact Hw'| |intros i vi Hi; apply Hsub; right; exact Hi].
        intros t. rewrite Hd'. apply Hd0. }
  apply (Hfold eA g2 Hw2); [intros t; reflexivity|intros i vi Hi; exact Hi].
Qed.

(* (b): a new point on a well-formed graph *)
Lemma insert_new_wf : forall g live id v,
  wf P g live -> id <> START ->
  exists g', insert_single d P (bump g id) id v = Ok g' /\ wf P g' (id :: live).
Proof.
  intros g live id v Hw Hid. apply wf_pwf in Hw.
  assert (Hwb : pwf (bump g id) live []).
  { destruct Hw as [W1 [W2 [W3 [W4 [W5 [W6 W7]]]]]]. unfold pwf, bump. simpl.
    split; [exact W1|]. split; [exact W2|]. split; [exact W3|]. split; [exact W4|]. split; [exact W5|]. split; [|exact W7].
    intros x Hx Hne. specialize (W6 x Hx Hne). lia. }
  destruct (insert_single_pwf (bump g id) live [] id v Hwb Hid) as [g' [E Hw']].
  - unfold bump. simpl. lia.
  - exists g'. split; [exact E|]. apply wf_pwf. exact Hw'.
Qed.
End WF.

(* ------------------------------------------------------------------ *)
(* 4. removeInboundEdges, batches, histories                           *)
(* ------------------------------------------------------------------ *)

Lemma filter_len_le : forall A (f : A -> bool) l, (length (filter f l) <= length l)%nat.
Proof. intros A f l. induction l as [|a r IH]; simpl; [lia|]. destruct (f a); simpl; lia. Qed.

Lemma fold_res_pres : forall A B (f : A -> B -> result A) (Pf : A -> Prop),
  (forall a b a', f a b = Ok a' -> Pf a -> Pf a') ->
  forall l a a', fold_res f l a = Ok a' -> Pf a -> Pf a'.
Proof.
  intros A B f Pf Hstep l. induction l as [|b r IH]; intros a a' E Ha; cbn [fold_res] in E.
  - inversion E; subst. exact Ha.
  - destruct (f a b) as [a1|e] eqn:E1; cbn [bind] in E; [|discriminate].
    apply (IH a1 a' E). apply (Hstep a b a1 E1 Ha).
Qed.

Local Arguments insert_single {vec} d P g id v : simpl never.
Local Arguments back_edge {vec} d P id v g nb : simpl never.
Local Arguments pdn_edges {vec} d P g A vA eA D : simpl never.
Local Arguments edge_scan {vec} g D : simpl never.

Section Batch.
Variable vec : Type.
Variable d : vec -> vec -> Q.
Variable P : params.
Hypothesis HR : (1 <= pR P)%nat.
Hypothesis HL : (1 <= pL P)%nat.

Lemma back_edge_maxid : forall id v (g : graph vec) nb g', back_edge d P id v g nb = Ok g' -> maxid g' = maxid g.
Proof.
  intros id v g [nB vB] g' E. unfold back_edge in E. destruct (lookup nB (edges g)) as [eB|]; [|discriminate].
  destruct (Nat.ltb (pR P) (length eB + 1)); inversion E; subst; reflexivity.
Qed.

Lemma insert_single_maxid : forall (g : graph vec) id v g', insert_single d P g id v = Ok g' -> maxid g' = maxid g.
Proof.
  intros g id v g' E. unfold insert_single in E.
  destruct (greedy_search d (mkGraph (edges g) (put id v (vecs g)) (maxid g)) v 1 (pL P) None) as [[rs vis]|e]; [|discriminate].
  apply (fold_res_pres _ _ _ (fun g0 => maxid g0 = maxid g)) in E.
  - exact E.
  - intros a b a' Eb Ha. rewrite (back_edge_maxid _ _ _ _ _ Eb). exact Ha.
  - reflexivity.
Qed.

Lemma pwf_live_equiv : forall (g : graph vec) live live' pend,
  pwf vec P g live pend -> (forall x, In x live <-> In x live') -> pwf vec P g live' pend.
Proof.
  intros g live live' pend [W1 [W2 [W3 [W4 [W5 [W6 W7]]]]]] Heq.
  split; [exact W1|]. split; [exact W2|]. split; [intros x; rewrite W3, Heq; reflexivity|].
  split; [intros x; rewrite W4, Heq; reflexivity|]. split; [exact W5|]. split; [|exact W7].
  intros x Hx. apply W6. apply Heq. exact Hx.
Qed.

Lemma pwf_pend_restrict : forall (g : graph vec) live pend pend',
  pwf vec P g live pend -> (forall x, In x pend' -> In x pend) ->
  (forall x, In x pend -> ~ In x pend' -> ~ In x (dom (edges g))) -> pwf vec P g live pend'.
Proof.
  intros g live pend pend' [W1 [W2 [W3 [W4 [W5 [W6 W7]]]]]] Hsub Hout.
  split; [exact W1|]. split; [exact W2|]. split; [exact W3|]. split; [exact W4|]. split; [|split; [exact W6|]].
  - intros x es Hl Hxp. assert (Hxp' : ~ In x pend).
    { intros Hc. apply (Hout x Hc Hxp). apply lookup_dom. exists es. exact Hl. }
    apply (node_ok_ext vec P g g pend pend' x es); [intros t Ht; exact Ht|exact Hsub|apply W5; assumption].
  - intros Hc. apply W7. apply Hsub. exact Hc.
Qed.

(* ---- EdgeScan ---- *)
Lemma edge_scan_spec : forall (g : graph vec) D tp ts, NoDup (dom (edges g)) -> edge_scan g D = (tp, ts) ->
  NoDup tp /\
  (forall x, In x tp <-> ~ In x D /\ exists es, lookup x (edges g) = Some es /\ exists t, In t es /\ In t D) /\
  (forall x, In x ts -> In x (dom (edges g)) /\ ~ In x D /\ x <> START).
Proof.
  intros g D tp ts Hnd E. unfold edge_scan in E. inversion E as [[E1 E2]]. clear E E1 E2.
  split; [|split].
  - apply (NoDup_dom_filter _ _ _ (NoDup_dom_filter _ _ _ Hnd)).
  - intros x. rewrite in_map_iff. split.
    + intros [[y es] [Ey Hin]]. simpl in Ey. subst y. apply filter_In in Hin. destruct Hin as [Hin Hex].
      apply filter_In in Hin. destruct Hin as [Hin Hv]. simpl in *. apply negb_true_iff in Hv. apply memb_false in Hv.
      split; [exact Hv|]. exists es. split; [apply (In_lookup_NoDup _ _ _ _ Hnd Hin)|].
      apply existsb_exists in Hex. destruct Hex as [t [Ht Htd]]. exists t. split; [exact Ht|apply memb_In; exact Htd].
    + intros [Hv [es [Hl [t [Ht Htd]]]]]. exists (x, es). split; [reflexivity|].
      apply filter_In. split.
      * apply filter_In. split; [apply lookup_Some_In; exact Hl|]. simpl. apply negb_true_iff. apply memb_false. exact Hv.
      * simpl. apply existsb_exists. exists t. split; [exact Ht|apply memb_In; exact Htd].
  - intros x Hx. apply filter_In in Hx. destruct Hx as [Hx Hc]. apply andb_true_iff in Hc. destruct Hc as [_ Hc].
    apply negb_true_iff in Hc. apply N.eqb_neq in Hc.
    apply in_map_iff in Hx. destruct Hx as [[y es] [Ey Hin]]. simpl in Ey. subst y.
    apply filter_In in Hin. destruct Hin as [Hin Hv]. simpl in Hv. apply negb_true_iff in Hv. apply memb_false in Hv.
    split; [apply (In_dom _ _ _ _ Hin)|]. split; [exact Hv|exact Hc].
Qed.

(* ---- pruneDeleteNeighbour ---- *)
Lemma pdn_edges_spec : forall (g : graph vec) A vA eA D,
  (exists t, In t eA /\ In t D) ->
  exists es, pdn_edges d P g A vA eA D = Ok es /\ (length es <= pR P)%nat /\
    forall t, In t es -> In t (dom (vecs g)) /\ ~ In t D /\ t <> A.
Proof.
  intros g A vA eA D [t0 [Ht0 Ht0d]]. unfold pdn_edges.
  destruct (filter (fun t => memb t D) eA) as [|e0 er] eqn:Ef.
  - exfalso. assert (Hin : In t0 (filter (fun t => memb t D) eA)) by (apply filter_In; split; [exact Ht0|apply memb_In; exact Ht0d]).
    rewrite Ef in Hin. destruct Hin.
  - rewrite <- Ef. clear Ef e0 er.
    set (validC := filter (fun t => negb (memb t D)) eA ++
                   flat_map (fun p => filter (fun t => negb (memb t D)) (snd p)) (get_many (filter (fun t => memb t D) eA) (edges g))).
    set (cs := sort_items (items (add_all (d vA) (empty_ds (length eA * 2)) (get_many validC (vecs g))))).
    assert (HvC : forall t, In t validC -> ~ In t D).
    { intros t Ht. unfold validC in Ht. apply in_app_or in Ht. destruct Ht as [Ht|Ht].
      - apply filter_In in Ht. destruct Ht as [_ Ht]. apply negb_true_iff in Ht. apply memb_false. exact Ht.
      - apply in_flat_map in Ht. destruct Ht as [p [_ Ht]]. apply filter_In in Ht. destruct Ht as [_ Ht].
        apply negb_true_iff in Ht. apply memb_false. exact Ht. }
    assert (Hcs : forall c, In c cs -> In (it_id c) (dom (vecs g)) /\ ~ In (it_id c) D).
    { intros c Hc. unfold cs in Hc. apply (Permutation_in _ (sort_items_perm vec _)) in Hc.
      apply add_all_items_in in Hc. destruct Hc as [[]|[i [vi [Hi Ec]]]]. subst c. simpl.
      apply get_many_In in Hi. destruct Hi as [Hi Hl]. split; [apply lookup_dom; exists vi; exact Hl|apply HvC; exact Hi]. }
    destruct (Nat.ltb (pR P) (length cs)) eqn:El.
    + eexists. split; [reflexivity|]. destruct (robust_prune_spec vec d P HR HL A cs) as [RL RS].
      split; [rewrite map_length; exact RL|]. intros t Ht. apply in_map_iff in Ht. destruct Ht as [[i vi] [Ei Hin]].
      simpl in Ei. subst i. destruct (RS t vi Hin) as [Hne [c [Hc [Hci _]]]]. destruct (Hcs c Hc) as [B1 B2].
      rewrite Hci in B1, B2. split; [exact B1|]. split; [exact B2|exact Hne].
    + apply Nat.ltb_ge in El. eexists. split; [reflexivity|]. split.
      * rewrite map_length. pose proof (filter_len_le _ (fun it : item vec => negb (N.eqb (it_id it) A)) cs). lia.
      * intros t Ht. apply in_map_iff in Ht. destruct Ht as [c [Ec Hc]]. subst t. apply filter_In in Hc.
        destruct Hc as [Hc Hne]. apply negb_true_iff in Hne. apply N.eqb_neq in Hne. destruct (Hcs c Hc) as [B1 B2].
        split; [exact B1|]. split; [exact B2|exact Hne].
Qed.

Lemma rescue_spec : forall (pts : list (N * vec)) es t, In t (rescue es pts) -> In t es \/ (In t (map fst pts) /\ t <> START).
Proof.
  intros pts. unfold rescue. induction pts as [|p r IH]; intros es t Ht; cbn [fold_left] in Ht.
  - left. exact Ht.
  - apply IH in Ht. destruct Ht as [Ht|[Ht Hne]].
    + destruct (N.eqb (fst p) START) eqn:Es; [left; exact Ht|]. destruct (memb (fst p) es); [left; exact Ht|].
      apply in_app_or in Ht. destruct Ht as [Ht|[Ht|[]]]; [left; exact Ht|]. right. apply N.eqb_neq in Es. subst t.
      split; [left; reflexivity|exact Es].
    + right. split; [right; exact Ht|exact Hne].
Qed.

Lemma set_edges_maxid : forall (g : graph vec) x es, maxid (set_edges g x es) = maxid g.
Proof. reflexivity. Qed.

(* state of the pruning loop of removeInboundEdges: [todo] = nodes still to prune *)
Definition ri_inv (g : graph vec) (live D todo : list N) : Prop :=
  NoDup (dom (edges g)) /\ NoDup (dom (vecs g)) /\
  (forall x, In x (dom (edges g)) <-> x = START \/ In x live) /\
  (forall x, In x (dom (vecs g)) <-> x = START \/ In x live) /\
  (forall x, In x live -> x <> START -> (x <= maxid g)%N) /\
  (forall x es, lookup x (edges g) = Some es -> ~ In x D -> node_ok vec P g [] x es) /\
  (forall x es, ~ In x D -> ~ In x todo -> lookup x (edges g) = Some es -> forall t, In t es -> ~ In t D) /\
  (forall x, In x todo -> ~ In x D /\ exists es, lookup x (edges g) = Some es /\ exists t, In t es /\ In t D) /\
  NoDup todo.

Lemma pdn_step : forall g live D A todo,
  ri_inv g live D (A :: todo) ->
  exists g', prune_delete_neighbour d P D g A = Ok g' /\ ri_inv g' live D todo /\ maxid g' = maxid g.
Proof.
  intros g live D A todo [I1 [I2 [I3 [I4 [I5 [I6 [I7 [I8 I9]]]]]]]].
  destruct (I8 A (or_introl eq_refl)) as [HAD [eA [HeA Hex]]].
  assert (HAdom : In A (dom (edges g))) by (apply lookup_dom; exists eA; exact HeA).
  assert (HAv : In A (dom (vecs g))) by (apply I4; apply I3; exact HAdom).
  apply lookup_dom in HAv. destruct HAv as [vA HvA].
  unfold prune_delete_neighbour. rewrite HvA, HeA.
  destruct (pdn_edges_spec g A vA eA D Hex) as [es [Ees [Hlen Hes]]]. rewrite Ees. cbn [bind].
  eexists. split; [reflexivity|]. split; [|reflexivity].
  inversion I9 as [|? ? HAtodo Hndtodo]; subst.
  assert (Hdom : forall t, In t (dom (edges (set_edges g A es))) <-> In t (dom (edges g))).
  { intros t. unfold set_edges. cbn [edges]. rewrite dom_put. split; [intros [H|H]; [subst; exact HAdom|exact H]|intros H; right; exact H]. }
  unfold ri_inv. split; [unfold set_edges; cbn [edges]; apply NoDup_dom_put; exact I1|]. split; [exact I2|].
  split; [intros t; rewrite Hdom; apply I3|]. split; [exact I4|]. split; [exact I5|].
  split; [|split; [|split; [|exact Hndtodo]]].
  - intros x esx Hl Hx. unfold set_edges in Hl. cbn [edges] in Hl. rewrite lookup_put' in Hl.
    destruct (N.eqb x A) eqn:E.
    + apply N.eqb_eq in E. subst x. inversion Hl; subst esx. split; [|intros _; exact Hlen].
      intros t Ht. destruct (Hes t Ht) as [B1 [_ B3]]. split; [apply Hdom; apply I3; apply I4; exact B1|].
      split; [intros []|exact B3].
    + apply (node_ok_ext vec P g _ [] [] x esx); [intros t Ht; apply Hdom; exact Ht|apply incl_refl|apply I6; assumption].
  - intros x esx Hx Hxt Hl t Ht. unfold set_edges in Hl. cbn [edges] in Hl. rewrite lookup_put' in Hl.
    destruct (N.eqb x A) eqn:E.
    + inversion Hl; subst esx. apply (Hes t Ht).
    + apply N.eqb_neq in E. apply (I7 x esx Hx); [|exact Hl|exact Ht]. intros [Hc|Hc]; [apply E; symmetry; exact Hc|apply Hxt; exact Hc].
  - intros x Hx. destruct (I8 x (or_intror Hx)) as [B1 [esx [B2 B3]]]. split; [exact B1|]. exists esx. split; [|exact B3].
    unfold set_edges. cbn [edges]. rewrite lookup_put'. destruct (N.eqb x A) eqn:E; [|exact B2].
    apply N.eqb_eq in E. subst x. contradiction.
Qed.

Lemma pdn_fold : forall todo g live D,
  ri_inv g live D todo ->
  exists g', fold_res (prune_delete_neighbour d P D) todo g = Ok g' /\ ri_inv g' live D [] /\ maxid g' = maxid g.
Proof.
  intros todo. induction todo as [|A r IH]; intros g live D HI; cbn [fold_res].
  - exists g. split; [reflexivity|]. split; [exact HI|reflexivity].
  - destruct (pdn_step g live D A r HI) as [g1 [E [HI1 Hm1]]]. rewrite E. cbn [bind].
    destruct (IH g1 live D HI1) as [g2 [E2 [HI2 Hm2]]]. exists g2. split; [exact E2|]. split; [exact HI2|congruence].
Qed.

Lemma ri_inv_pwf : forall g live D, ri_inv g live D [] -> ~ In START D -> pwf vec P g live D.
Proof.
  intros g live D [I1 [I2 [I3 [I4 [I5 [I6 [I7 [I8 I9]]]]]]]] HS.
  split; [exact I1|]. split; [exact I2|]. split; [exact I3|]. split; [exact I4|]. split; [|split; [exact I5|exact HS]].
  intros x es Hl Hx. destruct (I6 x es Hl Hx) as [A B]. split; [|exact B].
  intros t Ht. destruct (A t Ht) as [A1 [_ A3]]. split; [exact A1|]. split; [|exact A3].
  apply (I7 x es Hx (fun H => H) Hl t Ht).
Qed.

Lemma remove_inbound_pwf : forall (g : graph vec) live D,
  wf P g live -> ~ In START D ->
  exists g', remove_inbound d P g D = Ok g' /\ pwf vec P g' live D /\ maxid g' = maxid g.
Proof.
  intros g live D Hw HS. apply (wf_pwf vec P) in Hw. destruct Hw as [W1 [W2 [W3 [W4 [W5 [W6 W7]]]]]].
  unfold remove_inbound. destruct (edge_scan g D) as [tp ts] eqn:Es.
  destruct (edge_scan_spec g D tp ts W1 Es) as [S1 [S2 S3]].
  assert (HI : ri_inv g live D tp).
  { split; [exact W1|]. split; [exact W2|]. split; [exact W3|]. split; [exact W4|]. split; [exact W6|].
    split; [intros x es Hl _; apply W5; [exact Hl|intros []]|]. split; [|split; [|exact S1]].
    - intros x es Hx Hxt Hl t Ht Htd. apply Hxt. apply S2. split; [exact Hx|]. exists es. split; [exact Hl|].
      exists t. split; assumption.
    - intros x Hx. apply S2. exact Hx. }
  destruct (pdn_fold tp g live D HI) as [g1 [E1 [HI1 Hm1]]]. rewrite E1. cbn [bind].
  pose proof (ri_inv_pwf g1 live D HI1 HS) as Hw1.
  destruct ts as [|s0 sr].
  - exists g1. split; [reflexivity|]. split; [exact Hw1|exact Hm1].
  - assert (Hw1' := Hw1). destruct Hw1' as [V1 [V2 [V3 [V4 [V5 [V6 V7]]]]]].
    assert (Hst : In START (dom (edges g1))) by (apply V3; left; reflexivity).
    assert (Hst' := Hst). apply lookup_dom in Hst'. destruct Hst' as [es Hes]. rewrite Hes.
    eexists. split; [reflexivity|]. split; [|rewrite set_edges_maxid; exact Hm1].
    apply pwf_set_edges; [exact Hw1|exact Hst|]. split; [|intros Hc; exfalso; apply Hc; reflexivity].
    intros t Ht. apply rescue_spec in Ht. destruct Ht as [Ht|[Ht Hne]].
    + destruct (V5 START es Hes HS) as [A _]. apply A. exact Ht.
    + apply in_map_iff in Ht. destruct Ht as [[i vi] [Ei Hin]]. simpl in Ei. subst i.
      apply get_many_In in Hin. destruct Hin as [Hin Hl]. destruct (S3 t Hin) as [_ [B2 _]].
      split; [apply V3; apply V4; apply lookup_dom; exists vi; exact Hl|]. split; [exact B2|exact Hne].
Qed.
End Batch.

Local Arguments remove_inbound {vec} d P g D : simpl never.
Local Arguments classify {vec} d P st c : simpl never.

Section Batch2.
Variable vec : Type.
Variable d : vec -> vec -> Q.
Variable P : params.
Hypothesis HR : (1 <= pR P)%nat.
Hypothesis HL : (1 <= pL P)%nat.

Definition id_ok (c : N * option vec) : Prop := fst c <> START /\ fst c <> 0%N.

Lemma delete_nodes_pwf : forall (g : graph vec) live D dl,
  pwf vec P g live D -> (forall x, In x dl -> In x D) ->
  pwf vec P (delete_nodes g dl) (filter (fun x => negb (memb x dl)) live) (filter (fun x => negb (memb x dl)) D).
Proof.
  intros g live D dl Hw Hsub. assert (Hw' := Hw). destruct Hw' as [W1 [W2 [W3 [W4 [W5 [W6 W7]]]]]].
  assert (Hnm : forall x, negb (memb x dl) = true <-> ~ In x dl).
  { intros x. rewrite negb_true_iff. apply memb_false. }
  assert (HSdl : ~ In START dl) by (intros Hc; apply W7; apply Hsub; exact Hc).
  assert (Hw3 : pwf vec P (delete_nodes g dl) (filter (fun x => negb (memb x dl)) live) D).
  { unfold delete_nodes. split; [cbn [edges]; apply NoDup_dom_dels; exact W1|]. split; [cbn [vecs]; apply NoDup_dom_dels; exact W2|].
    split; [|split; [|split; [|split; [|exact W7]]]].
    - intros x. cbn [edges]. rewrite dom_dels, W3, filter_In, Hnm. split.
      + intros [[H|H] Hx]; [left; exact H|right; split; assumption].
      + intros [H|[H Hx]]; [subst x; split; [left; reflexivity|exact HSdl]|split; [right; exact H|exact Hx]].
    - intros x. cbn [vecs]. rewrite dom_dels, W4, filter_In, Hnm. split.
      + intros [[H|H] Hx]; [left; exact H|right; split; assumption].
      + intros [H|[H Hx]]; [subst x; split; [left; reflexivity|exact HSdl]|split; [right; exact H|exact Hx]].
    - intros x es Hl Hx. cbn [edges] in Hl. rewrite lookup_dels in Hl. destruct (memb x dl) eqn:Em; [discriminate|].
      destruct (W5 x es Hl Hx) as [A B]. split; [|exact B]. intros t Ht. destruct (A t Ht) as [A1 [A2 A3]].
      split; [|split; assumption]. cbn [edges]. apply dom_dels. split; [exact A1|]. intros Hc. apply A2. apply Hsub. exact Hc.
    - intros x Hx Hne. cbn [maxid]. apply filter_In in Hx. apply W6; [apply Hx|exact Hne]. }
  apply (pwf_pend_restrict vec P _ _ D); [exact Hw3| |].
  - intros x Hx. apply filter_In in Hx. apply Hx.
  - intros x Hx Hnot Hc. unfold delete_nodes in Hc. cbn [edges] in Hc. apply dom_dels in Hc. destruct Hc as [_ Hc].
    apply Hnot. apply filter_In. split; [exact Hx|apply Hnm; exact Hc].
Qed.

Lemma reinsert_fold : forall (upd : list (N * vec)) (g : graph vec) live pend,
  pwf vec P g live pend -> (forall p, In p upd -> fst p <> START /\ (fst p <= maxid g)%N) ->
  exists g' pend', fold_res (fun g c => insert_single d P g (fst c) (snd c)) upd g = Ok g' /\
    pwf vec P g' (rev (map fst upd) ++ live) pend' /\
    (forall x, In x pend' -> In x pend /\ ~ In x (map fst upd)) /\ maxid g' = maxid g.
Proof.
  intros upd. induction upd as [|[id v] r IH]; intros g live pend Hw Hids; cbn [fold_res map rev fst snd].
  - exists g, pend. split; [reflexivity|]. split; [exact Hw|]. split; [|reflexivity]. intros x Hx. split; [exact Hx|intros []].
  - destruct (Hids (id, v) (or_introl eq_refl)) as [Hne Hmax]. cbn [fst] in Hne, Hmax.
    destruct (insert_single_pwf vec d P HR HL g live pend id v Hw Hne Hmax) as [g1 [E1 Hw1]].
    rewrite E1. cbn [bind]. pose proof (insert_single_maxid vec d P g id v g1 E1) as Hm1.
    destruct (IH g1 (id :: live) (rem id pend) Hw1) as [g' [pend' [E' [Hw' [Hp' Hm']]]]].
    { intros p Hp. rewrite Hm1. apply Hids. right. exact Hp. }
    exists g', pend'. split; [exact E'|]. split; [rewrite <- app_assoc; exact Hw'|]. split; [|congruence].
    intros x Hx. destruct (Hp' x Hx) as [A B]. apply rem_In in A. destruct A as [A1 A2]. split; [exact A1|].
    intros [Hc|Hc]; [apply A2; symmetry; exact Hc|apply B; exact Hc].
Qed.

Lemma classify_fold : forall (changes : list (N * option vec)) (st : bstate vec) cur cur' upd' dl',
  wf P (bs_g st) cur ->
  (forall x, In x (map fst (bs_upd st) ++ bs_del st) -> In x cur /\ x <> START) ->
  Forall id_ok changes ->
  batch_cls cur (map fst (bs_upd st)) (bs_del st) changes = (cur', upd', dl') ->
  exists st', fold_res (classify d P) changes st = Ok st' /\ wf P (bs_g st') cur' /\
    map fst (bs_upd st') = upd' /\ bs_del st' = dl' /\
    (forall x, In x (upd' ++ dl') -> In x cur' /\ x <> START).
Proof.
  intros changes. induction changes as [|[id ov] r IH]; intros st cur cur' upd' dl' Hw Hin Hok Hcls.
  - cbn [batch_cls] in Hcls. inversion Hcls; subst. exists st. split; [reflexivity|]. split; [exact Hw|]. split; [reflexivity|].
    split; [reflexivity|exact Hin].
  - inversion Hok as [|? ? [Hs H0] Hokr]; subst. cbn [fst] in Hs, H0. cbn [fold_res]. unfold classify at 1.
    assert (E1 : N.eqb id START || N.eqb id 0 = false).
    { apply orb_false_iff. split; apply N.eqb_neq; assumption. }
    rewrite E1. cbn [batch_cls] in Hcls.
    assert (Hex : memb id cur = true <-> exists v, lookup id (vecs (bs_g st)) = Some v).
    { rewrite memb_In. rewrite <- lookup_dom. destruct Hw as [_ [_ [_ [W4 _]]]]. rewrite W4. split.
      - intros H. right. exact H.
      - intros [H|H]; [contradiction|exact H]. }
    destruct (lookup id (vecs (bs_g st))) as [v0|] eqn:El; destruct (memb id cur) eqn:Em.
    + destruct ov as [v|]; cbn [bind].
      * apply (IH (mkBS (bs_g st) (bs_upd st ++ [(id, v)]) (bs_del st)) cur cur' upd' dl'); cbn [bs_g bs_upd bs_del].
        -- exact Hw.
        -- intros x Hx. rewrite map_app in Hx. cbn [map fst] in Hx. apply in_app_or in Hx. destruct Hx as [Hx|Hx].
           ++ apply in_app_or in Hx. destruct Hx as [Hx|[Hx|[]]].
              ** apply Hin. apply in_or_app. left. exact Hx.
              ** subst x. split; [apply memb_In; exact Em|exact Hs].
           ++ apply Hin. apply in_or_app. right. exact Hx.
        -- exact Hokr.
        -- rewrite map_app. exact Hcls.
      * apply (IH (mkBS (bs_g st) (bs_upd st) (bs_del st ++ [id])) cur cur' upd' dl'); cbn [bs_g bs_upd bs_del].
        -- exact Hw.
        -- intros x Hx. apply in_app_or in Hx. destruct Hx as [Hx|Hx].
           ++ apply Hin. apply in_or_app. left. exact Hx.
           ++ apply in_app_or in Hx. destruct Hx as [Hx|[Hx|[]]].
              ** apply Hin. apply in_or_app. right. exact Hx.
              ** subst x. split; [apply memb_In; exact Em|exact Hs].
        -- exact Hokr.
        -- exact Hcls.
    + exfalso. destruct Hex as [_ Hc]. specialize (Hc (ex_intro _ v0 eq_refl)). discriminate.
    + exfalso. destruct (proj1 Hex eq_refl) as [v Hv]. discriminate.
    + destruct ov as [v|]; cbn [bind].
      * destruct (insert_new_wf vec d P HR HL (bs_g st) cur id v Hw Hs) as [g' [E' Hw']]. rewrite E'. cbn [bind].
        apply (IH (mkBS g' (bs_upd st) (bs_del st)) (id :: cur) cur' upd' dl'); cbn [bs_g bs_upd bs_del].
        -- exact Hw'.
        -- intros x Hx. destruct (Hin x Hx) as [A B]. split; [right; exact A|exact B].
        -- exact Hokr.
        -- exact Hcls.
      * apply (IH st cur cur' upd' dl'); assumption.
Qed.

(* (d) a batch of arbitrary mixed changes preserves well-formedness and never fails *)
Lemma vamana_batch_wf : forall (g : graph vec) live changes,
  wf P g live -> Forall id_ok changes ->
  exists g', vamana_batch d P g changes = Ok g' /\ wf P g' (batch_live live changes).
Proof.
  intros g live changes Hw Hok. unfold vamana_batch, batch_live.
  destruct (batch_cls live [] [] changes) as [[cur' upd'] dl'] eqn:Ecls.
  destruct (classify_fold changes (mkBS g [] []) live cur' upd' dl') as [st' [E1 [Hw1 [Hu [Hd Hin]]]]]; cbn [bs_g bs_upd bs_del map].
  - exact Hw.
  - intros x [].
  - exact Hok.
  - exact Ecls.
  - rewrite E1. cbn [bind]. set (g1 := bs_g st') in *. set (D := map fst (bs_upd st') ++ bs_del st').
    assert (HSD : ~ In START D).
    { intros Hc. unfold D in Hc. rewrite Hu, Hd in Hc. destruct (Hin START Hc) as [_ Hne]. apply Hne. reflexivity. }
    assert (HA : exists g2, match D with [] => Ok g1 | _ :: _ => remove_inbound d P g1 D end = Ok g2 /\
                            pwf vec P g2 cur' D /\ maxid g2 = maxid g1).
    { destruct D as [|d0 dr] eqn:ED.
      - exists g1. split; [reflexivity|]. split; [apply wf_pwf; exact Hw1|reflexivity].
      - rewrite <- ED in *. apply (remove_inbound_pwf vec d P HR HL g1 cur' D Hw1 HSD). }
    destruct HA as [g2 [E2 [Hw2 Hm2]]]. rewrite E2. cbn [bind].
    assert (Hw3 := delete_nodes_pwf g2 cur' D (bs_del st') Hw2).
    assert (Hsub : forall x, In x (bs_del st') -> In x D) by (intros x Hx; unfold D; apply in_or_app; right; exact Hx).
    specialize (Hw3 Hsub).
    destruct (reinsert_fold (bs_upd st') (delete_nodes g2 (bs_del st')) _ _ Hw3) as [g4 [pend4 [E4 [Hw4 [Hp4 _]]]]].
    { intros p Hp. assert (Hpi : In (fst p) (upd' ++ dl')).
      { apply in_or_app. left. rewrite <- Hu. apply in_map. exact Hp. }
      destruct (Hin _ Hpi) as [A B]. split; [exact B|]. unfold delete_nodes. cbn [maxid]. rewrite Hm2.
      destruct Hw1 as [_ [_ [W3 [_ [_ [_ W7]]]]]]. apply W7; [apply W3; right; exact A|exact B]. }
    exists g4. split; [exact E4|]. apply wf_pwf.
    assert (Hw5 : pwf vec P g4 (rev (map fst (bs_upd st')) ++ filter (fun x => negb (memb x (bs_del st'))) cur') []).
    { apply (pwf_pend_restrict vec P _ _ pend4); [exact Hw4|intros x []|].
      intros x Hx _. exfalso. destruct (Hp4 x Hx) as [A B]. apply filter_In in A. destruct A as [A1 A2].
      apply negb_true_iff in A2. apply memb_false in A2. unfold D in A1. apply in_app_or in A1. destruct A1; contradiction. }
    apply (pwf_live_equiv vec P _ _ _ _ Hw5). intros x. rewrite Hu, Hd. rewrite !in_app_iff. rewrite <- in_rev. reflexivity.
Qed.

(* ---- histories from the empty index ---- *)
Definition wf0 (g : graph vec) (live : list N) : Prop := wf P g live \/ (g = empty_graph /\ live = []).

Lemma setup_start_wf : forall v0 (g : graph vec) live, wf0 g live -> wf P (setup_start v0 g) live.
Proof.
  intros v0 g live [Hw|[Eg El]].
  - unfold setup_start. assert (Hs : In START (dom (vecs g))).
    { destruct Hw as [_ [_ [_ [W4 _]]]]. apply W4. left. reflexivity. }
    apply lookup_dom in Hs. destruct Hs as [sv Hs]. rewrite Hs. exact Hw.
  - subst g live. unfold setup_start, empty_graph. cbn [vecs edges maxid lookup]. unfold put, del. cbn [filter].
    unfold wf, dom. cbn [edges vecs maxid map fst]. split; [constructor; [intros []|constructor]|].
    split; [constructor; [intros []|constructor]|].
    split; [intros x; cbn [In]; split; [intros [H|[]]; left; symmetry; exact H|intros [H|[]]; left; symmetry; exact H]|].
    split; [intros x; cbn [In]; split; [intros [H|[]]; left; symmetry; exact H|intros [H|[]]; left; symmetry; exact H]|].
    split; [|split].
    + intros x es t [H|[]] Ht. inversion H; subst. destruct Ht.
    + intros x es [H|[]] Hne. inversion H; subst. exfalso. apply Hne. reflexivity.
    + intros x [H|[]] Hne. exfalso. apply Hne. symmetry. exact H.
Qed.

Lemma run_history_wf : forall v0 batches (g : graph vec) live,
  wf0 g live -> Forall (Forall id_ok) batches ->
  exists g', run_history d P v0 g batches = Ok g' /\ wf0 g' (history_live live batches).
Proof.
  intros v0 batches. induction batches as [|b r IH]; intros g live Hw Hok; cbn [run_history history_live].
  - exists g. split; [reflexivity|exact Hw].
  - inversion Hok as [|? ? Hb Hr]; subst.
    destruct (vamana_batch_wf (setup_start v0 g) live b (setup_start_wf v0 g live Hw) Hb) as [g1 [E1 Hw1]].
    rewrite E1. cbn [bind]. apply IH; [left; exact Hw1|exact Hr].
Qed.
End Batch2.

(* ------------------------------------------------------------------ *)
(* 5. wf_b, soundness of Search, exactness for small filters           *)
(* ------------------------------------------------------------------ *)

Lemma nodupb_NoDup : forall l, nodupb l = true <-> NoDup l.
Proof.
  intros l. induction l as [|x r IH]; simpl.
  - split; [intros _; constructor|reflexivity].
  - rewrite andb_true_iff, negb_true_iff, memb_false, IH. split.
    + intros [A B]. constructor; assumption.
    + intros H. inversion H; subst. split; assumption.
Qed.

Lemma subsetb_incl : forall a b, subsetb a b = true <-> incl a b.
Proof.
  intros a b. unfold subsetb. rewrite forallb_forall. split.
  - intros H x Hx. apply memb_In. apply H. exact Hx.
  - intros H x Hx. apply memb_In. apply H. exact Hx.
Qed.

Lemma wf_b_wf : forall vec (P : params) (g : graph vec) live, wf_b P g live = true <-> wf P g live.
Proof.
  intros vec P g live. unfold wf_b, wf. rewrite !andb_true_iff. rewrite !nodupb_NoDup, !subsetb_incl.
  rewrite !forallb_forall.
  assert (Hset : forall l : list N, (incl l (START :: live) /\ incl (START :: live) l) <-> (forall x, In x l <-> x = START \/ In x live)).
  { intros l. split.
    - intros [A B] x. split.
      + intros Hx. destruct (A x Hx) as [H|H]; [left; symmetry; exact H|right; exact H].
      + intros [H|H]; apply B; [left; symmetry; exact H|right; exact H].
    - intros H. split; intros x Hx.
      + apply H in Hx. destruct Hx as [Hx|Hx]; [left; symmetry; exact Hx|right; exact Hx].
      + apply H. destruct Hx as [Hx|Hx]; [left; symmetry; exact Hx|right; exact Hx]. }
  split.
  - intros [[[[[[[[A1 A2] A3] A4] A5] A6] A7] A8] A9].
    split; [exact A1|]. split; [exact A2|]. split; [apply Hset; split; assumption|]. split; [apply Hset; split; assumption|].
    split; [|split].
    + intros x es t Hin Ht. specialize (A7 (x, es) Hin). cbn [fst snd] in A7. rewrite forallb_forall in A7.
      specialize (A7 t Ht). apply andb_true_iff in A7. destruct A7 as [B1 B2]. apply memb_In in B1.
      apply negb_true_iff in B2. apply N.eqb_neq in B2. split; assumption.
    + intros x es Hin Hne. specialize (A8 (x, es) Hin). cbn [fst snd] in A8. apply orb_true_iff in A8.
      destruct A8 as [B|B]; [apply N.eqb_eq in B; contradiction|apply Nat.leb_le; exact B].
    + intros x Hx Hne. specialize (A9 x Hx). apply orb_true_iff in A9.
      destruct A9 as [B|B]; [apply N.eqb_eq in B; contradiction|apply N.leb_le; exact B].
  - intros [A1 [A2 [A3 [A4 [A5 [A6 A7]]]]]]. apply Hset in A3. apply Hset in A4. destruct A3 as [A3 A3']. destruct A4 as [A4 A4'].
    repeat split; try assumption.
    + intros [x es] Hin. cbn [fst snd]. apply forallb_forall. intros t Ht. destruct (A5 x es t Hin Ht) as [B1 B2].
      apply andb_true_iff. split; [apply memb_In; exact B1|apply negb_true_iff; apply N.eqb_neq; exact B2].
    + intros [x es] Hin. cbn [fst snd]. apply orb_true_iff. destruct (N.eq_dec x START) as [E|E].
      * left. apply N.eqb_eq. exact E.
      * right. apply Nat.leb_le. apply (A6 x es Hin E).
    + intros x Hx. apply orb_true_iff. destruct (N.eq_dec x START) as [E|E].
      * left. apply N.eqb_eq. exact E.
      * right. apply N.leb_le. apply (A7 x Hx E).
Qed.

Lemma NoDup_map_filter : forall A B (f : A -> B) (p : A -> bool) l, NoDup (map f l) -> NoDup (map f (filter p l)).
Proof.
  intros A B f p l. induction l as [|a r IH]; simpl; intros H; [constructor|].
  inversion H as [|? ? Ha Hr]; subst. destruct (p a); simpl; [|apply IH; exact Hr].
  constructor; [|apply IH; exact Hr]. intros Hc. apply Ha. apply in_map_iff in Hc. destruct Hc as [b [Eb Hb]].
  apply filter_In in Hb. rewrite <- Eb. apply in_map. apply Hb.
Qed.

Lemma NoDup_map_firstn : forall A B (f : A -> B) k l, NoDup (map f l) -> NoDup (map f (firstn k l)).
Proof.
  intros A B f k. induction k as [|k IH]; intros l H; simpl; [constructor|].
  destruct l as [|a r]; simpl; [constructor|]. simpl in H. inversion H as [|? ? Ha Hr]; subst.
  constructor; [|apply IH; exact Hr]. intros Hc. apply Ha. apply in_map_iff in Hc. destruct Hc as [b [Eb Hb]].
  rewrite <- Eb. apply in_map. apply (In_firstn _ _ _ _ Hb).
Qed.

Lemma SS_map_filter : forall A (f : A -> Q) (p : A -> bool) l,
  StronglySorted Qle (map f l) -> StronglySorted Qle (map f (filter p l)).
Proof.
  intros A f p l. induction l as [|a r IH]; simpl; intros H; [constructor|].
  inversion H as [|? ? Hs Hf]; subst. destruct (p a); simpl; [|apply IH; exact Hs].
  constructor; [apply IH; exact Hs|]. rewrite Forall_forall in *. intros y Hy. apply Hf.
  apply in_map_iff in Hy. destruct Hy as [b [Eb Hb]]. apply filter_In in Hb. rewrite <- Eb. apply in_map. apply Hb.
Qed.

Lemma SS_map_firstn : forall A (f : A -> Q) k l,
  StronglySorted Qle (map f l) -> StronglySorted Qle (map f (firstn k l)).
Proof.
  intros A f k. induction k as [|k IH]; intros l H; simpl; [constructor|].
  destruct l as [|a r]; simpl; [constructor|]. simpl in H. inversion H as [|? ? Hs Hf]; subst.
  constructor; [apply IH; exact Hs|]. rewrite Forall_forall in *. intros y Hy. apply Hf.
  apply in_map_iff in Hy. destruct Hy as [b [Eb Hb]]. rewrite <- Eb. apply in_map. apply (In_firstn _ _ _ _ Hb).
Qed.

Lemma filter_all_true : forall A (p : A -> bool) l, (forall x, In x l -> p x = true) -> filter p l = l.
Proof.
  intros A p l. induction l as [|a r IH]; simpl; intros H; [reflexivity|].
  rewrite (H a (or_introl eq_refl)). f_equal. apply IH. intros x Hx. apply H. right. exact Hx.
Qed.

Local Arguments search {vec} d g q k Lq w flt : simpl never.
Local Arguments post_process {vec} k w its : simpl never.

Section SearchProps.
Variable vec : Type.
Variable d : vec -> vec -> Q.
Variable P : params.

Lemma wf_closed : forall (g : graph vec) live, wf P g live -> closed vec g (fun x => In x (dom (edges g))).
Proof.
  intros g live [W1 [W2 [W3 [W4 [W5 _]]]]]. split.
  - apply W3. left. reflexivity.
  - intros x Hx. split.
    + apply lookup_dom. apply W4. apply W3. exact Hx.
    + apply lookup_dom in Hx. destruct Hx as [es Hes]. exists es. split; [exact Hes|].
      intros t Ht. apply (W5 x es t (lookup_Some_In _ _ _ _ Hes) Ht).
Qed.

(* c10_search_never_fails *)
Lemma greedy_search_never_fails : forall (g : graph vec) live q k Lq flt,
  wf P g live -> (k <= Lq)%nat -> exists rs vis, greedy_search d g q k Lq flt = Ok (rs, vis).
Proof.
  intros g live q k Lq flt Hw Hk.
  destruct (greedy_search_ok vec d g _ (wf_closed g live Hw) q k Lq flt Hk) as [rs [vis [E _]]].
  - intros f _ x v _ Hl. destruct Hw as [_ [_ [W3 [W4 _]]]]. apply W3. apply W4. apply lookup_dom. exists v. exact Hl.
  - exists rs, vis. exact E.
Qed.

Definition res_of (w : Q) (it : item vec) : sres := mkRes (it_id it) (it_d it) (-1 * it_d it * w).

(* (c) *)
Lemma search_sound : forall (g : graph vec) live q k Lq w flt,
  wf P g live -> (k <= Lq)%nat ->
  exists res, search d g q k Lq w flt = Ok res /\
    NoDup (map sr_id res) /\ (length res <= k)%nat /\ StronglySorted Qle (map sr_dist res) /\
    forall r, In r res ->
      In (sr_id r) live /\ sr_id r <> START /\ (forall f, flt = Some f -> In (sr_id r) f) /\
      (exists v, lookup (sr_id r) (vecs g) = Some v /\ sr_dist r = d q v) /\
      (sr_hybrid r == - (w * sr_dist r))%Q.
Proof.
  intros g live q k Lq w flt Hw Hk.
  destruct (greedy_search_ok vec d g _ (wf_closed g live Hw) q k Lq flt Hk) as [rs [vis [E [[[Hnd _] Hs] [Hg [_ [_ [_ Hf]]]]]]]].
  - intros f _ x v _ Hl. destruct Hw as [_ [_ [W3 [W4 _]]]]. apply W3. apply W4. apply lookup_dom. exists v. exact Hl.
  - unfold search. rewrite E. eexists. split; [reflexivity|]. unfold post_process.
    set (sel := firstn k (filter (fun it : item vec => negb (N.eqb (it_id it) START)) (items rs))).
    split; [|split; [|split]].
    + rewrite map_map. cbn [sr_id]. apply NoDup_map_firstn. apply NoDup_map_filter. exact Hnd.
    + rewrite map_length. apply firstn_le_length.
    + rewrite map_map. cbn [sr_dist]. apply SS_map_firstn. apply SS_map_filter. exact Hs.
    + intros r Hr. apply in_map_iff in Hr. destruct Hr as [it [Er Hit]]. subst r. cbn [sr_id sr_dist sr_hybrid].
      unfold sel in Hit. apply In_firstn in Hit. apply filter_In in Hit. destruct Hit as [Hit Hne].
      apply negb_true_iff in Hne. apply N.eqb_neq in Hne.
      rewrite Forall_forall in Hg. destruct (Hg it Hit) as [G1 [G2 G3]].
      split; [|split; [exact Hne|split; [|split]]].
      * destruct Hw as [_ [_ [W3 _]]]. apply W3 in G1. destruct G1 as [G1|G1]; [contradiction|exact G1].
      * intros f Ef. apply (Hf f Ef it Hit).
      * exists (it_vec it). split; [exact G2|exact G3].
      * ring.
Qed.

(* (e): with a filter of at most searchSize members the result set is the seeded one *)
Lemma greedy_search_small_filter : forall (g : graph vec) live q k Lq f,
  wf P g live -> (k <= Lq)%nat -> (length f <= Lq)%nat ->
  exists vis, greedy_search d g q k Lq (Some f) =
              Ok (add_all_with_limit (d q) (empty_ds k) (get_many f (vecs g)), vis).
Proof.
  intros g live q k Lq f Hw Hk Hlen.
  pose proof (wf_closed g live Hw) as Hcl. set (Sp := fun x => In x (dom (edges g))) in *.
  assert (Hseed : forall f0, Some f = Some f0 -> forall x v, In x (firstn Lq f0) -> lookup x (vecs g) = Some v -> Sp x).
  { intros f0 _ x v _ Hl. destruct Hw as [_ [_ [W3 [W4 _]]]]. apply W3. apply W4. apply lookup_dom. exists v. exact Hl. }
  assert (Hst := Hcl). destruct Hst as [Hst Hcl']. destruct (Hcl' _ Hst) as [[sv Hsv] _].
  rewrite (greedy_search_unfold vec d g q k Lq (Some f) sv Hk Hsv).
  destruct (gs_init_ginv vec d g Sp Hcl q k Lq (Some f) sv Hsv Hseed) as [HI HV].
  set (r0 := add_all_with_limit (d q) (empty_ds k) (get_many f (vecs g))).
  set (I' := fun st : gstate vec => ginv vec g (d q) (Some f) Sp st /\ gs_result st = Some r0).
  assert (Hstep : forall st st', I' st -> gs_step g (d q) Lq (Some f) st = GNext st' -> I' st').
  { intros st st' [A B] E. split; [apply (ginv_step vec g (d q) Lq (Some f) Sp Hcl st st' A E)|].
    pose proof (gs_step_cases vec g (d q) Lq (Some f) st) as Hc. rewrite E in Hc.
    destruct Hc as [pre [x [post [es [Hit [_ [_ [_ [_ [_ [_ HR]]]]]]]]]]]. rewrite HR. unfold next_result. rewrite B.
    destruct (memb (it_id x) f) eqn:Em; [|reflexivity]. f_equal.
    destruct A as [_ Hgs _ _ _ _ _ _]. rewrite Forall_forall in Hgs.
    assert (Hgx : good vec g (d q) Sp x) by (apply Hgs; rewrite Hit; apply in_or_app; right; left; reflexivity).
    destruct Hgx as [_ [Hl _]].
    assert (Hseen : In (it_id x) (seen r0)).
    { unfold r0. apply awl_all_seen_iff. left. apply in_map_iff. exists (it_id x, it_vec x). split; [reflexivity|].
      apply get_many_In. split; [apply memb_In; exact Em|exact Hl]. }
    destruct (awl_cases vec (d q) r0 (it_id x) (it_vec x)) as [[_ H]|[H _]]; [exact H|contradiction]. }
  assert (HI0 : I' (gs_init vec d g q k Lq (Some f) sv)).
  { split; [exact HI|]. unfold gs_init. cbv zeta. cbn [gs_result]. unfold r0. rewrite (firstn_all2 f Hlen). reflexivity. }
  pose proof (gs_loop_inv vec g (d q) Lq (Some f) I' Hstep (S (length (vecs g))) _ HI0) as Hinv.
  destruct (gs_loop_ok vec g (d q) Lq (Some f) Sp Hcl _ HI HV) as [st' [El _]].
  rewrite El in Hinv. destruct Hinv as [[_ Hres] _]. rewrite El. unfold gs_post. rewrite Hres.
  eexists. reflexivity.
Qed.

Lemma search_exact_filter : forall (g : graph vec) live q k Lq w f,
  wf P g live -> NoDup f -> ~ In START f -> (length f <= Lq)%nat -> (k <= Lq)%nat ->
  let C := get_many f (vecs g) in
  exists res, search d g q k Lq w (Some f) = Ok res /\
    length res = Nat.min k (length C) /\ NoDup (map sr_id res) /\ StronglySorted Qle (map sr_dist res) /\
    (forall r, In r res -> exists v, In (sr_id r, v) C /\ sr_dist r = d q v) /\
    (forall id v, In (id, v) C -> ~ In id (map sr_id res) -> forall r, In r res -> (sr_dist r <= d q v)%Q).
Proof.
  intros g live q k Lq w f Hw Hnd Hst Hlen Hk C.
  destruct (greedy_search_small_filter g live q k Lq f Hw Hk Hlen) as [vis E].
  unfold search. rewrite E. fold C. set (r0 := add_all_with_limit (d q) (empty_ds k) C).
  assert (HndC : NoDup (map fst C)) by (apply (get_many_dom_NoDup _ f (vecs g) Hnd)).
  destruct (distset_invariants vec (d q) k C) as [D1 [D2 [D3 D4]]]. fold r0 in D1, D2, D3, D4.
  destruct (distset_kbest vec (d q) k C HndC) as [K1 K2]. fold r0 in K1, K2.
  assert (Hpp : post_process k w (items r0) = map (res_of w) (items r0)).
  { unfold post_process, res_of. f_equal. rewrite filter_all_true.
    - apply firstn_all2. exact D2.
    - intros it Hit. apply negb_true_iff. apply N.eqb_neq. intros Hc. apply Hst.
      destruct (D4 it Hit) as [Hin _]. unfold C in Hin. apply get_many_In in Hin. rewrite Hc in Hin. apply Hin. }
  eexists. split; [reflexivity|]. rewrite Hpp.
  split; [rewrite map_length; exact K2|]. split; [rewrite map_map; exact D1|]. split; [rewrite map_map; exact D3|]. split.
  - intros r Hr. apply in_map_iff in Hr. destruct Hr as [it [Er Hit]]. subst r. cbn [res_of sr_id sr_dist].
    destruct (D4 it Hit) as [A B]. exists (it_vec it). split; assumption.
  - intros id v Hin Hno r Hr. apply in_map_iff in Hr. destruct Hr as [it [Er Hit]]. subst r. cbn [res_of sr_dist].
    apply (K1 id v Hin); [|exact Hit]. intros Hc. apply Hno. rewrite map_map. exact Hc.
Qed.
End SearchProps.

(* ------------------------------------------------------------------ *)
(* 6. which ids carry a vector after a batch (spec-level reading)      *)
(* ------------------------------------------------------------------ *)

Section BL.
Variable vec : Type.

Lemma batch_cls_spec : forall (changes : list (N * option vec)) cur upd dl cur' upd' dl',
  NoDup (map fst changes) -> batch_cls cur upd dl changes = (cur', upd', dl') ->
  (forall x, In x cur' <-> In x cur \/ (exists v, In (x, Some v) changes /\ ~ In x cur)) /\
  (forall x, In x upd' <-> In x upd \/ (exists v, In (x, Some v) changes /\ In x cur)) /\
  (forall x, In x dl' <-> In x dl \/ (In (x, None) changes /\ In x cur)).
Proof.
  intros changes. induction changes as [|[id ov] r IH]; intros cur upd dl cur' upd' dl' Hnd E; cbn [batch_cls] in E.
  - inversion E; subst. repeat split; intros; try tauto; firstorder.
  - cbn [map fst] in Hnd. inversion Hnd as [|? ? Hid Hr]; subst.
    assert (Hfr : forall y o, In (y, o) r -> y <> id).
    { intros y o Hy Hc. subst y. apply Hid. apply in_map_iff. exists (id, o). split; [reflexivity|exact Hy]. }
    destruct (memb id cur) eqn:Em; [apply memb_In in Em|apply memb_false in Em]; destruct ov as [v|];
      destruct (IH _ _ _ _ _ _ Hr E) as [A [B C]]; clear IH E; split; [|split| |split| |split| |split]; intros x;
      rewrite ?A, ?B, ?C, ?in_app_iff; cbn [In]; split.
    all: intros H; clear A B C Hnd Hr;
      repeat match goal with
      | H : _ \/ _ |- _ => destruct H as [H|H]
      | H : _ /\ _ |- _ => destruct H
      | H : exists _, _ |- _ => destruct H
      | H : False |- _ => destruct H
      | H : (_, _) = (_, _) |- _ => inversion H; subst; clear H
      end; subst.
    all: try solve [tauto | eauto 8 | exfalso; eapply Hfr; eauto
                   | right; eexists; split; [eassumption|]; intros [?|?]; [subst; exfalso; eapply Hfr; eauto|tauto]
                   | right; eexists; split; [left; reflexivity|assumption]
                   | right; eexists; split; [right; eassumption|tauto] ].
Qed.


Lemma batch_live_spec : forall (changes : list (N * option vec)) live,
  NoDup (map fst changes) ->
  forall x, In x (batch_live live changes) <->
            (exists v, In (x, Some v) changes) \/ (In x live /\ ~ In (x, None) changes).
Proof.
  intros changes live Hnd x. unfold batch_live.
  destruct (batch_cls live [] [] changes) as [[cur' upd'] dl'] eqn:E.
  destruct (batch_cls_spec changes live [] [] cur' upd' dl' Hnd E) as [A [B C]].
  rewrite in_app_iff, filter_In, negb_true_iff, memb_false, A, B, C. cbn [In].
  destruct (in_dec N.eq_dec x live) as [Hl|Hl]; split; intros H;
    repeat match goal with
      | H : _ \/ _ |- _ => destruct H as [H|H]
      | H : _ /\ _ |- _ => destruct H
      | H : exists _, _ |- _ => destruct H
      | H : False |- _ => destruct H
      end; try solve [tauto | eauto 8 | left; eauto | right; split; [eauto|tauto] | right; split; tauto].
Qed.
End BL.

(* ------------------------------------------------------------------ *)
(* 7. the node id allocator                                            *)
(* ------------------------------------------------------------------ *)

Lemma NoDup_app_r : forall A (a b : list A), NoDup (a ++ b) -> NoDup b.
Proof. intros A a b. induction a as [|x a IH]; simpl; intros H; [exact H|]. inversion H; subst. apply IH. assumption. Qed.

Lemma idc_new_inv : idc_inv idc_new [].
Proof. unfold idc_inv, idc_new. simpl. split; [constructor|]. split; [lia|intros x []]. Qed.

Lemma idc_next_inv : forall c used, idc_inv c used ->
  ~ In (fst (idc_next c)) used /\ fst (idc_next c) <> START /\ fst (idc_next c) <> 0%N /\
  idc_inv (snd (idc_next c)) (fst (idc_next c) :: used).
Proof.
  intros c used [Hnd [H2 Hr]]. unfold idc_next, idc_inv, START. destruct (ic_free c) as [|y r] eqn:E; cbn [fst snd ic_free ic_next app] in *.
  - split; [intros Hc; specialize (Hr _ Hc); lia|]. split; [lia|]. split; [lia|]. split; [|split; [lia|]].
    + constructor; [|exact Hnd]. intros Hc. specialize (Hr _ Hc). lia.
    + intros x [Hx|Hx]; [subst x; lia|specialize (Hr _ Hx); lia].
  - inversion Hnd as [|? ? Hy Hrest]; subst.
    assert (Hyr : (2 <= y < ic_next c)%N) by (apply Hr; left; reflexivity).
    split; [intros Hc; apply Hy; apply in_or_app; right; exact Hc|]. split; [lia|]. split; [lia|]. split; [|split; [exact H2|]].
    + apply (Permutation_NoDup (l := y :: r ++ used)); [|exact Hnd].
      apply Permutation_middle.
    + intros x Hx. apply Hr. apply in_app_or in Hx. destruct Hx as [Hx|[Hx|Hx]].
      * right. apply in_or_app. left. exact Hx.
      * left. exact Hx.
      * right. apply in_or_app. right. exact Hx.
Qed.

Lemma idc_free_inv : forall c used x, idc_inv c used -> In x used ->
  idc_inv (idc_free c x) (filter (fun y => negb (N.eqb y x)) used).
Proof.
  intros c used x [Hnd [H2 Hr]] Hx. unfold idc_free, idc_inv. cbn [ic_free ic_next]. split; [|split; [exact H2|]].
  - assert (Hp : Permutation (ic_free c ++ used) ((ic_free c ++ [x]) ++ filter (fun y => negb (N.eqb y x)) used)).
    { rewrite <- app_assoc. apply Permutation_app_head. cbn [app].
      assert (Hndu : NoDup used) by (apply (NoDup_app_r _ _ _ Hnd)).
      clear - Hndu Hx. induction used as [|u us IH]; [destruct Hx|].
      inversion Hndu as [|? ? Hu Hus]; subst. cbn [filter]. destruct (N.eqb u x) eqn:E.
      - apply N.eqb_eq in E. subst u. cbn [negb]. apply perm_skip. rewrite filter_all_true; [apply Permutation_refl|].
        intros y Hy. apply negb_true_iff. apply N.eqb_neq. intros Hc. subst y. contradiction.
      - apply N.eqb_neq in E. destruct Hx as [Hx|Hx]; [contradiction|]. cbn [negb].
        eapply Permutation_trans; [apply perm_skip; apply (IH Hx Hus)|]. apply perm_swap. }
    apply (Permutation_NoDup Hp Hnd).
  - intros y Hy. apply Hr. apply in_app_or in Hy. destruct Hy as [Hy|Hy].
    + apply in_app_or in Hy. destruct Hy as [Hy|[Hy|[]]].
      * apply in_or_app. left. exact Hy.
      * subst y. apply in_or_app. right. exact Hx.
    + apply filter_In in Hy. apply in_or_app. right. apply Hy.
Qed.

(* delete-only batches *)
Lemma delete_batch_wf : forall vec (d : vec -> vec -> Q) (P : params),
  (1 <= pR P)%nat -> (1 <= pL P)%nat ->
  forall (g : graph vec) live (dl : list N),
  wf P g live -> NoDup dl -> ~ In START dl -> ~ In 0%N dl ->
  exists g' live', vamana_batch d P g (map (fun i => (i, None)) dl) = Ok g' /\ wf P g' live' /\
                   forall x, In x live' <-> In x live /\ ~ In x dl.
Proof.
  intros vec d P HR HL g live dl Hw Hnd Hs H0.
  destruct (vamana_batch_wf vec d P HR HL g live (map (fun i => (i, None)) dl) Hw) as [g' [E Hw']].
  - apply Forall_forall. intros c Hc. apply in_map_iff in Hc. destruct Hc as [i [Ei Hi]]. subst c. unfold id_ok. cbn [fst].
    split; intros Hc; rewrite Hc in Hi; contradiction.
  - exists g', (batch_live live (map (fun i => (i, @None vec)) dl)). split; [exact E|]. split; [exact Hw'|].
    intros x. rewrite batch_live_spec; [|rewrite map_map; cbn [fst]; rewrite map_id; exact Hnd]. split.
    + intros [[v Hv]|[A B]].
      * apply in_map_iff in Hv. destruct Hv as [i [Ei _]]. discriminate.
      * split; [exact A|]. intros Hc. apply B. apply in_map_iff. exists x. split; [reflexivity|exact Hc].
    + intros [A B]. right. split; [exact A|]. intros Hc. apply in_map_iff in Hc. destruct Hc as [i [Ei Hi]].
      inversion Ei; subst i. contradiction.
Qed.

Lemma history_from_empty_wf : forall vec (d : vec -> vec -> Q) (P : params),
  (1 <= pR P)%nat -> (1 <= pL P)%nat ->
  forall (v0 : vec) (batches : list (list (N * option vec))),
  Forall (Forall (fun c => fst c <> START /\ fst c <> 0%N)) batches ->
  exists g, run_history d P v0 empty_graph batches = Ok g /\
            (wf P g (history_live [] batches) \/ (g = empty_graph /\ history_live [] batches = [])).
Proof.
  intros vec d P HR HL v0 batches Hok.
  exact (run_history_wf vec d P HR HL v0 batches empty_graph [] (or_intror (conj eq_refl eq_refl)) Hok).
Qed.

(* ------------------------------------------------------------------ *)
(* 8. the search window holds the whole graph: nothing is dropped       *)
(* ------------------------------------------------------------------ *)

Section NoDrop.
Variable vec : Type.
Variable dist : vec -> Q.
Variable dm : list N.

Lemma awl_nodrop : forall (ds : distset vec) id v,
  ds_wok vec ds -> incl (ids (items ds)) dm -> In id dm -> (length dm <= cap ds)%nat ->
  (forall x, In x (seen ds) -> In x (ids (items ds))) ->
  let ds' := add_with_limit dist ds (id, v) in
  (forall x, In x (seen ds') -> In x (ids (items ds'))) /\ incl (ids (items ds')) dm /\
  (forall it, In it (items ds) -> In it (items ds')).
Proof.
  intros ds id v [Hnd [Hinc Hlen]] Hdm Hid Hcap Hseen.
  destruct (awl_cases vec dist ds id v) as [[_ H]|[Hns [_ [Hs H]]]].
  - cbv zeta. rewrite H. split; [exact Hseen|]. split; [exact Hdm|]. intros it Hit. exact Hit.
  - assert (Hlt : (length (items ds) < cap ds)%nat).
    { assert (Hni : ~ In id (ids (items ds))) by (intros Hc; apply Hns; apply Hinc; exact Hc).
      assert (Hl : (length (id :: ids (items ds)) <= length dm)%nat).
      { apply NoDup_incl_length; [constructor; assumption|]. intros y [Hy|Hy]; [subst y; exact Hid|apply Hdm; exact Hy]. }
      simpl in Hl. unfold ids in Hl. rewrite map_length in Hl. lia. }
    destruct H as [[_ [Hf _]]|[[H _]|[pre [lst [_ [_ [Hn _]]]]]]]; [lia| |contradiction].
    pose proof (push_bubble_perm vec (items ds) (nw vec dist id v)) as Hp.
    cbv zeta. rewrite Hs, H. split; [|split].
    + intros x Hx. apply (Permutation_in _ (Permutation_sym (sorted_perm_ids vec _ _ Hp))). simpl.
      destruct Hx as [Hx|Hx]; [left; exact Hx|right; apply Hseen; exact Hx].
    + intros x Hx. apply (Permutation_in _ (sorted_perm_ids vec _ _ Hp)) in Hx. simpl in Hx.
      destruct Hx as [Hx|Hx]; [subst x; exact Hid|apply Hdm; exact Hx].
    + intros it Hit. apply (Permutation_in _ (Permutation_sym Hp)). right. exact Hit.
Qed.

Lemma awl_all_nodrop : forall ps (ds : distset vec),
  ds_wok vec ds -> incl (ids (items ds)) dm -> (forall p, In p ps -> In (fst p) dm) -> (length dm <= cap ds)%nat ->
  (forall x, In x (seen ds) -> In x (ids (items ds))) ->
  let ds' := add_all_with_limit dist ds ps in
  (forall x, In x (seen ds') -> In x (ids (items ds'))) /\ incl (ids (items ds')) dm /\
  (forall it, In it (items ds) -> In it (items ds')).
Proof.
  intros ps. unfold add_all_with_limit. induction ps as [|[id v] r IH]; intros ds Hw Hdm Hps Hcap Hseen; cbn [fold_left].
  - split; [exact Hseen|]. split; [exact Hdm|]. intros it Hit. exact Hit.
  - destruct (awl_nodrop ds id v Hw Hdm (Hps (id, v) (or_introl eq_refl)) Hcap Hseen) as [A [B C]].
    destruct (IH (add_with_limit dist ds (id, v))) as [A' [B' C']].
    + apply awl_wok. exact Hw.
    + exact B.
    + intros p Hp. apply Hps. right. exact Hp.
    + rewrite awl_cap. exact Hcap.
    + exact A.
    + split; [exact A'|]. split; [exact B'|]. intros it Hit. apply C'. apply C. exact Hit.
Qed.
End NoDrop.

Section Small.
Variable vec : Type.
Variable g : graph vec.
Variable dist : vec -> Q.
Variable Lq : nat.
Variable Sp : N -> Prop.
Variable dm : list N.
Hypothesis Hclosed : closed vec g Sp.
Hypothesis Hdm : forall x, Sp x -> In x dm.
Hypothesis Hlen : (length dm <= Lq)%nat.

Record sinv (st : gstate vec) : Prop := mkSinv {
  si_ginv : ginv vec g dist None Sp st;
  si_cap : cap (gs_search st) = Lq;
  si_start : In START (seen (gs_search st));
  si_nodrop : forall x, In x (seen (gs_search st)) -> In x (ids (items (gs_search st)));
  si_closed : forall it, In it (items (gs_search st)) -> it_vis it = true ->
                In (it_id it) (ids (gs_visited st)) /\
                forall es t, lookup (it_id it) (edges g) = Some es -> In t es -> In t (seen (gs_search st));
  si_pr_s : Forall (fun it => it_pr it = false) (items (gs_search st));
  si_pr_v : Forall (fun it => it_pr it = false) (gs_visited st)
}.

Lemma sinv_step : forall st st', sinv st -> gs_step g dist Lq None st = GNext st' -> sinv st'.
Proof.
  intros st st' HI E. pose proof (gs_step_cases vec g dist Lq None st) as Hc. rewrite E in Hc.
  destruct Hc as [pre [x [post [es [Hit [Hvis [Hpre [_ [Hes [HS [HV HR]]]]]]]]]]].
  destruct HI as [Hg Hcap Hst Hnd Hcl Hps Hpv].
  pose proof (ginv_step vec g dist Lq None Sp Hclosed st st' Hg E) as Hg'.
  assert (Hg0 := Hg). destruct Hg0 as [Hwok Hgs _ _ _ _ _ _].
  set (S1 := mkDS (pre ++ set_vis x :: post) (seen (gs_search st)) (cap (gs_search st))) in *.
  assert (Hx : In x (items (gs_search st))) by (rewrite Hit; apply in_or_app; right; left; reflexivity).
  rewrite Forall_forall in Hgs.
  assert (Hgx : good vec g dist Sp x) by (apply Hgs; exact Hx).
  assert (Hwok1 : ds_wok vec S1).
  { destruct Hwok as [W1 [W2 W3]]. unfold ds_wok, S1. simpl. rewrite ids_set_vis, <- Hit.
    split; [exact W1|]. split; [exact W2|]. rewrite Hit in W3. rewrite app_length in *. simpl in *. exact W3. }
  assert (Hids1 : ids (items S1) = ids (items (gs_search st))).
  { unfold S1. simpl. rewrite ids_set_vis, <- Hit. reflexivity. }
  destruct Hclosed as [_ Hclo]. destruct Hgx as [Hspx [Hlx _]]. destruct (Hclo _ Hspx) as [_ [es' [Hes' Hall]]].
  rewrite Hes in Hes'. inversion Hes'; subst es'. clear Hes'.
  destruct (awl_all_nodrop vec dist dm (get_many es (vecs g)) S1 Hwok1) as [A [B C]].
  - rewrite Hids1. intros y Hy. apply in_map_iff in Hy. destruct Hy as [it [Ey Hy]]. subst y. apply Hdm. apply (Hgs it Hy).
  - intros [i vi] Hp. apply get_many_In in Hp. cbn [fst]. apply Hdm. apply Hall. apply Hp.
  - unfold S1. cbn [cap]. lia.
  - rewrite Hids1. exact Hnd.
  - constructor.
    + exact Hg'.
    + rewrite HS, awl_all_cap. exact Hcap.
    + rewrite HS. apply awl_all_seen_incl. exact Hst.
    + rewrite HS. exact A.
    + intros it Hin Hv. rewrite HS in Hin. rewrite HS, HV, ids_app.
      apply awl_all_items_in in Hin. destruct Hin as [Hin|[i [vi [_ [_ Ei]]]]]; [|subst it; simpl in Hv; discriminate].
      unfold S1 in Hin. simpl in Hin.
      assert (Hold : forall it0, In it0 (items (gs_search st)) -> it_vis it0 = true ->
                In (it_id it0) (ids (gs_visited st) ++ ids [x]) /\
                forall es0 t, lookup (it_id it0) (edges g) = Some es0 -> In t es0 ->
                  In t (seen (add_all_with_limit dist S1 (get_many es (vecs g))))).
      { intros it0 H0 Hv0. destruct (Hcl it0 H0 Hv0) as [Q1 Q2]. split; [apply in_or_app; left; exact Q1|].
        intros es0 t He0 Ht. apply awl_all_seen_incl. apply (Q2 es0 t He0 Ht). }
      apply in_app_or in Hin. destruct Hin as [Hin|[Hin|Hin]].
      * apply Hold; [rewrite Hit; apply in_or_app; left; exact Hin|exact Hv].
      * subst it. cbn [set_vis it_id]. split; [apply in_or_app; right; left; reflexivity|].
        intros es0 t He0 Ht. rewrite Hes in He0. inversion He0; subst es0.
        apply awl_all_seen_iff. left. destruct (Hclo t (Hall t Ht)) as [[vt Hvt] _].
        apply in_map_iff. exists (t, vt). split; [reflexivity|]. apply get_many_In. split; assumption.
      * apply Hold; [rewrite Hit; apply in_or_app; right; right; exact Hin|exact Hv].
    + rewrite HS. apply Forall_forall. intros it Hin. apply awl_all_items_in in Hin.
      destruct Hin as [Hin|[i [vi [_ [_ Ei]]]]]; [|subst it; reflexivity].
      unfold S1 in Hin. simpl in Hin. rewrite Forall_forall in Hps. apply in_app_or in Hin. destruct Hin as [Hin|[Hin|Hin]].
      * apply Hps. rewrite Hit. apply in_or_app. left. exact Hin.
      * subst it. cbn [set_vis it_pr]. apply Hps. exact Hx.
      * apply Hps. rewrite Hit. apply in_or_app. right. right. exact Hin.
    + rewrite HV. apply Forall_app. split; [exact Hpv|]. constructor; [|constructor]. rewrite Forall_forall in Hps. apply Hps. exact Hx.
Qed.

(* when the loop stops, everything reachable from the entry node is in the search set, and
   has been visited *)
Lemma sinv_done : forall st, sinv st -> gs_step g dist Lq None st = GDone ->
  forall x, reach g x -> In x (ids (items (gs_search st))) /\ In x (ids (gs_visited st)).
Proof.
  intros st HI E. pose proof (gs_step_cases vec g dist Lq None st) as Hc. rewrite E in Hc.
  destruct HI as [Hg Hcap Hst Hnd Hcl Hps Hpv]. destruct Hg as [[_ [_ Hl]] _ _ _ _ _ _ _].
  rewrite Hcap in Hl. rewrite (firstn_all2 _ Hl) in Hc. apply split_unvisited_None in Hc. rewrite Forall_forall in Hc.
  assert (Hall : forall x, In x (ids (items (gs_search st))) ->
            In x (ids (gs_visited st)) /\ forall es t, lookup x (edges g) = Some es -> In t es -> In t (ids (items (gs_search st)))).
  { intros x Hx. apply in_map_iff in Hx. destruct Hx as [it [Ex Hit]]. subst x. destruct (Hcl it Hit (Hc it Hit)) as [A B].
    split; [exact A|]. intros es t He Ht. apply Hnd. apply (B es t He Ht). }
  assert (Hr : forall x, reach g x -> In x (ids (items (gs_search st)))).
  { intros x Hx. induction Hx as [|x es t _ IH He Ht].
    - apply Hnd. exact Hst.
    - destruct (Hall x IH) as [_ B]. apply (B es t He Ht). }
  intros x Hx. split; [apply Hr; exact Hx|]. apply (Hall x (Hr x Hx)).
Qed.
End Small.

Lemma SS_map_app_le : forall A (f : A -> Q) (a b : list A),
  StronglySorted Qle (map f (a ++ b)) -> forall x y, In x a -> In y b -> (f x <= f y)%Q.
Proof.
  intros A f a b. induction a as [|z a IH]; simpl; intros H x y Hx Hy; [destruct Hx|].
  inversion H as [|? ? Hs Hf]; subst. destruct Hx as [Hx|Hx].
  - subst z. rewrite Forall_forall in Hf. apply Hf. apply in_map. apply in_or_app. right. exact Hy.
  - apply IH; assumption.
Qed.

Section SmallSearch.
Variable vec : Type.
Variable d : vec -> vec -> Q.
Variable g : graph vec.
Variable Sp : N -> Prop.
Variable dm : list N.
Hypothesis Hclosed : closed vec g Sp.
Hypothesis Hdm : forall x, Sp x -> In x dm.

Lemma greedy_search_small : forall q k Lq,
  (k <= Lq)%nat -> (length dm <= Lq)%nat ->
  exists rs vis, greedy_search d g q k Lq None = Ok (rs, vis) /\
    ds_ok vec rs /\ Forall (good vec g (d q) Sp) (items rs) /\
    Forall (good vec g (d q) Sp) vis /\ NoDup (ids vis) /\
    Forall (fun it => it_pr it = false) vis /\
    (forall x, reach g x -> In x (ids (items rs)) /\ In x (ids vis)).
Proof.
  intros q k Lq Hk Hlen.
  assert (Hst := Hclosed). destruct Hst as [Hst Hcl]. destruct (Hcl _ Hst) as [[sv Hsv] _].
  rewrite (greedy_search_unfold vec d g q k Lq None sv Hk Hsv).
  destruct (gs_init_ginv vec d g Sp Hclosed q k Lq None sv Hsv) as [HI HV]; [intros f Hf; discriminate|].
  set (dist := d q) in *.
  assert (HS0 : sinv vec g dist Lq Sp (gs_init vec d g q k Lq None sv)).
  { unfold gs_init in *. fold dist in HI |- *.
    destruct (empty_ds_ok vec Lq) as [Hw0 _].
    destruct (awl_nodrop vec dist dm (empty_ds Lq) START sv Hw0) as [A [B C]].
    - intros y [].
    - apply Hdm. exact Hst.
    - simpl. exact Hlen.
    - intros y [].
    - constructor; cbn [gs_search gs_visited].
      + exact HI.
      + rewrite awl_cap. reflexivity.
      + apply awl_seen_iff. left. reflexivity.
      + exact A.
      + intros it Hin Hv. apply awl_items_in in Hin. destruct Hin as [[]|[Ei _]]. subst it. simpl in Hv. discriminate.
      + apply Forall_forall. intros it Hin. apply awl_items_in in Hin. destruct Hin as [[]|[Ei _]]. subst it. reflexivity.
      + constructor. }
  pose proof (gs_loop_inv vec g dist Lq None (sinv vec g dist Lq Sp)
               (sinv_step vec g dist Lq Sp dm Hclosed Hdm Hlen) (S (length (vecs g))) _ HS0) as Hinv.
  destruct (gs_loop_ok vec g dist Lq None Sp Hclosed _ HI HV) as [st' [El [HI' _]]].
  rewrite El in Hinv. destruct Hinv as [HS' Hdone]. rewrite El. unfold gs_post.
  pose proof (sinv_done vec g dist Lq Sp st' HS' Hdone) as Hreach.
  destruct HS' as [_ _ _ _ _ _ Hpv]. destruct HI' as [Hwok Hgs Hgv Hndv _ _ Hres Hsort].
  destruct (gs_result st') as [r|] eqn:Er; [destruct Hres as [_ [_ [f [Hf _]]]]; discriminate|].
  eexists. eexists. split; [reflexivity|].
  pose proof (sort_items_perm vec (gs_visited st')) as Hp.
  split; [split; [exact Hwok|apply Hsort; reflexivity]|]. split; [exact Hgs|]. split; [|split; [|split]].
  - apply Forall_forall. intros it Hin. rewrite Forall_forall in Hgv. apply Hgv. apply (Permutation_in _ Hp Hin).
  - apply (Permutation_NoDup (Permutation_sym (sorted_perm_ids vec _ _ Hp))). exact Hndv.
  - apply Forall_forall. intros it Hin. rewrite Forall_forall in Hpv. apply Hpv. apply (Permutation_in _ Hp Hin).
  - intros x Hx. destruct (Hreach x Hx) as [A B]. split; [exact A|].
    apply (Permutation_in _ (Permutation_sym (sorted_perm_ids vec _ _ Hp))). exact B.
Qed.
End SmallSearch.

Section ExactSmall.
Variable vec : Type.
Variable d : vec -> vec -> Q.
Variable P : params.

(* c03_exact_small: the whole graph fits in the search window and every node is reachable from
   the entry node: the answer is the exact k nearest -- it is sound (search_sound) and a live
   point is left out only when the answer is full and that point is at least as far as every row *)
Lemma search_exact_small : forall (g : graph vec) live q k Lq w,
  wf P g live -> (forall x, In x (dom (edges g)) -> reach g x) ->
  (length (edges g) <= Lq)%nat -> (k <= Lq)%nat ->
  exists res, search d g q k Lq w None = Ok res /\
    forall x v, In x live -> x <> START -> lookup x (vecs g) = Some v -> ~ In x (map sr_id res) ->
      length res = k /\ forall r, In r res -> (sr_dist r <= d q v)%Q.
Proof.
  intros g live q k Lq w Hw Hreach Hlen Hk.
  destruct (greedy_search_small vec d g _ (dom (edges g)) (wf_closed vec P g live Hw) (fun x H => H) q k Lq Hk)
    as [rs [vis [E [[_ Hs] [Hg [_ [_ [_ Hr]]]]]]]].
  { unfold dom. rewrite map_length. exact Hlen. }
  unfold search. rewrite E. eexists. split; [reflexivity|].
  intros x v Hx Hne Hl Hno. unfold post_process in *.
  set (its := filter (fun it : item vec => negb (N.eqb (it_id it) START)) (items rs)) in *.
  assert (Hsits : StronglySorted Qle (map (@it_d vec) its)) by (apply SS_map_filter; exact Hs).
  assert (Hxd : In x (dom (edges g))) by (destruct Hw as [_ [_ [W3 _]]]; apply W3; right; exact Hx).
  destruct (Hr x (Hreach x Hxd)) as [Hxi _]. apply in_map_iff in Hxi. destruct Hxi as [itx [Ex Hitx]].
  assert (Hitx' : In itx its).
  { unfold its. apply filter_In. split; [exact Hitx|]. apply negb_true_iff. apply N.eqb_neq. rewrite Ex. exact Hne. }
  rewrite <- (firstn_skipn k its) in Hitx'. apply in_app_or in Hitx'. destruct Hitx' as [Hf|Hsk].
  - exfalso. apply Hno. rewrite map_map. cbn [sr_id]. rewrite <- Ex. apply in_map. exact Hf.
  - rewrite map_length. split.
    + apply firstn_length_le. destruct (Nat.le_gt_cases k (length its)) as [Hle|Hgt]; [exact Hle|].
      rewrite skipn_all2 in Hsk; [destruct Hsk|lia].
    + intros r Hr'. apply in_map_iff in Hr'. destruct Hr' as [it [Er Hit]]. subst r. cbn [sr_dist].
      rewrite Forall_forall in Hg. destruct (Hg itx Hitx) as [_ [G2 G3]]. rewrite Ex, Hl in G2. inversion G2; subst v.
      rewrite <- G3. rewrite <- (firstn_skipn k its) in Hsits. apply (SS_map_app_le _ _ _ _ Hsits it itx Hit Hsk).
Qed.
End ExactSmall.

(* ------------------------------------------------------------------ *)
(* 9. insert-only histories keep every node reachable                  *)
(* ------------------------------------------------------------------ *)

Lemma NoDup_app_l : forall A (a b : list A), NoDup (a ++ b) -> NoDup a.
Proof.
  intros A a b. induction a as [|x a IH]; simpl; intros H; [constructor|]. inversion H as [|? ? Hx Hr]; subst.
  constructor; [|apply IH; exact Hr]. intros Hc. apply Hx. apply in_or_app. left. exact Hc.
Qed.

Section Reach.
Variable vec : Type.
Variable d : vec -> vec -> Q.
Variable P : params.
Hypothesis HR : (1 <= pR P)%nat.
Hypothesis HL : (1 <= pL P)%nat.

Lemma rp_loop_prefix : forall self cands acc, incl acc (rp_loop d P self acc cands).
Proof.
  intros self cands. induction cands as [|c rest IH]; intros acc; simpl.
  - apply incl_refl.
  - destruct (pruned d (pAlpha P) acc c || N.eqb (it_id c) self); [apply IH|].
    destruct (Nat.leb (pR P) (length (acc ++ [(it_id c, it_vec c)]))).
    + apply incl_appl. apply incl_refl.
    + eapply incl_tran; [|apply IH]. apply incl_appl. apply incl_refl.
Qed.

Lemma rp_loop_nodup : forall self cands acc,
  NoDup (map fst acc ++ ids cands) -> NoDup (map fst (rp_loop d P self acc cands)).
Proof.
  intros self cands. induction cands as [|c rest IH]; intros acc H; simpl.
  - simpl in H. rewrite app_nil_r in H. exact H.
  - simpl in H. destruct (pruned d (pAlpha P) acc c || N.eqb (it_id c) self).
    + apply IH. apply NoDup_remove_1 in H. exact H.
    + assert (H' : NoDup (map fst (acc ++ [(it_id c, it_vec c)]) ++ ids rest)).
      { rewrite map_app. simpl. rewrite <- app_assoc. simpl. exact H. }
      destruct (Nat.leb (pR P) (length (acc ++ [(it_id c, it_vec c)]))).
      * apply (NoDup_app_l _ _ _ H').
      * apply IH. exact H'.
Qed.

Lemma robust_prune_first : forall self c rest,
  it_pr c = false -> it_id c <> self -> In (it_id c, it_vec c) (robust_prune d P self (c :: rest)).
Proof.
  intros self c rest Hpr Hne. unfold robust_prune. simpl. unfold pruned. rewrite Hpr. simpl.
  apply N.eqb_neq in Hne. rewrite Hne.
  destruct (Nat.leb (pR P) 1); [left; reflexivity|]. apply rp_loop_prefix. left. reflexivity.
Qed.

Lemma back_edges_append : forall id v (l : list (N * vec)) (g0 : graph vec),
  NoDup (map fst l) ->
  (forall nB vB, In (nB, vB) l -> exists eB, lookup nB (edges g0) = Some eB /\ (length eB + 1 <= pR P)%nat) ->
  exists g', fold_res (back_edge d P id v) l g0 = Ok g' /\
    forall x, lookup x (edges g') =
              if memb x (map fst l) then option_map (fun es => es ++ [id]) (lookup x (edges g0))
              else lookup x (edges g0).
Proof.
  intros id v l. induction l as [|[nB vB] r IH]; intros g0 Hnd Hall; cbn [fold_res map fst].
  - exists g0. split; [reflexivity|]. intros x. reflexivity.
  - inversion Hnd as [|? ? HnB Hr]; subst.
    destruct (Hall nB vB (or_introl eq_refl)) as [eB [HeB Hlen]].
    unfold back_edge at 1. rewrite HeB.
    assert (El : Nat.ltb (pR P) (length eB + 1) = false) by (apply Nat.ltb_ge; exact Hlen). rewrite El. cbn [bind].
    destruct (IH (set_edges g0 nB (eB ++ [id])) Hr) as [g' [E Hlk]].
    + intros nB' vB' Hin. destruct (Hall nB' vB' (or_intror Hin)) as [eB' [HeB' Hlen']]. exists eB'. split; [|exact Hlen'].
      unfold set_edges. cbn [edges]. rewrite lookup_put'. destruct (N.eqb nB' nB) eqn:En; [|exact HeB'].
      apply N.eqb_eq in En. subst nB'. exfalso. apply HnB. apply in_map_iff. exists (nB, vB'). split; [reflexivity|exact Hin].
    + exists g'. split; [exact E|]. intros x. rewrite Hlk. unfold set_edges. cbn [edges]. rewrite lookup_put'.
      unfold memb at 2. cbn [existsb]. fold (memb x (map fst r)).
      destruct (N.eqb x nB) eqn:En.
      * apply N.eqb_eq in En. subst x. cbn [orb].
        assert (Em : memb nB (map fst r) = false) by (apply memb_false; exact HnB). rewrite Em, HeB. reflexivity.
      * cbn [orb]. reflexivity.
Qed.

Definition rinv (g : graph vec) (live : list N) : Prop :=
  wf P g live /\ (forall x, In x (dom (edges g)) -> reach g x) /\
  (forall x es, lookup x (edges g) = Some es -> NoDup es).

Lemma insert_single_struct : forall (g : graph vec) live id v,
  rinv g live -> ~ In id (dom (edges g)) -> id <> START ->
  (length (edges g) <= pR P)%nat -> (length (edges g) <= pL P)%nat ->
  exists g' (eA : list (N * vec)), insert_single d P (bump g id) id v = Ok g' /\ eA <> [] /\ NoDup (map fst eA) /\
    (forall i, In i (map fst eA) -> In i (dom (edges g)) /\ i <> id) /\
    forall x, lookup x (edges g') =
      if N.eqb x id then Some (map fst eA)
      else if memb x (map fst eA) then option_map (fun es => es ++ [id]) (lookup x (edges g))
      else lookup x (edges g).
Proof.
  intros g live id v [Hw [Hreach Hnd]] Hid Hne HlenR HlenL.
  assert (Hw0 := Hw). destruct Hw0 as [W1 [W2 [W3 [W4 [W5 [W6 W7]]]]]].
  unfold insert_single, bump. cbn [edges vecs maxid].
  set (g1 := mkGraph (edges g) (put id v (vecs g)) (N.max (maxid g) id)).
  set (Sp := fun x => In x (dom (edges g))).
  assert (Hclosed : closed vec g1 Sp).
  { split; [apply W3; left; reflexivity|]. intros x Hx. split.
    - unfold g1. cbn [vecs]. apply lookup_dom. apply dom_put. right. apply W4. apply W3. exact Hx.
    - apply lookup_dom in Hx. destruct Hx as [es Hes]. exists es. split; [exact Hes|].
      intros t Ht. apply (W5 x es t (lookup_Some_In _ _ _ _ Hes) Ht). }
  destruct (greedy_search_small vec d g1 Sp (dom (edges g)) Hclosed (fun x H => H) v 1 (pL P) HL)
    as [rs [vis [Egs [_ [_ [Hgv [Hndv [Hprv Hr]]]]]]]].
  { unfold dom. rewrite map_length. exact HlenL. }
  rewrite Egs. set (eA := robust_prune d P id vis).
  assert (Hreach1 : reach g1 START) by constructor.
  destruct (Hr START Hreach1) as [_ Hsv]. destruct vis as [|c rest]; [destruct Hsv|].
  rewrite Forall_forall in Hgv, Hprv.
  assert (Hc : In (it_id c, it_vec c) eA).
  { apply robust_prune_first; [apply Hprv; left; reflexivity|].
    destruct (Hgv c (or_introl eq_refl)) as [Hsc _]. intros Heq. apply Hid. rewrite <- Heq. exact Hsc. }
  assert (HeA : forall i, In i (map fst eA) -> In i (dom (edges g)) /\ i <> id).
  { intros i Hi. apply in_map_iff in Hi. destruct Hi as [[i' vi] [Ei Hin]]. simpl in Ei. subst i'.
    destruct (robust_prune_spec vec d P HR HL id (c :: rest)) as [_ RS]. destruct (RS i vi Hin) as [A [c' [Hc' [Hci _]]]].
    split; [|exact A]. destruct (Hgv c' Hc') as [Hs _]. rewrite Hci in Hs. exact Hs. }
  assert (HndA : NoDup (map fst eA)) by (apply rp_loop_nodup; simpl; exact Hndv).
  set (g2 := set_edges g1 id (map fst eA)).
  assert (Hlk2 : forall x, lookup x (edges g2) = if N.eqb x id then Some (map fst eA) else lookup x (edges g)).
  { intros x. unfold g2, set_edges, g1. cbn [edges]. apply lookup_put'. }
  destruct (back_edges_append id v eA g2 HndA) as [g' [E Hlk]].
  { intros nB vB Hin. assert (HnB : In nB (map fst eA)) by (apply in_map_iff; exists (nB, vB); split; [reflexivity|exact Hin]).
    destruct (HeA nB HnB) as [A B]. apply lookup_dom in A. destruct A as [eB HeB]. exists eB. rewrite Hlk2.
    apply N.eqb_neq in B. rewrite B. split; [exact HeB|].
    assert (Hl : (length (nB :: eB) <= length (dom (edges g)))%nat).
    { apply NoDup_incl_length.
      - constructor; [|apply (Hnd nB eB HeB)]. intros Hc'. destruct (W5 nB eB nB (lookup_Some_In _ _ _ _ HeB) Hc') as [_ Hc'']. apply Hc''. reflexivity.
      - intros y [Hy|Hy]; [subst y; apply lookup_dom; exists eB; exact HeB|apply (W5 nB eB y (lookup_Some_In _ _ _ _ HeB) Hy)]. }
    unfold dom in Hl. rewrite map_length in Hl. simpl in Hl. lia. }
  exists g', eA. split; [exact E|]. split; [intros Hc'; rewrite Hc' in Hc; destruct Hc|]. split; [exact HndA|]. split; [exact HeA|].
  intros x. rewrite Hlk, Hlk2. destruct (N.eqb x id) eqn:Ex.
  - apply N.eqb_eq in Ex. subst x. destruct (memb id (map fst eA)) eqn:Em; [|reflexivity].
    apply memb_In in Em. destruct (HeA id Em) as [_ Hc']. exfalso. apply Hc'. reflexivity.
  - reflexivity.
Qed.

Lemma insert_single_reach : forall (g : graph vec) live id v,
  rinv g live -> ~ In id (dom (edges g)) -> id <> START ->
  (length (edges g) <= pR P)%nat -> (length (edges g) <= pL P)%nat ->
  exists g', insert_single d P (bump g id) id v = Ok g' /\ rinv g' (id :: live) /\
             length (edges g') = S (length (edges g)).
Proof.
  intros g live id v Hri Hid Hne HlenR HlenL.
  destruct (insert_single_struct g live id v Hri Hid Hne HlenR HlenL) as [g' [eA [E [HeAne [HndA [HeA Hlk]]]]]].
  destruct Hri as [Hw [Hreach Hnd]].
  destruct (insert_new_wf vec d P HR HL g live id v Hw Hne) as [g'' [E' Hw']]. rewrite E in E'. inversion E'; subst g''. clear E'.
  exists g'. split; [exact E|].
  assert (Hw0 := Hw). destruct Hw0 as [W1 [W2 [W3 [W4 [W5 [W6 W7]]]]]].
  assert (Hw0' := Hw'). destruct Hw0' as [V1 [V2 [V3 [V4 [V5 [V6 V7]]]]]].
  assert (Hmono : forall x, reach g x -> reach g' x).
  { intros x Hx. induction Hx as [|x es t _ IH He Ht]; [constructor|].
    assert (Hxid : N.eqb x id = false).
    { apply N.eqb_neq. intros Hc. subst x. apply Hid. apply lookup_dom. exists es. exact He. }
    specialize (Hlk x). rewrite Hxid, He in Hlk. destruct (memb x (map fst eA)); simpl in Hlk.
    - apply (reach_step vec g' x (es ++ [id]) t IH Hlk). apply in_or_app. left. exact Ht.
    - apply (reach_step vec g' x es t IH Hlk Ht). }
  assert (Hdom' : forall x, In x (dom (edges g')) <-> x = id \/ In x (dom (edges g))).
  { intros x. rewrite V3, W3. cbn [In]. split; [intros [H|[H|H]]|intros [H|[H|H]]]; subst; auto. }
  split; [split; [exact Hw'|split]|].
  - intros x Hx. apply Hdom' in Hx. destruct Hx as [Hx|Hx]; [|apply Hmono; apply Hreach; exact Hx]. subst x.
    destruct eA as [|[B vB] eAr]; [exfalso; apply HeAne; reflexivity|].
    destruct (HeA B (or_introl eq_refl)) as [HB HBne]. assert (HB' := HB). apply lookup_dom in HB'. destruct HB' as [eB HeB].
    specialize (Hlk B). apply N.eqb_neq in HBne. rewrite HBne, HeB in Hlk.
    assert (Em : memb B (map fst ((B, vB) :: eAr)) = true) by (apply memb_In; left; reflexivity). rewrite Em in Hlk. simpl in Hlk.
    apply (reach_step vec g' B (eB ++ [id]) id (Hmono B (Hreach B HB)) Hlk). apply in_or_app. right. left. reflexivity.
  - intros x es Hl. rewrite Hlk in Hl. destruct (N.eqb x id) eqn:Ex; [inversion Hl; subst es; exact HndA|].
    destruct (memb x (map fst eA)); [|apply (Hnd x es Hl)].
    destruct (lookup x (edges g)) as [eB|] eqn:HeB; simpl in Hl; [|discriminate]. inversion Hl; subst es.
    apply (Permutation_NoDup (Permutation_cons_append _ _)). constructor; [|apply (Hnd x eB HeB)].
    intros Hc. apply Hid. apply (W5 x eB id (lookup_Some_In _ _ _ _ HeB) Hc).
  - assert (L1 : (length (dom (edges g')) <= length (id :: dom (edges g)))%nat).
    { apply NoDup_incl_length; [exact V1|]. intros x Hx. apply Hdom' in Hx. destruct Hx as [Hx|Hx]; [left; symmetry; exact Hx|right; exact Hx]. }
    assert (L2 : (length (id :: dom (edges g)) <= length (dom (edges g')))%nat).
    { apply NoDup_incl_length; [constructor; assumption|]. intros x Hx. apply Hdom'. destruct Hx as [Hx|Hx]; [left; symmetry; exact Hx|right; exact Hx]. }
    unfold dom in L1, L2. simpl in L1, L2. rewrite !map_length in L1, L2. lia.
Qed.
End Reach.

Lemma dels_nil : forall A (l : list (N * A)), dels [] l = l.
Proof. intros A l. unfold dels. apply filter_all_true. intros x _. reflexivity. Qed.

Lemma delete_nodes_nil : forall vec (g : graph vec), delete_nodes g [] = g.
Proof. intros vec [e v m]. unfold delete_nodes. cbn [edges vecs maxid]. rewrite !dels_nil. reflexivity. Qed.

Section ReachHist.
Variable vec : Type.
Variable d : vec -> vec -> Q.
Variable P : params.
Hypothesis HR : (1 <= pR P)%nat.
Hypothesis HL : (1 <= pL P)%nat.

Definition ins_ok (c : N * option vec) : Prop := snd c <> None /\ fst c <> START /\ fst c <> 0%N.

Lemma classify_inserts : forall (changes : list (N * option vec)) (g : graph vec) live,
  rinv vec P g live -> Forall ins_ok changes -> NoDup (map fst changes) ->
  (forall c, In c changes -> ~ In (fst c) (dom (edges g))) ->
  (length (edges g) + length changes <= S (pR P))%nat -> (length (edges g) + length changes <= S (pL P))%nat ->
  exists st' live', fold_res (classify d P) changes (mkBS g [] []) = Ok st' /\ bs_upd st' = [] /\ bs_del st' = [] /\
    rinv vec P (bs_g st') live' /\ length (edges (bs_g st')) = (length (edges g) + length changes)%nat.
Proof.
  intros changes. induction changes as [|[id ov] r IH]; intros g live Hri Hok Hnd Hfresh HlR HlL; cbn [fold_res].
  - exists (mkBS g [] []), live. cbn [bs_g bs_upd bs_del length]. split; [reflexivity|]. split; [reflexivity|]. split; [reflexivity|]. split; [exact Hri|lia].
  - inversion Hok as [|? ? [Hsome [Hs H0]] Hokr]; subst. cbn [fst snd] in *.
    destruct ov as [v|]; [|exfalso; apply Hsome; reflexivity].
    inversion Hnd as [|? ? Hid Hndr]; subst. cbn [length] in HlR, HlL.
    assert (Hidg : ~ In id (dom (edges g))) by (apply (Hfresh (id, Some v)); left; reflexivity).
    unfold classify at 1. cbn [bs_g bs_upd bs_del].
    assert (E1 : N.eqb id START || N.eqb id 0 = false) by (apply orb_false_iff; split; apply N.eqb_neq; assumption).
    rewrite E1.
    assert (Hlv : lookup id (vecs g) = None).
    { apply lookup_None_dom. destruct Hri as [[_ [_ [W3 [W4 _]]]] _]. intros Hc. apply Hidg. apply W3. apply W4. exact Hc. }
    rewrite Hlv.
    destruct (insert_single_reach vec d P HR HL g live id v Hri Hidg Hs) as [g1 [E [Hri1 Hlen1]]]; [lia|lia|].
    rewrite E. cbn [bind].
    destruct (IH g1 (id :: live) Hri1 Hokr Hndr) as [st' [live' [E' [Hu [Hd [Hri' Hlen']]]]]].
    + intros c Hc Hin. destruct Hri1 as [[_ [_ [V3 _]]] _]. destruct Hri as [[_ [_ [W3 _]]] _].
      apply V3 in Hin. cbn [In] in Hin.
      assert (Hc' : fst c = id \/ In (fst c) (dom (edges g))).
      { destruct Hin as [Hin|[Hin|Hin]]; [right; apply W3; left; exact Hin|left; symmetry; exact Hin|right; apply W3; right; exact Hin]. }
      destruct Hc' as [Hc'|Hc'].
      * apply Hid. rewrite <- Hc'. apply in_map. exact Hc.
      * apply (Hfresh c (or_intror Hc) Hc').
    + lia.
    + lia.
    + exists st', live'. split; [exact E'|]. split; [exact Hu|]. split; [exact Hd|]. split; [exact Hri'|]. cbn [length]. lia.
Qed.

Lemma batch_inserts : forall (changes : list (N * option vec)) (g : graph vec) live,
  rinv vec P g live -> Forall ins_ok changes -> NoDup (map fst changes) ->
  (forall c, In c changes -> ~ In (fst c) (dom (edges g))) ->
  (length (edges g) + length changes <= S (pR P))%nat -> (length (edges g) + length changes <= S (pL P))%nat ->
  exists g' live', vamana_batch d P g changes = Ok g' /\ rinv vec P g' live' /\
    length (edges g') = (length (edges g) + length changes)%nat.
Proof.
  intros changes g live Hri Hok Hnd Hfresh HlR HlL.
  destruct (classify_inserts changes g live Hri Hok Hnd Hfresh HlR HlL) as [st' [live' [E [Hu [Hd [Hri' Hlen']]]]]].
  unfold vamana_batch. rewrite E. cbn [bind]. rewrite Hu, Hd. cbn [map app bind fold_res]. rewrite delete_nodes_nil.
  exists (bs_g st'), live'. split; [reflexivity|]. split; assumption.
Qed.

Lemma history_inserts : forall v0 (batches : list (list (N * option vec))) (g : graph vec) live,
  rinv vec P g live -> Forall (Forall ins_ok) batches -> NoDup (map fst (concat batches)) ->
  (forall c, In c (concat batches) -> ~ In (fst c) (dom (edges g))) ->
  (length (edges g) + length (concat batches) <= S (pR P))%nat ->
  (length (edges g) + length (concat batches) <= S (pL P))%nat ->
  exists g' live', run_history d P v0 g batches = Ok g' /\ rinv vec P g' live' /\
    length (edges g') = (length (edges g) + length (concat batches))%nat.
Proof.
  intros v0 batches. induction batches as [|b r IH]; intros g live Hri Hok Hnd Hfresh HlR HlL; cbn [run_history concat] in *.
  - exists g, live. split; [reflexivity|]. split; [exact Hri|simpl; lia].
  - inversion Hok as [|? ? Hb Hr]; subst. rewrite map_app in Hnd. rewrite app_length in HlR, HlL.
    assert (Hset : setup_start v0 g = g).
    { unfold setup_start. destruct Hri as [[_ [_ [_ [W4 _]]]] _].
      assert (Hs : In START (dom (vecs g))) by (apply W4; left; reflexivity).
      apply lookup_dom in Hs. destruct Hs as [sv Hs]. rewrite Hs. reflexivity. }
    rewrite Hset.
    destruct (batch_inserts b g live Hri Hb) as [g1 [live1 [E [Hri1 Hlen1]]]].
    + apply (NoDup_app_l _ _ _ Hnd).
    + intros c Hc. apply Hfresh. apply in_or_app. left. exact Hc.
    + lia.
    + lia.
    + rewrite E. cbn [bind].
      assert (Hdom1 : forall x, In x (dom (edges g1)) -> In x (dom (edges g)) \/ In x (map fst b)).
      { (* a node of g1 is a node of g or was inserted by b: by counting *)
        intros x Hx. destruct (in_dec N.eq_dec x (dom (edges g))) as [Hi|Hni]; [left; exact Hi|]. right.
        destruct (in_dec N.eq_dec x (map fst b)) as [Hj|Hnj]; [exact Hj|]. exfalso.
        (* batch_cls view: g1 is well-formed for batch_live live b *)
        assert (Hokb : Forall (id_ok vec) b).
        { eapply Forall_impl; [|exact Hb]. intros c [_ [A B]]. split; assumption. }
        destruct Hri as [Hw _].
        destruct (vamana_batch_wf vec d P HR HL g live b Hw Hokb) as [g1' [E1 Hw1]]. rewrite E in E1. inversion E1; subst g1'.
        destruct Hw1 as [_ [_ [V3 _]]]. apply V3 in Hx. destruct Hw as [_ [_ [W3 _]]].
        destruct Hx as [Hx|Hx]; [apply Hni; apply W3; left; exact Hx|].
        apply batch_live_spec in Hx; [|apply (NoDup_app_l _ _ _ Hnd)].
        destruct Hx as [[v Hv]|[Hx _]].
        - apply Hnj. apply in_map_iff. exists (x, Some v). split; [reflexivity|exact Hv].
        - apply Hni. apply W3. right. exact Hx. }
      destruct (IH g1 live1 Hri1 Hr) as [g' [live' [E' [Hri' Hlen']]]].
      * apply (NoDup_app_r _ _ _ Hnd).
      * intros c Hc Hin. apply Hdom1 in Hin. destruct Hin as [Hin|Hin].
        -- apply (Hfresh c); [apply in_or_app; right; exact Hc|exact Hin].
        -- (* fst c in both b and the rest: contradicts NoDup *)
           clear - Hnd Hc Hin. induction (map fst b) as [|y ys IHy]; [destruct Hin|].
           simpl in Hnd. inversion Hnd as [|? ? Hy Hys]; subst. destruct Hin as [Hin|Hin].
           ++ apply Hy. apply in_or_app. right. rewrite Hin. apply in_map. exact Hc.
           ++ apply IHy; assumption.
      * lia.
      * lia.
      * exists g', live'. split; [exact E'|]. split; [exact Hri'|]. rewrite app_length. lia.
Qed.

Lemma rinv_start : forall v0, rinv vec P (setup_start v0 (@empty_graph vec)) [].
Proof.
  intros v0. split; [apply (setup_start_wf vec P v0 empty_graph []); right; split; reflexivity|].
  unfold setup_start, empty_graph. cbn [vecs edges maxid lookup]. unfold put, del. cbn [filter edges]. split.
  - intros x Hx. unfold dom in Hx. cbn [map fst In] in Hx. destruct Hx as [Hx|[]]. subst x. constructor.
  - intros x es Hl. cbn [lookup] in Hl. destruct (N.eqb x START); [inversion Hl; constructor|discriminate].
Qed.

(* (f) *)
Lemma reach_insert_only : forall v0 (batches : list (list (N * option vec))),
  Forall (Forall ins_ok) batches -> NoDup (map fst (concat batches)) ->
  (length (concat batches) <= Nat.min (pR P) (pL P - 1))%nat ->
  exists g live, run_history d P v0 (setup_start v0 empty_graph) batches = Ok g /\ wf P g live /\
    (forall x, In x (dom (edges g)) -> reach g x) /\ length (edges g) = S (length (concat batches)).
Proof.
  intros v0 batches Hok Hnd Hlen.
  destruct (history_inserts v0 batches (setup_start v0 empty_graph) [] (rinv_start v0) Hok Hnd) as [g [live [E [[Hw [Hr _]] Hl]]]].
  - intros c Hc Hin. unfold setup_start, empty_graph in Hin. cbn [vecs edges maxid lookup] in Hin. unfold put, del, dom in Hin.
    cbn [filter edges map fst In] in Hin. destruct Hin as [Hin|[]].
    rewrite Forall_forall in Hok. apply in_concat in Hc. destruct Hc as [b [Hb Hc]]. specialize (Hok b Hb).
    rewrite Forall_forall in Hok. destruct (Hok c Hc) as [_ [A _]]. apply A. symmetry. exact Hin.
  - unfold setup_start, empty_graph. cbn [vecs edges maxid lookup]. unfold put, del. cbn [filter edges length]. lia.
  - unfold setup_start, empty_graph. cbn [vecs edges maxid lookup]. unfold put, del. cbn [filter edges length]. lia.
  - exists g, live. split; [exact E|]. split; [exact Hw|]. split; [exact Hr|].
    rewrite Hl. unfold setup_start, empty_graph. cbn [vecs edges maxid lookup]. unfold put, del. cbn [filter edges length]. lia.
Qed.

(* (f) + exact_small: after an insert-only history with n <= min(R, L-1) vectors, a search with
   searchSize >= n+1 is exact *)
Lemma exact_insert_only : forall v0 (batches : list (list (N * option vec))) q k Lq w,
  Forall (Forall ins_ok) batches -> NoDup (map fst (concat batches)) ->
  (length (concat batches) <= Nat.min (pR P) (pL P - 1))%nat ->
  (S (length (concat batches)) <= Lq)%nat -> (k <= Lq)%nat ->
  exists g live res, run_history d P v0 (setup_start v0 empty_graph) batches = Ok g /\ wf P g live /\
    search d g q k Lq w None = Ok res /\
    forall x v, In x live -> x <> START -> lookup x (vecs g) = Some v -> ~ In x (map sr_id res) ->
      length res = k /\ forall r, In r res -> (sr_dist r <= d q v)%Q.
Proof.
  intros v0 batches q k Lq w Hok Hnd Hlen HLq Hk.
  destruct (reach_insert_only v0 batches Hok Hnd Hlen) as [g [live [E [Hw [Hr Hl]]]]].
  destruct (search_exact_small vec d P g live q k Lq w Hw Hr) as [res [Es Hex]]; [lia|exact Hk|].
  exists g, live, res. split; [exact E|]. split; [exact Hw|]. split; [exact Es|exact Hex].
Qed.
End ReachHist.
