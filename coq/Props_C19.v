(* Props_C19.v -- property C19: key and value encodings round-trip and
   preserve order.  Only statements; every proof is `exact <lemma>`. *)
From Coq Require Import List NArith ZArith Bool.
From Semadb Require Import Bytes U64 KeyLayout Model_C19 Proofs_C19 KV.
Import ListNotations.
Open Scope N_scope.

(* --- int64: round trip, injective, order embedding, for EVERY int64 --- *)
Theorem c19_i64_roundtrip : forall z, in_i64 z -> dec_i64 (enc_i64 z) = z.
Proof. exact dec_enc_i64. Qed.
Print Assumptions c19_i64_roundtrip.

Theorem c19_i64_order : forall a b, in_i64 a -> in_i64 b ->
  lex_compare (enc_i64 a) (enc_i64 b) = Z.compare a b.
Proof. exact enc_i64_compare. Qed.
Print Assumptions c19_i64_order.

(* --- uint64 --- *)
Theorem c19_u64_roundtrip : forall n, n < two64 -> dec_u64 (enc_u64 n) = n.
Proof. exact dec_enc_u64. Qed.
Print Assumptions c19_u64_roundtrip.
Theorem c19_u64_order : forall a b, a < two64 -> b < two64 ->
  lex_compare (enc_u64 a) (enc_u64 b) = N.compare a b.
Proof. exact enc_u64_compare. Qed.
Print Assumptions c19_u64_order.

(* --- float64 on bit patterns; value identity is IEEE equality (-0.0 = +0.0) --- *)
Theorem c19_f64_order : forall a b, a < two64 -> b < two64 ->
  lex_compare (enc_f64 a) (enc_f64 b) = Z.compare (f64_ord a) (f64_ord b).
Proof. exact enc_f64_compare. Qed.
Print Assumptions c19_f64_order.

Theorem c19_f64_roundtrip : forall b, b < two64 ->
  dec_f64 (enc_f64 b) = (if f64_is_zero b then 0 else b) /\ f64_eq (dec_f64 (enc_f64 b)) b = true.
Proof. intros b Hb. rewrite (dec_enc_f64 b Hb). split; [reflexivity|exact (f64_eq_norm b)]. Qed.
Print Assumptions c19_f64_roundtrip.

(* the pinned encoder (before repair F1) violated the order at -0.0 *)
Theorem c19_negzero_refuted :
  lex_lt (enc_f64_v0 two63) (enc_f64_v0 18442240474082181120) = true
  /\ f64_lt 18442240474082181120 two63 = true
  /\ f64_nan (dec_f64 (enc_f64_v0 two63)) = true.
Proof. exact enc_f64_v0_negzero. Qed.
Print Assumptions c19_negzero_refuted.

(* --- strings: the key is the byte string itself --- *)
Theorem c19_str : forall s t, dec_str (enc_str s) = s /\ lex_compare (enc_str s) (enc_str t) = lex_compare s t.
Proof. intros; split; reflexivity. Qed.
Print Assumptions c19_str.

(* --- float32 vectors of any length, edge lists, single uint64 --- *)
Theorem c19_f32s_roundtrip : forall xs, Forall (fun x => x < 4294967296) xs -> f32s_of_le (f32s_le xs) = xs.
Proof. exact f32s_roundtrip. Qed.
Print Assumptions c19_f32s_roundtrip.
Theorem c19_edges_roundtrip : forall xs, Forall (fun x => x < two64) xs -> edges_of_le (edges_le xs) = xs.
Proof. exact edges_roundtrip. Qed.
Print Assumptions c19_edges_roundtrip.
Theorem c19_u64_le_roundtrip : forall n, n < two64 -> u64_of_le (u64_le n) = n.
Proof. exact u64_le_roundtrip. Qed.
Print Assumptions c19_u64_le_roundtrip.

(* --- node / point / document / term keys --- *)
Theorem c19_node_key : forall id s, id < two64 ->
  node_id_from_key (node_key id s) s = Some id /\
  (forall s', s <> s' -> node_id_from_key (node_key id s) s' = None).
Proof. intros id s H. split; [exact (node_key_roundtrip id s H)|intros s' Hs; exact (node_key_other_suffix id s s' Hs)]. Qed.
Print Assumptions c19_node_key.
Theorem c19_node_key_inj : forall id s id' s', id < two64 -> id' < two64 ->
  node_key id s = node_key id' s' -> id = id' /\ s = s'.
Proof. exact node_key_inj. Qed.
Print Assumptions c19_node_key_inj.
Theorem c19_point_key_inj : forall u s u' s', length u = length u' ->
  point_key u s = point_key u' s' -> u = u' /\ s = s'.
Proof. exact point_key_inj. Qed.
Print Assumptions c19_point_key_inj.
Theorem c19_doc_key : forall id, id < two64 -> doc_id_from_key (doc_key id) = Some id.
Proof. exact doc_key_roundtrip. Qed.
Print Assumptions c19_doc_key.
Theorem c19_term_key : forall t, term_from_key (term_key t) = Some t.
Proof. exact term_key_roundtrip. Qed.
Print Assumptions c19_term_key.
Theorem c19_families_disjoint : forall id s u s' t d,
  node_key id s <> point_key u s' /\ term_key t <> doc_key d /\
  term_key t <> num_docs_key /\ doc_key d <> num_docs_key /\
  node_key id s <> max_node_id_key /\ node_key id s <> bq_threshold_key.
Proof.
  intros. repeat split.
  - exact (node_point_keys_disjoint id s u s').
  - exact (term_doc_keys_disjoint t d).
  - exact (reserved_not_term t).
  - exact (reserved_not_doc d).
  - exact (proj1 (reserved_not_node id s)).
  - exact (proj2 (reserved_not_node id s)).
Qed.
Print Assumptions c19_families_disjoint.

(* --- range and prefix scans visit exactly the keys in range (both backends) --- *)
Theorem c19_range_scan : forall l s e incl, ksorted l ->
  bbolt_range l s e incl = filter (in_range s e incl) l /\
  mem_range l s e incl = filter (in_range s e incl) l.
Proof. intros l s e incl H. split; [exact (bbolt_range_spec l s e incl H)|exact (mem_range_spec l s e incl H)]. Qed.
Print Assumptions c19_range_scan.
Theorem c19_prefix_scan : forall l p, ksorted l -> bbolt_prefix l p = filter (is_prefix p) l.
Proof. exact bbolt_prefix_spec. Qed.
Print Assumptions c19_prefix_scan.
Theorem c19_range_exact : forall (V : Type) (enc : V -> bytes) (vlt : V -> V -> bool),
  (forall a b, lex_lt (enc a) (enc b) = vlt a b) ->
  forall vals lo hi incl, ksorted (map enc vals) ->
  bbolt_range (map enc vals) (option_map enc lo) (option_map enc hi) incl
  = map enc (filter (v_in_range V vlt lo hi incl) vals).
Proof. exact range_scan_exact. Qed.
Print Assumptions c19_range_exact.

(* --- non-vacuity: concrete instances computed by the kernel --- *)
Example c19_ex_i64 : enc_i64 (-1) = [127;255;255;255;255;255;255;255] /\ dec_i64 (enc_i64 (-9223372036854775808)) = (-9223372036854775808)%Z.
Proof. vm_compute. split; reflexivity. Qed.
Example c19_ex_f64 : (* -Inf < -1.5 < -0.0 = +0.0 < 5e-324 < +Inf in key order *)
  map enc_f64 [18442240474082181120; 13832806255468478464; 9223372036854775808; 0; 1; 9218868437227405312]
  = [[0;15;255;255;255;255;255;255]; [64;7;255;255;255;255;255;255]; [128;0;0;0;0;0;0;0];
     [128;0;0;0;0;0;0;0]; [128;0;0;0;0;0;0;1]; [255;240;0;0;0;0;0;0]].
Proof. vm_compute. reflexivity. Qed.
Example c19_ex_scan :
  bbolt_range [[1];[2];[2;0];[3]] (Some [2]) (Some [3]) false = [[2;0]] /\ ksorted [[1];[2];[2;0];[3]].
Proof. split; [vm_compute; reflexivity|]. repeat constructor. Qed.
