(* Proofs_C04.v -- lemmas for C04 (flat search is exact k-NN within the filter). *)
From Coq Require Import List NArith ZArith QArith Bool Arith Lia Permutation Sorted Lqa.
From Coq Require Import ZifyBool ZifyN ZifyNat.
From Semadb Require Import Bytes U64 KeyLayout Model_C19 Proofs_C19 Value Obs Dyadic Model_C01 Model_C02 Model_C04 Model_C04M.
Import ListNotations.

(* ======================================================================== *)
(* 1. the bounded insertion is exact, whatever the enumeration order        *)
(* ======================================================================== *)

Lemma Qle_bool_false a b : Qle_bool a b = false -> (b < a)%Q.
Proof.
  intros H. apply Qnot_le_lt. intros L. apply Qle_bool_iff in L. congruence.
Qed.

Lemma SSorted_snoc {A} (P : A -> A -> Prop) l a :
  StronglySorted P l -> Forall (fun x => P x a) l -> StronglySorted P (l ++ [a]).
Proof.
  induction 1 as [|x l Hs IH Hx]; intros Hf; cbn.
  - constructor; constructor.
  - inversion Hf as [|? ? Hxa Hf']; subst. constructor.
    + now apply IH.
    + apply Forall_app. split; [assumption|]. constructor; [assumption|constructor].
Qed.

Lemma SSorted_rev {A} (P : A -> A -> Prop) l :
  StronglySorted P l -> StronglySorted (fun a b => P b a) (rev l).
Proof.
  induction 1 as [|x l Hs IH Hx]; cbn.
  - constructor.
  - apply SSorted_snoc; [assumption|].
    apply Forall_forall. intros y Hy. apply in_rev in Hy.
    rewrite Forall_forall in Hx. now apply Hx.
Qed.

Lemma SSorted_map {A} (d : A -> Q) l :
  StronglySorted (fun a b => (d a <= d b)%Q) l -> StronglySorted Qle (map d l).
Proof.
  induction 1 as [|x l Hs IH Hx]; cbn; constructor.
  - assumption.
  - apply Forall_forall. intros q Hq. apply in_map_iff in Hq. destruct Hq as (y & <- & Hy).
    rewrite Forall_forall in Hx. now apply Hx.
Qed.

Section FoldProofs.
  Context {A : Type}.
  Variable d : A -> Q.
  Let R (a b : A) : Prop := (d b <= d a)%Q.

  Lemma bubble_rev_perm r x : Permutation (bubble_rev d r x) (x :: r).
  Proof.
    induction r as [|y r IH]; cbn.
    - reflexivity.
    - destruct (Qle_bool (d y) (d x)).
      + reflexivity.
      + rewrite IH. apply perm_swap.
  Qed.

  Lemma bubble_rev_length r x : length (bubble_rev d r x) = S (length r).
  Proof. apply (Permutation_length (bubble_rev_perm r x)). Qed.

  Lemma bubble_rev_sorted r x : StronglySorted R r -> StronglySorted R (bubble_rev d r x).
  Proof.
    induction 1 as [|y r Hs IH Hy]; cbn.
    - constructor; constructor.
    - destruct (Qle_bool (d y) (d x)) eqn:E.
      + apply Qle_bool_iff in E. constructor.
        * now constructor.
        * constructor; [exact E|].
          apply Forall_forall. intros z Hz. rewrite Forall_forall in Hy.
          unfold R in *. specialize (Hy z Hz). lra.
      + apply Qle_bool_false in E. constructor; [assumption|].
        apply Forall_forall. intros z Hz.
        apply (Permutation_in _ (bubble_rev_perm r x)) in Hz. destruct Hz as [<-|Hz].
        * unfold R. lra.
        * rewrite Forall_forall in Hy. now apply Hy.
  Qed.

  (* invariant after the prefix `seen` of the enumeration: the slice (reversed) r *)
  Definition fold_inv (limit : nat) (seen r : list A) : Prop :=
    exists dropped,
      Permutation seen (r ++ dropped) /\ (length r <= limit)%nat /\
      (dropped <> [] -> length r = limit) /\ StronglySorted R r /\
      (forall x c, In x r -> In c dropped -> (d x <= d c)%Q).

  Lemma fold_inv_nil limit : fold_inv limit [] [].
  Proof.
    exists []. repeat split; cbn; try lia; try constructor; try congruence; intros; contradiction.
  Qed.

  Lemma fold_inv_step limit seen r x :
    (0 < limit)%nat -> fold_inv limit seen r ->
    exists r', flat_step d limit r x = Some r' /\ fold_inv limit (seen ++ [x]) r'.
  Proof.
    intros Hl (dropped & Hp & Hlen & Hfull & Hs & Hd).
    unfold flat_step. destruct (Nat.eqb_spec (length r) limit) as [E|E].
    - destruct r as [|w r']; [cbn in E; lia|].
      destruct (Qle_bool (d w) (d x)) eqn:Ew.
      + (* skip *)
        apply Qle_bool_iff in Ew.
        eexists; split; [reflexivity|]. exists (x :: dropped). repeat split.
        * rewrite Hp. rewrite <- app_assoc. apply Permutation_app_head.
          apply (Permutation_app_comm dropped [x]).
        * assumption.
        * intros _. exact E.
        * assumption.
        * intros y c Hy [<-|Hc]; [|now apply Hd].
          destruct (StronglySorted_inv Hs) as [Hs' Hw]. destruct Hy as [<-|Hy]; [assumption|].
          rewrite Forall_forall in Hw. specialize (Hw y Hy). unfold R in Hw. lra.
      + (* overwrite the worst *)
        apply Qle_bool_false in Ew.
        destruct (StronglySorted_inv Hs) as [Hs' Hw].
        eexists; split; [reflexivity|]. exists (w :: dropped). repeat split.
        * rewrite Hp. rewrite (bubble_rev_perm r' x).
          transitivity (x :: (w :: r') ++ dropped).
          { apply (Permutation_app_comm ((w :: r') ++ dropped) [x]). }
          cbn. constructor. apply Permutation_middle.
        * rewrite bubble_rev_length. cbn in E. lia.
        * intros _. rewrite bubble_rev_length. cbn in E. lia.
        * now apply bubble_rev_sorted.
        * intros y c Hy Hc.
          assert (Hyw : (d y <= d w)%Q).
          { apply (Permutation_in _ (bubble_rev_perm r' x)) in Hy. destruct Hy as [<-|Hy]; [lra|].
            rewrite Forall_forall in Hw. apply (Hw y Hy). }
          destruct Hc as [<-|Hc]; [assumption|].
          assert (Hwc : (d w <= d c)%Q) by (apply Hd; [now left|assumption]). lra.
    - (* append *)
      assert (Hdn : dropped = []).
      { destruct dropped as [|c dr]; [reflexivity|]. exfalso. apply E, Hfull. discriminate. }
      subst dropped.
      eexists; split; [reflexivity|]. exists []. repeat split.
      + rewrite Hp. rewrite !app_nil_r. rewrite (bubble_rev_perm r x).
        apply (Permutation_app_comm r [x]).
      + rewrite bubble_rev_length. lia.
      + congruence.
      + now apply bubble_rev_sorted.
      + intros ? ? _ [].
  Qed.

  Lemma fold_inv_run limit order : forall seen r,
    (0 < limit)%nat -> fold_inv limit seen r ->
    exists r', flat_run_rev d limit r order = Some r' /\ fold_inv limit (seen ++ order) r'.
  Proof.
    induction order as [|x o IH]; intros seen r Hl Hi; cbn.
    - exists r. rewrite app_nil_r. now split.
    - destruct (fold_inv_step limit seen r x Hl Hi) as (r1 & E1 & Hi1). rewrite E1.
      destruct (IH _ _ Hl Hi1) as (r2 & E2 & Hi2). exists r2. split; [assumption|].
      now rewrite <- app_assoc in Hi2.
  Qed.

  (* the result, front first, splits the enumeration into the answer and what was left out *)
  Lemma flat_run_split limit order :
    (0 < limit)%nat ->
    exists res, flat_run d limit order = Some res /\ ksel_split d limit order res.
  Proof.
    intros Hl. destruct (fold_inv_run limit order [] [] Hl (fold_inv_nil limit)) as (r & E & dropped & Hp & Hlen & Hfull & Hs & Hd).
    cbn in Hp. unfold flat_run. rewrite E. cbn. exists (rev r). split; [reflexivity|].
    exists dropped. repeat split.
    - rewrite Hp. apply Permutation_app_tail. apply Permutation_rev.
    - rewrite rev_length. rewrite (Permutation_length Hp), app_length.
      destruct dropped as [|c dr].
      + cbn. lia.
      + rewrite Hfull by discriminate. lia.
    - unfold nondecreasing. apply SSorted_map. apply (SSorted_rev R). exact Hs.
    - intros y c Hy Hc. apply in_rev in Hy. now apply Hd.
  Qed.
End FoldProofs.

Lemma ksel_split_perm {A} (d : A -> Q) k c1 c2 res :
  Permutation c1 c2 -> ksel_split d k c1 res -> ksel_split d k c2 res.
Proof.
  intros Hp (dr & H1 & H2 & H3 & H4). exists dr. repeat split; try assumption.
  - now rewrite <- Hp.
  - now rewrite <- (Permutation_length Hp).
Qed.

Lemma NoDup_app_l {A} (l l' : list A) : NoDup (l ++ l') -> NoDup l.
Proof.
  induction l as [|x l IH]; cbn; intros H; [constructor|].
  inversion H as [|? ? Hx Hl]; subst. constructor; [|now apply IH].
  intros Hin. apply Hx. apply in_or_app. now left.
Qed.

Lemma ksel_split_ksel {A I} (id : A -> I) (d : A -> Q) k cands res :
  NoDup (map id cands) -> ksel_split d k cands res -> ksel id d k cands res.
Proof.
  intros Hnd (dr & Hp & Hlen & Hs & Hd).
  assert (Hnd' : NoDup (map id (res ++ dr))).
  { eapply Permutation_NoDup; [|exact Hnd]. now apply Permutation_map. }
  repeat split.
  - rewrite map_app in Hnd'. now apply NoDup_app_l in Hnd'.
  - intros x Hx. apply (Permutation_in _ (Permutation_sym Hp)). apply in_or_app. now left.
  - assumption.
  - assumption.
  - intros c Hc Hn r Hr. apply (Permutation_in _ Hp) in Hc. apply in_app_or in Hc.
    destruct Hc as [Hc|Hc]; [contradiction|]. now apply Hd.
Qed.

Theorem c04_exact_lemma {A I} (id : A -> I) (d : A -> Q) (limit : nat) (order cands : list A) :
  Permutation order cands -> NoDup (map id cands) -> (0 < limit)%nat ->
  exists res, flat_run d limit order = Some res /\ flat_fold d limit order = res /\
              ksel id d limit cands res /\ ksel_split d limit cands res.
Proof.
  intros Hp Hnd Hl. destruct (flat_run_split d limit order Hl) as (res & E & Hk).
  exists res. unfold flat_fold. rewrite E. split; [reflexivity|]. split; [reflexivity|]. split.
  - apply ksel_split_ksel; [assumption|]. now apply (ksel_split_perm d limit order cands).
  - now apply (ksel_split_perm d limit order cands).
Qed.

(* with the pre-filter: the candidates are the enumerated points that pass it *)
Theorem c04_exact_filter_lemma {A I} (id : A -> I) (d : A -> Q) (keep : A -> bool) (limit : nat) (order stored : list A) :
  Permutation order stored -> NoDup (map id stored) -> (0 < limit)%nat ->
  exists res, flat_search d keep limit order = Some res /\ ksel id d limit (filter keep stored) res.
Proof.
  intros Hp Hnd Hl.
  assert (Hpf : Permutation (filter keep order) (filter keep stored)).
  { clear -Hp. induction Hp; cbn.
    - constructor.
    - destruct (keep x); [now constructor|assumption].
    - destruct (keep x), (keep y); try reflexivity. apply perm_swap.
    - etransitivity; eassumption. }
  assert (Hndf : NoDup (map id (filter keep stored))).
  { clear -Hnd. induction stored as [|x l IH]; cbn in *; [constructor|].
    inversion Hnd as [|? ? Hx Hl]; subst. destruct (keep x); cbn.
    - constructor; [|now apply IH]. intros Hin. apply Hx. apply in_map_iff in Hin.
      destruct Hin as (y & E & Hy). apply filter_In in Hy. apply in_map_iff. exists y. tauto.
    - now apply IH. }
  destruct (c04_exact_lemma id d limit _ _ Hpf Hndf Hl) as (res & E & _ & Hk & _).
  exists res. split; assumption.
Qed.

(* limit = 0: the first point that passes the filter makes Search index res[-1] *)
Theorem c04_limit_zero_lemma {A} (d : A -> Q) (keep : A -> bool) (order : list A) :
  (exists x, In x order /\ keep x = true) -> flat_search d keep 0 order = None.
Proof.
  intros (x & Hx & Hk). unfold flat_search, flat_run.
  assert (Hin : In x (filter keep order)) by (apply filter_In; now split).
  destruct (filter keep order) as [|y l]; [contradiction|]. reflexivity.
Qed.

Theorem c04_limit_zero_empty_lemma {A} (d : A -> Q) (keep : A -> bool) (order : list A) :
  (forall x, In x order -> keep x = false) -> flat_search d keep 0 order = Some [].
Proof.
  intros H. unfold flat_search, flat_run.
  assert (E : filter keep order = []).
  { induction order as [|x l IH]; [reflexivity|]. cbn. rewrite (H x (or_introl eq_refl)).
    apply IH. intros y Hy. apply H. now right. }
  now rewrite E.
Qed.

(* ======================================================================== *)
(* 2. the coded checker of the running check is sound                       *)
(* ======================================================================== *)

Lemma mem_bytes_In x l : mem_bytes x l = true <-> In x l.
Proof.
  unfold mem_bytes. rewrite existsb_exists. split.
  - intros (y & Hy & E). apply bytes_eqb_eq in E. now subst.
  - intros H. exists x. split; [assumption|]. now apply bytes_eqb_eq.
Qed.

Lemma nodup_ids_NoDup l : nodup_ids l = true -> NoDup l.
Proof.
  induction l as [|x l IH]; cbn; intros H; [constructor|].
  apply andb_true_iff in H. destruct H as [H1 H2]. constructor; [|now apply IH].
  intros Hin. apply mem_bytes_In in Hin. rewrite Hin in H1. discriminate.
Qed.

Lemma find_cand_Some id cs c : find_cand id cs = Some c -> In c cs /\ c_id c = id.
Proof.
  induction cs as [|c0 cs IH]; cbn; [discriminate|].
  destruct (bytes_eqb id (c_id c0)) eqn:E.
  - intros [= <-]. apply bytes_eqb_eq in E. split; [now left|now symmetry].
  - intros H. destruct (IH H) as [H1 H2]. split; [now right|assumption].
Qed.

(* find_cand returns the first candidate with that id; with distinct ids, the only one *)
Lemma find_cand_NoDup cs c : NoDup (map c_id cs) -> In c cs -> find_cand (c_id c) cs = Some c.
Proof.
  induction cs as [|c0 cs IH]; cbn; intros Hnd Hin; [contradiction|].
  inversion Hnd as [|? ? Hx Hl]; subst.
  destruct Hin as [->|Hin].
  - assert (E : bytes_eqb (c_id c) (c_id c) = true) by now apply bytes_eqb_eq. now rewrite E.
  - destruct (bytes_eqb (c_id c) (c_id c0)) eqn:E.
    + apply bytes_eqb_eq in E. exfalso. apply Hx. rewrite <- E. now apply in_map.
    + now apply IH.
Qed.

Lemma sorted_q_SSorted l : sorted_q l = true -> StronglySorted Qle l.
Proof.
  induction l as [|x l IH]; intros H; [constructor|].
  destruct l as [|y r]; [constructor; constructor|].
  cbn in H. apply andb_true_iff in H. destruct H as [Hxy Hs].
  apply Qle_bool_iff in Hxy. specialize (IH Hs). constructor; [assumption|].
  destruct (StronglySorted_inv IH) as [_ Hy]. constructor; [assumption|].
  apply Forall_forall. intros z Hz. rewrite Forall_forall in Hy. specialize (Hy z Hz). lra.
Qed.

Lemma SSorted_le_last l : StronglySorted Qle l -> forall x, In x l -> (x <= last l 0)%Q.
Proof.
  induction 1 as [|y l Hs IH Hy]; intros x Hin; [contradiction|].
  destruct l as [|z r].
  - destruct Hin as [<-|[]]. cbn. lra.
  - change (last (y :: z :: r) 0%Q) with (last (z :: r) 0%Q).
    destruct Hin as [<-|Hin].
    + rewrite Forall_forall in Hy. assert (Hz : (y <= z)%Q) by (apply Hy; now left).
      assert (Hl : (z <= last (z :: r) 0)%Q) by (apply IH; now left). lra.
    + now apply IH.
Qed.

Lemma row_dists_In rows r q : In r rows -> row_dist r = Some q -> In q (row_dists rows).
Proof.
  intros Hr Hq. unfold row_dists. apply in_flat_map. exists r. split; [assumption|]. rewrite Hq. now left.
Qed.

Theorem c04_checker_sound_lemma k cs rows : ksel_code k cs rows = 0%N -> rows_ksel k cs rows.
Proof.
  unfold ksel_code. intros H.
  destruct (nodup_ids (map r_id rows)) eqn:E1; cbn [negb] in H; [|discriminate].
  destruct (forallb (fun r => match find_cand (r_id r) cs with Some _ => true | None => false end) rows) eqn:E2;
    cbn [negb] in H; [|discriminate].
  destruct (forallb (fun r => match r_dist r with Some b => negb (f32_is_nan b) | None => false end) rows) eqn:E3;
    cbn [negb] in H; [|discriminate].
  destruct (forallb (fun r => match find_cand (r_id r) cs, row_dist r with
                              | Some c, Some d => dist_ok c d | _, _ => false end) rows) eqn:E4;
    cbn [negb] in H; [|discriminate].
  destruct (N.of_nat (length rows) =? N.min k (N.of_nat (length cs)))%N eqn:E5; cbn [negb] in H; [|discriminate].
  fold (row_dists rows) in H.
  destruct (sorted_q (row_dists rows)) eqn:E6; cbn [negb] in H; [|discriminate].
  match type of H with (if negb ?b then _ else _) = _ => destruct b eqn:E7 end; cbn [negb] in H; [|discriminate].
  clear H. rewrite forallb_forall in E4, E7.
  pose proof (sorted_q_SSorted _ E6) as Hs.
  split; [now apply nodup_ids_NoDup|]. split; [|split; [|split]].
  - intros r Hr. specialize (E4 r Hr).
    destruct (find_cand (r_id r) cs) as [c|] eqn:Ec; [|discriminate].
    destruct (row_dist r) as [q|] eqn:Eq; [|discriminate].
    destruct (find_cand_Some _ _ _ Ec) as [Hin Hid]. exists c, q. tauto.
  - now apply N.eqb_eq.
  - exact Hs.
  - intros c q Hc Hn Hq r dr Hr Hdr. specialize (E7 c Hc).
    apply orb_true_iff in E7. destruct E7 as [E7|E7].
    + apply mem_bytes_In in E7. contradiction.
    + rewrite Hq in E7. apply Qle_bool_iff in E7.
      pose proof (SSorted_le_last _ Hs dr (row_dists_In _ _ _ Hr Hdr)) as Hl. lra.
Qed.

(* ---- link with the relational specification `ksel` when every candidate is judged exactly ---- *)

Lemma Forall2_In_l {A B} (P : A -> B -> Prop) l1 l2 a :
  Forall2 P l1 l2 -> In a l1 -> exists b, In b l2 /\ P a b.
Proof.
  induction 1 as [|x y l1 l2 Hxy HF IH]; intros Hin; [contradiction|].
  destruct Hin as [<-|Hin]; [exists y; split; [now left|assumption]|].
  destruct (IH Hin) as (b & Hb & Hp). exists b. split; [now right|assumption].
Qed.
Lemma Forall2_In_r {A B} (P : A -> B -> Prop) l1 l2 b :
  Forall2 P l1 l2 -> In b l2 -> exists a, In a l1 /\ P a b.
Proof.
  induction 1 as [|x y l1 l2 Hxy HF IH]; intros Hin; [contradiction|].
  destruct Hin as [<-|Hin]; [exists x; split; [now left|assumption]|].
  destruct (IH Hin) as (a & Ha & Hp). exists a. split; [now right|assumption].
Qed.

Lemma Forall2_len {A B} (P : A -> B -> Prop) l1 l2 : Forall2 P l1 l2 -> length l1 = length l2.
Proof. induction 1; cbn; congruence. Qed.

Lemma NoDup_map_inj {A B} (f : A -> B) l a b :
  NoDup (map f l) -> In a l -> In b l -> f a = f b -> a = b.
Proof.
  induction l as [|x l IH]; cbn; intros Hnd Ha Hb E; [contradiction|].
  inversion Hnd as [|? ? Hx Hl]; subst.
  destruct Ha as [->|Ha], Hb as [->|Hb]; try reflexivity.
  - exfalso. apply Hx. rewrite E. now apply in_map.
  - exfalso. apply Hx. rewrite <- E. now apply in_map.
  - now apply IH.
Qed.

Lemma Forall2_Qeq_sorted l1 l2 : Forall2 Qeq l1 l2 -> StronglySorted Qle l2 -> StronglySorted Qle l1.
Proof.
  induction 1 as [|x y l1 l2 Hxy HF IH]; intros Hs; constructor.
  - apply IH. now apply StronglySorted_inv in Hs.
  - destruct (StronglySorted_inv Hs) as [_ Hy].
    apply Forall_forall. intros z Hz. destruct (Forall2_In_l _ _ _ _ HF Hz) as (w & Hw & Hzw).
    rewrite Forall_forall in Hy. specialize (Hy w Hw). rewrite Hxy, Hzw. exact Hy.
Qed.

Lemma sel_of_matches cs rows :
  all_exact cs ->
  (forall r, In r rows -> exists c q, In c cs /\ c_id c = r_id r /\ find_cand (r_id r) cs = Some c /\
                                   row_dist r = Some q /\ dist_ok c q = true) ->
  Forall2 (row_matches cs) (sel_of cs rows) rows.
Proof.
  intros Hex. induction rows as [|r rows IH]; intros H; cbn; [constructor|].
  destruct (H r (or_introl eq_refl)) as (c & q & Hc & Hid & Hf & Hq & Hok).
  rewrite Hf. cbn. constructor.
  - split; [assumption|]. split; [assumption|]. exists q. split; [assumption|].
    unfold dist_ok in Hok. unfold cand_q. destruct (Hex c Hc) as (q' & Hq'). rewrite Hq' in *.
    now apply Qeq_bool_iff in Hok.
  - apply IH. intros r' Hr'. apply H. now right.
Qed.

Lemma matches_dists cs sel rows :
  Forall2 (row_matches cs) sel rows -> Forall2 Qeq (map cand_q sel) (row_dists rows).
Proof.
  induction 1 as [|c r sel rows (_ & _ & q & Hq & E) HF IH]; cbn; [constructor|].
  unfold row_dists in *. cbn. rewrite Hq. cbn. constructor; [now symmetry|assumption].
Qed.

Theorem c04_checker_exact_lemma k cs rows :
  NoDup (map c_id cs) -> all_exact cs -> ksel_code k cs rows = 0%N ->
  ksel c_id cand_q (N.to_nat k) cs (sel_of cs rows) /\ Forall2 (row_matches cs) (sel_of cs rows) rows.
Proof.
  intros Hnd Hex H. destruct (c04_checker_sound_lemma _ _ _ H) as (H1 & H2 & H3 & H4 & H5).
  pose proof (sel_of_matches cs rows Hex H2) as HF. split; [|exact HF].
  assert (Hids : map c_id (sel_of cs rows) = map r_id rows).
  { clear -HF. induction HF as [|c r sel rows' (_ & Hid & _) HF IH]; cbn; [reflexivity|]. now rewrite Hid, IH. }
  split; [now rewrite Hids|]. split; [|split; [|split]].
  - intros c Hc. destruct (Forall2_In_l _ _ _ _ HF Hc) as (r & _ & Hm & _). exact Hm.
  - rewrite (Forall2_len _ _ _ HF). lia.
  - unfold nondecreasing. apply (Forall2_Qeq_sorted _ _ (matches_dists _ _ _ HF)). exact H4.
  - intros c Hc Hn c' Hc'.
    destruct (Forall2_In_l _ _ _ _ HF Hc') as (r & Hr & _ & _ & dr & Hdr & Edr).
    destruct (Hex c Hc) as (q & Hq).
    assert (Hnid : ~ In (c_id c) (map r_id rows)).
    { intros Hin. apply in_map_iff in Hin. destruct Hin as (r2 & E2 & Hr2).
      destruct (Forall2_In_r _ _ _ _ HF Hr2) as (c2 & Hc2 & Hc2in & Hid2 & _).
      assert (c2 = c) by (apply (NoDup_map_inj c_id cs); congruence). subst c2. contradiction. }
    specialize (H5 c q Hc Hnid Hq r dr Hr Hdr). unfold cand_q at 2. rewrite Hq. rewrite <- Edr. exact H5.
Qed.

(* ======================================================================== *)
(* 3. the enumeration of a vector store                                      *)
(* ======================================================================== *)
Open Scope N_scope.

Lemma existsb_Neqb_In x l : existsb (N.eqb x) l = true <-> In x l.
Proof.
  rewrite existsb_exists. split.
  - intros (y & Hy & E). apply N.eqb_eq in E. now subst.
  - intros H. exists x. split; [assumption|apply N.eqb_refl].
Qed.

Lemma id_from_key_node_key accepted id s :
  id < two64 ->
  id_from_key accepted (node_key id s) = if existsb (N.eqb s) accepted then Some id else None.
Proof.
  intros Hid. induction accepted as [|a r IH]; cbn [id_from_key existsb]; [reflexivity|].
  destruct (N.eqb_spec s a) as [->|Hne]; cbn [orb].
  - now rewrite node_key_roundtrip.
  - rewrite node_key_other_suffix by assumption. exact IH.
Qed.

Lemma id_from_key_foreign accepted k :
  (forall s, node_id_from_key k s = None) -> id_from_key accepted k = None.
Proof. intros H. induction accepted as [|a r IH]; cbn [id_from_key]; [reflexivity|]. now rewrite H. Qed.

Lemma scan_ids_spec accepted keys : forall have id,
  In id (scan_ids accepted have keys) <-> ~ In id have /\ yields accepted keys id.
Proof.
  unfold yields. induction keys as [|k r IH]; intros have id; cbn.
  - split; [contradiction|]. intros (_ & k & [] & _).
  - destruct (id_from_key accepted k) as [i|] eqn:Ek.
    + destruct (existsb (N.eqb i) have) eqn:Eh.
      * apply existsb_Neqb_In in Eh. rewrite IH. split.
        -- intros (Hn & k' & Hk' & E). split; [assumption|]. exists k'. split; [now right|assumption].
        -- intros (Hn & k' & [<-|Hk'] & E).
           ++ rewrite Ek in E. injection E as <-. contradiction.
           ++ split; [assumption|]. exists k'. now split.
      * assert (Hni : ~ In i have).
        { intros Hin. apply existsb_Neqb_In in Hin. congruence. }
        cbn. rewrite IH. split.
        -- intros [<-|(Hn & k' & Hk' & E)].
           ++ split; [assumption|]. exists k. split; [now left|assumption].
           ++ split; [intros Hin; apply Hn; now right|]. exists k'. split; [now right|assumption].
        -- intros (Hn & k' & Hk' & E). destruct (N.eq_dec i id) as [->|Hne]; [now left|]. right.
           split; [intros [?|?]; contradiction|].
           destruct Hk' as [<-|Hk']; [rewrite Ek in E; congruence|]. exists k'. now split.
    + rewrite IH. split.
      * intros (Hn & k' & Hk' & E). split; [assumption|]. exists k'. split; [now right|assumption].
      * intros (Hn & k' & [<-|Hk'] & E); [congruence|]. split; [assumption|]. exists k'. now split.
Qed.

Lemma scan_ids_NoDup accepted keys : forall have, NoDup (scan_ids accepted have keys).
Proof.
  induction keys as [|k r IH]; intros have; cbn; [constructor|].
  destruct (id_from_key accepted k) as [i|]; [|apply IH].
  destruct (existsb (N.eqb i) have); [apply IH|].
  constructor; [|apply IH]. intros Hin. apply scan_ids_spec in Hin. destruct Hin as [Hn _]. apply Hn. now left.
Qed.

(* the generic statement: if the bucket yields only stored ids and every stored
   id has a key under an accepted suffix, a cold ForEach visits exactly the stored ids *)
Lemma enum_ids_complete accepted keys stored :
  (forall id, yields accepted keys id -> In id stored) ->
  (forall id, In id stored -> yields accepted keys id) ->
  NoDup (enum_ids accepted keys) /\ forall id, In id (enum_ids accepted keys) <-> In id stored.
Proof.
  intros Hs Hc. split; [apply scan_ids_NoDup|]. intros id. unfold enum_ids. rewrite scan_ids_spec. split.
  - intros [_ H]. now apply Hs.
  - intros H. split; [intros []|now apply Hc].
Qed.

(* with a cache: non-deleted cached ids, and what the bucket yields outside the cache *)
Lemma enum_ids_cache_spec {V} accepted keys (c : cache V) id :
  In id (enum_ids_cache accepted keys c) <->
  (exists e, In (id, e) c /\ ce_deleted e = false) \/ (~ In id (cache_ids c) /\ yields accepted keys id).
Proof.
  unfold enum_ids_cache. rewrite in_app_iff, scan_ids_spec.
  assert (H : In id (map fst (live_items c)) <-> exists e, In (id, e) c /\ ce_deleted e = false).
  { unfold live_items. rewrite in_map_iff. split.
    - intros ((i, v) & E & Hin). cbn in E. subst i. apply in_flat_map in Hin. destruct Hin as ((i, e) & Hin & Hx).
      cbn in Hx. destruct (ce_deleted e) eqn:Ed; [contradiction|]. destruct Hx as [Hx|[]]. injection Hx as E1 E2. subst. now exists e.
    - intros (e & Hin & Ed). exists (id, ce_val e). split; [reflexivity|]. apply in_flat_map.
      exists (id, e). split; [assumption|]. cbn. rewrite Ed. now left. }
  now rewrite H.
Qed.

(* ---- the three stores ---- *)

Lemma threshold_key_foreign : foreign bq_threshold_key.
Proof. intros s. reflexivity. Qed.

Lemma yields_app accepted k1 k2 id :
  yields accepted (k1 ++ k2) id <-> yields accepted k1 id \/ yields accepted k2 id.
Proof.
  unfold yields. split.
  - intros (k & Hk & E). apply in_app_or in Hk. destruct Hk; [left|right]; exists k; now split.
  - intros [(k & Hk & E)|(k & Hk & E)]; exists k; (split; [apply in_or_app; tauto|assumption]).
Qed.

Lemma yields_foreign accepted ks id : (forall k, In k ks -> foreign k) -> ~ yields accepted ks id.
Proof. intros H (k & Hk & E). rewrite (id_from_key_foreign accepted k (H k Hk)) in E. discriminate. Qed.

(* keys of one stored point: under which suffixes it is present *)
Lemma yields_flat_map {X} accepted (f : X -> list bytes) (pid : X -> N) (sufs : X -> list N) items id :
  (forall x, In x items -> pid x < two64) ->
  (forall x, f x = map (node_key (pid x)) (sufs x)) ->
  (yields accepted (flat_map f items) id <->
   exists x, In x items /\ pid x = id /\ exists s, In s (sufs x) /\ In s accepted).
Proof.
  intros Hok Hf. unfold yields. split.
  - intros (k & Hk & E). apply in_flat_map in Hk. destruct Hk as (x & Hx & Hk).
    rewrite Hf in Hk. apply in_map_iff in Hk. destruct Hk as (s & <- & Hs).
    rewrite id_from_key_node_key in E by now apply Hok.
    destruct (existsb (N.eqb s) accepted) eqn:Ea; [|discriminate]. injection E as E.
    exists x. split; [assumption|]. split; [assumption|]. exists s. split; [assumption|]. now apply existsb_Neqb_In.
  - intros (x & Hx & <- & s & Hs & Ha). exists (node_key (pid x) s). split.
    + apply in_flat_map. exists x. split; [assumption|]. rewrite Hf. now apply in_map.
    + rewrite id_from_key_node_key by now apply Hok. apply existsb_Neqb_In in Ha. now rewrite Ha.
Qed.

Definition bq_sufs (s : bq_keys) : list N :=
  match s with BQ_v => [suf_v] | BQ_q => [suf_q] | BQ_qv => [suf_q; suf_v] end.

Lemma yields_perm accepted k1 k2 id : Permutation k1 k2 -> yields accepted k1 id -> yields accepted k2 id.
Proof. intros Hp (k & Hk & E). exists k. split; [now apply (Permutation_in _ Hp)|assumption]. Qed.

Lemma store_complete {X} accepted (f : X -> list bytes) (pid : X -> N) (sufs : X -> list N) items keys :
  (forall x, In x items -> pid x < two64) ->
  (forall x, f x = map (node_key (pid x)) (sufs x)) ->
  (* the invariant: every stored point has a key under an accepted suffix *)
  (forall x, In x items -> exists s, In s (sufs x) /\ In s accepted) ->
  bucket_of keys (flat_map f items) ->
  NoDup (enum_ids accepted keys) /\ forall id, In id (enum_ids accepted keys) <-> In id (map pid items).
Proof.
  intros Hok Hf Hinv (other & Hp & Hother). apply enum_ids_complete.
  - intros id Hy. apply (yields_perm _ _ _ _ Hp) in Hy. apply yields_app in Hy. destruct Hy as [Hy|Hy].
    + apply (yields_flat_map accepted f pid sufs items id Hok Hf) in Hy. destruct Hy as (x & Hx & <- & _).
      now apply in_map.
    + exfalso. now apply (yields_foreign accepted other id Hother).
  - intros id Hin. apply in_map_iff in Hin. destruct Hin as (x & <- & Hx).
    apply (yields_perm _ _ _ _ (Permutation_sym Hp)). apply yields_app. left.
    apply (yields_flat_map accepted f pid sufs items _ Hok Hf). exists x. split; [assumption|]. split; [reflexivity|].
    now apply Hinv.
Qed.

Lemma plain_accepts_v : existsb (N.eqb suf_v) plain_suffixes = true.
Proof. vm_compute. reflexivity. Qed.

Lemma plain_keys_flat ids : plain_keys ids = flat_map (fun id => [node_key id suf_v]) ids.
Proof. unfold plain_keys. induction ids as [|x l IH]; cbn; [reflexivity|]. now rewrite IH. Qed.

Theorem c04_enum_plain_lemma ids keys :
  ids_ok ids -> bucket_of keys (plain_keys ids) ->
  NoDup (enum_ids plain_suffixes keys) /\ forall id, In id (enum_ids plain_suffixes keys) <-> In id ids.
Proof.
  intros Hok Hb.
  rewrite plain_keys_flat in Hb.
  destruct (store_complete plain_suffixes (fun id => [node_key id suf_v]) (fun id => id) (fun _ => [suf_v]) ids keys) as [H1 H2].
  - exact Hok.
  - reflexivity.
  - intros x _. exists suf_v. split; [now left|]. apply existsb_Neqb_In. exact plain_accepts_v.
  - exact Hb.
  - split; [assumption|]. intros id. rewrite H2. now rewrite map_id.
Qed.

Theorem c04_enum_product_lemma (items : list (N * bool)) keys :
  ids_ok (map fst items) -> bucket_of keys (product_keys items) ->
  NoDup (enum_ids [suf_v] keys) /\ forall id, In id (enum_ids [suf_v] keys) <-> In id (map fst items).
Proof.
  intros Hok Hb.
  apply (store_complete [suf_v]
           (fun it : N * bool => if snd it then [node_key (fst it) suf_q; node_key (fst it) suf_v] else [node_key (fst it) suf_v])
           fst (fun it : N * bool => if snd it then [suf_q; suf_v] else [suf_v]) items keys).
  - intros x Hx. apply Hok. now apply in_map.
  - intros [i b]. cbn. now destruct b.
  - intros [i b] _. exists suf_v. cbn. destruct b; cbn; tauto.
  - exact Hb.
Qed.

(* the binary store, for any IdFromKey that accepts both suffixes *)
Lemma enum_binary_generic accepted (items : list (N * bq_keys)) keys :
  existsb (N.eqb suf_q) accepted = true -> existsb (N.eqb suf_v) accepted = true ->
  ids_ok (map fst items) -> bucket_of keys (binary_keys items) ->
  NoDup (enum_ids accepted keys) /\ forall id, In id (enum_ids accepted keys) <-> In id (map fst items).
Proof.
  intros Hq Hv Hok Hb. apply existsb_Neqb_In in Hq, Hv.
  apply (store_complete accepted
           (fun it : N * bq_keys => match snd it with
                      | BQ_v => [node_key (fst it) suf_v]
                      | BQ_q => [node_key (fst it) suf_q]
                      | BQ_qv => [node_key (fst it) suf_q; node_key (fst it) suf_v]
                      end)
           fst (fun it : N * bq_keys => bq_sufs (snd it)) items keys).
  - intros x Hx. apply Hok. now apply in_map.
  - intros [i b]. cbn. now destruct b.
  - intros [i b] _. cbn. destruct b; cbn; eauto.
  - exact Hb.
Qed.

(* ======================================================================== *)
(* 4. warm cache and cold cache                                              *)
(* ======================================================================== *)

Lemma read_all_spec {V} (read : N -> option V) ids :
  (forall id, In id ids -> read id <> None) ->
  exists l, read_all read ids = Some l /\ map fst l = ids /\
            forall id v, In (id, v) l <-> In id ids /\ read id = Some v.
Proof.
  induction ids as [|i r IH]; intros H; cbn.
  - exists []. split; [reflexivity|]. split; [reflexivity|]. intros id v. cbn. tauto.
  - destruct IH as (l & E & Hm & Hl). { intros id Hid. apply H. now right. }
    destruct (read i) as [vi|] eqn:Ei; [|exfalso; now apply (H i (or_introl eq_refl))].
    rewrite E. exists ((i, vi) :: l). split; [reflexivity|]. split; [cbn; now rewrite Hm|].
    intros id v. cbn. rewrite Hl. split.
    + intros [[= <- <-]|[H1 H2]]; [split; [now left|assumption]|split; [now right|assumption]].
    + intros [[<-|H1] H2]; [left; congruence|right; now split].
Qed.

Lemma NoDup_fst_NoDup {X Y} (l : list (X * Y)) : NoDup (map fst l) -> NoDup l.
Proof.
  induction l as [|x l IH]; cbn; intros H; [constructor|]. inversion H as [|? ? Hx Hl]; subst.
  constructor; [|now apply IH]. intros Hin. apply Hx. now apply in_map.
Qed.

Lemma live_items_all {V} (c : cache V) :
  (forall id e, In (id, e) c -> ce_deleted e = false) ->
  live_items c = map (fun e => (fst e, ce_val (snd e))) c.
Proof.
  induction c as [|[i e] c IH]; intros H; cbn; [reflexivity|].
  rewrite (H i e (or_introl eq_refl)). cbn. f_equal. apply IH. intros id e' Hin. apply (H id e'). now right.
Qed.

Theorem c04_warm_cold_sets_lemma {V} accepted (read : N -> option V) keys (c : cache V) :
  in_sync accepted read keys c ->
  exists warm cold,
    enum_items accepted read keys c = Some warm /\
    enum_items accepted read keys [] = Some cold /\
    NoDup (map fst warm) /\ Permutation warm cold.
Proof.
  intros [Hnd Hlive Hval Hall Hkeys]. unfold enum_items.
  (* warm: the scan finds nothing new *)
  assert (Ew : scan_ids accepted (cache_ids c) keys = []).
  { destruct (scan_ids accepted (cache_ids c) keys) as [|i l] eqn:E; [reflexivity|]. exfalso.
    assert (Hin : In i (scan_ids accepted (cache_ids c) keys)) by (rewrite E; now left).
    apply scan_ids_spec in Hin. destruct Hin as [Hn Hy]. apply Hn. now apply Hall. }
  rewrite Ew. cbn [read_all]. rewrite app_nil_r.
  (* cold: the scan finds every id, and every read succeeds *)
  cbn [cache_ids map].
  assert (Hscan : forall id, In id (scan_ids accepted [] keys) <-> In id (cache_ids c)).
  { intros id. rewrite scan_ids_spec. split; [intros [_ Hy]; now apply Hall|]. intros Hin. split; [intros []|now apply Hkeys]. }
  assert (Hget : forall id, In id (cache_ids c) -> exists e, In (id, e) c).
  { intros id Hin. apply in_map_iff in Hin. destruct Hin as ([i e] & <- & Hin). now exists e. }
  destruct (read_all_spec read (scan_ids accepted [] keys)) as (cold & Ec & Hm & Hcold).
  { intros id Hin. apply Hscan in Hin. destruct (Hget id Hin) as (e & He). rewrite (Hval id e He). discriminate. }
  rewrite Ec. exists (live_items c), cold. cbn [app].
  rewrite (live_items_all c Hlive).
  assert (Hfst : map fst (map (fun e : N * centry V => (fst e, ce_val (snd e))) c) = cache_ids c).
  { unfold cache_ids. rewrite map_map. reflexivity. }
  split; [reflexivity|]. split; [reflexivity|]. split; [now rewrite Hfst|].
  apply NoDup_Permutation.
  - apply NoDup_fst_NoDup. now rewrite Hfst.
  - apply NoDup_fst_NoDup. rewrite Hm. apply scan_ids_NoDup.
  - intros [id v]. rewrite Hcold, Hscan, in_map_iff. split.
    + intros ([i e] & [= <- <-] & Hin). cbn. split; [apply in_map_iff; now exists (i, e)|]. now apply Hval.
    + intros [Hin Hr]. destruct (Hget id Hin) as (e & He). exists (id, e). split; [|assumption].
      cbn. f_equal. rewrite (Hval id e He) in Hr. congruence.
Qed.

(* ---- two exact selections of the same candidates report the same distances ---- *)

Lemma SSorted_map_split {A} (d : A -> Q) l y t :
  StronglySorted Qle (map d (l ++ y :: t)) ->
  (forall e, In e l -> (d e <= d y)%Q) /\ (forall e, In e t -> (d y <= d e)%Q).
Proof.
  induction l as [|x l IH]; cbn; intros Hs.
  - destruct (StronglySorted_inv Hs) as [_ Hy]. split; [intros ? []|].
    intros e He. rewrite Forall_forall in Hy. apply Hy. now apply in_map.
  - destruct (StronglySorted_inv Hs) as [Hs' Hx]. destruct (IH Hs') as [H1 H2]. split; [|assumption].
    intros e [<-|He]; [|now apply H1]. rewrite Forall_forall in Hx. apply Hx.
    rewrite map_app. apply in_or_app. right. now left.
Qed.

Lemma ksel_split_pos_le {A} (d : A -> Q) k cands r1 r2 l1 x t1 l2 y t2 :
  NoDup cands -> ksel_split d k cands r1 -> ksel_split d k cands r2 ->
  r1 = l1 ++ x :: t1 -> r2 = l2 ++ y :: t2 -> length l1 = length l2 -> (d x <= d y)%Q.
Proof.
  intros Hnd (dr1 & Hp1 & _ & Hs1 & Hd1) (dr2 & Hp2 & _ & Hs2 & _) -> -> Hlen.
  destruct (Qlt_le_dec (d y) (d x)) as [Hlt|Hle]; [exfalso|assumption].
  destruct (SSorted_map_split d _ _ _ Hs1) as [_ Ht1].
  destruct (SSorted_map_split d _ _ _ Hs2) as [Hl2 _].
  assert (Hincl : incl (l2 ++ [y]) l1).
  { intros e He.
    assert (Hey : (d e <= d y)%Q).
    { apply in_app_or in He. destruct He as [He|[<-|[]]]; [now apply Hl2|lra]. }
    assert (Hec : In e cands).
    { apply (Permutation_in _ (Permutation_sym Hp2)). apply in_or_app. left.
      apply in_app_or in He. apply in_or_app. destruct He as [He|[<-|[]]]; [now left|right; now left]. }
    apply (Permutation_in _ Hp1) in Hec. apply in_app_or in Hec. destruct Hec as [Hec|Hec].
    - apply in_app_or in Hec. destruct Hec as [Hec|[<-|Hec]]; [assumption|lra|].
      specialize (Ht1 e Hec). lra.
    - assert (Hxe : (d x <= d e)%Q) by (apply Hd1; [apply in_or_app; right; now left|assumption]). lra. }
  assert (Hnd2 : NoDup (l2 ++ [y])).
  { assert (H : NoDup ((l2 ++ y :: t2) ++ dr2)) by (eapply Permutation_NoDup; eassumption).
    apply NoDup_app_l in H. replace (l2 ++ y :: t2) with ((l2 ++ [y]) ++ t2) in H by (rewrite <- app_assoc; reflexivity).
    now apply NoDup_app_l in H. }
  pose proof (NoDup_incl_length Hnd2 Hincl) as Hc. rewrite app_length in Hc. cbn in Hc. lia.
Qed.

Lemma Forall2_by_pos {A} (P : A -> A -> Prop) : forall r1 r2,
  length r1 = length r2 ->
  (forall l1 x t1 l2 y t2, r1 = l1 ++ x :: t1 -> r2 = l2 ++ y :: t2 -> length l1 = length l2 -> P x y) ->
  Forall2 P r1 r2.
Proof.
  induction r1 as [|x r1 IH]; intros [|y r2] Hlen H; cbn in Hlen; try discriminate; constructor.
  - apply (H [] x r1 [] y r2); reflexivity.
  - apply IH; [congruence|]. intros l1 x' t1 l2 y' t2 -> -> Hl.
    apply (H (x :: l1) x' t1 (y :: l2) y' t2); cbn; congruence.
Qed.

Theorem ksel_split_same_dists {A} (d : A -> Q) k cands r1 r2 :
  NoDup cands -> ksel_split d k cands r1 -> ksel_split d k cands r2 ->
  Forall2 Qeq (map d r1) (map d r2).
Proof.
  intros Hnd H1 H2.
  assert (Hlen : length r1 = length r2).
  { destruct H1 as (_ & _ & -> & _), H2 as (_ & _ & -> & _). reflexivity. }
  assert (HF : Forall2 (fun a b => (d a == d b)%Q) r1 r2).
  { apply Forall2_by_pos; [assumption|]. intros l1 x t1 l2 y t2 E1 E2 Hl.
    apply Qle_antisym.
    - apply (ksel_split_pos_le d k cands r1 r2 l1 x t1 l2 y t2); assumption.
    - apply (ksel_split_pos_le d k cands r2 r1 l2 y t2 l1 x t1); auto. }
  clear -HF. induction HF; cbn; constructor; assumption.
Qed.

(* warm and cold searches: exact selections of the same candidates, same distances *)
Theorem c04_warm_cold_lemma {V} accepted (read : N -> option V) keys (c : cache V)
        (d : N * V -> Q) (keep : N * V -> bool) (limit : nat) :
  in_sync accepted read keys c -> (0 < limit)%nat ->
  exists warm cold,
    enum_items accepted read keys c = Some warm /\
    enum_items accepted read keys [] = Some cold /\
    Permutation warm cold /\
    forall ow oc, Permutation ow warm -> Permutation oc cold ->     (* any two Go map iteration orders *)
    exists rw rc,
      flat_search d keep limit ow = Some rw /\ flat_search d keep limit oc = Some rc /\
      ksel fst d limit (filter keep warm) rw /\ ksel fst d limit (filter keep warm) rc /\
      Forall2 Qeq (map d rw) (map d rc).
Proof.
  intros Hsync Hl. destruct (c04_warm_cold_sets_lemma accepted read keys c Hsync) as (warm & cold & Ew & Ec & Hnd & Hp).
  exists warm, cold. repeat (split; [assumption|]).
  intros ow oc How Hoc.
  assert (Hpf : forall o, Permutation o warm -> Permutation (filter keep o) (filter keep warm)).
  { intros o Ho. clear -Ho. induction Ho; cbn.
    - constructor.
    - destruct (keep x); [now constructor|assumption].
    - destruct (keep x), (keep y); try reflexivity. apply perm_swap.
    - etransitivity; eassumption. }
  assert (Hndf : NoDup (map fst (filter keep warm))).
  { clear -Hnd. induction warm as [|x l IH]; cbn in *; [constructor|].
    inversion Hnd as [|? ? Hx Hl]; subst. destruct (keep x); cbn.
    - constructor; [|now apply IH]. intros Hin. apply Hx. apply in_map_iff in Hin.
      destruct Hin as (y & E & Hy). apply filter_In in Hy. apply in_map_iff. exists y. tauto.
    - now apply IH. }
  destruct (c04_exact_lemma fst d limit _ _ (Hpf ow How) Hndf Hl) as (rw & Erw & _ & Hkw & Hsw).
  destruct (c04_exact_lemma fst d limit _ _ (Hpf oc (Permutation_trans Hoc (Permutation_sym Hp))) Hndf Hl) as (rc & Erc & _ & Hkc & Hsc).
  exists rw, rc. unfold flat_search. repeat (split; [assumption|]).
  apply (ksel_split_same_dists d limit (filter keep warm)); try assumption.
  now apply NoDup_fst_NoDup.
Qed.

(* ---- binary store: the current IdFromKey, and the pinned one ---- *)

(* computed on the generated constant: fails if IdFromKey stops accepting 'q' (defect F3) or 'v' *)
Lemma bq_accepts_q : existsb (N.eqb suf_q) bq_idfromkey_suffixes = true.
Proof. vm_compute. reflexivity. Qed.
Lemma bq_accepts_v : existsb (N.eqb suf_v) bq_idfromkey_suffixes = true.
Proof. vm_compute. reflexivity. Qed.

Theorem c04_enum_binary_lemma (items : list (N * bq_keys)) keys :
  ids_ok (map fst items) -> bucket_of keys (binary_keys items) ->
  NoDup (enum_ids bq_idfromkey_suffixes keys) /\
  forall id, In id (enum_ids bq_idfromkey_suffixes keys) <-> In id (map fst items).
Proof. apply enum_binary_generic; [exact bq_accepts_q|exact bq_accepts_v]. Qed.

(* IdFromKey of the pinned tree: points stored under 'q' only are not enumerated at all *)
Theorem c04_binary_cold_v0_lemma (items : list (N * bq_keys)) keys :
  (forall it, In it items -> snd it = BQ_q) ->
  ids_ok (map fst items) -> bucket_of keys (binary_keys items) ->
  enum_ids bq_idfromkey_suffixes_v0 keys = [].
Proof.
  intros Hq Hok (other & Hp & Hother).
  destruct (enum_ids bq_idfromkey_suffixes_v0 keys) as [|i l] eqn:E; [reflexivity|]. exfalso.
  assert (Hin : In i (enum_ids bq_idfromkey_suffixes_v0 keys)) by (rewrite E; now left).
  unfold enum_ids in Hin. apply scan_ids_spec in Hin. destruct Hin as [_ Hy].
  apply (yields_perm _ _ _ _ Hp) in Hy. apply yields_app in Hy. destruct Hy as [Hy|Hy].
  - apply (yields_flat_map bq_idfromkey_suffixes_v0
             (fun it : N * bq_keys => match snd it with
                      | BQ_v => [node_key (fst it) suf_v]
                      | BQ_q => [node_key (fst it) suf_q]
                      | BQ_qv => [node_key (fst it) suf_q; node_key (fst it) suf_v]
                      end)
             fst (fun it : N * bq_keys => bq_sufs (snd it)) items i) in Hy.
    + destruct Hy as (x & Hx & _ & s & Hs & Ha). rewrite (Hq x Hx) in Hs. cbn in Hs, Ha.
      destruct Hs as [<-|[]]. destruct Ha as [Ha|[]]. discriminate.
    + intros x Hx. apply Hok. now apply in_map.
    + intros [j b]. cbn. now destruct b.
  - now apply (yields_foreign bq_idfromkey_suffixes_v0 other i Hother).
Qed.

(* ======================================================================== *)
(* 5. every reachable state of a store enumerates exactly what is stored     *)
(* ======================================================================== *)

Definition kentry_eqb (a b : kentry) : bool :=
  Bool.eqb (ke_deleted a) (ke_deleted b) && Bool.eqb (ke_dirty a) (ke_dirty b) &&
  Bool.eqb (ke_vec a) (ke_vec b) && Bool.eqb (ke_code a) (ke_code b).
Definition feqb (a b : fstate) : bool :=
  match f_entry a, f_entry b with
  | Some x, Some y => kentry_eqb x y
  | None, None => true
  | _, _ => false
  end && Bool.eqb (f_q a) (f_q b) && Bool.eqb (f_v a) (f_v b) &&
  Bool.eqb (f_trained a) (f_trained b) && Bool.eqb (f_live a) (f_live b).

Lemma kentry_eqb_eq a b : kentry_eqb a b = true -> a = b.
Proof.
  unfold kentry_eqb. rewrite !andb_true_iff. intros [[[H1 H2] H3] H4].
  apply Bool.eqb_prop in H1, H2, H3, H4. destruct a, b. cbn in *. congruence.
Qed.
Lemma feqb_eq a b : feqb a b = true -> a = b.
Proof.
  unfold feqb. rewrite !andb_true_iff. intros [[[[H0 H1] H2] H3] H4].
  apply Bool.eqb_prop in H1, H2, H3, H4. destruct a as [ea ? ? ? ?], b as [eb ? ? ? ?]. cbn in *.
  destruct ea as [x|], eb as [y|]; try discriminate.
  - apply kentry_eqb_eq in H0. congruence.
  - congruence.
Qed.
Lemma feqb_refl a : feqb a a = true.
Proof.
  unfold feqb, kentry_eqb. rewrite !Bool.eqb_reflx. destruct (f_entry a) as [x|]; [|reflexivity].
  now rewrite !Bool.eqb_reflx.
Qed.
Definition fmem (s : fstate) (l : list fstate) : bool := existsb (feqb s) l.
Fixpoint fdedup (l : list fstate) : list fstate :=
  match l with [] => [] | x :: r => if fmem x r then fdedup r else x :: fdedup r end.

(* the per-id states reachable from an empty store, by breadth-first closure under all operations *)
Fixpoint bfs (fuel : nat) (c : kcfg) (seen frontier : list fstate) : list fstate :=
  match fuel with
  | O => seen
  | S n =>
      let next := flat_map (fun s => map (fstep c s) all_pops) frontier in
      let new := fdedup (filter (fun s => negb (fmem s seen)) next) in
      match new with [] => seen | _ => bfs n c (seen ++ new) new end
  end.
Definition reach (c : kcfg) : list fstate :=
  bfs 64 c [fstate0 true; fstate0 false] [fstate0 true; fstate0 false].

(* checked by computation, per configuration *)
Definition cfg_ok_on (c : kcfg) (R : list fstate) : bool :=
  fmem (fstate0 true) R && fmem (fstate0 false) R &&
  forallb (fun s => forallb (fun o => fmem (fstep c s o) R) all_pops) R &&
  forallb (fun s => Bool.eqb (fenum c s) (f_live s)) R.

Lemma fmem_In s l : fmem s l = true <-> In s l.
Proof.
  unfold fmem. rewrite existsb_exists. split.
  - intros (y & Hy & E). apply feqb_eq in E. now subst.
  - intros H. exists s. split; [assumption|apply feqb_refl].
Qed.

Lemma all_pops_all o : In o all_pops.
Proof. destruct o; cbn; tauto. Qed.

Lemma reach_closed c R pops : cfg_ok_on c R = true -> forall s, In s R -> In (fold_left (fstep c) pops s) R.
Proof.
  intros Hok. unfold cfg_ok_on in Hok. rewrite !andb_true_iff in Hok. destruct Hok as [[[_ _] Hcl] _].
  rewrite forallb_forall in Hcl.
  induction pops as [|o r IH]; intros s Hs; cbn [fold_left]; [assumption|]. apply IH.
  specialize (Hcl s Hs). rewrite forallb_forall in Hcl. apply fmem_In. apply Hcl. apply all_pops_all.
Qed.

Lemma krun_proj c ops : forall s id,
  krun c s ops id = fold_left (fstep c) (map (fun o => proj o id) ops) (s id).
Proof.
  induction ops as [|o r IH]; intros s id; [reflexivity|].
  unfold krun in *. cbn [fold_left map]. rewrite IH. reflexivity.
Qed.

Lemma enum_reachable_on c R :
  cfg_ok_on c R = true ->
  forall trained0 ops id, enumerated c (krun c (kstate0 trained0) ops) id = stored (krun c (kstate0 trained0) ops) id.
Proof.
  intros Hok trained0 ops id. unfold enumerated, stored. rewrite krun_proj.
  assert (Hin : In (fold_left (fstep c) (map (fun o => proj o id) ops) (kstate0 trained0 id)) R).
  { apply (reach_closed c R); [assumption|]. unfold kstate0. unfold cfg_ok_on in Hok. rewrite !andb_true_iff in Hok.
    destruct Hok as [[[H1 H2] _] _]. apply fmem_In. destruct trained0; assumption. }
  unfold cfg_ok_on in Hok. rewrite !andb_true_iff in Hok. destruct Hok as [_ Hg].
  rewrite forallb_forall in Hg. specialize (Hg _ Hin). now apply Bool.eqb_prop in Hg.
Qed.

Lemma cfg_plain_ok : cfg_ok_on cfg_plain (reach cfg_plain) = true. Proof. vm_compute. reflexivity. Qed.
Lemma cfg_product_ok : cfg_ok_on cfg_product (reach cfg_product) = true. Proof. vm_compute. reflexivity. Qed.
(* depends on the generated bq_idfromkey_suffixes: false for the pinned IdFromKey *)
Lemma cfg_binary_ok : cfg_ok_on cfg_binary (reach cfg_binary) = true. Proof. vm_compute. reflexivity. Qed.
Lemma cfg_binary_v0_not_ok : cfg_ok_on cfg_binary_v0 (reach cfg_binary_v0) = false. Proof. vm_compute. reflexivity. Qed.

Theorem c04_enum_reachable_lemma :
  forall c, c = cfg_plain \/ c = cfg_product \/ c = cfg_binary ->
  forall trained0 ops id, enumerated c (krun c (kstate0 trained0) ops) id = stored (krun c (kstate0 trained0) ops) id.
Proof.
  intros c [ -> | [ -> | -> ] ].
  - exact (enum_reachable_on cfg_plain (reach cfg_plain) cfg_plain_ok).
  - exact (enum_reachable_on cfg_product (reach cfg_product) cfg_product_ok).
  - exact (enum_reachable_on cfg_binary (reach cfg_binary) cfg_binary_ok).
Qed.

(* pinned IdFromKey, binary quantiser with a fixed threshold: write, flush, lose the cache *)
Theorem c04_binary_reach_refuted_lemma :
  let s := krun cfg_binary_v0 (kstate0 true) [KSet 7; KFlush; KDropCache] in
  stored s 7 = true /\ enumerated cfg_binary_v0 s 7 = false /\
  (* ... while the cache was still there the point was found *)
  enumerated cfg_binary_v0 (krun cfg_binary_v0 (kstate0 true) [KSet 7; KFlush]) 7 = true.
Proof. vm_compute. repeat split. Qed.
