(* Run_C09.v -- verdict for C09: searches running concurrently with a stream of
   write batches. The writer's batches, applied in their commit order to the
   reference spec, give the committed versions S_0 .. S_n; every search carries
   the window [v0, v1] of versions that were current at some moment between its
   start and its end. Judged: no search fails, every returned point is live in
   some version of its window with the document of that version, the final
   state (warm and after reopening, cold) is S_n, the process did not die. *)
From Coq Require Import List NArith ZArith Bool.
From Semadb Require Import Bytes Pack Value Obs KeyLayout Model_C01 Model_C02.
Import ListNotations.
Open Scope N_scope.

Record csearch := mkCSearch { cs_req : request; cs_v0 : N; cs_v1 : N; cs_out : qout }.

Inductive c09case :=
| C09Run (sc : schema) (maxsize : N) (batches : list (batch * bout)) (searches : list csearch)
         (final_warm final_cold : list (uuid * doc)) (races : N)
| C09Forced (sc : schema) (maxsize : N) (batches : list (batch * bout)) (searches : list csearch)
            (final_warm final_cold : list (uuid * doc))
| C09Crash (what : N).

(* committed versions: S_0 = empty, S_{k+1} = S_k after batch k if it reported success *)
Fixpoint versions (sc : schema) (maxsize : N) (bs : list (batch * bout)) (s : store) : list store :=
  match bs with
  | [] => [s]
  | (b, o) :: r =>
      let s' := match o with
                | OOk _ => fst (apply_spec sc maxsize b s)
                | _ => s
                end in
      s :: versions sc maxsize r s'
  end.

(* outputs of the batches against the spec (commit order = call order: one writer) *)
Fixpoint outputs_ok (sc : schema) (maxsize : N) (bs : list (batch * bout)) (s : store) : bool :=
  match bs with
  | [] => true
  | (b, o) :: r =>
      let '(s', m) := apply_spec sc maxsize b s in
      out_ok o m && outputs_ok sc maxsize r (match o with OOk _ => s' | _ => s end)
  end.

Fixpoint window {A} (v0 v1 : nat) (l : list A) : list A := firstn (S v1 - v0) (skipn v0 l).

Definition row_ok (vs : list store) (r : row) : bool :=
  existsb (fun s => match st_get (r_id r) s, r_doc r with
                    | Some d, Some d' => doc_eqb d d'
                    | Some _, None => true
                    | None, _ => false
                    end) vs.

Definition judge_search (all : list store) (c : csearch) : N :=
  match cs_out c with
  | QError k => if k =? 5 then 194 else 190 + k   (* 191 point does not exist, 192 transaction ended, 193 other,
                                                     194 a node the index search needs is read as absent *)
  | QRows rows =>
      let vs := window (N.to_nat (cs_v0 c)) (N.to_nat (cs_v1 c)) all in
      if negb (nodup_ids (map r_id rows)) then 195
      else if forallb (row_ok vs) rows then 0 else 196
  end.

(* forced schedules, cs_v1 = 1, 2, 3: the search ran, start to end, while the writer was stopped inside its
   bbolt write transaction (1: before the batch callback, 2: after it returned nil, 3: after it returned an
   error; nothing committed in any of them). cs_v1 = 4, 5: no writer at all; reader 4 started on a cold
   shard, reader 5 was started on the same shared cache at a chosen bucket operation of reader 4.
   cs_v1 = 6: nothing concurrent -- one search after the other on caches an earlier read transaction created
   (codes 151..157).
   The only committed version is cs_v0: the search must succeed and every row must be live there with the
   document of that version. *)
Definition judge_forced (all : list store) (c : csearch) : N :=
  let base := if cs_v1 c <=? 3 then 170 else if (cs_v1 c =? 6) || (cs_v1 c =? 7) then 150 else 160 in
  match cs_out c with
  | QError k => base + k           (* +1 point does not exist, +2 transaction ended, +3 other, +4 hung,
                                      +5 a node the index search needs is read as absent *)
  | QRows rows =>
      let vs := window (N.to_nat (cs_v0 c)) (N.to_nat (cs_v0 c)) all in
      if negb (nodup_ids (map r_id rows)) then base + 6
      else if negb (forallb (row_ok vs) rows) then base + 7
      else if cs_v1 c =? 7 then
        (* exact regime: the pre-filter names live points that carry the vector, not more than the limit and the
           search size: exactly those come back *)
        match rq_query (cs_req c) with
        | QVamana _ _ _ _ _ (Some (QIdAny ids)) =>
            if (length rows =? length ids)%nat && forallb (fun x => mem_bytes (r_id x) ids) rows then 0 else 158
        | _ => 0
        end
      else 0
  end.

Fixpoint first_nonzero (l : list N) : N :=
  match l with [] => 0 | x :: r => if x =? 0 then first_nonzero r else x end.

(* several searches of one run can fail: a failure that is NOT one of the listed known-finding symptoms (191, 194:
   stress runs; 165: read-only concurrency) is reported in preference to one that is, so that a known symptom
   earlier in the run does not hide a different failure later in it *)
Definition known_symptom (c : N) : bool := (c =? 191) || (c =? 194) || (c =? 165).
Definition pick_code (codes : list N) : N :=
  match first_nonzero (filter (fun c => negb (known_symptom c)) codes) with
  | 0 => first_nonzero codes
  | c => c
  end.

Definition verdict (c : c09case) : N :=
  match c with
  | C09Crash k => 180 + k          (* 181 process died, 182 hung *)
  | C09Run sc maxsize bs searches fw fc races =>
      if negb (races =? 0) then 189 else
      let all := versions sc maxsize bs [] in
      let final := last all [] in
      if negb (outputs_ok sc maxsize bs []) then 101 else
      let c1 := pick_code (map (judge_search all) searches) in
      if negb (c1 =? 0) then c1 else
      if negb (store_eqb fw final) then 197 else
      if negb (store_eqb fc final) then 198 else 0
  | C09Forced sc maxsize bs searches fw fc =>
      let all := versions sc maxsize bs [] in
      let final := last all [] in
      if negb (outputs_ok sc maxsize bs []) then 101 else
      let c1 := pick_code (map (judge_forced all) searches) in
      if negb (c1 =? 0) then c1 else
      if negb (store_eqb fw final) then 178 else
      if negb (store_eqb fc final) then 179 else 0
  end.

Fixpoint bad_from (i : N) (cs : list c09case) : list (N * N) :=
  match cs with
  | [] => []
  | c :: r => let v := verdict c in
              if v =? 0 then bad_from (i + 1) r else (i, v) :: bad_from (i + 1) r
  end.
Definition bad (cs : list c09case) : list (N * N) := bad_from 0 cs.
