(* Proofs_C14.v -- lemmas for property C14 (start-up rebalancing). *)
From Coq Require Import List NArith Bool Arith Lia Relations.
From Semadb Require Import Bytes Model_C14.
Import ListNotations.

(* ------------------------------------------------------------------ *)
(* association lists                                                     *)
Section ALp.
  Context {K V : Type} (K_dec : forall a b : K, {a = b} + {a <> b}).

  Lemma al_get_del k' k (m : list (K * V)) :
    al_get K_dec k' (al_del K_dec k m) = if K_dec k' k then None else al_get K_dec k' m.
  Proof.
    induction m as [|[k1 v1] m IH]; cbn.
    - destruct (K_dec k' k); reflexivity.
    - destruct (K_dec k k1) as [E|E].
      + subst k1. rewrite IH. destruct (K_dec k' k); reflexivity.
      + cbn. destruct (K_dec k' k1) as [E1|E1].
        * subst k1. destruct (K_dec k' k); [congruence|reflexivity].
        * exact IH.
  Qed.

  Lemma al_get_put k' k v (m : list (K * V)) :
    al_get K_dec k' (al_put K_dec k v m) = if K_dec k' k then Some v else al_get K_dec k' m.
  Proof.
    unfold al_put. cbn. destruct (K_dec k' k) as [E|E]; [reflexivity|].
    rewrite al_get_del. destruct (K_dec k' k); [contradiction|reflexivity].
  Qed.

  Lemma al_get_in_keys k (m : list (K * V)) : al_get K_dec k m <> None <-> In k (al_keys K_dec m).
  Proof.
    unfold al_keys. rewrite nodup_In.
    induction m as [|[k1 v1] m IH]; cbn.
    - tauto.
    - destruct (K_dec k k1) as [E|E].
      + subst. split; [auto|discriminate].
      + rewrite IH. split; [auto|]. intros [E1|E1]; [congruence|exact E1].
  Qed.

  Lemma al_get_filter_key (g : K -> bool) k (m : list (K * V)) :
    al_get K_dec k (filter (fun kv => g (fst kv)) m) = if g k then al_get K_dec k m else None.
  Proof.
    induction m as [|[k1 v1] m IH]; cbn.
    - destruct (g k); reflexivity.
    - destruct (g k1) eqn:G1; cbn.
      + destruct (K_dec k k1) as [E|E]; [subst; rewrite G1; reflexivity|exact IH].
      + destruct (K_dec k k1) as [E|E]; [subst; rewrite G1 in *; exact IH|exact IH].
  Qed.

  Lemma al_get_in_map_fst k (m : list (K * V)) : al_get K_dec k m <> None <-> In k (map fst m).
  Proof. rewrite al_get_in_keys. unfold al_keys. apply nodup_In. Qed.
End ALp.

(* ------------------------------------------------------------------ *)
(* states                                                                *)
Section St.
  Context {A : Type}.
  Implicit Types st : state A.

  Lemma file_set_file st n p c n' p' :
    file (set_file st n p c) n' p' =
    if node_dec n' n then (if path_dec p' p then Some c else file st n' p') else file st n' p'.
  Proof.
    unfold file, set_file, upd. destruct (node_dec n' n) as [E|E]; [|reflexivity].
    subst. cbn. apply al_get_put.
  Qed.
  Lemma file_del_file st n p n' p' :
    file (del_file st n p) n' p' =
    if node_dec n' n then (if path_dec p' p then None else file st n' p') else file st n' p'.
  Proof.
    unfold file, del_file, upd. destruct (node_dec n' n) as [E|E]; [|reflexivity].
    subst. cbn. apply al_get_del.
  Qed.
  Lemma rec_set_file st n p c n' k : rec_ (set_file st n p c) n' k = rec_ st n' k.
  Proof. unfold rec_, set_file, upd. destruct (node_dec n' n); subst; reflexivity. Qed.
  Lemma rec_del_file st n p n' k : rec_ (del_file st n p) n' k = rec_ st n' k.
  Proof. unfold rec_, del_file, upd. destruct (node_dec n' n); subst; reflexivity. Qed.
  Lemma file_put_rec st n k v n' p : file (put_rec st n k v) n' p = file st n' p.
  Proof. unfold file, put_rec, upd. destruct (node_dec n' n); subst; reflexivity. Qed.
  Lemma file_del_rec st n k n' p : file (del_rec st n k) n' p = file st n' p.
  Proof. unfold file, del_rec, upd. destruct (node_dec n' n); subst; reflexivity. Qed.
  Lemma rec_put_rec st n k v n' k' :
    rec_ (put_rec st n k v) n' k' =
    if node_dec n' n then (if key_dec k' k then Some v else rec_ st n' k') else rec_ st n' k'.
  Proof.
    unfold rec_, put_rec, upd. destruct (node_dec n' n) as [E|E]; [|reflexivity].
    subst. cbn. apply al_get_put.
  Qed.
  Lemma rec_del_rec st n k n' k' :
    rec_ (del_rec st n k) n' k' =
    if node_dec n' n then (if key_dec k' k then None else rec_ st n' k') else rec_ st n' k'.
  Proof.
    unfold rec_, del_rec, upd. destruct (node_dec n' n) as [E|E]; [|reflexivity].
    subst. cbn. apply al_get_del.
  Qed.
End St.

(* ------------------------------------------------------------------ *)
Section P.
  Context {A H : Type}.
  Variable H_dec : forall a b : H, {a = b} + {a <> b}.
  Variable hash : list A -> H.
  Variable h0 : H.
  Variable chunk : nat.
  Variable owner_r : key -> node.
  Variable owner_f : path -> node.
  Hypothesis chunk_pos : (1 <= chunk)%nat.

  Notation data_chunks := (data_chunks chunk).
  Notation rpc_chunks := (rpc_chunks chunk).
  Notation recv_chunk := (recv_chunk hash h0).
  Notation send_loop := (send_loop hash h0).
  Notation send_file := (send_file H_dec hash h0 chunk).
  Notation send_group := (send_group owner_r).

  (* ---------------- chunking ---------------- *)
  Lemma data_chunks_concat fuel (f : list A) : (length f <= fuel)%nat -> concat (data_chunks fuel f) = f.
  Proof.
    revert f. induction fuel as [|n IH]; intros f Hl.
    - destruct f; [reflexivity|cbn in Hl; lia].
    - destruct f as [|a f]; [reflexivity|].
      cbn [Model_C14.data_chunks concat]. rewrite IH.
      + apply firstn_skipn.
      + rewrite skipn_length. cbn [length] in *. lia.
  Qed.

  Lemma data_chunks_nonempty fuel (f : list A) : Forall (fun c => c <> []) (data_chunks fuel f).
  Proof.
    revert f. induction fuel as [|n IH]; intros f; [constructor|].
    destruct f as [|a f]; [constructor|].
    cbn [Model_C14.data_chunks]. constructor; [|apply IH].
    destruct chunk; [lia|]. cbn. discriminate.
  Qed.

  Lemma data_chunks_bounded fuel (f : list A) : Forall (fun c => (length c <= chunk)%nat) (data_chunks fuel f).
  Proof.
    revert f. induction fuel as [|n IH]; intros f; [constructor|].
    destruct f as [|a f]; [constructor|].
    cbn [Model_C14.data_chunks]. constructor; [|apply IH].
    rewrite firstn_length. lia.
  Qed.

  Definition ceil_div (a b : nat) : nat := ((a + b - 1) / b)%nat.

  Lemma ceil_div_pos a : (0 < a)%nat -> ceil_div a chunk = S ((a - 1) / chunk).
  Proof.
    intros Ha. unfold ceil_div.
    replace (a + chunk - 1)%nat with ((a - 1) + 1 * chunk)%nat by lia.
    rewrite Nat.div_add by lia. lia.
  Qed.

  Lemma data_chunks_length fuel (f : list A) :
    (length f <= fuel)%nat -> length (data_chunks fuel f) = ceil_div (length f) chunk.
  Proof.
    revert f. induction fuel as [|n IH]; intros f Hl.
    - destruct f; [|cbn in Hl; lia]. cbn. unfold ceil_div. cbn.
      symmetry. apply Nat.div_small. lia.
    - destruct f as [|a f].
      + cbn. unfold ceil_div. cbn. symmetry. apply Nat.div_small. lia.
      + cbn [Model_C14.data_chunks length]. rewrite IH by (rewrite skipn_length; cbn [length] in *; lia).
        rewrite skipn_length. rewrite (ceil_div_pos (S (length f))) by lia.
        f_equal. cbn [length].
        destruct (le_lt_dec (S (length f)) chunk) as [Hs|Hs].
        * replace (S (length f) - chunk)%nat with 0%nat by lia.
          unfold ceil_div. rewrite Nat.div_small by lia. rewrite Nat.div_small by lia. reflexivity.
        * rewrite ceil_div_pos by lia.
          replace (S (length f) - 1)%nat with ((S (length f) - chunk - 1) + 1 * chunk)%nat by lia.
          rewrite Nat.div_add by lia. lia.
  Qed.

  Lemma thm_chunking (f : list A) :
    concat (rpc_chunks f) = f /\
    length (rpc_chunks f) = S (ceil_div (length f) chunk) /\
    (exists ds, rpc_chunks f = ds ++ [[]] /\
                Forall (fun c => c <> [] /\ (length c <= chunk)%nat) ds /\
                (f <> [] -> ds <> [])).
  Proof.
    unfold Model_C14.rpc_chunks. split; [|split].
    - rewrite concat_app. cbn. rewrite app_nil_r. apply data_chunks_concat. lia.
    - rewrite app_length. cbn. rewrite data_chunks_length by lia. lia.
    - exists (data_chunks (length f) f). split; [reflexivity|]. split.
      + pose proof (data_chunks_nonempty (length f) f) as H1.
        pose proof (data_chunks_bounded (length f) f) as H2.
        rewrite Forall_forall in *. intros c Hc. split; auto.
      + intros Hf Hd. destruct f as [|a f]; [congruence|]. cbn in Hd. discriminate.
  Qed.

  (* ---------------- the chunk loop ---------------- *)
  (* the reply to the terminal empty chunk is the checksum of the destination file,
     provided its index is > 0 *)
  Lemma send_loop_ck fixed fa : forall (ds : list (list A)) i cur ck cur' ck',
    send_loop fixed fa i (ds ++ [[]]) cur ck = (cur', Some ck') ->
    (0 < i + length ds)%nat ->
    exists c, cur' = Some c /\ ck' = hash c.
  Proof.
    induction ds as [|d ds IH]; intros i cur ck cur' ck' Hs Hi.
    - cbn in Hs. destruct (fails_at fa i); [discriminate|].
      inversion Hs; subst. eexists; split; [reflexivity|].
      cbn in Hi. destruct i; [lia|]. reflexivity.
    - cbn [app Model_C14.send_loop] in Hs. destruct (fails_at fa i); [discriminate|].
      destruct (recv_chunk fixed cur i d) as [f' ck1] eqn:R.
      eapply IH; [exact Hs|cbn [length] in Hi; lia].
  Qed.

  Definition eff_base (fixed : bool) (i : nat) (cur : option (list A)) : list A :=
    match cur with None => [] | Some c => if fixed && (i =? 0)%nat then [] else c end.

  (* without a fault every chunk is appended to the (possibly truncated) file *)
  Lemma send_loop_ok fixed fa : forall (cs : list (list A)) i cur ck,
    cs <> [] -> (forall j, (i <= j < i + length cs)%nat -> fails_at fa j = false) ->
    exists ck', send_loop fixed fa i cs cur ck = (Some (eff_base fixed i cur ++ concat cs), Some ck').
  Proof.
    induction cs as [|c cs IH]; intros i cur ck Hne Hf; [congruence|].
    cbn [Model_C14.send_loop]. rewrite Hf by (cbn [length]; lia).
    unfold Model_C14.recv_chunk.
    fold (eff_base fixed i cur).
    destruct cs as [|c2 cs].
    - cbn. rewrite app_nil_r. eexists; reflexivity.
    - destruct (IH (S i) (Some (eff_base fixed i cur ++ c))
                   (if (0 <? i)%nat && is_nil c then hash (eff_base fixed i cur ++ c) else h0)) as [ck' E].
      + discriminate.
      + intros j Hj. apply Hf. cbn [length] in *. lia.
      + exists ck'. rewrite E. f_equal. f_equal.
        unfold eff_base at 1.
        replace (fixed && (S i =? 0)%nat) with false by (cbn; rewrite andb_false_r; reflexivity).
        cbn [concat]. rewrite <- !app_assoc. reflexivity.
  Qed.

  (* a faulty loop never touches anything but the destination file: by construction.
     What the destination holds when the loop stopped at chunk k (fixed receiver,
     or no previous file): the first k chunks. *)
  Lemma send_loop_partial fixed fa : forall (cs : list (list A)) i cur ck cur',
    send_loop fixed fa i cs cur ck = (cur', None) ->
    exists k, (k < length cs)%nat /\ fails_at fa (i + k) = true /\
              (forall j, (j < k)%nat -> fails_at fa (i + j) = false) /\
              cur' = match k with O => cur | S _ => Some (eff_base fixed i cur ++ concat (firstn k cs)) end.
  Proof.
    induction cs as [|c cs IH]; intros i cur ck cur' Hs; [discriminate|].
    cbn [Model_C14.send_loop] in Hs. destruct (fails_at fa i) eqn:F.
    - inversion Hs; subst. exists 0%nat. cbn [length]. rewrite Nat.add_0_r.
      repeat split; [lia|exact F|intros; lia].
    - unfold Model_C14.recv_chunk in Hs. fold (eff_base fixed i cur) in Hs.
      apply IH in Hs. destruct Hs as (k & Hk & Hfk & Hbefore & Hcur).
      exists (S k). cbn [length]. repeat split.
      + lia.
      + replace (i + S k)%nat with (S i + k)%nat by lia. exact Hfk.
      + intros j Hj. destruct j; [rewrite Nat.add_0_r; exact F|].
        replace (i + S j)%nat with (S i + j)%nat by lia. apply Hbefore. lia.
      + rewrite Hcur. destruct k.
        * cbn. rewrite app_nil_r. reflexivity.
        * f_equal. cbn [eff_base firstn concat].
          replace (fixed && (S i =? 0)%nat) with false by (cbn; rewrite andb_false_r; reflexivity).
          rewrite app_assoc. reflexivity.
  Qed.

  Lemma send_loop_some fixed fa : forall (cs : list (list A)) i cur ck cur' ck',
    send_loop fixed fa i cs cur ck = (cur', Some ck') -> cs <> [] -> exists c, cur' = Some c.
  Proof.
    induction cs as [|c cs IH]; intros i cur ck cur' ck' Hs Hne; [congruence|].
    cbn [Model_C14.send_loop] in Hs. destruct (fails_at fa i); [discriminate|].
    destruct (recv_chunk fixed cur i c) as [f' ck1].
    destruct cs as [|c2 cs].
    - cbn in Hs. inversion Hs; subst. eexists; reflexivity.
    - eapply IH; [exact Hs|discriminate].
  Qed.

  Lemma send_loop_complete fixed fa : forall (cs : list (list A)) i cur ck cur' ck',
    send_loop fixed fa i cs cur ck = (cur', Some ck') ->
    forall j, (i <= j < i + length cs)%nat -> fails_at fa j = false.
  Proof.
    induction cs as [|c cs IH]; intros i cur ck cur' ck' Hs j Hj; [cbn in Hj; lia|].
    cbn [Model_C14.send_loop] in Hs. destruct (fails_at fa i) eqn:F; [discriminate|].
    destruct (recv_chunk fixed cur i c) as [f' ck1].
    destruct (Nat.eq_dec j i) as [->|Hne]; [exact F|].
    eapply IH; [exact Hs|cbn [length] in Hj; lia].
  Qed.

  Lemma rpc_chunks_split (f : list A) :
    exists ds, rpc_chunks f = ds ++ [[]] /\ (f <> [] -> (0 < length ds)%nat) /\ concat ds = f.
  Proof.
    exists (data_chunks (length f) f). split; [reflexivity|]. split.
    - intros Hf. destruct f as [|a f]; [congruence|]. cbn. lia.
    - apply data_chunks_concat. lia.
  Qed.

  (* ---------------- one file transfer ---------------- *)
  Lemma send_file_cases fixed fa src dst p (st : state A) :
    (file st src p = None /\ send_file fixed fa src dst p st = (st, false)) \/
    (exists f, file st src p = Some f /\
       (send_file fixed fa src dst p st = (st, false) \/
        (exists c, send_file fixed fa src dst p st = (set_file st dst p c, false)) \/
        (exists c, send_file fixed fa src dst p st = (del_file (set_file st dst p c) src p, true) /\
                   (f <> [] -> hash c = hash f) /\ (fixed = true -> c = f)))).
  Proof.
    unfold Model_C14.send_file.
    destruct (file st src p) as [f|] eqn:Ef; [right; exists f; split; [reflexivity|]|left; auto].
    destruct (send_loop fixed fa 0 (rpc_chunks f) (file st dst p) h0) as [cur res] eqn:L.
    destruct res as [ck|].
    - destruct (send_loop_some _ _ _ _ _ _ _ _ L) as [c Hc].
      { unfold Model_C14.rpc_chunks. destruct (data_chunks (length f) f); discriminate. }
      subst cur.
      destruct (fails_at fa (length (rpc_chunks f))); [right; left; eauto|].
      destruct (H_dec ck (hash f)) as [E|E]; [|right; left; eauto].
      right; right. exists c. split; [reflexivity|]. split.
      + intros Hf. destruct (rpc_chunks_split f) as (ds & Hds & Hlen & _).
        rewrite Hds in L. apply send_loop_ck in L; [|specialize (Hlen Hf); lia].
        destruct L as (c' & Hc' & Hck). inversion Hc'; subst. congruence.
      + intros ->. pose proof (send_loop_complete _ _ _ _ _ _ _ _ L) as Hall.
        destruct (send_loop_ok true fa (rpc_chunks f) 0 (file st dst p) h0) as [ck2 L2].
        { unfold Model_C14.rpc_chunks. destruct (data_chunks (length f) f); discriminate. }
        { exact Hall. }
        rewrite L in L2. inversion L2 as [[Hc2 Hk2]].
        destruct (rpc_chunks_split f) as (ds & Hds & _ & Hcat).
        rewrite Hds, concat_app, Hcat. cbn. rewrite app_nil_r.
        unfold eff_base. destruct (file st dst p); reflexivity.
    - destruct cur as [c|]; [right; left; eauto|left; reflexivity].
  Qed.

  Lemma send_file_ff fixed fa src dst p (st : state A) f :
    file st src p = Some f -> f <> [] -> (forall j, fails_at fa j = false) ->
    (fixed = true \/ file st dst p = None) ->
    send_file fixed fa src dst p st = (del_file (set_file st dst p f) src p, true).
  Proof.
    intros Ef Hf Hfa Hready. unfold Model_C14.send_file. rewrite Ef.
    destruct (rpc_chunks_split f) as (ds & Hds & Hlen & Hcat).
    destruct (send_loop_ok fixed fa (rpc_chunks f) 0 (file st dst p) h0) as [ck L].
    { rewrite Hds. destruct ds; discriminate. }
    { intros; apply Hfa. }
    rewrite L.
    assert (Hbase : eff_base fixed 0 (file st dst p) = []).
    { unfold eff_base. destruct Hready as [-> | ->]; [destruct (file st dst p); reflexivity|reflexivity]. }
    rewrite Hbase in *. cbn [app] in *.
    assert (Hc : concat (rpc_chunks f) = f).
    { rewrite Hds, concat_app, Hcat. cbn. apply app_nil_r. }
    rewrite Hc in *. rewrite Hfa.
    pose proof L as L2. rewrite Hds in L2. apply send_loop_ck in L2; [|specialize (Hlen Hf); lia].
    destruct L2 as (c' & Hc' & Hck). inversion Hc'; subst c'.
    destruct (H_dec ck (hash f)); [reflexivity|congruence].
  Qed.

  (* ---------------- what one transfer may do ---------------- *)
  Definition file_step (src : node) (p : path) (st st' : state A) : Prop :=
    src <> owner_f p /\
    (forall n q, ~ (n = owner_f p /\ q = p) -> ~ (n = src /\ q = p) -> file st' n q = file st n q) /\
    (forall n k, rec_ st' n k = rec_ st n k) /\
    (file st src p = None -> file st' (owner_f p) p = file st (owner_f p) p) /\
    (file st' src p = file st src p \/
     exists f, file st src p = Some f /\ file st' src p = None /\ file st' (owner_f p) p = Some f).

  Definition rec_step (src d : node) (st st' : state A) : Prop :=
    src <> d /\
    (forall n p, file st' n p = file st n p) /\
    (forall k, (forall n, rec_ st' n k = rec_ st n k) \/
               (owner_r k = d /\ exists v, rec_ st src k = Some v /\ rec_ st' d k = Some v /\
                  (rec_ st' src k = Some v \/ rec_ st' src k = None) /\
                  forall n, n <> src -> n <> d -> rec_ st' n k = rec_ st n k)).

  Ltac fsimp :=
    repeat (rewrite ?file_set_file, ?file_del_file, ?rec_set_file, ?rec_del_file,
                    ?file_put_rec, ?file_del_rec, ?rec_put_rec, ?rec_del_rec in * );
    repeat match goal with
           | |- context [node_dec ?a ?b] => destruct (node_dec a b); subst
           | |- context [path_dec ?a ?b] => destruct (path_dec a b); subst
           | |- context [key_dec ?a ?b] => destruct (key_dec a b); subst
           end; try congruence; try tauto.

  Lemma file_step_refl src p (st : state A) : src <> owner_f p -> file_step src p st st.
  Proof. intros Hs. repeat split; auto. Qed.

  Lemma file_step_set src p (st : state A) c f :
    src <> owner_f p -> file st src p = Some f -> file_step src p st (set_file st (owner_f p) p c).
  Proof.
    intros Hs Hf. split; [exact Hs|]. split; [|split; [|split]].
    - intros n q H1 H2. fsimp.
    - intros n k. fsimp.
    - congruence.
    - left. fsimp.
  Qed.

  Lemma file_step_move src p (st : state A) f :
    src <> owner_f p -> file st src p = Some f ->
    file_step src p st (del_file (set_file st (owner_f p) p f) src p).
  Proof.
    intros Hs Hf. split; [exact Hs|]. split; [|split; [|split]].
    - intros n q H1 H2. fsimp.
    - intros n k. fsimp.
    - congruence.
    - right. exists f. split; [exact Hf|]. split; fsimp.
  Qed.

  (* any transfer, with any fault, of a non-empty file whose checksum collides with no other content *)
  Lemma send_file_step fixed fa src p (st : state A) :
    src <> owner_f p ->
    (forall f, file st src p = Some f -> f <> [] /\ (fixed = true \/ forall g, hash g = hash f -> g = f)) ->
    file_step src p st (fst (send_file fixed fa src (owner_f p) p st)).
  Proof.
    intros Hs Hsrc.
    destruct (send_file_cases fixed fa src (owner_f p) p st) as [[Hn E]|(f & Hf & [E|[(c & E)|(c & E & Hc & Hfx)]])];
      rewrite E; cbn [fst].
    - apply file_step_refl; exact Hs.
    - apply file_step_refl; exact Hs.
    - eapply file_step_set; eauto.
    - destruct (Hsrc f Hf) as [Hne [Hfixed|Hinj]].
      + rewrite (Hfx Hfixed). apply file_step_move; auto.
      + rewrite (Hinj c (Hc Hne)). apply file_step_move; auto.
  Qed.

  (* ---------------- record groups ---------------- *)
  Lemma rec_put_all (st : state A) d grp n k :
    rec_ (put_all st d grp) n k =
    if node_dec n d then match al_get key_dec k grp with Some v => Some v | None => rec_ st n k end
    else rec_ st n k.
  Proof.
    induction grp as [|[k1 v1] grp IH]; cbn [put_all fold_right al_get fst snd].
    - destruct (node_dec n d); reflexivity.
    - fold (put_all st d grp). rewrite rec_put_rec, IH.
      destruct (node_dec n d); [|reflexivity]. destruct (key_dec k k1); reflexivity.
  Qed.
  Lemma file_put_all (st : state A) d grp n p : file (put_all st d grp) n p = file st n p.
  Proof.
    induction grp as [|[k1 v1] grp IH]; cbn [put_all fold_right]; [reflexivity|].
    fold (put_all st d grp). rewrite file_put_rec. exact IH.
  Qed.
  Lemma rec_del_all (st : state A) s ks n k :
    rec_ (del_all st s ks) n k =
    if node_dec n s then (if in_dec key_dec k ks then None else rec_ st n k) else rec_ st n k.
  Proof.
    induction ks as [|k1 ks IH]; cbn [del_all fold_right].
    - destruct (node_dec n s); reflexivity.
    - fold (del_all st s ks). rewrite rec_del_rec, IH.
      destruct (node_dec n s); [|reflexivity].
      destruct (key_dec k k1) as [E|E].
      + subst. destruct (in_dec key_dec k1 (k1 :: ks)) as [|N]; [reflexivity|]. exfalso; apply N; left; reflexivity.
      + destruct (in_dec key_dec k ks) as [I|I]; destruct (in_dec key_dec k (k1 :: ks)) as [I'|I']; try reflexivity.
        * exfalso; apply I'; right; exact I.
        * destruct I' as [E'|I']; [congruence|contradiction].
  Qed.
  Lemma file_del_all (st : state A) s ks n p : file (del_all st s ks) n p = file st n p.
  Proof.
    induction ks as [|k1 ks IH]; cbn [del_all fold_right]; [reflexivity|].
    fold (del_all st s ks). rewrite file_del_rec. exact IH.
  Qed.

  Lemma get_group (st : state A) s d k :
    al_get key_dec k (group_of owner_r d (recs (st s))) =
    if node_dec (owner_r k) d then rec_ st s k else None.
  Proof.
    unfold group_of, rec_.
    rewrite (al_get_filter_key key_dec (fun k => if node_dec (owner_r k) d then true else false)).
    destruct (node_dec (owner_r k) d); reflexivity.
  Qed.

  Lemma in_group_keys (st : state A) s d k :
    In k (map fst (group_of owner_r d (recs (st s)))) <-> owner_r k = d /\ rec_ st s k <> None.
  Proof.
    rewrite <- (al_get_in_map_fst key_dec). rewrite get_group.
    destruct (node_dec (owner_r k) d); tauto.
  Qed.

  Lemma send_group_step rf src d (st : state A) :
    src <> d -> rec_step src d st (fst (send_group rf src d st)).
  Proof.
    intros Hs. split; [exact Hs|]. unfold Model_C14.send_group.
    destruct rf; cbn [fst].
    - (* RNone *)
      split; [intros n p; rewrite file_del_all, file_put_all; reflexivity|].
      intros k. destruct (node_dec (owner_r k) d) as [Ek|Ek].
      + destruct (rec_ st src k) as [v|] eqn:Ev.
        * right. split; [exact Ek|]. exists v. split; [reflexivity|].
          assert (Hin : In k (map fst (group_of owner_r d (recs (st src))))).
          { apply in_group_keys. split; [exact Ek|congruence]. }
          split; [|split].
          -- rewrite rec_del_all, rec_put_all, get_group.
             destruct (node_dec d src); [congruence|].
             destruct (node_dec d d); [|congruence]. destruct (node_dec (owner_r k) d); [|congruence].
             rewrite Ev. reflexivity.
          -- right. rewrite rec_del_all. destruct (node_dec src src); [|congruence].
             destruct (in_dec key_dec k _); [reflexivity|contradiction].
          -- intros n Hn1 Hn2. rewrite rec_del_all, rec_put_all.
             destruct (node_dec n src); [congruence|]. destruct (node_dec n d); [congruence|reflexivity].
        * left. intros n. rewrite rec_del_all, rec_put_all, get_group, Ev.
          destruct (node_dec (owner_r k) d); [|congruence].
          assert (Hnin : ~ In k (map fst (group_of owner_r d (recs (st src))))).
          { rewrite in_group_keys. intros [_ Hx]. congruence. }
          destruct (node_dec n src).
          -- destruct (in_dec key_dec k _); [contradiction|]. destruct (node_dec n d); reflexivity.
          -- destruct (node_dec n d); reflexivity.
      + left. intros n. rewrite rec_del_all, rec_put_all, get_group.
        destruct (node_dec (owner_r k) d); [congruence|].
        assert (Hnin : ~ In k (map fst (group_of owner_r d (recs (st src))))).
        { rewrite in_group_keys. intros [Hx _]. congruence. }
        destruct (node_dec n src).
        * destruct (in_dec key_dec k _); [contradiction|]. destruct (node_dec n d); reflexivity.
        * destruct (node_dec n d); reflexivity.
    - (* RFailSend *)
      split; [reflexivity|]. intros k. left. reflexivity.
    - (* RFailDelete *)
      split; [intros n p; rewrite file_put_all; reflexivity|].
      intros k. destruct (node_dec (owner_r k) d) as [Ek|Ek].
      + destruct (rec_ st src k) as [v|] eqn:Ev.
        * right. split; [exact Ek|]. exists v. split; [reflexivity|]. split; [|split].
          -- rewrite rec_put_all, get_group. destruct (node_dec d d); [|congruence].
             destruct (node_dec (owner_r k) d); [|congruence]. rewrite Ev. reflexivity.
          -- left. rewrite rec_put_all. destruct (node_dec src d); [congruence|exact Ev].
          -- intros n Hn1 Hn2. rewrite rec_put_all. destruct (node_dec n d); [congruence|reflexivity].
        * left. intros n. rewrite rec_put_all, get_group, Ev.
          destruct (node_dec n d); [|reflexivity]. destruct (node_dec (owner_r k) d); reflexivity.
      + left. intros n. rewrite rec_put_all, get_group.
        destruct (node_dec n d); [|reflexivity]. destruct (node_dec (owner_r k) d); [congruence|reflexivity].
  Qed.

  (* the fault-free group transfer leaves no record owned by d on src *)
  Lemma send_group_ff src d (st : state A) k :
    owner_r k = d -> rec_ (fst (send_group RNone src d st)) src k = None.
  Proof.
    intros Ek. unfold Model_C14.send_group. cbn [fst]. rewrite rec_del_all.
    destruct (node_dec src src); [|congruence].
    destruct (in_dec key_dec k _) as [I|I]; [reflexivity|].
    rewrite in_group_keys in I. rewrite rec_put_all, get_group.
    destruct (rec_ st src k) eqn:Ev; [exfalso; apply I; split; [exact Ek|congruence]|].
    destruct (node_dec src d); [|reflexivity]. destruct (node_dec (owner_r k) d); reflexivity.
  Qed.
  Lemma send_group_ok rf src d (st : state A) : snd (send_group rf src d st) = match rf with RNone => true | _ => false end.
  Proof. unfold Model_C14.send_group. destruct rf; reflexivity. Qed.


  (* ---------------- the invariant ---------------- *)
  Definition inv_f (st0 st : state A) : Prop :=
    (forall n p g, n <> owner_f p -> file st n p = Some g -> exists n0, file st0 n0 p = Some g) /\
    (forall n0 p f, file st0 n0 p = Some f ->
       (exists n, n <> owner_f p /\ file st n p = Some f) \/ file st (owner_f p) p = Some f) /\
    (forall n p g, file st n p = Some g -> exists n0 f, file st0 n0 p = Some f).
  Definition inv_r (st0 st : state A) : Prop :=
    (forall n k w, n <> owner_r k -> rec_ st n k = Some w -> exists n0, rec_ st0 n0 k = Some w) /\
    (forall n0 k v, rec_ st0 n0 k = Some v ->
       (exists n, n <> owner_r k /\ rec_ st n k = Some v) \/ rec_ st (owner_r k) k = Some v) /\
    (forall n k w, rec_ st n k = Some w -> exists n0 v, rec_ st0 n0 k = Some v).
  Definition inv (st0 st : state A) : Prop := inv_f st0 st /\ inv_r st0 st.

  Lemma inv_refl (st0 : state A) : inv st0 st0.
  Proof.
    split; (split; [|split]).
    - intros n p g _ Hg. eauto.
    - intros n0 p f Hf. destruct (node_dec n0 (owner_f p)); [subst; right; exact Hf|left; eauto].
    - intros n p g Hg. eauto.
    - intros n k w _ Hw. eauto.
    - intros n0 k v Hv. destruct (node_dec n0 (owner_r k)); [subst; right; exact Hv|left; eauto].
    - intros n k w Hw. eauto.
  Qed.

  Lemma inv_f_file_step (st0 st st' : state A) src p :
    agree_files st0 -> inv_f st0 st -> file_step src p st st' -> inv_f st0 st'.
  Proof.
    intros Hag (I1 & I2 & I3) (Hne & Hfr & Hrec & Hnone & Hsrc).
    split; [|split].
    - intros n q g Hn Hg. destruct (path_dec q p) as [->|Hq].
      + destruct (node_dec n src) as [->|Hns].
        * destruct Hsrc as [E|(f & _ & E & _)]; [rewrite E in Hg; eauto|congruence].
        * rewrite Hfr in Hg by tauto. eauto.
      + rewrite Hfr in Hg by tauto. eauto.
    - intros n0 q f H0. destruct (path_dec q p) as [->|Hq].
      + assert (Hleft : (exists n, n <> owner_f p /\ file st n p = Some f) ->
                        (exists n, n <> owner_f p /\ file st' n p = Some f) \/ file st' (owner_f p) p = Some f).
        { intros (n & Hn & Hf). destruct (node_dec n src) as [->|Hns].
          - destruct Hsrc as [E|(f' & E1 & E2 & E3)].
            + left. exists src. split; [exact Hn|congruence].
            + right. congruence.
          - left. exists n. split; [exact Hn|]. rewrite Hfr by tauto. exact Hf. }
        destruct (I2 _ _ _ H0) as [L|R]; [auto|].
        destruct (file st src p) as [g|] eqn:Eg.
        * destruct (I1 _ _ _ Hne Eg) as [n1 H1]. rewrite (Hag _ _ _ _ _ H1 H0) in Eg. apply Hleft. eauto.
        * right. rewrite Hnone by reflexivity. exact R.
      + destruct (I2 _ _ _ H0) as [(n & Hn & Hf)|R].
        * left. exists n. split; [exact Hn|]. rewrite Hfr by tauto. exact Hf.
        * right. rewrite Hfr by tauto. exact R.
    - intros n q g Hg. destruct (path_dec q p) as [->|Hq].
      + destruct (node_dec n src) as [->|Hns].
        * destruct Hsrc as [E|(f & _ & E & _)]; [rewrite E in Hg; eauto|congruence].
        * destruct (node_dec n (owner_f p)) as [->|Hno].
          -- destruct (file st src p) as [g'|] eqn:Eg; [eauto|]. rewrite Hnone in Hg by reflexivity. eauto.
          -- rewrite Hfr in Hg by tauto. eauto.
      + rewrite Hfr in Hg by tauto. eauto.
  Qed.

  Lemma inv_f_rec_step (st0 st st' : state A) src d : inv_f st0 st -> rec_step src d st st' -> inv_f st0 st'.
  Proof.
    intros (I1 & I2 & I3) (_ & Hf & _). split; [|split].
    - intros n p g Hn Hg. rewrite Hf in Hg. eauto.
    - intros n0 p f H0. destruct (I2 _ _ _ H0) as [(n & Hn & E)|R].
      + left. exists n. rewrite Hf. auto.
      + right. rewrite Hf. exact R.
    - intros n p g Hg. rewrite Hf in Hg. eauto.
  Qed.

  Lemma inv_r_file_step (st0 st st' : state A) src p : inv_r st0 st -> file_step src p st st' -> inv_r st0 st'.
  Proof.
    intros (I1 & I2 & I3) (_ & _ & Hr & _). split; [|split].
    - intros n k w Hn Hw. rewrite Hr in Hw. eauto.
    - intros n0 k v H0. destruct (I2 _ _ _ H0) as [(n & Hn & E)|R].
      + left. exists n. rewrite Hr. auto.
      + right. rewrite Hr. exact R.
    - intros n k w Hw. rewrite Hr in Hw. eauto.
  Qed.

  Lemma inv_r_rec_step (st0 st st' : state A) src d :
    agree_recs st0 -> inv_r st0 st -> rec_step src d st st' -> inv_r st0 st'.
  Proof.
    intros Hag (I1 & I2 & I3) (Hne & _ & Hk). split; [|split].
    - intros n k w Hn Hw. destruct (Hk k) as [Same|(Ek & v & Es & Ed & Esrc & Hoth)].
      + rewrite Same in Hw. eauto.
      + destruct (node_dec n src) as [->|Hns].
        * destruct Esrc as [E|E]; [|congruence]. rewrite E in Hw. inversion Hw; subst.
          apply (I1 src k w); [congruence|exact Es].
        * rewrite Hoth in Hw by congruence. eauto.
    - intros n0 k v0 H0. destruct (Hk k) as [Same|(Ek & v & Es & Ed & Esrc & Hoth)].
      + destruct (I2 _ _ _ H0) as [(n & Hn & E)|R].
        * left. exists n. rewrite Same. auto.
        * right. rewrite Same. exact R.
      + right. destruct (I1 src k v) as [n1 H1]; [congruence|exact Es|].
        rewrite (Hag _ _ _ _ _ H1 H0) in Ed. rewrite Ek. exact Ed.
    - intros n k w Hw. destruct (Hk k) as [Same|(Ek & v & Es & Ed & Esrc & Hoth)].
      + rewrite Same in Hw. eauto.
      + eauto.
  Qed.

  (* ---------------- micro-steps ---------------- *)
  Definition mstep (st st' : state A) : Prop :=
    (exists src p, file_step src p st st') \/ (exists src d, rec_step src d st st').
  Definition msteps : state A -> state A -> Prop := clos_refl_trans _ mstep.


  Lemma inv_mstep (st0 st st' : state A) : good st0 -> inv st0 st -> mstep st st' -> inv st0 st'.
  Proof.
    intros (Ha & Hb & _) [If Ir] [(src & p & S)|(src & d & S)]; split.
    - eapply inv_f_file_step; eauto.
    - eapply inv_r_file_step; eauto.
    - eapply inv_f_rec_step; eauto.
    - eapply inv_r_rec_step; eauto.
  Qed.
  Lemma inv_msteps (st0 st st' : state A) : good st0 -> msteps st st' -> inv st0 st -> inv st0 st'.
  Proof. intros G M. induction M; intros I; eauto using inv_mstep. Qed.

  (* a node never gains an item it does not own *)
  Lemma file_none_mstep (st st' : state A) s p :
    mstep st st' -> owner_f p <> s -> file st s p = None -> file st' s p = None.
  Proof.
    intros [(src & q & (Hne & Hfr & _ & _ & Hsrc))|(src & d & (_ & Hf & _))] Ho Hn.
    - destruct (path_dec p q) as [->|Hq].
      + destruct (node_dec s src) as [->|Hs].
        * destruct Hsrc as [E|(f & _ & E & _)]; congruence.
        * rewrite Hfr; [exact Hn| |tauto]. intros [E _]. congruence.
      + rewrite Hfr; [exact Hn|tauto|tauto].
    - rewrite Hf. exact Hn.
  Qed.
  Lemma rec_none_mstep (st st' : state A) s k :
    mstep st st' -> owner_r k <> s -> rec_ st s k = None -> rec_ st' s k = None.
  Proof.
    intros [(src & q & (_ & _ & Hr & _))|(src & d & (Hne & _ & Hk))] Ho Hn.
    - rewrite Hr. exact Hn.
    - destruct (Hk k) as [Same|(Ek & v & Es & Ed & Esrc & Hoth)].
      + rewrite Same. exact Hn.
      + destruct (node_dec s src) as [->|Hs]; [congruence|].
        rewrite Hoth; [exact Hn|exact Hs|congruence].
  Qed.
  Lemma file_none_msteps (st st' : state A) s p :
    msteps st st' -> owner_f p <> s -> file st s p = None -> file st' s p = None.
  Proof. intros M Ho. induction M; intros Hn; eauto using file_none_mstep. Qed.
  Lemma rec_none_msteps (st st' : state A) s k :
    msteps st st' -> owner_r k <> s -> rec_ st s k = None -> rec_ st' s k = None.
  Proof. intros M Ho. induction M; intros Hn; eauto using rec_none_mstep. Qed.

  Definition clean_f (st : state A) (s : node) : Prop := forall p, owner_f p <> s -> file st s p = None.
  Definition clean_r (st : state A) (s : node) : Prop := forall k, owner_r k <> s -> rec_ st s k = None.
  Lemma clean_f_msteps (st st' : state A) s : msteps st st' -> clean_f st s -> clean_f st' s.
  Proof. intros M C p Hp. eapply file_none_msteps; eauto. Qed.
  Lemma clean_r_msteps (st st' : state A) s : msteps st st' -> clean_r st s -> clean_r st' s.
  Proof. intros M C k Hk. eapply rec_none_msteps; eauto. Qed.

  Lemma converged_of_clean (st0 st : state A) :
    good st0 -> inv st0 st -> (forall n, clean_f st n /\ clean_r st n) -> converged owner_r owner_f st0 st.
  Proof.
    intros (Ha & Hb & _) [(F1 & F2 & F3) (R1 & R2 & R3)] C.
    assert (HF : forall n0 p f, file st0 n0 p = Some f -> file st (owner_f p) p = Some f).
    { intros n0 p f H0. destruct (F2 _ _ _ H0) as [(n & Hn & E)|R]; [|exact R].
      destruct (C n) as [Cf _]. rewrite Cf in E by congruence. discriminate. }
    assert (HR : forall n0 k v, rec_ st0 n0 k = Some v -> rec_ st (owner_r k) k = Some v).
    { intros n0 k v H0. destruct (R2 _ _ _ H0) as [(n & Hn & E)|R]; [|exact R].
      destruct (C n) as [_ Cr]. rewrite Cr in E by congruence. discriminate. }
    split; [exact HF|]. split; [|split; [exact HR|]].
    - intros n p g Hg. assert (n = owner_f p) as ->.
      { destruct (node_dec n (owner_f p)); [assumption|]. destruct (C n) as [Cf _]. rewrite Cf in Hg by congruence. discriminate. }
      split; [reflexivity|]. destruct (F3 _ _ _ Hg) as (n0 & f & H0). exists n0.
      rewrite (HF _ _ _ H0) in Hg. congruence.
    - intros n k w Hw. assert (n = owner_r k) as ->.
      { destruct (node_dec n (owner_r k)); [assumption|]. destruct (C n) as [_ Cr]. rewrite Cr in Hw by congruence. discriminate. }
      split; [reflexivity|]. destruct (R3 _ _ _ Hw) as (n0 & v & H0). exists n0.
      rewrite (HR _ _ _ H0) in Hw. congruence.
  Qed.

  Lemma no_loss_of_inv (st0 st : state A) : inv st0 st -> no_loss st0 st.
  Proof.
    intros [(_ & F2 & _) (_ & R2 & _)]. split.
    - intros n0 p f H0. destruct (F2 _ _ _ H0) as [(n & _ & E)|R]; eauto.
    - intros n0 k v H0. destruct (R2 _ _ _ H0) as [(n & _ & E)|R]; eauto.
  Qed.


  (* ---------------- reachable states ---------------- *)
  Notation reach := (reach H_dec hash h0 chunk owner_r owner_f).
  Notation step := (step H_dec hash h0 chunk owner_r owner_f).
  Notation shards_loop := (shards_loop H_dec hash h0 chunk owner_f).
  Notation sync_shards := (sync_shards H_dec hash h0 chunk owner_f).
  Notation groups_loop := (groups_loop owner_r).
  Notation sync_records := (sync_records owner_r).
  Notation sync_node := (sync_node H_dec hash h0 chunk owner_r owner_f).
  Notation sync_all := (sync_all H_dec hash h0 chunk owner_r owner_f).
  Notation collision_free := (collision_free hash).

  Lemma reach_trans fixed (a b c : state A) : reach fixed a b -> reach fixed b c -> reach fixed a c.
  Proof.
    intros Hab Hbc. apply clos_rt_rtn1. eapply rt_trans; apply clos_rtn1_rt; eassumption.
  Qed.
  Lemma reach_refl fixed (a : state A) : reach fixed a a.
  Proof. apply rtn1_refl. Qed.
  Lemma reach_step fixed (a b : state A) : step fixed a b -> reach fixed a b.
  Proof. intros S. eapply Relation_Operators.rtn1_trans; [exact S|apply rtn1_refl]. Qed.

  Lemma step_mstep fixed (st0 st st' : state A) :
    good st0 -> (fixed = true \/ collision_free st0) -> inv st0 st -> step fixed st st' -> mstep st st'.
  Proof.
    intros (Ha & _ & Hne) Hcf [(F1 & _ & _) _] S. destruct S as [st src p fa Hs|st src d rf Hs].
    - left. exists src, p. apply send_file_step; [exact Hs|].
      intros f Hf. destruct (F1 _ _ _ Hs Hf) as [n0 H0]. split; [eapply Hne; eauto|].
      destruct Hcf as [Hx|Hcf]; [left; exact Hx|right; eapply Hcf; eauto].
    - right. exists src, d. apply send_group_step. exact Hs.
  Qed.

  Lemma reach_inv fixed (st0 st : state A) :
    good st0 -> (fixed = true \/ collision_free st0) -> reach fixed st0 st -> msteps st0 st /\ inv st0 st.
  Proof.
    intros G Hcf R. induction R as [|st st' S R IH].
    - split; [apply rt_refl|apply inv_refl].
    - destruct IH as [M I]. assert (MS : mstep st st') by (eapply step_mstep; eauto).
      split; [eapply rt_trans; [exact M|apply rt_step; exact MS]|eapply inv_mstep; eauto].
  Qed.

  (* the loops of the two phases only make such steps *)
  Lemma shards_loop_reach fixed ff s : forall ps dead (st : state A),
    (forall p, In p ps -> owner_f p <> s) -> reach fixed st (fst (shards_loop fixed ff s ps dead st)).
  Proof.
    induction ps as [|p ps IH]; intros dead st Hps; cbn [Model_C14.shards_loop]; [apply reach_refl|].
    destruct (in_dec node_dec (owner_f p) dead).
    - apply IH. intros q Hq. apply Hps. right; exact Hq.
    - destruct (send_file fixed (ff p) s (owner_f p) p st) as [st1 ok] eqn:E.
      eapply reach_trans; [|apply IH; intros q Hq; apply Hps; right; exact Hq].
      replace st1 with (fst (send_file fixed (ff p) s (owner_f p) p st)) by (rewrite E; reflexivity).
      apply reach_step. constructor. intros Hx. apply (Hps p); [left; reflexivity|congruence].
  Qed.

  Lemma to_move_spec s (st : state A) p :
    In p (to_move owner_f s st) <-> owner_f p <> s /\ file st s p <> None.
  Proof.
    unfold to_move. rewrite filter_In, <- (al_get_in_keys path_dec). unfold file.
    destruct (node_dec (owner_f p) s); split; intros; try tauto.
    destruct H0; discriminate.
  Qed.

  Lemma sync_shards_reach fixed ff s (st : state A) : reach fixed st (fst (sync_shards fixed ff s st)).
  Proof.
    unfold Model_C14.sync_shards.
    pose proof (shards_loop_reach fixed ff s (to_move owner_f s st) [] st) as R.
    destruct (shards_loop fixed ff s (to_move owner_f s st) [] st) as [st' dead]. cbn [fst] in *.
    apply R. intros p Hp. apply to_move_spec in Hp. tauto.
  Qed.

  Lemma groups_loop_reach fixed rf s : forall ds (st : state A) ok,
    (forall d, In d ds -> d <> s) -> reach fixed st (fst (groups_loop rf s ds st ok)).
  Proof.
    induction ds as [|d ds IH]; intros st ok Hds; cbn [Model_C14.groups_loop]; [apply reach_refl|].
    destruct (send_group (rf d) s d st) as [st1 ok1] eqn:E.
    eapply reach_trans; [|apply IH; intros x Hx; apply Hds; right; exact Hx].
    replace st1 with (fst (send_group (rf d) s d st)) by (rewrite E; reflexivity).
    apply reach_step. constructor. intros Hx. apply (Hds d); [left; reflexivity|congruence].
  Qed.

  Lemma rec_dests_spec s (st : state A) d :
    In d (rec_dests owner_r s st) <-> d <> s /\ exists k, owner_r k = d /\ rec_ st s k <> None.
  Proof.
    unfold rec_dests. rewrite nodup_In, filter_In, in_map_iff. split.
    - intros [(kv & E & Hin) Hd]. split; [destruct (node_dec d s); [discriminate|assumption]|].
      exists (fst kv). split; [exact E|]. unfold rec_. rewrite (al_get_in_map_fst key_dec). apply in_map. exact Hin.
    - intros [Hd (k & E & Hk)]. split; [|destruct (node_dec d s); [contradiction|reflexivity]].
      unfold rec_ in Hk. rewrite (al_get_in_map_fst key_dec) in Hk. apply in_map_iff in Hk.
      destruct Hk as (kv & E1 & Hin). exists kv. split; [congruence|exact Hin].
  Qed.

  Lemma sync_records_reach fixed rf s (st : state A) : reach fixed st (fst (sync_records rf s st)).
  Proof.
    unfold Model_C14.sync_records. apply groups_loop_reach.
    intros d Hd. apply rec_dests_spec in Hd. tauto.
  Qed.

  Lemma sync_node_reach fixed nf s (st : state A) : reach fixed st (fst (sync_node fixed nf s st)).
  Proof.
    unfold Model_C14.sync_node.
    pose proof (sync_records_reach fixed (nf_rec nf) s st) as R1.
    destruct (sync_records (nf_rec nf) s st) as [st1 ok1]. cbn [fst] in R1.
    destruct ok1; [|exact R1]. destruct (nf_crash nf); [exact R1|].
    eapply reach_trans; [exact R1|apply sync_shards_reach].
  Qed.

  Lemma sync_all_reach fixed : forall plan (st : state A), reach fixed st (fst (sync_all fixed plan st)).
  Proof.
    induction plan as [|[s nf] plan IH]; intros st; cbn [Model_C14.sync_all]; [apply reach_refl|].
    pose proof (sync_node_reach fixed nf s st) as R1.
    destruct (sync_node fixed nf s st) as [st1 ok]. cbn [fst] in R1.
    specialize (IH st1). destruct (sync_all fixed plan st1) as [st2 oks]. cbn [fst] in *.
    eapply reach_trans; eauto.
  Qed.

  Lemma run_phases_reach fixed : forall sched (st : state A),
    reach fixed st (run_phases H_dec hash h0 chunk owner_r owner_f fixed sched st).
  Proof.
    induction sched as [|ph sched IH]; intros st; cbn [run_phases fold_left]; [apply reach_refl|].
    eapply reach_trans; [|apply IH].
    destruct ph; cbn [run_phase]; [apply sync_records_reach|apply sync_shards_reach].
  Qed.

  (* ---------------- c14_no_loss ---------------- *)
  Lemma thm_no_loss fixed (st0 st : state A) :
    good st0 -> (fixed = true \/ collision_free st0) -> reach fixed st0 st -> no_loss st0 st.
  Proof. intros G C R. apply no_loss_of_inv. eapply reach_inv; eauto. Qed.

  (* ---------------- c14_source_removed_only_after_verified ---------------- *)
  Lemma thm_source_removed fixed fa src dst p (st : state A) f :
    src <> dst -> file st src p = Some f -> f <> [] ->
    file (fst (send_file fixed fa src dst p st)) src p = None ->
    snd (send_file fixed fa src dst p st) = true /\
    exists c, file (fst (send_file fixed fa src dst p st)) dst p = Some c /\ hash c = hash f /\
              ((forall g, hash g = hash f -> g = f) -> c = f).
  Proof.
    intros Hs Hf Hne Hrm.
    destruct (send_file_cases fixed fa src dst p st) as [[Hn E]|(f' & Hf' & [E|[(c & E)|(c & E & Hc & _)]])];
      rewrite E in *; cbn [fst snd] in *.
    - congruence.
    - congruence.
    - rewrite file_set_file in Hrm. destruct (node_dec src dst); congruence.
    - split; [reflexivity|]. exists c. assert (f' = f) by congruence. subst f'.
      split; [|split; [auto|auto]].
      rewrite file_del_file. destruct (node_dec dst src); [congruence|].
      rewrite file_set_file. destruct (node_dec dst dst); [|congruence]. destruct (path_dec p p); congruence.
  Qed.


  (* ---------------- fault-free synchronisation ---------------- *)
  Definition ready (fixed : bool) (st : state A) : Prop := fixed = true \/ once_files st.

  Lemma once_move (st : state A) s d p f :
    s <> d -> file st s p = Some f -> once_files st ->
    once_files (del_file (set_file st d p f) s p).
  Proof.
    intros Hsd Hf On n1 n2 q H1 H2.
    assert (Char : forall n, file (del_file (set_file st d p f) s p) n q <> None ->
                   (q = p /\ n = d) \/ (q <> p /\ file st n q <> None)).
    { intros n Hn. rewrite file_del_file, file_set_file in Hn.
      destruct (path_dec q p) as [->|Hq].
      - left. split; [reflexivity|].
        destruct (node_dec n s) as [->|Hns]; [congruence|].
        destruct (node_dec n d) as [->|Hnd]; [reflexivity|].
        exfalso. apply Hns. apply (On n s p); congruence.
      - right. split; [exact Hq|]. destruct (node_dec n s); destruct (node_dec n d); exact Hn. }
    destruct (Char _ H1) as [[-> ->]|[Hq1 G1]]; destruct (Char _ H2) as [[E2 ->]|[Hq2 G2]]; try congruence.
    eapply On; eauto.
  Qed.

  Lemma ready_dst fixed (st : state A) s p f :
    ready fixed st -> s <> owner_f p -> file st s p = Some f ->
    fixed = true \/ file st (owner_f p) p = None.
  Proof.
    intros [R|On] Hs Hf; [left; exact R|right].
    destruct (file st (owner_f p) p) eqn:E; [|reflexivity].
    exfalso. apply Hs. apply (On s (owner_f p) p); congruence.
  Qed.

  Lemma shards_loop_ff fixed ff s (st0 : state A) :
    good st0 -> (forall p, ff p = None) ->
    forall ps (st : state A), NoDup ps ->
      (forall p, In p ps -> owner_f p <> s /\ file st s p <> None) ->
      inv st0 st -> ready fixed st ->
      exists st', shards_loop fixed ff s ps [] st = (st', []) /\ msteps st st' /\ ready fixed st' /\
                  (forall p, In p ps -> file st' s p = None).
  Proof.
    intros G Hff. induction ps as [|p ps IH]; intros st Hnd Hps I Rd.
    - exists st. split; [reflexivity|]. split; [apply rt_refl|]. split; [exact Rd|]. intros p [].
    - cbn [Model_C14.shards_loop]. destruct (in_dec node_dec (owner_f p) []) as [[]|_].
      destruct (Hps p (or_introl eq_refl)) as [Hop Hfp].
      destruct (file st s p) as [f|] eqn:Ef; [|congruence].
      assert (Hs : s <> owner_f p) by congruence.
      assert (Hne : f <> []).
      { destruct I as [(F1 & _ & _) _]. destruct (F1 _ _ _ Hs Ef) as [n0 H0].
        destruct G as (_ & _ & Gne). eapply Gne; eauto. }
      rewrite (send_file_ff fixed (ff p) s (owner_f p) p st f Ef Hne).
      2:{ intros j. rewrite Hff. reflexivity. }
      2:{ eapply ready_dst; eauto. }
      set (st1 := del_file (set_file st (owner_f p) p f) s p).
      assert (FS : file_step s p st st1) by (apply file_step_move; auto).
      assert (MS : mstep st st1) by (left; eauto).
      inversion Hnd as [|? ? Hnin Hnd']; subst.
      destruct (IH st1 Hnd') as (st' & E & M & Rd' & Hnone).
      + intros q Hq. destruct (Hps q (or_intror Hq)) as [Hoq Hfq]. split; [exact Hoq|].
        unfold st1. rewrite file_del_file, file_set_file.
        destruct (path_dec q p) as [->|Hqp]; [contradiction|].
        destruct (node_dec s s); destruct (node_dec s (owner_f p)); exact Hfq.
      + eapply inv_mstep; eauto.
      + destruct Rd as [R|On]; [left; exact R|right]. apply once_move; auto.
      + exists st'. split; [exact E|]. split; [eapply rt_trans; [apply rt_step; exact MS|exact M]|].
        split; [exact Rd'|]. intros q [->|Hq]; [|auto].
        eapply file_none_msteps; [exact M|congruence|].
        unfold st1. rewrite file_del_file. destruct (node_dec s s); [|congruence].
        destruct (path_dec q q); congruence.
  Qed.

  Lemma sync_shards_ff fixed ff s (st0 st : state A) :
    good st0 -> (forall p, ff p = None) -> inv st0 st -> ready fixed st ->
    exists st', sync_shards fixed ff s st = (st', true) /\ msteps st st' /\ ready fixed st' /\ clean_f st' s.
  Proof.
    intros G Hff I Rd. unfold Model_C14.sync_shards.
    destruct (shards_loop_ff fixed ff s st0 G Hff (to_move owner_f s st) st) as (st' & E & M & Rd' & Hn); auto.
    - unfold to_move. apply NoDup_filter. apply NoDup_nodup.
    - intros p Hp. apply to_move_spec in Hp. exact Hp.
    - rewrite E. exists st'. repeat split; auto.
      intros p Hp. destruct (file st s p) eqn:Ef.
      + apply Hn. apply to_move_spec. split; [exact Hp|congruence].
      + eapply file_none_msteps; eauto.
  Qed.

  Lemma groups_loop_ff rf s : (forall d, rf d = RNone) -> forall ds (st : state A),
    (forall d, In d ds -> d <> s) ->
    exists st', groups_loop rf s ds st true = (st', true) /\ msteps st st' /\
                (forall n p, file st' n p = file st n p) /\
                (forall k, In (owner_r k) ds -> rec_ st' s k = None).
  Proof.
    intros Hrf. induction ds as [|d ds IH]; intros st Hds.
    - exists st. split; [reflexivity|]. split; [apply rt_refl|]. split; [reflexivity|]. intros k [].
    - cbn [Model_C14.groups_loop]. rewrite Hrf.
      assert (Hd : s <> d) by (intros E; apply (Hds d); [left; reflexivity|congruence]).
      pose proof (send_group_step RNone s d st Hd) as RS.
      pose proof (send_group_ok RNone s d st) as Ok.
      pose proof (send_group_ff s d st) as FF.
      destruct (send_group RNone s d st) as [st1 ok1]. cbn [fst snd] in *. subst ok1. cbn [andb].
      destruct (IH st1) as (st' & E & M & Hf & Hk); [intros x Hx; apply Hds; right; exact Hx|].
      assert (MS : mstep st st1) by (right; eauto).
      exists st'. split; [exact E|]. split; [eapply rt_trans; [apply rt_step; exact MS|exact M]|].
      split.
      + intros n p. rewrite Hf. destruct RS as (_ & Hff & _). apply Hff.
      + intros k [Ek|Hin]; [|auto]. eapply rec_none_msteps; [exact M|congruence|]. apply FF. congruence.
  Qed.

  Lemma sync_records_ff rf s (st : state A) : (forall d, rf d = RNone) ->
    exists st', sync_records rf s st = (st', true) /\ msteps st st' /\
                (forall n p, file st' n p = file st n p) /\ clean_r st' s.
  Proof.
    intros Hrf. unfold Model_C14.sync_records.
    destruct (groups_loop_ff rf s Hrf (rec_dests owner_r s st) st) as (st' & E & M & Hf & Hk).
    - intros d Hd. apply rec_dests_spec in Hd. tauto.
    - exists st'. repeat split; auto.
      intros k Hk'. destruct (rec_ st s k) eqn:Er.
      + apply Hk. apply rec_dests_spec. split; [exact Hk'|]. exists k. split; [reflexivity|congruence].
      + eapply rec_none_msteps; eauto.
  Qed.

  Lemma once_files_ext (st st' : state A) :
    (forall n p, file st' n p = file st n p) -> once_files st -> once_files st'.
  Proof. intros E On n1 n2 p H1 H2. rewrite E in *. eapply On; eauto. Qed.

  Lemma sync_node_ff fixed s (st0 st : state A) :
    good st0 -> inv st0 st -> ready fixed st ->
    exists st', sync_node fixed no_fault s st = (st', true) /\ msteps st st' /\ ready fixed st' /\
                clean_f st' s /\ clean_r st' s.
  Proof.
    intros G I Rd. unfold Model_C14.sync_node. cbn [no_fault nf_rec nf_file nf_crash].
    destruct (sync_records_ff (fun _ => RNone) s st) as (st1 & E1 & M1 & Hf1 & C1); [reflexivity|]. rewrite E1.
    destruct (sync_shards_ff fixed (fun _ => None) s st0 st1 G) as (st2 & E2 & M2 & Rd2 & C2).
    - reflexivity.
    - eapply inv_msteps; eauto.
    - destruct Rd as [R|On]; [left; exact R|right; eapply once_files_ext; eauto].
    - rewrite E2. exists st2. split; [reflexivity|]. split; [eapply rt_trans; eauto|].
      split; [exact Rd2|]. split; [exact C2|]. eapply clean_r_msteps; eauto.
  Qed.

  Lemma sync_all_ff fixed (st0 : state A) : good st0 ->
    forall order (st : state A), inv st0 st -> ready fixed st ->
      exists st', sync_all fixed (fault_free order) st = (st', map (fun _ => true) order) /\
                  msteps st st' /\ ready fixed st' /\
                  (forall s, In s order -> clean_f st' s /\ clean_r st' s).
  Proof.
    intros G. induction order as [|s order IH]; intros st I Rd.
    - exists st. split; [reflexivity|]. split; [apply rt_refl|]. split; [exact Rd|]. intros s [].
    - cbn [fault_free map Model_C14.sync_all].
      destruct (sync_node_ff fixed s st0 st G I Rd) as (st1 & E1 & M1 & Rd1 & Cf & Cr). rewrite E1.
      destruct (IH st1) as (st2 & E2 & M2 & Rd2 & C2); [eapply inv_msteps; eauto|exact Rd1|].
      fold (fault_free order). rewrite E2. exists st2. split; [reflexivity|].
      split; [eapply rt_trans; eauto|]. split; [exact Rd2|].
      intros x [->|Hx]; [|auto]. split; [eapply clean_f_msteps; eauto|eapply clean_r_msteps; eauto].
  Qed.

  Lemma covers_clean order (st : state A) n : covers order st -> ~ In n order -> clean_f st n /\ clean_r st n.
  Proof. intros C Hn. destruct (C n Hn) as [Cf Cr]. split; intros x _; auto. Qed.

  Lemma converge_from fixed (st0 st : state A) order :
    good st0 -> inv st0 st -> ready fixed st -> covers order st ->
    converged owner_r owner_f st0 (fst (sync_all fixed (fault_free order) st)) /\
    snd (sync_all fixed (fault_free order) st) = map (fun _ => true) order.
  Proof.
    intros G I Rd Cov.
    destruct (sync_all_ff fixed st0 G order st I Rd) as (st' & E & M & _ & C). rewrite E. cbn [fst snd].
    split; [|reflexivity]. apply converged_of_clean; [exact G|eapply inv_msteps; eauto|].
    intros n. destruct (in_dec node_dec n order) as [Hin|Hnin]; [auto|].
    destruct (covers_clean order st n Cov Hnin) as [Cf Cr].
    split; [eapply clean_f_msteps; eauto|eapply clean_r_msteps; eauto].
  Qed.

  (* ---------------- c14_converges ---------------- *)
  Lemma thm_converges fixed (st0 : state A) order :
    good st0 -> (fixed = true \/ once_files st0) -> covers order st0 ->
    converged owner_r owner_f st0 (fst (sync_all fixed (fault_free order) st0)) /\
    snd (sync_all fixed (fault_free order) st0) = map (fun _ => true) order.
  Proof. intros G Rd Cov. apply converge_from; auto. apply inv_refl. Qed.

  (* ---------------- c14_resume ---------------- *)
  Lemma thm_resume (st0 st : state A) order :
    good st0 -> reach true st0 st -> covers order st ->
    converged owner_r owner_f st0 (fst (sync_all true (fault_free order) st)) /\
    snd (sync_all true (fault_free order) st) = map (fun _ => true) order.
  Proof.
    intros G R Cov. apply converge_from; auto.
    - eapply (reach_inv true); eauto.
    - left; reflexivity.
  Qed.


  (* ---------------- the phases of the nodes in any order ---------------- *)
  Notation run_phases := (run_phases H_dec hash h0 chunk owner_r owner_f).
  Notation run_phase := (run_phase H_dec hash h0 chunk owner_r owner_f).

  Lemma run_phases_ff fixed (st0 : state A) : good st0 ->
    forall sched (st : state A), inv st0 st -> ready fixed st -> Forall phase_ff sched ->
      msteps st (run_phases fixed sched st) /\ ready fixed (run_phases fixed sched st) /\
      (forall s rf, In (PRec s rf) sched -> clean_r (run_phases fixed sched st) s) /\
      (forall s ff, In (PShard s ff) sched -> clean_f (run_phases fixed sched st) s).
  Proof.
    intros G. induction sched as [|ph sched IH]; intros st I Rd Hff.
    - cbn. split; [apply rt_refl|]. split; [exact Rd|]. split; intros ? ? [].
    - inversion Hff as [|? ? Hph Hff']; subst. cbn [Model_C14.run_phases fold_left].
      fold (run_phases fixed sched (run_phase fixed ph st)).
      assert (Hst1 : msteps st (run_phase fixed ph st) /\ ready fixed (run_phase fixed ph st) /\
                     (forall s rf, ph = PRec s rf -> clean_r (run_phase fixed ph st) s) /\
                     (forall s ff, ph = PShard s ff -> clean_f (run_phase fixed ph st) s)).
      { destruct ph as [s rf|s ff]; cbn [Model_C14.run_phase phase_ff] in *.
        - destruct (sync_records_ff rf s st Hph) as (st1 & E & M & Hf & C). rewrite E. cbn [fst].
          split; [exact M|]. split; [destruct Rd as [R|On]; [left; exact R|right; eapply once_files_ext; eauto]|].
          split; [intros s' rf' Eq; inversion Eq; subst; exact C|intros ? ? Eq; discriminate].
        - destruct (sync_shards_ff fixed ff s st0 st G Hph I Rd) as (st1 & E & M & Rd1 & C). rewrite E. cbn [fst].
          split; [exact M|]. split; [exact Rd1|].
          split; [intros ? ? Eq; discriminate|intros s' ff' Eq; inversion Eq; subst; exact C]. }
      destruct Hst1 as (M1 & Rd1 & Cr1 & Cf1).
      destruct (IH (run_phase fixed ph st)) as (M2 & Rd2 & Cr2 & Cf2); [eapply inv_msteps; eauto|exact Rd1|exact Hff'|].
      split; [eapply rt_trans; eauto|]. split; [exact Rd2|]. split.
      + intros s rf [Eq|Hin]; [eapply clean_r_msteps; eauto|eauto].
      + intros s ff [Eq|Hin]; [eapply clean_f_msteps; eauto|eauto].
  Qed.

  Lemma thm_converges_phases fixed (st0 : state A) sched :
    good st0 -> (fixed = true \/ once_files st0) -> Forall phase_ff sched -> covers_phases sched st0 ->
    converged owner_r owner_f st0 (run_phases fixed sched st0).
  Proof.
    intros G Rd Hff Cov.
    destruct (run_phases_ff fixed st0 G sched st0 (inv_refl st0) Rd Hff) as (M & _ & Cr & Cf).
    apply converged_of_clean; [exact G|eapply inv_msteps; eauto; apply inv_refl|].
    intros n. destruct (Cov n) as [HR HF]. split.
    - destruct HF as [(ff & Hin)|Hf]; [eauto|]. eapply clean_f_msteps; [exact M|]. intros p _. apply Hf.
    - destruct HR as [(rf & Hin)|Hr]; [eauto|]. eapply clean_r_msteps; [exact M|]. intros k _. apply Hr.
  Qed.

  (* ---------------- the pinned receiver: a restarted transfer appends ---------------- *)
  Lemma send_file_append fa src dst p (st : state A) c f :
    file st src p = Some f -> f <> [] -> file st dst p = Some c ->
    (forall j, fails_at fa j = false) -> hash (c ++ f) <> hash f ->
    send_file false fa src dst p st = (set_file st dst p (c ++ f), false).
  Proof.
    intros Ef Hf Ec Hfa Hh. unfold Model_C14.send_file. rewrite Ef.
    destruct (rpc_chunks_split f) as (ds & Hds & Hlen & Hcat).
    destruct (send_loop_ok false fa (rpc_chunks f) 0 (file st dst p) h0) as [ck L].
    { rewrite Hds. destruct ds; discriminate. }
    { intros; apply Hfa. }
    rewrite L. rewrite Ec in *. cbn [eff_base andb] in *.
    assert (Hc : concat (rpc_chunks f) = f).
    { rewrite Hds, concat_app, Hcat. cbn. apply app_nil_r. }
    rewrite Hc in *. rewrite Hfa.
    pose proof L as L2. rewrite Hds in L2. apply send_loop_ck in L2; [|specialize (Hlen Hf); lia].
    destruct L2 as (c' & Hc' & Hck). inversion Hc'; subst c'.
    destruct (H_dec ck (hash f)); [congruence|reflexivity].
  Qed.

  Notation retries := (retries H_dec hash h0 chunk).

  Lemma retries_append src dst p (st : state A) c f :
    src <> dst -> file st src p = Some f -> f <> [] -> file st dst p = Some c -> c <> [] ->
    (forall g, hash g = hash f -> g = f) ->
    forall n, file (retries false n src dst p st) src p = Some f /\
              (exists g, file (retries false n src dst p st) dst p = Some (c ++ g) /\
                         length g = (n * length f)%nat) /\
              send_file false None src dst p (retries false n src dst p st)
              = (retries false (S n) src dst p st, false).
  Proof.
    intros Hsd Ef Hf Ec Hc Hinj.
    assert (Hstep : forall st1 g, file st1 src p = Some f -> file st1 dst p = Some (c ++ g) ->
              send_file false None src dst p st1 = (set_file st1 dst p ((c ++ g) ++ f), false)).
    { intros st1 g E1 E2. apply send_file_append; auto.
      intros Hh. apply Hinj in Hh. apply (f_equal (@length A)) in Hh.
      rewrite !app_length in Hh. destruct c; [congruence|cbn in Hh; lia]. }
    induction n as [|n IH].
    - cbn [Model_C14.retries]. split; [exact Ef|]. split; [exists []; rewrite app_nil_r; split; [exact Ec|reflexivity]|].
      rewrite (Hstep st [] Ef) by (rewrite app_nil_r; exact Ec). reflexivity.
    - destruct IH as (I1 & (g & I2 & I2l) & _).
      set (stn := retries false n src dst p st) in *.
      assert (Es : retries false (S n) src dst p st = set_file stn dst p ((c ++ g) ++ f)).
      { cbn [Model_C14.retries]. fold stn. rewrite (Hstep stn g I1 I2). reflexivity. }
      assert (E1 : file (set_file stn dst p ((c ++ g) ++ f)) src p = Some f).
      { rewrite file_set_file. destruct (node_dec src dst); [congruence|exact I1]. }
      assert (E2 : file (set_file stn dst p ((c ++ g) ++ f)) dst p = Some (c ++ (g ++ f))).
      { rewrite file_set_file. destruct (node_dec dst dst); [|congruence].
        destruct (path_dec p p); [|congruence]. rewrite app_assoc. reflexivity. }
      split; [rewrite Es; exact E1|].
      split; [exists (g ++ f); split; [rewrite Es; exact E2|rewrite app_length, I2l; cbn; lia]|].
      cbn [Model_C14.retries]. fold stn.
      change (fst (send_file false None src dst p stn)) with (retries false (S n) src dst p st).
      rewrite Es. rewrite (Hstep _ (g ++ f) E1 E2). reflexivity.
  Qed.

  (* a transfer interrupted at chunk k >= 1 leaves a non-empty partial file *)
  Lemma interrupted_partial fixed src dst p (st : state A) f k :
    src <> dst -> file st src p = Some f -> f <> [] -> file st dst p = None ->
    (1 <= k < length (rpc_chunks f))%nat ->
    file (fst (send_file fixed (Some k) src dst p st)) src p = Some f /\
    snd (send_file fixed (Some k) src dst p st) = false /\
    exists c, c <> [] /\ file (fst (send_file fixed (Some k) src dst p st)) dst p = Some c /\
              c = concat (firstn k (rpc_chunks f)).
  Proof.
    intros Hsd Ef Hf Ed Hk. unfold Model_C14.send_file. rewrite Ef, Ed.
    destruct (send_loop fixed (Some k) 0 (rpc_chunks f) None h0) as [cur res] eqn:L.
    destruct res as [ck|].
    - pose proof (send_loop_complete _ _ _ _ _ _ _ _ L k) as Hx.
      cbn [fails_at] in Hx. rewrite Nat.eqb_refl in Hx. specialize (Hx ltac:(lia)). discriminate.
    - apply send_loop_partial in L. destruct L as (k' & Hk' & Hfk & _ & Hcur).
      cbn [fails_at] in Hfk. apply Nat.eqb_eq in Hfk. cbn in Hfk. subst k'.
      destruct k as [|k]; [lia|]. cbn [eff_base app] in Hcur. subst cur. cbn [fst snd].
      split; [rewrite file_set_file; destruct (node_dec src dst); [congruence|exact Ef]|].
      split; [reflexivity|]. eexists. split; [|split; [|reflexivity]].
      + destruct (thm_chunking f) as (_ & _ & ds & Hds & Hall & Hne).
        rewrite Hds. specialize (Hne Hf). destruct ds as [|d ds]; [congruence|].
        inversion Hall as [|? ? [Hd _] _]; subst. cbn. destruct d; [congruence|discriminate].
      + rewrite file_set_file. destruct (node_dec dst dst); [|congruence]. destruct (path_dec p p); congruence.
  Qed.

  Lemma thm_retry_append src dst p (st : state A) f k :
    src <> dst -> file st src p = Some f -> f <> [] -> file st dst p = None ->
    (1 <= k < length (rpc_chunks f))%nat -> (forall g, hash g = hash f -> g = f) ->
    let st1 := fst (send_file false (Some k) src dst p st) in
    let c := concat (firstn k (rpc_chunks f)) in
    c <> [] /\
    forall n, file (retries false n src dst p st1) src p = Some f /\
              (exists g, file (retries false n src dst p st1) dst p = Some (c ++ g) /\
                         length g = (n * length f)%nat) /\
              snd (send_file false None src dst p (retries false n src dst p st1)) = false.
  Proof.
    intros Hsd Ef Hf Ed Hk Hinj st1 c.
    destruct (interrupted_partial false src dst p st f k Hsd Ef Hf Ed Hk) as (E1 & _ & c' & Hc & E2 & Hcc).
    fold st1 in E1, E2. fold c in Hcc. subst c'. split; [exact Hc|]. intros n.
    destruct (retries_append src dst p st1 c f Hsd E1 Hf E2 Hc Hinj n) as (R1 & (g & R2 & R2l) & R3).
    split; [exact R1|]. split; [exists g; auto|rewrite R3; reflexivity].
  Qed.


  (* ---------------- an empty file is never moved ---------------- *)
  Lemma thm_empty_file fixed src dst p (st : state A) :
    src <> dst -> file st src p = Some [] -> hash [] <> h0 ->
    snd (send_file fixed None src dst p st) = false /\
    file (fst (send_file fixed None src dst p st)) src p = Some [] /\
    length (rpc_chunks (@nil A)) = 1%nat.
  Proof.
    intros Hsd Ef Hh. unfold Model_C14.send_file. rewrite Ef. cbn.
    destruct (H_dec h0 (hash [])) as [E|E]; [congruence|]. cbn.
    split; [reflexivity|]. split; [|reflexivity].
    rewrite file_set_file. destruct (node_dec src dst); [congruence|exact Ef].
  Qed.

End P.

(* ------------------------------------------------------------------ *)
(* statements without the section parameters they do not depend on      *)
Definition unit_dec (a b : unit) : {a = b} + {a <> b} := match a, b with tt, tt => left eq_refl end.

Lemma chunking_clean (A : Type) (chunk : nat) (f : list A) : (1 <= chunk)%nat ->
  concat (rpc_chunks chunk f) = f /\
  length (rpc_chunks chunk f) = S (ceil_div (length f) chunk) /\
  (exists ds, rpc_chunks chunk f = ds ++ [[]] /\
              Forall (fun c => c <> [] /\ (length c <= chunk)%nat) ds /\ (f <> [] -> ds <> [])).
Proof. intros Hc. exact (thm_chunking unit_dec (fun _ => tt) tt chunk Hc f). Qed.

Lemma ceil_div_spec a b : (1 <= b)%nat -> (b * ceil_div a b < a + b /\ a <= b * ceil_div a b)%nat.
Proof.
  intros Hb. unfold ceil_div.
  pose proof (Nat.div_mod (a + b - 1) b ltac:(lia)) as E.
  pose proof (Nat.mod_upper_bound (a + b - 1) b ltac:(lia)) as M.
  split; nia.
Qed.

Lemma source_removed_clean (A H : Type) (H_dec : forall a b : H, {a = b} + {a <> b}) (hash : list A -> H) (h0 : H)
      (chunk : nat) : (1 <= chunk)%nat ->
  forall fixed fa src dst p (st : state A) f,
    src <> dst -> file st src p = Some f -> f <> [] ->
    file (fst (send_file H_dec hash h0 chunk fixed fa src dst p st)) src p = None ->
    snd (send_file H_dec hash h0 chunk fixed fa src dst p st) = true /\
    exists c, file (fst (send_file H_dec hash h0 chunk fixed fa src dst p st)) dst p = Some c /\ hash c = hash f /\
              ((forall g, hash g = hash f -> g = f) -> c = f).
Proof. intros Hc. exact (thm_source_removed H_dec hash h0 chunk (fun _ => []) (fun _ => []) Hc). Qed.

(* with the repaired receiver the copy is the file itself, whatever the checksum function *)
Lemma source_removed_fixed (A H : Type) (H_dec : forall a b : H, {a = b} + {a <> b}) (hash : list A -> H) (h0 : H)
      (chunk : nat) : (1 <= chunk)%nat ->
  forall fa src dst p (st : state A) f,
    src <> dst -> file st src p = Some f ->
    file (fst (send_file H_dec hash h0 chunk true fa src dst p st)) src p = None ->
    file (fst (send_file H_dec hash h0 chunk true fa src dst p st)) dst p = Some f.
Proof.
  intros Hc fa src dst p st f Hs Hf Hrm.
  destruct (send_file_cases H_dec hash h0 chunk (fun _ => []) (fun _ => []) Hc true fa src dst p st) as [[Hn E]|(f' & Hf' & [E|[(c & E)|(c & E & _ & Hfx)]])];
    rewrite E in *; cbn [fst snd] in *.
  - congruence.
  - congruence.
  - rewrite file_set_file in Hrm. destruct (node_dec src dst); congruence.
  - rewrite (Hfx eq_refl). rewrite file_del_file. destruct (node_dec dst src); [congruence|].
    rewrite file_set_file. destruct (node_dec dst dst); [|congruence]. destruct (path_dec p p); congruence.
Qed.

Lemma retry_append_clean (A H : Type) (H_dec : forall a b : H, {a = b} + {a <> b}) (hash : list A -> H) (h0 : H)
      (chunk : nat) : (1 <= chunk)%nat ->
  forall src dst p (st : state A) f k,
    src <> dst -> file st src p = Some f -> f <> [] -> file st dst p = None ->
    (1 <= k < length (rpc_chunks chunk f))%nat -> (forall g, hash g = hash f -> g = f) ->
    let st1 := fst (send_file H_dec hash h0 chunk false (Some k) src dst p st) in
    let c := concat (firstn k (rpc_chunks chunk f)) in
    c <> [] /\
    forall n, file (retries H_dec hash h0 chunk false n src dst p st1) src p = Some f /\
              (exists g, file (retries H_dec hash h0 chunk false n src dst p st1) dst p = Some (c ++ g) /\
                         length g = (n * length f)%nat) /\
              snd (send_file H_dec hash h0 chunk false None src dst p
                     (retries H_dec hash h0 chunk false n src dst p st1)) = false.
Proof. intros Hc. exact (thm_retry_append H_dec hash h0 chunk (fun _ => []) (fun _ => []) Hc). Qed.

Lemma reach_sync (A H : Type) (H_dec : forall a b : H, {a = b} + {a <> b}) (hash : list A -> H) (h0 : H)
      (chunk : nat) (owner_r : key -> node) (owner_f : path -> node) (fixed : bool) :
  (forall plan (st : state A),
     reach H_dec hash h0 chunk owner_r owner_f fixed st (fst (sync_all H_dec hash h0 chunk owner_r owner_f fixed plan st))) /\
  (forall sched (st : state A),
     reach H_dec hash h0 chunk owner_r owner_f fixed st (run_phases H_dec hash h0 chunk owner_r owner_f fixed sched st)) /\
  (forall a b c : state A, reach H_dec hash h0 chunk owner_r owner_f fixed a b ->
     reach H_dec hash h0 chunk owner_r owner_f fixed b c -> reach H_dec hash h0 chunk owner_r owner_f fixed a c).
Proof.
  split; [|split].
  - apply sync_all_reach.
  - apply run_phases_reach.
  - apply reach_trans.
Qed.

(* ------------------------------------------------------------------ *)
(* the example placements satisfy the hypotheses                        *)
From Coq Require Import String.
From Semadb Require Import Model_C13.
Open Scope string_scope.
Lemma mk_state_get {A} (l : list (node * nstate A)) n :
  mk_state l n = match al_get node_dec n l with Some x => x | None => mkN [] [] end.
Proof. reflexivity. Qed.

Ltac ex_nodes n :=
  destruct (node_dec n ex_n1) as [->|?]; [|destruct (node_dec n ex_n2) as [->|?]].

Lemma ex_file_cases n p f : file ex_st0 n p = Some f ->
  (n = ex_n1 /\ p = ex_p1 /\ f = ex_f1) \/ (n = ex_n1 /\ p = ex_p2 /\ f = ex_f2) \/ (n = ex_n2 /\ p = ex_p3 /\ f = ex_f3).
Proof.
  unfold file, ex_st0. rewrite mk_state_get. cbn [al_get].
  destruct (node_dec n ex_n1) as [->|N1].
  - cbn [files al_get]. destruct (path_dec p ex_p1) as [->|P1]; [intros E; inversion E; auto|].
    destruct (path_dec p ex_p2) as [->|P2]; [intros E; inversion E; auto|discriminate].
  - destruct (node_dec n ex_n2) as [->|N2]; [|discriminate].
    cbn [files al_get]. destruct (path_dec p ex_p3) as [->|P3]; [intros E; inversion E; auto 6|discriminate].
Qed.

Lemma ex_rec_cases n k v : rec_ ex_st0 n k = Some v -> (n = ex_n1 \/ n = ex_n2) /\ In (k, v)
  [(str "u1/c1", [1; 1]%N); (str "u2/c1", [2; 2]%N); (str "u5/c9", [3]%N)] /\
  (n = ex_n2 <-> k = str "u5/c9").
Proof.
  unfold rec_, ex_st0. rewrite mk_state_get. cbn [al_get].
  destruct (node_dec n ex_n1) as [->|N1].
  - cbn [recs al_get]. destruct (key_dec k (str "u1/c1")) as [->|K1].
    + intros E; inversion E. split; [auto|]. split; [left; reflexivity|]. split; intros X; [vm_compute in X|]; discriminate.
    + destruct (key_dec k (str "u2/c1")) as [->|K2]; [|discriminate].
      intros E; inversion E. split; [auto|]. split; [right; left; reflexivity|]. split; intros X; [vm_compute in X|]; discriminate.
  - destruct (node_dec n ex_n2) as [->|N2]; [|discriminate].
    cbn [recs al_get]. destruct (key_dec k (str "u5/c9")) as [->|K]; [|discriminate].
    intros E; inversion E. split; [auto|]. split; [right; right; left; reflexivity|]. split; reflexivity.
Qed.

Lemma ex_good : good ex_st0 /\ once_files ex_st0 /\ collision_free id_hash ex_st0 /\
                covers [ex_n3; ex_n1; ex_n2] ex_st0.
Proof.
  split; [split; [|split]|split; [|split]].
  - intros n1 n2 p f1 f2 H1 H2. apply ex_file_cases in H1, H2.
    destruct H1 as [(-> & -> & ->)|[(-> & -> & ->)|(-> & -> & ->)]];
      destruct H2 as [(? & E & ->)|[(? & E & ->)|(? & E & ->)]]; try reflexivity; vm_compute in E; discriminate.
  - intros n1 n2 k v1 v2 H1 H2. apply ex_rec_cases in H1, H2.
    destruct H1 as (_ & I1 & _), H2 as (_ & I2 & _). cbn [In] in I1, I2.
    repeat match goal with H : _ \/ _ |- _ => destruct H end; try contradiction;
      repeat match goal with H : (_, _) = (_, _) |- _ => inversion H; clear H end; subst; try reflexivity;
      match goal with H : str _ = str _ |- _ => vm_compute in H; discriminate end.
  - intros n p f H. apply ex_file_cases in H.
    destruct H as [(_ & _ & ->)|[(_ & _ & ->)|(_ & _ & ->)]]; discriminate.
  - intros n1 n2 p H1 H2.
    destruct (file ex_st0 n1 p) as [f1|] eqn:E1; [|congruence].
    destruct (file ex_st0 n2 p) as [f2|] eqn:E2; [|congruence].
    apply ex_file_cases in E1, E2.
    destruct E1 as [(-> & -> & _)|[(-> & -> & _)|(-> & -> & _)]];
      destruct E2 as [(-> & E & _)|[(-> & E & _)|(-> & E & _)]]; try reflexivity; vm_compute in E; discriminate.
  - intros n p f H g Hg. unfold id_hash in Hg. congruence.
  - intros n Hn. split.
    + intros p. destruct (file ex_st0 n p) eqn:E; [|reflexivity]. apply ex_file_cases in E.
      exfalso. apply Hn. cbn [In]. destruct E as [(-> & _)|[(-> & _)|(-> & _)]]; auto.
    + intros k. destruct (rec_ ex_st0 n k) eqn:E; [|reflexivity]. apply ex_rec_cases in E.
      exfalso. apply Hn. cbn [In]. destruct E as ([->| ->] & _); auto.
Qed.

(* ------------------------------------------------------------------ *)
(* a colliding checksum + the pinned receiver lose a file                *)
Lemma send_file_other {A H} (H_dec : forall a b : H, {a = b} + {a <> b}) (hash : list A -> H) h0 chunk
      fixed fa src dst p (st : state A) n q :
  (1 <= chunk)%nat -> n <> src -> n <> dst ->
  file (fst (send_file H_dec hash h0 chunk fixed fa src dst p st)) n q = file st n q.
Proof.
  intros Hc Hs Hd.
  destruct (send_file_cases H_dec hash h0 chunk (fun _ => []) (fun _ => []) Hc fixed fa src dst p st)
    as [[_ E]|(f & _ & [E|[(c & E)|(c & E & _)]])]; rewrite E; cbn [fst]; try reflexivity.
  - rewrite file_set_file. destruct (node_dec n dst); [contradiction|reflexivity].
  - rewrite file_del_file. destruct (node_dec n src); [contradiction|].
    rewrite file_set_file. destruct (node_dec n dst); [contradiction|reflexivity].
Qed.

Definition hash_c (l : list N) : unit := tt.
Definition ex_c1 : state N := fst (send_file unit_dec hash_c tt 1 false (Some 1%nat) ex_a ex_b ex_p1 ex_stc).
Definition ex_c2 : state N := fst (send_file unit_dec hash_c tt 1 false None ex_a ex_b ex_p1 ex_c1).

Lemma ex_collision :
  good ex_stc /\ file ex_stc ex_a ex_p1 = Some [1; 2]%N /\
  reach unit_dec hash_c tt 1 (fun _ => ex_b) (fun _ => ex_b) false ex_stc ex_c2 /\
  file ex_c1 ex_b ex_p1 = Some [1]%N /\
  file ex_c2 ex_b ex_p1 = Some [1; 1; 2]%N /\ (forall n, file ex_c2 n ex_p1 <> Some [1; 2]%N).
Proof.
  assert (Hab : ex_a <> ex_b) by (intros E; vm_compute in E; discriminate).
  assert (Cases : forall n p f, file ex_stc n p = Some f -> n = ex_a /\ p = ex_p1 /\ f = [1; 2]%N).
  { intros n p f. unfold file, ex_stc. rewrite mk_state_get. cbn [al_get].
    destruct (node_dec n ex_a) as [->|]; [|discriminate]. cbn [files al_get].
    destruct (path_dec p ex_p1) as [->|]; [|discriminate]. intros E; inversion E; auto. }
  split; [split; [|split]|].
  - intros n1 n2 p f1 f2 H1 H2. apply Cases in H1, H2. destruct H1 as (_ & _ & ->), H2 as (_ & _ & ->). reflexivity.
  - intros n1 n2 k v1 v2 H1. unfold rec_, ex_stc in H1. rewrite mk_state_get in H1. cbn [al_get] in H1.
    destruct (node_dec n1 ex_a); cbn in H1; discriminate.
  - intros n p f Hf. apply Cases in Hf. destruct Hf as (_ & _ & ->). discriminate.
  - split; [vm_compute; reflexivity|]. split; [|split; [vm_compute; reflexivity|split; [vm_compute; reflexivity|]]].
    + eapply Relation_Operators.rtn1_trans.
      * exact (step_file unit_dec hash_c tt 1 (fun _ => ex_b) (fun _ => ex_b) false ex_c1 ex_a ex_p1 None Hab).
      * eapply Relation_Operators.rtn1_trans; [|apply rtn1_refl].
        exact (step_file unit_dec hash_c tt 1 (fun _ => ex_b) (fun _ => ex_b) false ex_stc ex_a ex_p1 (Some 1%nat) Hab).
    + intros n. destruct (node_dec n ex_a) as [->|Na]; [vm_compute; discriminate|].
      destruct (node_dec n ex_b) as [->|Nb]; [vm_compute; discriminate|].
      unfold ex_c2, ex_c1. rewrite !send_file_other by (auto; lia).
      intros Hx. apply Cases in Hx. destruct Hx as (Hx & _). contradiction.
Qed.
