(* Proofs_C14.v -- lemmas for property C14 (start-up rebalancing). *)
From Coq Require Import List NArith Bool Arith Lia Relations.
From Semadb Require Import Bytes Model_C14.
Import ListNotations.

(* ------------------------------------------------------------------ *)
(* association lists                                                     *)
Section ALp.
  Context {K V : Type} (K_dec : forall a b : K, {a = b} + {a <> b}).

  Lemma al_get_del k' k (m : list (K * V)) :
    al_get K_dec k' (al_del K_dec k m) = if K_dec k' k then None else al_get K_dec k' m.
  Proof.
    induction m as [|[k1 v1] m IH]; cbn.
    - destruct (K_dec k' k); reflexivity.
    - destruct (K_dec k k1) as [E|E].
      + subst k1. rewrite IH. destruct (K_dec k' k); reflexivity.
      + cbn. destruct (K_dec k' k1) as [E1|E1].
        * subst k1. destruct (K_dec k' k); [congruence|reflexivity].
        * exact IH.
  Qed.

  Lemma al_get_put k' k v (m : list (K * V)) :
    al_get K_dec k' (al_put K_dec k v m) = if K_dec k' k then Some v else al_get K_dec k' m.
  Proof.
    unfold al_put. cbn. destruct (K_dec k' k) as [E|E]; [reflexivity|].
    rewrite al_get_del. destruct (K_dec k' k); [contradiction|reflexivity].
  Qed.

  Lemma al_get_in_keys k (m : list (K * V)) : al_get K_dec k m <> None <-> In k (al_keys K_dec m).
  Proof.
    unfold al_keys. rewrite nodup_In.
    induction m as [|[k1 v1] m IH]; cbn.
    - tauto.
    - destruct (K_dec k k1) as [E|E].
      + subst. split; [auto|discriminate].
      + rewrite IH. split; [auto|]. intros [E1|E1]; [congruence|exact E1].
  Qed.

  Lemma al_get_filter_key (g : K -> bool) k (m : list (K * V)) :
    al_get K_dec k (filter (fun kv => g (fst kv)) m) = if g k then al_get K_dec k m else None.
  Proof.
    induction m as [|[k1 v1] m IH]; cbn.
    - destruct (g k); reflexivity.
    - destruct (g k1) eqn:G1; cbn.
      + destruct (K_dec k k1) as [E|E]; [subst; rewrite G1; reflexivity|exact IH].
      + destruct (K_dec k k1) as [E|E]; [subst; rewrite G1 in *; exact IH|exact IH].
  Qed.

  Lemma al_get_in_map_fst k (m : list (K * V)) : al_get K_dec k m <> None <-> In k (map fst m).
  Proof. rewrite al_get_in_keys. unfold al_keys. apply nodup_In. Qed.
End ALp.

(* ------------------------------------------------------------------ *)
(* states                                                                *)
Section St.
  Context {A : Type}.
  Implicit Types st : state A.

  Lemma file_set_file st n p c n' p' :
    file (set_file st n p c) n' p' =
    if node_dec n' n then (if path_dec p' p then Some c else file st n' p') else file st n' p'.
  Proof.
    unfold file, set_file, upd. destruct (node_dec n' n) as [E|E]; [|reflexivity].
    subst. cbn. apply al_get_put.
  Qed.
  Lemma file_del_file st n p n' p' :
    file (del_file st n p) n' p' =
    if node_dec n' n then (if path_dec p' p then None else file st n' p') else file st n' p'.
  Proof.
    unfold file, del_file, upd. destruct (node_dec n' n) as [E|E]; [|reflexivity].
    subst. cbn. apply al_get_del.
  Qed.
  Lemma rec_set_file st n p c n' k : rec_ (set_file st n p c) n' k = rec_ st n' k.
  Proof. unfold rec_, set_file, upd. destruct (node_dec n' n); subst; reflexivity. Qed.
  Lemma rec_del_file st n p n' k : rec_ (del_file st n p) n' k = rec_ st n' k.
  Proof. unfold rec_, del_file, upd. destruct (node_dec n' n); subst; reflexivity. Qed.
  Lemma file_put_rec st n k v n' p : file (put_rec st n k v) n' p = file st n' p.
  Proof. unfold file, put_rec, upd. destruct (node_dec n' n); subst; reflexivity. Qed.
  Lemma file_del_rec st n k n' p : file (del_rec st n k) n' p = file st n' p.
  Proof. unfold file, del_rec, upd. destruct (node_dec n' n); subst; reflexivity. Qed.
  Lemma rec_put_rec st n k v n' k' :
    rec_ (put_rec st n k v) n' k' =
    if node_dec n' n then (if key_dec k' k then Some v else rec_ st n' k') else rec_ st n' k'.
  Proof.
    unfold rec_, put_rec, upd. destruct (node_dec n' n) as [E|E]; [|reflexivity].
    subst. cbn. apply al_get_put.
  Qed.
  Lemma rec_del_rec st n k n' k' :
    rec_ (del_rec st n k) n' k' =
    if node_dec n' n then (if key_dec k' k then None else rec_ st n' k') else rec_ st n' k'.
  Proof.
    unfold rec_, del_rec, upd. destruct (node_dec n' n) as [E|E]; [|reflexivity].
    subst. cbn. apply al_get_del.
  Qed.
End St.

(* ------------------------------------------------------------------ *)
Section P.
  Context {A H : Type}.
  Variable H_dec : forall a b : H, {a = b} + {a <> b}.
  Variable hash : list A -> H.
  Variable h0 : H.
  Variable chunk : nat.
  Variable owner_r : key -> node.
  Variable owner_f : path -> node.
  Hypothesis chunk_pos : (1 <= chunk)%nat.

  Notation data_chunks := (data_chunks chunk).
  Notation rpc_chunks := (rpc_chunks chunk).
  Notation recv_chunk := (recv_chunk hash h0).
  Notation send_loop := (send_loop hash h0).
  Notation send_file := (send_file H_dec hash h0 chunk).
  Notation send_group := (send_group owner_r).

  (* ---------------- chunking ---------------- *)
  Lemma data_chunks_concat fuel (f : list A) : (length f <= fuel)%nat -> concat (data_chunks fuel f) = f.
  Proof.
    revert f. induction fuel as [|n IH]; intros f Hl.
    - destruct f; [reflexivity|cbn in Hl; lia].
    - destruct f as [|a f]; [reflexivity|].
      cbn [Model_C14.data_chunks concat]. rewrite IH.
      + apply firstn_skipn.
      + rewrite skipn_length. cbn [length] in *. lia.
  Qed.

  Lemma data_chunks_nonempty fuel (f : list A) : Forall (fun c => c <> []) (data_chunks fuel f).
  Proof.
    revert f. induction fuel as [|n IH]; intros f; [constructor|].
    destruct f as [|a f]; [constructor|].
    cbn [Model_C14.data_chunks]. constructor; [|apply IH].
    destruct chunk; [lia|]. cbn. discriminate.
  Qed.

  Lemma data_chunks_bounded fuel (f : list A) : Forall (fun c => (length c <= chunk)%nat) (data_chunks fuel f).
  Proof.
    revert f. induction fuel as [|n IH]; intros f; [constructor|].
    destruct f as [|a f]; [constructor|].
    cbn [Model_C14.data_chunks]. constructor; [|apply IH].
    rewrite firstn_length. lia.
  Qed.

  Definition ceil_div (a b : nat) : nat := ((a + b - 1) / b)%nat.

  Lemma ceil_div_pos a : (0 < a)%nat -> ceil_div a chunk = S ((a - 1) / chunk).
  Proof.
    intros Ha. unfold ceil_div.
    replace (a + chunk - 1)%nat with ((a - 1) + 1 * chunk)%nat by lia.
    rewrite Nat.div_add by lia. lia.
  Qed.

  Lemma data_chunks_length fuel (f : list A) :
    (length f <= fuel)%nat -> length (data_chunks fuel f) = ceil_div (length f) chunk.
  Proof.
    revert f. induction fuel as [|n IH]; intros f Hl.
    - destruct f; [|cbn in Hl; lia]. cbn. unfold ceil_div. cbn.
      symmetry. apply Nat.div_small. lia.
    - destruct f as [|a f].
      + cbn. unfold ceil_div. cbn. symmetry. apply Nat.div_small. lia.
      + cbn [Model_C14.data_chunks length]. rewrite IH by (rewrite skipn_length; cbn [length] in *; lia).
        rewrite skipn_length. rewrite (ceil_div_pos (S (length f))) by lia.
        f_equal. cbn [length].
        destruct (le_lt_dec (S (length f)) chunk) as [Hs|Hs].
        * replace (S (length f) - chunk)%nat with 0%nat by lia.
          unfold ceil_div. rewrite Nat.div_small by lia. rewrite Nat.div_small by lia. reflexivity.
        * rewrite ceil_div_pos by lia.
          replace (S (length f) - 1)%nat with ((S (length f) - chunk - 1) + 1 * chunk)%nat by lia.
          rewrite Nat.div_add by lia. lia.
  Qed.

  Lemma thm_chunking (f : list A) :
    concat (rpc_chunks f) = f /\
    length (rpc_chunks f) = S (ceil_div (length f) chunk) /\
    (exists ds, rpc_chunks f = ds ++ [[]] /\
                Forall (fun c => c <> [] /\ (length c <= chunk)%nat) ds /\
                (f <> [] -> ds <> [])).
  Proof.
    unfold Model_C14.rpc_chunks. split; [|split].
    - rewrite concat_app. cbn. rewrite app_nil_r. apply data_chunks_concat. lia.
    - rewrite app_length. cbn. rewrite data_chunks_length by lia. lia.
    - exists (data_chunks (length f) f). split; [reflexivity|]. split.
      + pose proof (data_chunks_nonempty (length f) f) as H1.
        pose proof (data_chunks_bounded (length f) f) as H2.
        rewrite Forall_forall in *. intros c Hc. split; auto.
      + intros Hf Hd. destruct f as [|a f]; [congruence|]. cbn in Hd. discriminate.
  Qed.

  (* ---------------- the chunk loop ---------------- *)
  (* the reply to the terminal empty chunk is the checksum of the destination file,
     provided its index is > 0 *)
  Lemma send_loop_ck fixed fa : forall (ds : list (list A)) i cur ck cur' ck',
    send_loop fixed fa i (ds ++ [[]]) cur ck = (cur', Some ck') ->
    (0 < i + length ds)%nat ->
    exists c, cur' = Some c /\ ck' = hash c.
  Proof.
    induction ds as [|d ds IH]; intros i cur ck cur' ck' Hs Hi.
    - cbn in Hs. destruct (fails_at fa i); [discriminate|].
      inversion Hs; subst. eexists; split; [reflexivity|].
      cbn in Hi. destruct i; [lia|]. reflexivity.
    - cbn [app Model_C14.send_loop] in Hs. destruct (fails_at fa i); [discriminate|].
      destruct (recv_chunk fixed cur i d) as [f' ck1] eqn:R.
      eapply IH; [exact Hs|cbn [length] in Hi; lia].
  Qed.

  Definition eff_base (fixed : bool) (i : nat) (cur : option (list A)) : list A :=
    match cur with None => [] | Some c => if fixed && (i =? 0)%nat then [] else c end.

  (* without a fault every chunk is appended to the (possibly truncated) file *)
  Lemma send_loop_ok fixed fa : forall (cs : list (list A)) i cur ck,
    cs <> [] -> (forall j, (i <= j < i + length cs)%nat -> fails_at fa j = false) ->
    exists ck', send_loop fixed fa i cs cur ck = (Some (eff_base fixed i cur ++ concat cs), Some ck').
  Proof.
    induction cs as [|c cs IH]; intros i cur ck Hne Hf; [congruence|].
    cbn [Model_C14.send_loop]. rewrite Hf by (cbn [length]; lia).
    unfold Model_C14.recv_chunk.
    fold (eff_base fixed i cur).
    destruct cs as [|c2 cs].
    - cbn. rewrite app_nil_r. eexists; reflexivity.
    - destruct (IH (S i) (Some (eff_base fixed i cur ++ c))
                   (if (0 <? i)%nat && is_nil c then hash (eff_base fixed i cur ++ c) else h0)) as [ck' E].
      + discriminate.
      + intros j Hj. apply Hf. cbn [length] in *. lia.
      + exists ck'. rewrite E. f_equal. f_equal.
        unfold eff_base at 1.
        replace (fixed && (S i =? 0)%nat) with false by (cbn; rewrite andb_false_r; reflexivity).
        cbn [concat]. rewrite <- !app_assoc. reflexivity.
  Qed.

  (* a faulty loop never touches anything but the destination file: by construction.
     What the destination holds when the loop stopped at chunk k (fixed receiver,
     or no previous file): the first k chunks. *)
  Lemma send_loop_partial fixed fa : forall (cs : list (list A)) i cur ck cur',
    send_loop fixed fa i cs cur ck = (cur', None) ->
    exists k, (k < length cs)%nat /\ fails_at fa (i + k) = true /\
              (forall j, (j < k)%nat -> fails_at fa (i + j) = false) /\
              cur' = match k with O => cur | S _ => Some (eff_base fixed i cur ++ concat (firstn k cs)) end.
  Proof.
    induction cs as [|c cs IH]; intros i cur ck cur' Hs; [discriminate|].
    cbn [Model_C14.send_loop] in Hs. destruct (fails_at fa i) eqn:F.
    - inversion Hs; subst. exists 0%nat. cbn [length]. rewrite Nat.add_0_r.
      repeat split; [lia|exact F|intros; lia].
    - unfold Model_C14.recv_chunk in Hs. fold (eff_base fixed i cur) in Hs.
      apply IH in Hs. destruct Hs as (k & Hk & Hfk & Hbefore & Hcur).
      exists (S k). cbn [length]. repeat split.
      + lia.
      + replace (i + S k)%nat with (S i + k)%nat by lia. exact Hfk.
      + intros j Hj. destruct j; [rewrite Nat.add_0_r; exact F|].
        replace (i + S j)%nat with (S i + j)%nat by lia. apply Hbefore. lia.
      + rewrite Hcur. destruct k.
        * cbn. rewrite app_nil_r. reflexivity.
        * f_equal. cbn [eff_base firstn concat].
          replace (fixed && (S i =? 0)%nat) with false by (cbn; rewrite andb_false_r; reflexivity).
          rewrite app_assoc. reflexivity.
  Qed.
End P.
