(* Props_C06.v -- property C06: hybrid scores, field selection, sorting and
   paging behave as documented.  Statements about Model_C06.v (the model the
   replay Run_C06.v judges the real shard with); every proof is
   `exact <lemma of Proofs_C06.v>`.

   Reading guide.
   * `merge_ranked is_or final children` is searchParallel's merge loop: the
     children's ranked lists are walked in sub-query order, `_and` drops ids
     outside `final`, entries are de-duplicated by id with `HybridScore +=`,
     the first non-nil Distance / Score is kept.  `contribs id children` are
     the entries carrying `id`, one per child that contains it, in child order;
     `sum_left [h1;h2;h3] = (h1 + h2) + h3` (Qplus, literally the order in which
     the code adds); `first_some` = first value that is not None.
   * `eval` evaluates a query tree to (matched set, ranked entries, leaf_order
     flag, unconsumed standalone answers); `eval_list` evaluates the children
     of a composite node left to right; `composite true qs = QOr qs`,
     `composite false qs = QAnd qs`.
   * `cmp_preorder cmp`: the three-way comparator is reflexive (Eq), flips
     under exchange of its arguments, and "not Gt" is transitive.
     `is_sorted_perm cmp l l'`: l' is a permutation of l in which no element is
     Gt its successor -- what ANY correct sort (stable or not) returns.
   * `key_of p d` = utils.AccessNestedProperty; `key_tie k a b`: both documents
     lack key k or both have it with CompareAny = 0.
   * `plain_paths paths`: no path is "*", no path has an empty segment, no
     path's segment list is a prefix of another's. *)
From Coq Require Import List NArith ZArith QArith Bool Sorted Permutation.
From Semadb Require Import Bytes U64 Pack Value Obs Dyadic Model_C19 Model_C01 Model_C02 Model_C04 Model_C06 Model_C06M
  Run_C06 Proofs_C06.
Import ListNotations.
Open Scope N_scope.

(* ===================== merge of ranked sub-results ======================== *)
Theorem c06_merge_spec : forall (is_or : bool) (final : list uuid) (children : list (list rk)),
  Forall (fun c => NoDup (rk_ids c)) children ->
  let res := merge_ranked is_or final children in
  NoDup (rk_ids res) /\                                                   (* each id once *)
  (forall id, In id (rk_ids res) <->                                      (* exactly the ids of the children (within final for _and) *)
              (exists c, In c children /\ In id (rk_ids c)) /\ (is_or = true \/ In id final)) /\
  (forall r, In r res ->
     let cs := contribs (k_id r) children in
     cs <> [] /\
     k_hybrid r = sum_left (map k_hybrid cs) /\                           (* literally ((h1 + h2) + h3) ... in child order *)
     (k_hybrid r == fold_right Qplus 0 (map k_hybrid cs))%Q /\            (* = the sum, as a rational number *)
     k_dist r = first_some (map k_dist cs) /\                             (* first non-nil distance *)
     k_score r = first_some (map k_score cs)).                            (* first non-nil score *)
Proof. exact merge_spec. Qed.
Print Assumptions c06_merge_spec.

(* ===================== set algebra of composite nodes ===================== *)
Theorem c06_set_algebra : forall sc t live (is_or : bool) (qs : list query) (subs : list (list row)),
  (* exactly one sub-query: passed through unchanged (set, ranked list in its own order, leaf_order flag) *)
  (forall c, qs = [c] -> eval sc t live (composite is_or qs) subs = eval sc t live c subs) /\
  (* a child that cannot be evaluated makes the node fail *)
  (eval_list sc t live qs subs = None -> eval sc t live (composite is_or qs) subs = None) /\
  (* two or more: union / intersection of the children's sets, merge of their ranked lists, flag false *)
  (forall ss rks fls subs', eval_list sc t live qs subs = Some (ss, rks, fls, subs') ->
     length ss = length qs /\ length rks = length qs /\ length fls = length qs /\
     ((2 <= length qs)%nat ->
      exists final,
        eval sc t live (composite is_or qs) subs = Some (final, merge_ranked is_or final rks, false, subs') /\
        (forall id, In id final <->
                    if is_or then exists s, In s ss /\ In id s else forall s, In s ss -> In id s) /\
        (Forall (@NoDup uuid) ss -> NoDup final))).
Proof. exact set_algebra. Qed.
Print Assumptions c06_set_algebra.

(* eval_list is the left-to-right evaluation of the children, threading the recorded standalone answers *)
Theorem c06_eval_children : forall sc t live c r subs,
  eval_list sc t live [] subs = Some ([], [], [], subs) /\
  eval_list sc t live (c :: r) subs =
  match eval sc t live c subs with
  | None => None
  | Some (s, rkd, fl, subs') =>
      match eval_list sc t live r subs' with
      | None => None
      | Some (ss, rks, fls, subs'') => Some (s :: ss, rkd :: rks, fl :: fls, subs'')
      end
  end.
Proof. exact eval_children. Qed.
Print Assumptions c06_eval_children.

(* ===================== sorting; the tie-insensitive order check =========== *)
Theorem c06_order_checker_correct : forall (A : Type) (cmp : A -> A -> comparison),
  cmp_preorder cmp ->
  forall l : list A,
    (* the reference order of Run_C06 is a correct sort ... *)
    is_sorted_perm cmp l (sort_by cmp l) /\
    (* ... and every correct sort agrees with it position by position up to ties *)
    forall l', is_sorted_perm cmp l l' ->
      length l' = length l /\
      forall (p : nat) (d : A), (p < length l)%nat -> cmp (nth p l' d) (nth p (sort_by cmp l) d) = Eq.
Proof. exact order_checker_correct. Qed.
Print Assumptions c06_order_checker_correct.

(* CompareAny: different kinds by kind number; within int / float / string by value; everything else equal;
   and it is a total preorder *)
Theorem c06_compare_any_preorder :
  cmp_preorder compare_any /\
  (forall a b, kind_of a <> kind_of b -> compare_any a b = Z.compare (kind_of a) (kind_of b)) /\
  (forall x y, compare_any (VInt x) (VInt y) = Z.compare x y) /\
  (forall x y, compare_any (VF64 x) (VF64 y) = Z.compare (f64_ord x) (f64_ord y)) /\
  (forall x y, compare_any (VF32 x) (VF32 y) = Z.compare (f32_ord x) (f32_ord y)) /\
  (forall x y, compare_any (VStr x) (VStr y) = lex_compare x y) /\
  (forall x y, compare_any (VBool x) (VBool y) = Eq) /\
  (forall x y, compare_any (VArr x) (VArr y) = Eq) /\
  (forall x y, compare_any (VMap x) (VMap y) = Eq) /\
  compare_any VNil VNil = Eq.
Proof. exact compare_any_facts. Qed.
Print Assumptions c06_compare_any_preorder.

(* the comparators Run_C06 sorts with satisfy the hypotheses of c06_order_checker_correct *)
Theorem c06_sort_cmp_preorder : forall keys : list (bytes * bool), cmp_preorder (sort_cmp keys).
Proof. exact sort_cmp_preorder. Qed.
Print Assumptions c06_sort_cmp_preorder.

Theorem c06_desc_cmp_preorder : cmp_preorder desc_cmp.
Proof. exact desc_cmp_preorder. Qed.
Print Assumptions c06_desc_cmp_preorder.

(* ===================== missing values last ================================ *)
Theorem c06_missing_last :
  (* one key, either direction: the document lacking the key comes after the one having it *)
  (forall p desc a b, key_of p a = None -> key_of p b <> None ->
     sort_cmp [(p, desc)] a b = Gt /\ sort_cmp [(p, desc)] b a = Lt) /\
  (* several keys: after keys on which the two documents tie, the first key that exactly one of them has decides *)
  (forall pre p desc post a b,
     Forall (fun k => key_tie k a b) pre -> key_of p a = None -> key_of p b <> None ->
     sort_cmp (pre ++ (p, desc) :: post) a b = Gt /\ sort_cmp (pre ++ (p, desc) :: post) b a = Lt) /\
  (* a key both documents lack is skipped *)
  (forall p desc post a b, key_of p a = None -> key_of p b = None ->
     sort_cmp ((p, desc) :: post) a b = sort_cmp post a b).
Proof. exact missing_last. Qed.
Print Assumptions c06_missing_last.

(* the documents that compare Eq are exactly those that tie on every key *)
Theorem c06_sort_ties : forall keys a b, sort_cmp keys a b = Eq <-> Forall (fun k => key_tie k a b) keys.
Proof. exact sort_cmp_eq_ties. Qed.
Print Assumptions c06_sort_ties.

(* ===================== paging ============================================= *)
Theorem c06_pages_partition : forall (A : Type) (xs : list A) (o l : N),
  0 < l ->
  (forall l', 0 < l' -> page o l xs ++ page (o + l) l' xs = page o (l + l') xs) /\
  page o l xs ++ page (o + l) 0 xs = page o 0 xs /\
  (forall n, concat (map (fun i => page (N.of_nat i * l) l xs) (seq 0 n)) = firstn (n * N.to_nat l) xs) /\
  (forall n, (length xs <= n * N.to_nat l)%nat ->
             concat (map (fun i => page (N.of_nat i * l) l xs) (seq 0 n)) = xs).
Proof. exact pages_partition. Qed.
Print Assumptions c06_pages_partition.

Theorem c06_page_beyond_end : forall (A : Type) (o l : N) (xs : list A),
  (length xs <= N.to_nat o)%nat -> page o l xs = [].
Proof. exact @page_beyond. Qed.
Print Assumptions c06_page_beyond_end.

Theorem c06_page_limit_zero : forall (A : Type) (o : N) (xs : list A), page o 0 xs = skipn (N.to_nat o) xs.
Proof. exact @page_zero. Qed.
Print Assumptions c06_page_limit_zero.

(* page = the Go slice finalResults[min(off,len) : min(off+limit,len)], with limit 0 replaced by len *)
Theorem c06_page_is_slice : forall (A : Type) (o l : N) (xs : list A),
  let len := length xs in
  let lim := if l =? 0 then len else N.to_nat l in
  length (page o l xs) = (Nat.min (N.to_nat o + lim) len - Nat.min (N.to_nat o) len)%nat /\
  forall i, (i < length (page o l xs))%nat -> nth_error (page o l xs) i = nth_error xs (N.to_nat o + i).
Proof. exact @page_slice. Qed.
Print Assumptions c06_page_is_slice.

(* ===================== field selection ==================================== *)
Theorem c06_select_exact :
  (forall paths d r, plain_paths paths -> select_doc paths d = Some r ->
     (* every selected path that is stored comes back with exactly the stored subtree *)
     (forall p v, In p paths -> query_path (split_dots p) (VMap d) = QFound v ->
                  query_path (split_dots p) (VMap r) = QFound v) /\
     (* a selected path that is not stored is not there *)
     (forall p, In p paths -> query_path (split_dots p) (VMap d) = QAbsent ->
                query_path (split_dots p) (VMap r) = QAbsent) /\
     (* nothing else: every top-level key of the answer starts a selected, stored path *)
     (forall k, In k (map fst r) ->
                exists p v, In p paths /\ query_path (split_dots p) (VMap d) = QFound v /\
                            hd [] (split_dots p) = k)) /\
  (* "*" alone: the whole document, as a map *)
  (forall d, NoDup (map fst d) ->
     exists r, select_doc [star] d = Some r /\ doc_eqb r d = true /\ doc_eqb d r = true).
Proof. exact select_exact. Qed.
Print Assumptions c06_select_exact.

(* ===================== examples =========================================== *)
Definition ex_show (l : list rk) := map (fun r => (k_id r, k_hybrid r, k_dist r, k_score r)) l.
Definition ex_c1 := [mkRk [1] (1#2) (Some 5) None; mkRk [2] 1 (Some 7) None].
Definition ex_c2 := [mkRk [2] 3 None (Some 9); mkRk [3] 2 None (Some 4)].
Definition ex_c3 := [mkRk [3] (-1) (Some 8) None; mkRk [2] (1#4) (Some 6) (Some 1)].

Example ex_merge_hyp : Forall (fun c => NoDup (rk_ids c)) [ex_c1; ex_c2; ex_c3].
Proof. repeat constructor; cbn; intuition discriminate. Qed.
(* _and with final = {2}: id 2 gets 1 + 3 + 1/4, the first distance (7) and the first score (9) *)
Example ex_merge_and : ex_show (merge_ranked false [[2]] [ex_c1; ex_c2; ex_c3]) = [([2], 17 # 4, Some 7, Some 9)].
Proof. reflexivity. Qed.
Example ex_merge_or : ex_show (merge_ranked true [] [ex_c1; ex_c2; ex_c3]) =
  [([1], 1 # 2, Some 5, None); ([2], 17 # 4, Some 7, Some 9); ([3], 1%Q, Some 8, Some 4)].
Proof. reflexivity. Qed.
Example ex_contribs : map k_hybrid (contribs [2] [ex_c1; ex_c2; ex_c3]) = [1%Q; 3%Q; 1 # 4].
Proof. reflexivity. Qed.

(* a ranking leaf (standalone answer: ids 2 and 3 at distances 1.0 and 2.0, hybrid -1.0 and -2.0) and a filter *)
Definition ex_live : store := [([1], []); ([2], []); ([3], []); ([4], [])].
Definition ex_rows := [mkRow [2] None (Some 1065353216) None 3212836864; mkRow [3] None (Some 1073741824) None 3221225472].
Definition ex_children := [QFlat [102] [] 75 None None; QIdAny [[1]; [2]]].
Example ex_eval_list : exists rks fls,
  eval_list [] [] ex_live ex_children [ex_rows] = Some ([[[2]; [3]]; [[1]; [2]]], rks, fls, []).
Proof. eexists. eexists. reflexivity. Qed.
Example ex_eval_and : option_map (fun x => fst (fst (fst x))) (eval [] [] ex_live (QAnd ex_children) [ex_rows]) = Some [[2]].
Proof. reflexivity. Qed.
Example ex_eval_or : option_map (fun x => fst (fst (fst x))) (eval [] [] ex_live (QOr ex_children) [ex_rows]) = Some [[2]; [3]; [1]].
Proof. reflexivity. Qed.
Example ex_eval_single :
  option_map (fun x => (map k_id (snd (fst (fst x))), snd (fst x)))
             (eval [] [] ex_live (QOr [QFlat [102] [] 75 None None]) [ex_rows]) = Some ([[2]; [3]], true).
Proof. reflexivity. Qed.

(* sorting: "i" descending; dA and dC tie, dB lacks the key *)
Definition ex_dA : doc := [([105], VInt 3); ([115], VStr [97])].
Definition ex_dB : doc := [([115], VStr [98])].
Definition ex_dC : doc := [([105], VInt 3); ([115], VStr [99])].
Definition ex_dD : doc := [([105], VInt 1)].
Definition ex_keys : list (bytes * bool) := [([105], true)].
Example ex_sort : sort_by (sort_cmp ex_keys) [ex_dA; ex_dB; ex_dC; ex_dD] = [ex_dA; ex_dC; ex_dD; ex_dB].
Proof. reflexivity. Qed.
(* another correct (unstable) result: the tied documents exchanged *)
Example ex_sorted_perm : is_sorted_perm (sort_cmp ex_keys) [ex_dA; ex_dB; ex_dC; ex_dD] [ex_dC; ex_dA; ex_dD; ex_dB].
Proof.
  split.
  - apply perm_trans with (l' := [ex_dA; ex_dC; ex_dB; ex_dD]).
    + apply perm_skip. apply perm_swap.
    + apply perm_trans with (l' := [ex_dC; ex_dA; ex_dB; ex_dD]); [apply perm_swap|].
      do 2 apply perm_skip. apply perm_swap.
  - repeat constructor; unfold cle; cbn; discriminate.
Qed.
Example ex_position_check :
  map (fun p => sort_cmp ex_keys (nth p [ex_dC; ex_dA; ex_dD; ex_dB] []) (nth p (sort_by (sort_cmp ex_keys) [ex_dA; ex_dB; ex_dC; ex_dD]) []))
      [0%nat; 1%nat; 2%nat; 3%nat] = [Eq; Eq; Eq; Eq].
Proof. reflexivity. Qed.
Example ex_missing_last_both_directions :
  sort_cmp [([105], true)] ex_dB ex_dD = Gt /\ sort_cmp [([105], false)] ex_dB ex_dD = Gt /\
  key_of [105] ex_dB = None /\ key_of [105] ex_dD = Some (VInt 1).
Proof. repeat split. Qed.
Example ex_second_key_decides :
  key_tie ([105], true) ex_dA ex_dC /\ sort_cmp [([105], true); ([109], false); ([115], true)] ex_dA ex_dC = Gt.
Proof. split; reflexivity. Qed.
Example ex_mixed_kinds : compare_any (VInt 100) (VF64 0) = Lt /\ compare_any (VStr [97]) (VInt 5) = Gt /\
                         compare_any (VBool true) (VBool false) = Eq.
Proof. repeat split. Qed.

(* paging *)
Example ex_page : page 2 3 [0; 1; 2; 3; 4; 5; 6; 7; 8; 9] = [2; 3; 4] /\
                  page 8 3 [0; 1; 2; 3; 4; 5; 6; 7; 8; 9] = [8; 9] /\
                  page 12 3 [0; 1; 2; 3; 4; 5; 6; 7; 8; 9] = [] /\
                  page 7 0 [0; 1; 2; 3; 4; 5; 6; 7; 8; 9] = [7; 8; 9].
Proof. repeat split. Qed.
Example ex_pages_cover :
  concat (map (fun i => page (N.of_nat i * 3) 3 [0; 1; 2; 3; 4; 5; 6; 7; 8; 9]) (seq 0 4)) = [0; 1; 2; 3; 4; 5; 6; 7; 8; 9].
Proof. reflexivity. Qed.

(* selection: {"i":1, "nested":{"n":2,"deep":{"s":"x"}}, "e":true} *)
Definition ex_nested : bytes := [110; 101; 115; 116; 101; 100].
Definition ex_doc : doc :=
  [([105], VInt 1); (ex_nested, VMap [([110], VInt 2); ([100; 101; 101; 112], VMap [([115], VStr [120])])]); ([101], VBool true)].
Definition ex_p_nested_n : bytes := ex_nested ++ [46; 110].                           (* "nested.n" *)
Definition ex_p_nested_deep_s : bytes := ex_nested ++ [46; 100; 101; 101; 112; 46; 115].  (* "nested.deep.s" *)
Definition ex_paths : list bytes := [ex_p_nested_n; [105]; [109]; ex_p_nested_deep_s].   (* "nested.n", "i", "m" (missing), "nested.deep.s" *)
Example ex_plain_paths : plain_paths ex_paths.
Proof.
  split.
  - repeat constructor; try discriminate.
  - repeat constructor; unfold seg_disjoint; cbn; intuition discriminate.
Qed.
Example ex_select :
  select_doc ex_paths ex_doc =
  Some [(ex_nested, VMap [([100; 101; 101; 112], VMap [([115], VStr [120])]); ([110], VInt 2)]); ([105], VInt 1)].
Proof. reflexivity. Qed.
Example ex_select_star : select_doc [star] ex_doc = Some (rev ex_doc) /\ NoDup (map fst ex_doc).
Proof. split; [reflexivity|]. repeat constructor; cbn; intuition discriminate. Qed.
(* outside plain_paths: a path into a scalar fails as a whole (the pinned behaviour, DESIGN 6 F10) *)
Example ex_select_scalar_collision : select_doc [[105; 46; 120]] ex_doc = None.
Proof. reflexivity. Qed.
