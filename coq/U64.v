(* U64.v -- 64-bit words as N < 2^64: xor with the sign bit, complement,
   two's-complement view of int64. *)
From Coq Require Import List NArith ZArith Lia Bool.
From Coq Require Import ZifyBool ZifyN ZifyNat.
From Semadb Require Import Bytes.
Open Scope N_scope.

Definition two63 : N := 9223372036854775808.
Definition two64 : N := 18446744073709551616.
Definition ones64 : N := 18446744073709551615.

Lemma two63_pow : two63 = 2 ^ 63. Proof. reflexivity. Qed.
Lemma two64_pow : two64 = 2 ^ 64. Proof. reflexivity. Qed.
Lemma two64_256 : two64 = 256 ^ N.of_nat 8. Proof. reflexivity. Qed.
Lemma ones64_ones : ones64 = N.ones 64. Proof. reflexivity. Qed.

Lemma land_low_two63 a : a < two63 -> N.land a two63 = 0.
Proof.
  intros Ha. apply N.bits_inj. intros n. rewrite N.land_spec, N.bits_0.
  rewrite two63_pow, N.pow2_bits_eqb.
  destruct (N.eqb_spec 63 n) as [<-|Hn]; [|apply andb_false_r].
  rewrite andb_true_r.
  destruct (N.eq_dec a 0) as [->|Hnz]; [apply N.bits_0|].
  apply N.bits_above_log2. apply N.log2_lt_pow2; [lia|]. rewrite <- two63_pow. exact Ha.
Qed.

Lemma lxor_two63_low a : a < two63 -> N.lxor a two63 = a + two63.
Proof. intros Ha. symmetry. apply N.add_nocarry_lxor. now apply land_low_two63. Qed.

Lemma lxor_two63_high a : two63 <= a -> a < two64 -> N.lxor a two63 = a - two63.
Proof.
  intros H1 H2. set (a' := a - two63).
  assert (Ha' : a' < two63) by (unfold a', two63, two64 in *; lia).
  replace a with (N.lxor a' two63) at 1.
  2:{ rewrite lxor_two63_low by exact Ha'. unfold a'. lia. }
  rewrite N.lxor_assoc, N.lxor_nilpotent, N.lxor_0_r. reflexivity.
Qed.

Lemma lxor_two63 a : a < two64 ->
  N.lxor a two63 = if a <? two63 then a + two63 else a - two63.
Proof.
  intros Ha. destruct (N.ltb_spec a two63).
  - now apply lxor_two63_low.
  - now apply lxor_two63_high.
Qed.

Lemma lxor_two63_bound a : a < two64 -> N.lxor a two63 < two64.
Proof. intros Ha. rewrite lxor_two63 by exact Ha. unfold two63, two64 in *. destruct (a <? _) eqn:E; lia. Qed.

Lemma lxor_ones64 a : a < two64 -> N.lxor a ones64 = ones64 - a.
Proof.
  intros Ha. rewrite ones64_ones. change (N.lxor a (N.ones 64)) with (N.lnot a 64).
  assert (Hl : N.log2 a < 64).
  { destruct (N.eq_dec a 0) as [->|Hnz]; [cbn; lia|].
    apply N.log2_lt_pow2; [lia|]. rewrite <- two64_pow. exact Ha. }
  pose proof (N.add_lnot_diag_low a 64 Hl). lia.
Qed.

(* int64 <-> uint64 reinterpretation *)
Open Scope Z_scope.
Definition in_i64 (z : Z) : Prop := - 9223372036854775808 <= z < 9223372036854775808.
Definition i64_to_u64 (z : Z) : N := Z.to_N (z mod 18446744073709551616).
Definition u64_to_i64 (u : N) : Z :=
  if (u <? two63)%N then Z.of_N u else Z.of_N u - 18446744073709551616.

Lemma i64_to_u64_bound z : (i64_to_u64 z < two64)%N.
Proof. unfold i64_to_u64, two64. pose proof (Z.mod_pos_bound z 18446744073709551616 ltac:(lia)). lia. Qed.

Lemma i64_u64_roundtrip z : in_i64 z -> u64_to_i64 (i64_to_u64 z) = z.
Proof.
  unfold in_i64, u64_to_i64, i64_to_u64, two63. intros Hz.
  destruct (Z.ltb_spec z 0).
  - assert (E : z mod 18446744073709551616 = z + 18446744073709551616)
      by (Z.div_mod_to_equations; lia).
    rewrite E.
    destruct (N.ltb_spec (Z.to_N (z + 18446744073709551616)) 9223372036854775808); lia.
  - rewrite Z.mod_small by lia.
    destruct (N.ltb_spec (Z.to_N z) 9223372036854775808); lia.
Qed.
