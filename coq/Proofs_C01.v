(* Proofs_C01.v -- lemmas for property C01: the bucket-level mechanism model M
   (Model_C01M.v) refines the plain-map reference spec S (Model_C01.v); the
   allocator / two-way index invariant is inductive; facts about S; soundness
   of the boolean checker that judges dumped buckets. *)
From Coq Require Import List NArith ZArith Bool Lia Permutation.
From Coq Require Import ZifyBool ZifyN ZifyNat.
From Semadb Require Import Bytes U64 Value Obs KeyLayout Model_C19 Proofs_C19 Model_C01 Model_C01M.
Import ListNotations.
Open Scope N_scope.

(* ========================= byte-string equality =========================== *)

Lemma bytes_eqb_refl a : bytes_eqb a a = true.
Proof. now apply bytes_eqb_eq. Qed.
Lemma bytes_eqb_neq a b : a <> b -> bytes_eqb a b = false.
Proof. intros H. destruct (bytes_eqb a b) eqn:E; [|reflexivity]. apply bytes_eqb_eq in E. contradiction. Qed.
Lemma bytes_eqb_false a b : bytes_eqb a b = false -> a <> b.
Proof. intros H E. subst. rewrite bytes_eqb_refl in H. discriminate. Qed.
Lemma bytes_eqb_sym a b : bytes_eqb a b = bytes_eqb b a.
Proof.
  destruct (bytes_eqb a b) eqn:E.
  - apply bytes_eqb_eq in E. subst. now rewrite bytes_eqb_refl.
  - symmetry. apply bytes_eqb_neq. intros ->. now rewrite bytes_eqb_refl in E.
Qed.
Lemma bytes_dec (a b : bytes) : {a = b} + {a <> b}.
Proof. destruct (bytes_eqb a b) eqn:E; [left; now apply bytes_eqb_eq | right; now apply bytes_eqb_false]. Qed.

Lemma existsb_bytes_In x l : existsb (bytes_eqb x) l = true <-> In x l.
Proof.
  rewrite existsb_exists. split.
  - intros (y & Hy & E). apply bytes_eqb_eq in E. now subst.
  - intros H. exists x. split; [assumption|apply bytes_eqb_refl].
Qed.
Lemma existsb_bytes_notIn x l : existsb (bytes_eqb x) l = false <-> ~ In x l.
Proof. rewrite <- existsb_bytes_In. destruct (existsb (bytes_eqb x) l); split; congruence. Qed.

Lemma has_dup_false l : has_dup l = false <-> NoDup l.
Proof.
  induction l as [|x r IH]; cbn.
  - split; [constructor|reflexivity].
  - rewrite orb_false_iff, existsb_bytes_notIn, IH. split.
    + intros [H1 H2]. now constructor.
    + intros H. inversion H; subst. now split.
Qed.

Lemma dedup_In x l : In x (dedup l) <-> In x l.
Proof.
  induction l as [|y r IH]; cbn; [tauto|].
  destruct (existsb (bytes_eqb y) r) eqn:E.
  - rewrite IH. apply existsb_bytes_In in E. split; [tauto|]. intros [->|H]; assumption.
  - cbn. rewrite IH. tauto.
Qed.
Lemma dedup_NoDup l : NoDup (dedup l).
Proof.
  induction l as [|y r IH]; cbn; [constructor|].
  destruct (existsb (bytes_eqb y) r) eqn:E; [assumption|].
  constructor; [|assumption]. rewrite dedup_In. now apply existsb_bytes_notIn.
Qed.

Lemma existsb_ext' {A} (f g : A -> bool) l : (forall x, In x l -> f x = g x) -> existsb f l = existsb g l.
Proof.
  induction l as [|x r IH]; cbn; intros H; [reflexivity|].
  rewrite (H x) by now left. rewrite IH; [reflexivity|]. intros y Hy. apply H. now right.
Qed.

(* ========================= the reference store ============================ *)

Lemma st_get_remove id id' s :
  st_get id (st_remove id' s) = if bytes_eqb id id' then None else st_get id s.
Proof.
  induction s as [|[i d] r IH]; cbn.
  - now destruct (bytes_eqb id id').
  - destruct (bytes_eqb id' i) eqn:E1.
    + apply bytes_eqb_eq in E1. subst i. rewrite IH.
      destruct (bytes_eqb id id'); reflexivity.
    + cbn. rewrite IH. destruct (bytes_eqb id i) eqn:E2; [|reflexivity].
      apply bytes_eqb_eq in E2. subst i. rewrite bytes_eqb_sym, E1. reflexivity.
Qed.
Lemma st_get_set id id' d s :
  st_get id (st_set id' d s) = if bytes_eqb id id' then Some d else st_get id s.
Proof.
  unfold st_set. cbn. destruct (bytes_eqb id id') eqn:E; [reflexivity|].
  rewrite st_get_remove, E. reflexivity.
Qed.
Lemma st_mem_get id s : st_mem id s = true <-> st_get id s <> None.
Proof. unfold st_mem. destruct (st_get id s); split; congruence. Qed.

(* ========================= buckets ======================================== *)

Lemma b_get_del k k' b : b_get k (b_del k' b) = if bytes_eqb k k' then None else b_get k b.
Proof.
  induction b as [|[i v] r IH]; cbn.
  - now destruct (bytes_eqb k k').
  - destruct (bytes_eqb k' i) eqn:E1.
    + apply bytes_eqb_eq in E1. subst i. rewrite IH. destruct (bytes_eqb k k'); reflexivity.
    + cbn. rewrite IH. destruct (bytes_eqb k i) eqn:E2; [|reflexivity].
      apply bytes_eqb_eq in E2. subst i. rewrite bytes_eqb_sym, E1. reflexivity.
Qed.
Lemma b_get_put k k' v b : b_get k (b_put k' v b) = if bytes_eqb k k' then Some v else b_get k b.
Proof.
  unfold b_put. cbn. destruct (bytes_eqb k k') eqn:E; [reflexivity|].
  rewrite b_get_del, E. reflexivity.
Qed.
(* the usual map laws *)
Lemma b_get_put_eq k v b : b_get k (b_put k v b) = Some v.
Proof. now rewrite b_get_put, bytes_eqb_refl. Qed.
Lemma b_get_put_neq k k' v b : k <> k' -> b_get k (b_put k' v b) = b_get k b.
Proof. intros H. now rewrite b_get_put, bytes_eqb_neq. Qed.
Lemma b_get_del_eq k b : b_get k (b_del k b) = None.
Proof. now rewrite b_get_del, bytes_eqb_refl. Qed.
Lemma b_get_del_neq k k' b : k <> k' -> b_get k (b_del k' b) = b_get k b.
Proof. intros H. now rewrite b_get_del, bytes_eqb_neq. Qed.

Lemma b_del_In k kv b : In kv (b_del k b) -> In kv b /\ fst kv <> k.
Proof.
  induction b as [|[i v] r IH]; cbn; [tauto|].
  destruct (bytes_eqb k i) eqn:E.
  - intros H. destruct (IH H). split; [now right|assumption].
  - cbn. intros [<-|H].
    + split; [now left|]. cbn. intros ->. now rewrite bytes_eqb_refl in E.
    + destruct (IH H). split; [now right|assumption].
Qed.
Lemma b_del_NoDup k b : NoDup (map fst b) -> NoDup (map fst (b_del k b)).
Proof.
  induction b as [|[i v] r IH]; cbn; intros H; [constructor|].
  inversion H; subst. destruct (bytes_eqb k i); [now apply IH|].
  cbn. constructor; [|now apply IH].
  intros Hin. apply in_map_iff in Hin. destruct Hin as (kv & E & Hkv).
  apply b_del_In in Hkv. destruct Hkv as [Hkv _]. apply H2. apply in_map_iff. now exists kv.
Qed.
Lemma b_put_NoDup k v b : NoDup (map fst b) -> NoDup (map fst (b_put k v b)).
Proof.
  intros H. unfold b_put. cbn. constructor; [|now apply b_del_NoDup].
  intros Hin. apply in_map_iff in Hin. destruct Hin as (kv & E & Hkv).
  apply b_del_In in Hkv. destruct Hkv as [_ Hne]. now apply Hne.
Qed.
Lemma b_put_In k v kv b : In kv (b_put k v b) -> kv = (k, v) \/ In kv b.
Proof. unfold b_put. cbn. intros [<-|H]; [now left|]. right. now apply b_del_In in H. Qed.

Lemma b_get_In k v b : b_get k b = Some v -> In (k, v) b.
Proof.
  induction b as [|[i w] r IH]; cbn; [discriminate|].
  destruct (bytes_eqb k i) eqn:E.
  - apply bytes_eqb_eq in E. subst. intros H. inversion H. now left.
  - intros H. right. now apply IH.
Qed.
Lemma In_b_get k v b : NoDup (map fst b) -> In (k, v) b -> b_get k b = Some v.
Proof.
  induction b as [|[i w] r IH]; cbn; intros Hnd Hin; [contradiction|].
  inversion Hnd; subst. destruct Hin as [E|Hin].
  - inversion E; subst. now rewrite bytes_eqb_refl.
  - destruct (bytes_eqb k i) eqn:E; [|now apply IH].
    apply bytes_eqb_eq in E. subst i. exfalso. apply H1. apply in_map_iff. now exists (k, v).
Qed.
Lemma b_del_absent k b : b_get k b = None -> b_del k b = b.
Proof.
  induction b as [|[i w] r IH]; cbn; [reflexivity|].
  destruct (bytes_eqb k i); [discriminate|]. intros H. now rewrite IH.
Qed.

(* ========================= keys =========================================== *)

Lemma suffix_neq : suffix_id <> suffix_data.
Proof. discriminate. Qed.

Lemma k_node_inj u u' : k_node u = k_node u' -> u = u'.
Proof.
  unfold k_node, point_key. intros E. inversion E as [E']. now apply app_inj_tail in E'.
Qed.
Lemma k_node_eqb u u' : bytes_eqb (k_node u) (k_node u') = bytes_eqb u u'.
Proof.
  destruct (bytes_eqb u u') eqn:E.
  - apply bytes_eqb_eq in E. subst. apply bytes_eqb_refl.
  - apply bytes_eqb_neq. intros H. apply k_node_inj in H. subst. now rewrite bytes_eqb_refl in E.
Qed.
Lemma k_uuid_eqb n n' : n < two64 -> n' < two64 -> bytes_eqb (k_uuid n) (k_uuid n') = (n =? n').
Proof.
  intros H1 H2. destruct (N.eqb_spec n n') as [->|Hne]; [apply bytes_eqb_refl|].
  apply bytes_eqb_neq. intros E. apply node_key_inj in E; [|assumption..]. now destruct E.
Qed.
Lemma k_data_eqb n n' : n < two64 -> n' < two64 -> bytes_eqb (k_data n) (k_data n') = (n =? n').
Proof.
  intros H1 H2. destruct (N.eqb_spec n n') as [->|Hne]; [apply bytes_eqb_refl|].
  apply bytes_eqb_neq. intros E. apply node_key_inj in E; [|assumption..]. now destruct E.
Qed.
Lemma k_uuid_data_eqb n n' : n < two64 -> n' < two64 -> bytes_eqb (k_uuid n) (k_data n') = false.
Proof.
  intros H1 H2. apply bytes_eqb_neq. intros E. apply node_key_inj in E; [|assumption..].
  destruct E as [_ E]. now apply suffix_neq.
Qed.
Lemma k_data_uuid_eqb n n' : n < two64 -> n' < two64 -> bytes_eqb (k_data n) (k_uuid n') = false.
Proof. intros H1 H2. rewrite bytes_eqb_sym. now apply k_uuid_data_eqb. Qed.
Lemma k_node_uuid_eqb u n : bytes_eqb (k_node u) (k_uuid n) = false.
Proof. apply bytes_eqb_neq. intros E. symmetry in E. now apply node_point_keys_disjoint in E. Qed.
Lemma k_node_data_eqb u n : bytes_eqb (k_node u) (k_data n) = false.
Proof. apply bytes_eqb_neq. intros E. symmetry in E. now apply node_point_keys_disjoint in E. Qed.
Lemma k_uuid_node_eqb u n : bytes_eqb (k_uuid n) (k_node u) = false.
Proof. rewrite bytes_eqb_sym. apply k_node_uuid_eqb. Qed.
Lemma k_data_node_eqb u n : bytes_eqb (k_data n) (k_node u) = false.
Proof. rewrite bytes_eqb_sym. apply k_node_data_eqb. Qed.

Lemma point_uuid_k_node u : point_uuid_from_key (k_node u) = Some u.
Proof.
  unfold point_uuid_from_key, k_node, point_key.
  rewrite N.eqb_refl, last_app1, N.eqb_refl, removelast_app1.
  rewrite app_length. cbn [length]. replace (length u + 1 =? 0)%nat with false; [reflexivity|].
  symmetry. apply Nat.eqb_neq. lia.
Qed.
Lemma point_uuid_some k u : point_uuid_from_key k = Some u -> k = k_node u.
Proof.
  unfold point_uuid_from_key. destruct k as [|p rest]; [discriminate|].
  destruct (p =? point_prefix) eqn:E1; cbn [andb]; [|discriminate].
  destruct (length rest =? 0)%nat eqn:E2; cbn [negb andb]; [discriminate|].
  destruct (last rest 256 =? suffix_id) eqn:E3; [|discriminate].
  intros H. inversion H; subst u. apply N.eqb_eq in E1, E3. subst p.
  unfold k_node, point_key. f_equal. rewrite <- E3.
  apply app_removelast_last. intros ->. discriminate.
Qed.
Lemma point_uuid_k_uuid n s : point_uuid_from_key (node_key n s) = None.
Proof. reflexivity. Qed.

(* ========================= SetPoint / DeletePoint ========================== *)

Lemma set_point_node b nid u d u' :
  b_get (k_node u') (set_point b nid u d) = if bytes_eqb u' u then Some (VNode nid) else b_get (k_node u') b.
Proof.
  unfold set_point. rewrite !b_get_put, k_node_data_eqb, k_node_eqb, k_node_uuid_eqb. reflexivity.
Qed.
Lemma set_point_uuid b nid u d n : n < two64 -> nid < two64 ->
  b_get (k_uuid n) (set_point b nid u d) = if n =? nid then Some (VUuid u) else b_get (k_uuid n) b.
Proof.
  intros H1 H2. unfold set_point.
  rewrite !b_get_put, k_uuid_data_eqb, k_uuid_node_eqb, k_uuid_eqb by assumption. reflexivity.
Qed.
Lemma set_point_data b nid u d n : n < two64 -> nid < two64 ->
  b_get (k_data n) (set_point b nid u d) = if n =? nid then Some (VData d) else b_get (k_data n) b.
Proof.
  intros H1 H2. unfold set_point.
  rewrite !b_get_put, k_data_eqb, k_data_node_eqb, k_data_uuid_eqb by assumption. reflexivity.
Qed.
Lemma delete_point_node b nid u u' :
  b_get (k_node u') (delete_point b u nid) = if bytes_eqb u' u then None else b_get (k_node u') b.
Proof.
  unfold delete_point. rewrite !b_get_del, k_node_data_eqb, k_node_eqb, k_node_uuid_eqb. reflexivity.
Qed.
Lemma delete_point_uuid b nid u n : n < two64 -> nid < two64 ->
  b_get (k_uuid n) (delete_point b u nid) = if n =? nid then None else b_get (k_uuid n) b.
Proof.
  intros H1 H2. unfold delete_point.
  rewrite !b_get_del, k_uuid_data_eqb, k_uuid_node_eqb, k_uuid_eqb by assumption. reflexivity.
Qed.
Lemma delete_point_data b nid u n : n < two64 -> nid < two64 ->
  b_get (k_data n) (delete_point b u nid) = if n =? nid then None else b_get (k_data n) b.
Proof.
  intros H1 H2. unfold delete_point.
  rewrite !b_get_del, k_data_eqb, k_data_node_eqb, k_data_uuid_eqb by assumption. reflexivity.
Qed.

(* ========================= WfP is preserved =============================== *)

Lemma WfP_empty : WfP [].
Proof.
  constructor; cbn; try discriminate; try constructor; try contradiction.
  all: try (intros n _ H; now contradiction H).
  all: try reflexivity.
Qed.

(* SetPoint of (nid, u) when neither nid nor u is bound to something else *)
Lemma WfP_set_point b nid u d :
  WfP b -> nid < two64 ->
  (forall v, b_get (k_uuid nid) b = Some v -> v = VUuid u) ->
  (forall v, b_get (k_node u) b = Some v -> v = VNode nid) ->
  WfP (set_point b nid u d).
Proof.
  intros W Hn C1 C2. constructor.
  - unfold set_point. repeat apply b_put_NoDup. apply (wf_nodup _ W).
  - intros u' v. rewrite set_point_node. destruct (bytes_eqb u' u) eqn:E.
    + apply bytes_eqb_eq in E. subst u'. intros H. inversion H; subst v.
      exists nid. repeat split; [assumption|]. rewrite set_point_uuid by assumption. now rewrite N.eqb_refl.
    + intros H. destruct (wf_node _ W _ _ H) as (n & -> & Hn' & Hu).
      exists n. repeat split; [assumption|]. rewrite set_point_uuid by assumption.
      destruct (N.eqb_spec n nid) as [->|Hne]; [|assumption].
      apply C1 in Hu. inversion Hu; subst. now rewrite bytes_eqb_refl in E.
  - intros n v Hn'. rewrite set_point_uuid by assumption. destruct (N.eqb_spec n nid) as [->|Hne].
    + intros H. inversion H; subst v. exists u. split; [reflexivity|].
      rewrite set_point_node. now rewrite bytes_eqb_refl.
    + intros H. destruct (wf_uuid _ W _ _ Hn' H) as (u' & -> & Hu).
      exists u'. split; [reflexivity|]. rewrite set_point_node.
      destruct (bytes_eqb u' u) eqn:E; [|assumption].
      apply bytes_eqb_eq in E. subst u'. apply C2 in Hu. inversion Hu. contradiction.
  - intros n Hn'. rewrite set_point_uuid, set_point_data by assumption.
    destruct (N.eqb_spec n nid) as [->|Hne]; [intros _; now exists d|]. now apply (wf_data1 _ W).
  - intros n Hn'. rewrite set_point_uuid, set_point_data by assumption.
    destruct (N.eqb_spec n nid) as [->|Hne]; [discriminate|]. now apply (wf_data2 _ W).
  - intros k v H. unfold set_point in H.
    apply b_put_In in H. destruct H as [H|H]; [inversion H; right; exists nid; auto|].
    apply b_put_In in H. destruct H as [H|H]; [inversion H; left; now exists u|].
    apply b_put_In in H. destruct H as [H|H]; [inversion H; right; exists nid; auto|].
    now apply (wf_keys _ W k v).
Qed.

Lemma WfP_delete_point b u nid :
  WfP b -> b_get (k_node u) b = Some (VNode nid) -> WfP (delete_point b u nid).
Proof.
  intros W Hu. destruct (wf_node _ W _ _ Hu) as (n0 & E0 & Hn & Hnu). inversion E0; subst n0. clear E0.
  constructor.
  - unfold delete_point. repeat apply b_del_NoDup. apply (wf_nodup _ W).
  - intros u' v. rewrite delete_point_node. destruct (bytes_eqb u' u) eqn:E; [discriminate|].
    intros H. destruct (wf_node _ W _ _ H) as (n & -> & Hn' & Hu').
    exists n. repeat split; [assumption|]. rewrite delete_point_uuid by assumption.
    destruct (N.eqb_spec n nid) as [->|Hne]; [|assumption].
    rewrite Hnu in Hu'. inversion Hu'; subst. now rewrite bytes_eqb_refl in E.
  - intros n v Hn'. rewrite delete_point_uuid by assumption.
    destruct (N.eqb_spec n nid) as [->|Hne]; [discriminate|].
    intros H. destruct (wf_uuid _ W _ _ Hn' H) as (u' & -> & Hu').
    exists u'. split; [reflexivity|]. rewrite delete_point_node.
    destruct (bytes_eqb u' u) eqn:E; [|assumption].
    apply bytes_eqb_eq in E. subst u'. rewrite Hu in Hu'. inversion Hu'. congruence.
  - intros n Hn'. rewrite delete_point_uuid, delete_point_data by assumption.
    destruct (N.eqb_spec n nid) as [->|Hne]; [intros H; now contradiction H|]. now apply (wf_data1 _ W).
  - intros n Hn'. rewrite delete_point_uuid, delete_point_data by assumption.
    destruct (N.eqb_spec n nid) as [->|Hne]; [reflexivity|]. now apply (wf_data2 _ W).
  - intros k v H. unfold delete_point in H.
    apply b_del_In in H. destruct H as [H _].
    apply b_del_In in H. destruct H as [H _].
    apply b_del_In in H. destruct H as [H _]. now apply (wf_keys _ W k v).
Qed.

(* ========================= lookups ======================================== *)

Lemma get_point_some b u nid d :
  get_point u b = Some (nid, d) -> b_get (k_node u) b = Some (VNode nid).
Proof.
  unfold get_point. destruct (b_get (k_node u) b) as [[| |]|]; try discriminate.
  intros H. now inversion H.
Qed.
Lemma get_point_none b u : WfP b -> get_point u b = None -> b_get (k_node u) b = None.
Proof.
  intros W. unfold get_point. destruct (b_get (k_node u) b) as [v|] eqn:E; [|reflexivity].
  destruct (wf_node _ W _ _ E) as (n & -> & _). discriminate.
Qed.
Lemma lookup_get_point b u : lookup b u = match get_point u b with Some (_, d) => Some d | None => None end.
Proof. reflexivity. Qed.
Lemma m_exists_lookup b u : WfP b -> m_exists u b = match lookup b u with Some _ => true | None => false end.
Proof.
  intros W. unfold m_exists, lookup, get_point.
  destruct (b_get (k_node u) b) as [v|] eqn:E; [|reflexivity].
  destruct (wf_node _ W _ _ E) as (n & -> & _). reflexivity.
Qed.

Lemma lookup_set_point b nid u d u' :
  WfP b -> nid < two64 ->
  (forall v, b_get (k_uuid nid) b = Some v -> v = VUuid u) ->
  lookup (set_point b nid u d) u' = if bytes_eqb u' u then Some d else lookup b u'.
Proof.
  intros W Hn C1. unfold lookup, get_point. rewrite set_point_node.
  destruct (bytes_eqb u' u) eqn:E.
  - rewrite set_point_data by assumption. now rewrite N.eqb_refl.
  - destruct (b_get (k_node u') b) as [v|] eqn:Ev; [|reflexivity].
    destruct (wf_node _ W _ _ Ev) as (n & -> & Hn' & Hu).
    rewrite set_point_data by assumption.
    destruct (N.eqb_spec n nid) as [->|Hne]; [|reflexivity].
    apply C1 in Hu. inversion Hu; subst. now rewrite bytes_eqb_refl in E.
Qed.

Lemma lookup_delete_point b nid u u' :
  WfP b -> b_get (k_node u) b = Some (VNode nid) ->
  lookup (delete_point b u nid) u' = if bytes_eqb u' u then None else lookup b u'.
Proof.
  intros W Hu. destruct (wf_node _ W _ _ Hu) as (n0 & E0 & Hn & Hnu). inversion E0; subst n0. clear E0.
  unfold lookup, get_point. rewrite delete_point_node.
  destruct (bytes_eqb u' u) eqn:E; [reflexivity|].
  destruct (b_get (k_node u') b) as [v|] eqn:Ev; [|reflexivity].
  destruct (wf_node _ W _ _ Ev) as (n & -> & Hn' & Hu').
  rewrite delete_point_data by assumption.
  destruct (N.eqb_spec n nid) as [->|Hne]; [|reflexivity].
  rewrite Hnu in Hu'. inversion Hu'; subst. now rewrite bytes_eqb_refl in E.
Qed.

(* ========================= abs ============================================ *)

Definition data_of (b : bucket) (n : N) : doc :=
  match b_get (k_data n) b with Some (VData d) => d | _ => [] end.

Lemma abs_get_gen b l u :
  WfP b -> incl l b ->
  st_get u (flat_map (abs_entry b) l) =
  match b_get (k_node u) l with Some (VNode n) => Some (data_of b n) | _ => None end.
Proof.
  intros W. induction l as [|[k v] r IH]; intros Hincl; [reflexivity|].
  assert (Hr : incl r b) by (intros x Hx; apply Hincl; now right).
  cbn [flat_map b_get]. unfold abs_entry at 1. cbn [fst snd].
  destruct (point_uuid_from_key k) as [u'|] eqn:Ek.
  - apply point_uuid_some in Ek. subst k.
    assert (Hv : b_get (k_node u') b = Some v).
    { apply In_b_get; [apply (wf_nodup _ W)|]. apply Hincl. now left. }
    destruct (wf_node _ W _ _ Hv) as (n & -> & _).
    cbn [app st_get]. rewrite k_node_eqb. destruct (bytes_eqb u u'); [reflexivity|]. now apply IH.
  - cbn [app]. rewrite IH by assumption.
    destruct (bytes_eqb (k_node u) k) eqn:E; [|reflexivity].
    apply bytes_eqb_eq in E. subst k. rewrite point_uuid_k_node in Ek. discriminate.
Qed.

Lemma abs_get b u : WfP b -> st_get u (abs_bucket b) = lookup b u.
Proof.
  intros W. unfold abs_bucket. rewrite abs_get_gen; [|assumption|apply incl_refl].
  unfold lookup, get_point, data_of. destruct (b_get (k_node u) b) as [[| |]|]; reflexivity.
Qed.

(* number of points of a bucket *)
Definition is_pt (kv : bytes * bval) : bool :=
  match point_uuid_from_key (fst kv), snd kv with Some _, VNode _ => true | _, _ => false end.
Definition npts (l : bucket) : nat := length (filter is_pt l).

Lemma abs_length_gen b l : length (flat_map (abs_entry b) l) = npts l.
Proof.
  induction l as [|[k v] r IH]; [reflexivity|].
  cbn [flat_map]. rewrite app_length, IH. unfold npts. cbn [filter].
  unfold abs_entry, is_pt. cbn [fst snd].
  destruct (point_uuid_from_key k); [destruct v|]; reflexivity.
Qed.
Lemma abs_length b : length (abs_bucket b) = npts b.
Proof. apply abs_length_gen. Qed.

Lemma npts_del_other k l : point_uuid_from_key k = None -> npts (b_del k l) = npts l.
Proof.
  intros Hk. induction l as [|[i v] r IH]; [reflexivity|]. cbn [b_del].
  destruct (bytes_eqb k i) eqn:E.
  - apply bytes_eqb_eq in E. subst i. rewrite IH. unfold npts. cbn [filter]. unfold is_pt at 2. cbn [fst].
    now rewrite Hk.
  - unfold npts in *. cbn [filter]. destruct (is_pt (i, v)); cbn [length]; now rewrite IH.
Qed.
Lemma npts_put_other k v l : point_uuid_from_key k = None -> npts (b_put k v l) = npts l.
Proof.
  intros Hk. unfold b_put. unfold npts at 1. cbn [filter]. unfold is_pt at 1. cbn [fst]. rewrite Hk.
  now apply npts_del_other.
Qed.
Lemma npts_del_node u n l :
  NoDup (map fst l) -> b_get (k_node u) l = Some (VNode n) -> (npts (b_del (k_node u) l) + 1 = npts l)%nat.
Proof.
  induction l as [|[i v] r IH]; cbn [b_get b_del map]; intros Hnd H; [discriminate|].
  inversion Hnd; subst. destruct (bytes_eqb (k_node u) i) eqn:E.
  - apply bytes_eqb_eq in E. subst i. inversion H; subst v.
    assert (Hr : b_get (k_node u) r = None).
    { destruct (b_get (k_node u) r) as [b0|] eqn:Er; [|reflexivity]. apply b_get_In in Er.
      exfalso. apply H2. apply in_map_iff. now exists (k_node u, b0). }
    rewrite (b_del_absent _ _ Hr). unfold npts. cbn [filter]. unfold is_pt at 2. cbn [fst snd].
    rewrite point_uuid_k_node. cbn [length]. lia.
  - specialize (IH H3 H). unfold npts in *. cbn [filter]. destruct (is_pt (i, v)); cbn [length]; lia.
Qed.

Lemma npts_set_point_fresh b nid u d :
  b_get (k_node u) b = None -> npts (set_point b nid u d) = S (npts b).
Proof.
  intros Hu. unfold set_point. rewrite npts_put_other by apply point_uuid_k_uuid.
  unfold b_put at 1. unfold npts at 1. cbn [filter]. unfold is_pt at 1. cbn [fst snd].
  rewrite point_uuid_k_node. cbn [length]. f_equal.
  rewrite b_del_absent.
  - fold (npts (b_put (k_uuid nid) (VUuid u) b)). now rewrite npts_put_other by apply point_uuid_k_uuid.
  - rewrite b_get_put, k_node_uuid_eqb. assumption.
Qed.
Lemma npts_set_point_same b nid u d :
  NoDup (map fst b) -> b_get (k_node u) b = Some (VNode nid) -> npts (set_point b nid u d) = npts b.
Proof.
  intros Hnd Hu. unfold set_point. rewrite npts_put_other by apply point_uuid_k_uuid.
  unfold b_put at 1. unfold npts at 1. cbn [filter]. unfold is_pt at 1. cbn [fst snd].
  rewrite point_uuid_k_node. cbn [length].
  fold (npts (b_del (k_node u) (b_put (k_uuid nid) (VUuid u) b))).
  pose proof (npts_del_node u nid (b_put (k_uuid nid) (VUuid u) b)) as H.
  rewrite npts_put_other in H by apply point_uuid_k_uuid.
  rewrite <- H; [lia|now apply b_put_NoDup|].
  rewrite b_get_put, k_node_uuid_eqb. assumption.
Qed.
Lemma npts_delete_point b nid u :
  NoDup (map fst b) -> b_get (k_node u) b = Some (VNode nid) -> (npts (delete_point b u nid) + 1 = npts b)%nat.
Proof.
  intros Hnd Hu. unfold delete_point. rewrite !npts_del_other by apply point_uuid_k_uuid.
  now apply (npts_del_node u nid).
Qed.

(* ========================= the id counter ================================= *)

Lemma memN_In x l : memN x l = true <-> In x l.
Proof.
  induction l as [|y r IH]; cbn; [split; [discriminate|contradiction]|].
  rewrite orb_true_iff, IH, N.eqb_eq. split; intros [H|H]; auto.
Qed.
Lemma memN_notIn x l : memN x l = false <-> ~ In x l.
Proof. rewrite <- memN_In. destruct (memN x l); split; congruence. Qed.
Lemma removeN_In x y l : In y (removeN x l) <-> In y l /\ y <> x.
Proof.
  induction l as [|z r IH]; cbn; [tauto|].
  destruct (N.eqb_spec x z) as [->|Hne].
  - rewrite IH. split; [tauto|]. intros [[->|H] Hn]; [contradiction|tauto].
  - cbn. rewrite IH. split; [intros [->|H]; [split; [now left|congruence]|tauto]|tauto].
Qed.
Lemma removeN_NoDup x l : NoDup l -> NoDup (removeN x l).
Proof.
  induction l as [|z r IH]; cbn; intros H; [constructor|]. inversion H; subst.
  destruct (x =? z); [now apply IH|]. constructor; [|now apply IH].
  rewrite removeN_In. tauto.
Qed.
Lemma dedupN_NoDup_id l : NoDup l -> dedupN l = l.
Proof.
  induction l as [|x r IH]; cbn; intros H; [reflexivity|]. inversion H; subst.
  apply memN_notIn in H2. rewrite H2. now rewrite IH.
Qed.
Lemma dedupN_In x l : In x (dedupN l) <-> In x l.
Proof.
  induction l as [|y r IH]; cbn; [tauto|].
  destruct (memN y r) eqn:E.
  - rewrite IH. apply memN_In in E. split; [tauto|]. intros [->|H]; assumption.
  - cbn. rewrite IH. tauto.
Qed.
Lemma dedupN_NoDup l : NoDup (dedupN l).
Proof.
  induction l as [|y r IH]; cbn; [constructor|].
  destruct (memN y r) eqn:E; [assumption|].
  constructor; [|assumption]. rewrite dedupN_In. now apply memN_notIn.
Qed.

Lemma first_node_id_2 : first_node_id = 2.
Proof. reflexivity. Qed.

Lemma AInv_init : AInv [] [] first_node_id.
Proof.
  constructor; cbn.
  - constructor.
  - contradiction.
  - intros n _ H. now contradiction H.
  - intros n H. lia.
  - rewrite first_node_id_2. unfold two64. lia.
Qed.

(* one NextId + SetPoint: the chosen id was not live, is a uint64, and the
   allocator invariant holds again once the id is live *)
Lemma next_id_step b fl nf c fl' nf' b' :
  AInv b fl nf -> next_id c fl nf = Some (fl', nf') ->
  c < two64 /\ b_get (k_uuid c) b = None /\
  ((forall n, n < two64 -> b_get (k_uuid n) b' = if n =? c then b_get (k_uuid c) b' else b_get (k_uuid n) b) ->
   b_get (k_uuid c) b' <> None -> AInv b' fl' nf').
Proof.
  intros A. pose proof (a_nf _ _ _ A) as Hnf. unfold next_id.
  destruct (memN c fl) eqn:Em.
  - intros H. inversion H; subst fl' nf'. clear H. apply memN_In in Em.
    destruct (a_free _ _ _ A _ Em) as [Hr Hc].
    split; [lia|]. split; [assumption|]. intros Hb' Hlive. constructor.
    + apply removeN_NoDup, (a_nodup _ _ _ A).
    + intros n Hn. apply removeN_In in Hn. destruct Hn as [Hn Hne].
      destruct (a_free _ _ _ A _ Hn) as [Hr' Hc']. split; [assumption|].
      rewrite Hb' by lia. destruct (N.eqb_spec n c); [contradiction|assumption].
    + intros n Hn. rewrite Hb' by assumption. destruct (N.eqb_spec n c) as [->|Hne]; [intros _; assumption|].
      now apply (a_live _ _ _ A).
    + intros n Hn. destruct (N.eq_dec n c) as [->|Hne]; [now right|].
      destruct (a_cover _ _ _ A _ Hn) as [H|H].
      * left. apply removeN_In. now split.
      * right. rewrite Hb' by lia. destruct (N.eqb_spec n c); [contradiction|assumption].
    + assumption.
  - destruct fl as [|x fl0]; [|discriminate].
    destruct (N.eqb_spec c nf) as [->|Hne]; cbn [andb]; [|discriminate].
    destruct (N.ltb_spec (nf + 1) two64) as [Hlt|]; [|discriminate].
    intros H. inversion H; subst fl' nf'. clear H.
    assert (Hfresh : b_get (k_uuid nf) b = None).
    { destruct (b_get (k_uuid nf) b) eqn:E; [|reflexivity].
      assert (Hl : b_get (k_uuid nf) b <> None) by congruence.
      apply (a_live _ _ _ A) in Hl; lia. }
    split; [lia|]. split; [assumption|]. intros Hb' Hlive. constructor.
    + constructor.
    + contradiction.
    + intros n Hn. rewrite Hb' by assumption. destruct (N.eqb_spec n nf) as [->|Hne]; [intros _; lia|].
      intros H. apply (a_live _ _ _ A) in H; [lia|assumption].
    + intros n Hn. right. destruct (N.eq_dec n nf) as [->|Hne]; [assumption|].
      rewrite Hb' by lia. destruct (N.eqb_spec n nf); [contradiction|].
      destruct (a_cover _ _ _ A n) as [H|H]; [lia|contradiction|assumption].
    + lia.
Qed.

(* ========================= the insert loop ================================ *)

Lemma insert_go_sim ps : forall cs b fl nf b' fl' nf' s,
  WfP b -> AInv b fl nf -> (forall u, lookup b u = st_get u s) ->
  NoDup (map fst ps) -> (forall p, In p ps -> b_get (k_node (fst p)) b = None) ->
  m_insert_go ps cs b fl nf = Some (b', fl', nf') ->
  WfP b' /\ AInv b' fl' nf' /\
  (forall u, lookup b' u = st_get u (fold_left (fun acc p => st_set (fst p) (snd p) acc) ps s)) /\
  npts b' = (npts b + length ps)%nat.
Proof.
  induction ps as [|[u d] r IH]; intros cs b fl nf b' fl' nf' s W A L Hnd Hfresh H.
  - destruct cs; [|discriminate]. inversion H; subst. cbn.
    split; [assumption|split; [assumption|split; [assumption|lia]]].
  - destruct cs as [|c cs']; [discriminate|]. cbn [m_insert_go] in H.
    destruct (next_id c fl nf) as [[fl1 nf1]|] eqn:En; [|discriminate].
    destruct (next_id_step b fl nf c fl1 nf1 (set_point b c u d) A En) as (Hc & Hcf & HA).
    assert (Hu : b_get (k_node u) b = None) by (apply (Hfresh (u, d)); now left).
    assert (C1 : forall v, b_get (k_uuid c) b = Some v -> v = VUuid u) by (rewrite Hcf; discriminate).
    assert (C2 : forall v, b_get (k_node u) b = Some v -> v = VNode c) by (rewrite Hu; discriminate).
    inversion Hnd; subst. cbn [map fst] in *.
    apply IH with (s := st_set u d s) in H.
    + destruct H as (W' & A' & L' & N').
      split; [assumption|split; [assumption|split; [assumption|]]].
      rewrite N'. rewrite npts_set_point_fresh by assumption. cbn [length]. lia.
    + now apply WfP_set_point.
    + apply HA.
      * intros n Hn. rewrite !set_point_uuid by assumption. rewrite N.eqb_refl. reflexivity.
      * rewrite set_point_uuid by assumption. rewrite N.eqb_refl. discriminate.
    + intros u'. rewrite lookup_set_point by assumption. rewrite st_get_set.
      destruct (bytes_eqb u' u); [reflexivity|apply L].
    + assumption.
    + intros p Hp. rewrite set_point_node.
      destruct (bytes_eqb (fst p) u) eqn:E.
      * apply bytes_eqb_eq in E. exfalso. apply H2. rewrite <- E. now apply in_map.
      * apply Hfresh. now right.
Qed.

(* ========================= the update loop ================================ *)

Lemma update_go_sim sc maxsize ps : forall b s b' ids es s' ids' es',
  WfP b -> (forall u, lookup b u = st_get u s) ->
  m_update_go sc maxsize ps b = (b', ids, es) ->
  update_go sc maxsize ps s = (s', ids', es') ->
  ids = ids' /\ es = es' /\ WfP b' /\ (forall u, lookup b' u = st_get u s') /\
  (forall n, n < two64 -> (b_get (k_uuid n) b' = None <-> b_get (k_uuid n) b = None)) /\
  npts b' = npts b.
Proof.
  induction ps as [|[u inc] r IH]; intros b s b' ids es s' ids' es' W L HM HS.
  - cbn in HM, HS. inversion HM; inversion HS; subst.
    split; [reflexivity|split; [reflexivity|split; [assumption|split; [assumption|split; [tauto|reflexivity]]]]].
  - cbn [m_update_go update_go] in HM, HS.
    pose proof (L u) as Lu. unfold lookup in Lu.
    destruct (get_point u b) as [[nid old]|] eqn:Eg.
    + rewrite <- Lu in HS.
      apply get_point_some in Eg.
      destruct (wf_node _ W _ _ Eg) as (n0 & E0 & Hn & Hnu). inversion E0; subst n0. clear E0.
      set (merged := merge_doc delete_value old inc) in *.
      destruct (m_update_go sc maxsize r (set_point b nid u merged)) as [[b1 ids1] es1] eqn:EM.
      destruct (update_go sc maxsize r (st_set u merged s)) as [[s1 ids1'] es1'] eqn:ES.
      inversion HM; inversion HS; subst. clear HM HS.
      assert (C1 : forall v, b_get (k_uuid nid) b = Some v -> v = VUuid u) by (rewrite Hnu; now inversion 1).
      assert (C2 : forall v, b_get (k_node u) b = Some v -> v = VNode nid) by (rewrite Eg; now inversion 1).
      assert (L1 : forall u', lookup (set_point b nid u merged) u' = st_get u' (st_set u merged s)).
      { intros u'. rewrite lookup_set_point by assumption. rewrite st_get_set.
        destruct (bytes_eqb u' u); [reflexivity|apply L]. }
      destruct (IH _ _ _ _ _ _ _ _ (WfP_set_point b nid u merged W Hn C1 C2) L1 EM ES)
        as (-> & -> & W' & L' & U' & N').
      split; [reflexivity|split; [reflexivity|split; [assumption|split; [assumption|split]]]].
      * intros n Hn'. split.
        -- intros H. apply U' in H; [|assumption]. rewrite set_point_uuid in H by assumption.
           destruct (N.eqb_spec n nid); [discriminate|assumption].
        -- intros H. apply U'; [assumption|]. rewrite set_point_uuid by assumption.
           destruct (N.eqb_spec n nid) as [->|]; [congruence|assumption].
      * rewrite N'. apply npts_set_point_same; [apply (wf_nodup _ W)|assumption].
    + rewrite <- Lu in HS. now apply (IH b s).
Qed.

(* ========================= the delete loop ================================ *)

Lemma NoDup_snoc {A} (l : list A) x : NoDup l -> ~ In x l -> NoDup (l ++ [x]).
Proof.
  induction l as [|y r IH]; cbn; intros H Hx.
  - constructor; [intros []|constructor].
  - inversion H; subst. constructor.
    + rewrite in_app_iff. cbn. intros [Hy|[Hy|[]]]; [contradiction|]. subst. apply Hx. now left.
    + apply IH; [assumption|]. intros Hi. apply Hx. now right.
Qed.

Lemma AInv_delete b fl nf u nid :
  WfP b -> AInv b fl nf -> b_get (k_node u) b = Some (VNode nid) ->
  AInv (delete_point b u nid) (fl ++ [nid]) nf.
Proof.
  intros W A Hu. destruct (wf_node _ W _ _ Hu) as (n0 & E0 & Hn & Hnu). inversion E0; subst n0. clear E0.
  assert (Hlive : b_get (k_uuid nid) b <> None) by congruence.
  pose proof (a_live _ _ _ A _ Hn Hlive) as Hr.
  pose proof (a_nf _ _ _ A) as Hnf.
  constructor.
  - apply NoDup_snoc; [apply (a_nodup _ _ _ A)|].
    intros Hi. apply (a_free _ _ _ A) in Hi. destruct Hi as [_ Hi]. contradiction.
  - intros n Hi. apply in_app_iff in Hi. cbn in Hi. destruct Hi as [Hi|[<-|[]]].
    + destruct (a_free _ _ _ A _ Hi) as [Hr' Hf]. split; [assumption|].
      rewrite delete_point_uuid by lia. destruct (n =? nid); [reflexivity|assumption].
    + split; [assumption|]. rewrite delete_point_uuid by assumption. now rewrite N.eqb_refl.
  - intros n Hn'. rewrite delete_point_uuid by assumption.
    destruct (N.eqb_spec n nid); [intros H; now contradiction H|]. now apply (a_live _ _ _ A).
  - intros n Hn'. rewrite in_app_iff. cbn. destruct (N.eq_dec n nid) as [->|Hne]; [left; right; now left|].
    destruct (a_cover _ _ _ A _ Hn') as [H|H]; [now left; left|].
    right. rewrite delete_point_uuid by lia. destruct (N.eqb_spec n nid); [contradiction|assumption].
  - assumption.
Qed.

Lemma delete_go_sim ids : forall b fl nf s b' fl' del,
  WfP b -> AInv b fl nf -> (forall u, lookup b u = st_get u s) -> NoDup ids ->
  m_delete_go ids b fl = (b', fl', del) ->
  del = filter (fun id => st_mem id s) ids /\ WfP b' /\ AInv b' fl' nf /\
  (forall u, lookup b' u = st_get u (fold_left (fun acc id => st_remove id acc) del s)) /\
  (npts b' + length del = npts b)%nat.
Proof.
  induction ids as [|u r IH]; intros b fl nf s b' fl' del W A L Hnd H.
  - cbn in H. inversion H; subst. cbn.
    split; [reflexivity|split; [assumption|split; [assumption|split; [assumption|lia]]]].
  - cbn [m_delete_go] in H. inversion Hnd; subst.
    pose proof (L u) as Lu. unfold lookup in Lu. cbn [filter]. unfold st_mem at 1.
    destruct (get_point u b) as [[nid old]|] eqn:Eg.
    + rewrite <- Lu. apply get_point_some in Eg.
      destruct (m_delete_go r (delete_point b u nid) (fl ++ [nid])) as [[b1 fl1] del1] eqn:EM.
      inversion H; subst. clear H.
      destruct (IH (delete_point b u nid) (fl ++ [nid]) nf (st_remove u s) b' fl' del1) as (Hd & W' & A' & L' & N').
      * now apply WfP_delete_point.
      * now apply AInv_delete.
      * intros u'. rewrite (lookup_delete_point b nid u u' W Eg), st_get_remove.
        destruct (bytes_eqb u' u); [reflexivity|apply L].
      * assumption.
      * assumption.
      * split; [|split; [assumption|split; [assumption|split; [assumption|]]]].
        -- f_equal. rewrite Hd. apply filter_ext_in. intros id Hid. unfold st_mem.
           rewrite st_get_remove. destruct (bytes_eqb id u) eqn:E; [|reflexivity].
           apply bytes_eqb_eq in E. subst. contradiction.
        -- cbn [length]. pose proof (npts_delete_point b nid u (wf_nodup _ W) Eg). lia.
    + rewrite <- Lu. now apply (IH b fl nf s).
Qed.

(* ========================= one batch ====================================== *)

(* the simulation relation: M is well-formed and reads like S *)
Definition Sim (m : mstate) (s : store) : Prop :=
  InvM m /\ forall u, lookup (pts m) u = st_get u s.

Lemma InvM_init : InvM m_init.
Proof. constructor; cbn; [apply WfP_empty|apply AInv_init|reflexivity]. Qed.
Lemma Sim_init : Sim m_init [].
Proof. split; [apply InvM_init|reflexivity]. Qed.

Lemma m_exists_st_mem m s u : Sim m s -> m_exists u (pts m) = st_mem u s.
Proof.
  intros [I L]. rewrite m_exists_lookup by apply (inv_wf _ I). rewrite L. reflexivity.
Qed.

Lemma existsb_false_In {A} (f : A -> bool) l x : existsb f l = false -> In x l -> f x = false.
Proof.
  intros H Hx. destruct (f x) eqn:E; [|reflexivity].
  assert (existsb f l = true) by (apply existsb_exists; now exists x). congruence.
Qed.

Lemma lookup_none_key b u : WfP b -> lookup b u = None -> b_get (k_node u) b = None.
Proof.
  intros W H. apply get_point_none; [assumption|]. unfold lookup in H.
  destruct (get_point u b) as [[? ?]|]; [discriminate|reflexivity].
Qed.

Lemma insert_sim sc ps cs m s m' o :
  Sim m s -> m_insert sc ps cs m = Some (m', o) ->
  o = snd (insert_spec sc ps s) /\ Sim m' (fst (insert_spec sc ps s)).
Proof.
  intros HS H. pose proof HS as [I L]. unfold m_insert in H. unfold insert_spec.
  destruct (has_dup (map fst ps)) eqn:Ed.
  - inversion H; subst. cbn. now split.
  - rewrite (existsb_ext' (fun p => m_exists (fst p) (pts m)) (fun p => st_mem (fst p) s)) in H
      by (intros p _; now apply m_exists_st_mem).
    destruct (existsb (fun p => st_mem (fst p) s) ps) eqn:Ee.
    + cbn [app] in *. inversion H; subst. cbn. now split.
    + cbn [app] in *. destruct (forallb (fun p => well_typed sc (snd p)) ps) eqn:Et.
      2:{ inversion H; subst. cbn. now split. }
      destruct (m_insert_go ps cs (pts m) (load_free (free m)) (nextfree m)) as [[[b' fl'] nf']|] eqn:Eg;
        [|discriminate].
      inversion H; subst. clear H. cbn [fst snd].
      unfold load_free in Eg. rewrite dedupN_NoDup_id in Eg by apply (a_nodup _ _ _ (inv_alloc _ I)).
      apply insert_go_sim with (s := s) in Eg.
      * destruct Eg as (W' & A' & L' & N'). split; [reflexivity|]. split; [|exact L'].
        constructor; cbn [pts count free nextfree]; [assumption..|].
        unfold abs. cbn [pts]. rewrite abs_length, N'. rewrite (inv_count _ I). unfold abs.
        rewrite abs_length. lia.
      * apply (inv_wf _ I).
      * apply (inv_alloc _ I).
      * assumption.
      * now apply has_dup_false.
      * intros p Hp. apply lookup_none_key; [apply (inv_wf _ I)|]. rewrite L.
        pose proof (existsb_false_In _ _ p Ee Hp) as Hm. cbn in Hm. unfold st_mem in Hm.
        destruct (st_get (fst p) s); [discriminate|reflexivity].
Qed.

Lemma update_sim sc maxsize ps m s m' o :
  Sim m s -> m_update sc maxsize ps m = (m', o) ->
  o = snd (update_spec sc maxsize ps s) /\ Sim m' (fst (update_spec sc maxsize ps s)).
Proof.
  intros HS H. pose proof HS as [I L]. unfold m_update in H. unfold update_spec.
  destruct (m_update_go sc maxsize ps (pts m)) as [[b' ids] es] eqn:EM.
  destruct (update_go sc maxsize ps s) as [[s' ids'] es'] eqn:ES.
  destruct (update_go_sim sc maxsize ps _ _ _ _ _ _ _ _ (inv_wf _ I) L EM ES) as (-> & -> & W' & L' & U' & N').
  destruct es' as [|e es'].
  - inversion H; subst. cbn [fst snd]. split; [reflexivity|]. split; [|exact L'].
    pose proof (inv_alloc _ I) as A.
    constructor; cbn [pts count free nextfree]; [assumption| |].
    + constructor.
      * apply (a_nodup _ _ _ A).
      * intros n Hn. destruct (a_free _ _ _ A _ Hn) as [Hr Hf]. split; [assumption|].
        apply U'; [|assumption]. pose proof (a_nf _ _ _ A). lia.
      * intros n Hn Hl. apply (a_live _ _ _ A); [assumption|]. intros Hc. apply Hl. now apply U'.
      * intros n Hn. destruct (a_cover _ _ _ A _ Hn) as [Hc|Hc]; [now left|right].
        intros Hc'. apply Hc. apply U'; [|assumption]. pose proof (a_nf _ _ _ A). lia.
      * apply (a_nf _ _ _ A).
    + unfold abs. cbn [pts]. rewrite abs_length, N'. rewrite (inv_count _ I). unfold abs. now rewrite abs_length.
  - inversion H; subst. cbn [fst snd]. now split.
Qed.

Lemma delete_sim ids m s m' o :
  Sim m s -> m_delete ids m = (m', o) ->
  o = snd (delete_spec ids s) /\ Sim m' (fst (delete_spec ids s)).
Proof.
  intros HS H. pose proof HS as [I L]. unfold m_delete in H. unfold delete_spec.
  unfold load_free in H. rewrite dedupN_NoDup_id in H by apply (a_nodup _ _ _ (inv_alloc _ I)).
  destruct (m_delete_go (dedup ids) (pts m) (free m)) as [[b' fl'] del] eqn:EM.
  inversion H; subst. clear H. cbn [fst snd].
  destruct (delete_go_sim _ _ _ _ _ _ _ _ (inv_wf _ I) (inv_alloc _ I) L (dedup_NoDup ids) EM)
    as (Hd & W' & A' & L' & N').
  rewrite <- Hd. split; [reflexivity|]. split; [|exact L'].
  constructor; cbn [pts count free nextfree]; [assumption..|].
  unfold abs. cbn [pts]. rewrite abs_length. rewrite (inv_count _ I). unfold abs. rewrite abs_length. lia.
Qed.

Lemma apply_sim sc maxsize b cs m s m' o :
  Sim m s -> m_apply sc maxsize b cs m = Some (m', o) ->
  o = snd (apply_spec sc maxsize b s) /\ Sim m' (fst (apply_spec sc maxsize b s)).
Proof.
  intros HS H. destruct b as [ps|ps|ids]; cbn [m_apply apply_spec] in *.
  - now apply (insert_sim sc ps cs m).
  - inversion H as [H']. now apply (update_sim sc maxsize ps m).
  - inversion H as [H']. now apply (delete_sim ids m).
Qed.

(* ========================= histories ====================================== *)

Lemma run_sim sc maxsize h : forall css m s m' outs,
  Sim m s -> runM sc maxsize h css m = Some (m', outs) ->
  outs = snd (runS sc maxsize h s) /\ Sim m' (fst (runS sc maxsize h s)).
Proof.
  induction h as [|b r IH]; intros css m s m' outs HS H; cbn [runM runS] in *.
  - inversion H; subst. now split.
  - destruct (m_apply sc maxsize b (hd [] css) m) as [[m1 o1]|] eqn:E1; [|discriminate].
    destruct (runM sc maxsize r (tl css) m1) as [[m2 os]|] eqn:E2; [|discriminate].
    inversion H; subst. clear H.
    destruct (apply_sim _ _ _ _ _ _ _ _ HS E1) as [Ho HS1].
    destruct (apply_spec sc maxsize b s) as [s1 o1'] eqn:ES. cbn [fst snd] in *.
    destruct (IH _ _ _ _ _ HS1 E2) as [Hos HS2].
    destruct (runS sc maxsize r s1) as [s2 os'] eqn:ER. cbn [fst snd] in *. subst. now split.
Qed.

Lemma doc_equiv_refl d : doc_equiv d d.
Proof. intros k. reflexivity. Qed.
Lemma store_same_equiv a b : store_same a b -> store_equiv a b.
Proof.
  intros H id. rewrite (H id). destruct (st_get id b); [apply doc_equiv_refl|exact I].
Qed.

Lemma refines sc maxsize h css m outs :
  runM sc maxsize h css m_init = Some (m, outs) ->
  store_same (abs m) (fst (runS sc maxsize h [])) /\
  store_equiv (abs m) (fst (runS sc maxsize h [])) /\
  outs = snd (runS sc maxsize h []).
Proof.
  intros H. destruct (run_sim _ _ _ _ _ _ _ _ Sim_init H) as [Ho [I L]].
  assert (HS : store_same (abs m) (fst (runS sc maxsize h []))).
  { intros id. unfold abs. rewrite abs_get by apply (inv_wf _ I). apply L. }
  split; [assumption|]. split; [now apply store_same_equiv|assumption].
Qed.

Lemma reachable_inv sc maxsize m : reachable sc maxsize m -> InvM m.
Proof.
  intros (h & css & outs & H). destruct (run_sim _ _ _ _ _ _ _ _ Sim_init H) as [_ [I _]]. exact I.
Qed.

(* a rejected batch leaves M unchanged *)
Lemma failed_batch_noop sc maxsize b cs m m' es :
  m_apply sc maxsize b cs m = Some (m', SErr es) -> m' = m /\ abs m' = abs m.
Proof.
  intros H. assert (m' = m); [|subst; now split].
  destruct b as [ps|ps|ids]; cbn [m_apply] in H.
  - unfold m_insert in H. destruct (has_dup (map fst ps)); [now inversion H|].
    destruct ((if existsb (fun p => m_exists (fst p) (pts m)) ps then [ERR_EXISTS] else []) ++
              (if forallb (fun p => well_typed sc (snd p)) ps then [] else [ERR_TYPE])) eqn:E.
    + destruct (m_insert_go ps cs (pts m) (load_free (free m)) (nextfree m)) as [[[? ?] ?]|]; [|discriminate].
      inversion H.
    + now inversion H.
  - unfold m_update in H. destruct (m_update_go sc maxsize ps (pts m)) as [[b' ids] es0].
    destruct es0; now inversion H.
  - unfold m_delete in H. destruct (m_delete_go (dedup ids) (pts m) (load_free (free m))) as [[? ?] ?].
    inversion H.
Qed.

(* the allocator can always proceed *)
Fixpoint pick_choices (n : nat) (fl : list N) (nf : N) : list N :=
  match n with
  | O => []
  | S n' => match fl with
            | c :: _ => c :: pick_choices n' (removeN c fl) nf
            | [] => nf :: pick_choices n' [] (nf + 1)
            end
  end.

Lemma pick_choices_ok ps : forall b fl nf,
  nf + N.of_nat (length ps) < two64 ->
  m_insert_go ps (pick_choices (length ps) fl nf) b fl nf <> None.
Proof.
  induction ps as [|[u d] r IH]; intros b fl nf Hb; cbn [length pick_choices m_insert_go]; [discriminate|].
  destruct fl as [|c fl0].
  - unfold next_id. cbn [memN]. rewrite N.eqb_refl. cbn [andb].
    destruct (N.ltb_spec (nf + 1) two64) as [_|Hge]; [|cbn [length] in Hb; lia].
    apply IH. cbn [length] in Hb. lia.
  - unfold next_id. cbn [memN]. rewrite N.eqb_refl. cbn [orb].
    apply IH. cbn [length] in Hb. lia.
Qed.

Lemma choice_exists sc maxsize b m :
  nextfree m + (match b with BInsert ps => N.of_nat (length ps) | _ => 0 end) < two64 ->
  exists cs, m_apply sc maxsize b cs m <> None.
Proof.
  intros Hb. destruct b as [ps|ps|ids]; cbn [m_apply]; [|exists []; discriminate..].
  exists (pick_choices (length ps) (load_free (free m)) (nextfree m)).
  unfold m_insert. destruct (has_dup (map fst ps)); [discriminate|].
  destruct ((if existsb (fun p => m_exists (fst p) (pts m)) ps then [ERR_EXISTS] else []) ++
            (if forallb (fun p => well_typed sc (snd p)) ps then [] else [ERR_TYPE])); [|discriminate].
  pose proof (pick_choices_ok ps (pts m) (load_free (free m)) (nextfree m) Hb) as H.
  destruct (m_insert_go ps (pick_choices (length ps) (load_free (free m)) (nextfree m)) (pts m)
              (load_free (free m)) (nextfree m)) as [[[? ?] ?]|]; [discriminate|contradiction].
Qed.

(* ========================= facts about the reference spec ================= *)

Lemma st_get_notin u (s : store) : ~ In u (map fst s) -> st_get u s = None.
Proof.
  induction s as [|[i d] r IH]; cbn; intros H; [reflexivity|].
  destruct (bytes_eqb u i) eqn:E.
  - apply bytes_eqb_eq in E. subst. exfalso. apply H. now left.
  - apply IH. intros Hi. apply H. now right.
Qed.
Lemma st_get_In u d (s : store) : st_get u s = Some d -> In (u, d) s.
Proof.
  induction s as [|[i x] r IH]; cbn; [discriminate|].
  destruct (bytes_eqb u i) eqn:E.
  - apply bytes_eqb_eq in E. subst. intros H. inversion H. now left.
  - intros H. right. now apply IH.
Qed.

Lemma fold_set_get ps : forall s id, NoDup (map fst ps) ->
  st_get id (fold_left (fun acc p => st_set (fst p) (snd p) acc) ps s) =
  match st_get id ps with Some d => Some d | None => st_get id s end.
Proof.
  induction ps as [|[u d] r IH]; intros s id Hnd; [reflexivity|].
  inversion Hnd; subst. cbn [fold_left fst snd st_get]. rewrite IH by assumption.
  destruct (bytes_eqb id u) eqn:E.
  - apply bytes_eqb_eq in E. subst id. rewrite (st_get_notin u r) by assumption.
    rewrite st_get_set. now rewrite bytes_eqb_refl.
  - rewrite st_get_set, E. reflexivity.
Qed.

Lemma forallb_false_ex {A} (f : A -> bool) l : forallb f l = false -> exists x, In x l /\ f x = false.
Proof.
  induction l as [|x r IH]; cbn; [discriminate|].
  destruct (f x) eqn:E; cbn.
  - intros H. destruct (IH H) as (y & Hy & Ey). exists y. split; [now right|assumption].
  - intros _. exists x. split; [now left|assumption].
Qed.

Definition insert_bad (sc : schema) (ps : list (uuid * doc)) (s : store) : Prop :=
  ~ NoDup (map fst ps) \/ (exists p, In p ps /\ st_get (fst p) s <> None) \/
  (exists p, In p ps /\ well_typed sc (snd p) = false).

Lemma spec_insert_rejects sc ps s :
  (insert_bad sc ps s -> exists es, es <> [] /\ insert_spec sc ps s = (s, SErr es)) /\
  (~ insert_bad sc ps s ->
     snd (insert_spec sc ps s) = SOk [] /\
     forall id, st_get id (fst (insert_spec sc ps s)) =
                match st_get id ps with Some d => Some d | None => st_get id s end).
Proof.
  unfold insert_spec, insert_bad. destruct (has_dup (map fst ps)) eqn:Ed.
  - split.
    + intros _. exists [ERR_DUP]. split; [discriminate|reflexivity].
    + intros H. exfalso. apply H. left. intros Hn. apply has_dup_false in Hn. congruence.
  - apply has_dup_false in Ed.
    destruct (existsb (fun p => st_mem (fst p) s) ps) eqn:Ee.
    + split.
      * intros _. eexists. split; [|reflexivity]. discriminate.
      * intros H. exfalso. apply H. right. left. apply existsb_exists in Ee.
        destruct Ee as (p & Hp & Hm). exists p. split; [assumption|]. now apply st_mem_get.
    + destruct (forallb (fun p => well_typed sc (snd p)) ps) eqn:Et; cbn [app].
      * split.
        -- intros [H|[(p & Hp & Hm)|(p & Hp & Hm)]].
           ++ contradiction.
           ++ apply st_mem_get in Hm. pose proof (existsb_false_In _ _ p Ee Hp) as Hf. cbn in Hf. congruence.
           ++ rewrite forallb_forall in Et. specialize (Et p Hp). congruence.
        -- intros _. cbn [fst snd]. split; [reflexivity|]. intros id. now apply fold_set_get.
      * split.
        -- intros _. eexists. split; [|reflexivity]. discriminate.
        -- intros H. exfalso. apply H. right. right. now apply forallb_false_ex in Et.
Qed.

Lemma update_go_reports sc maxsize ps : forall s s' ids es,
  update_go sc maxsize ps s = (s', ids, es) ->
  (forall id, In id ids <-> (In id (map fst ps) /\ st_get id s <> None)) /\
  (forall id, st_get id s' <> None <-> st_get id s <> None).
Proof.
  induction ps as [|[u inc] r IH]; intros s s' ids es H; cbn [update_go] in H.
  - inversion H; subst. cbn. split; intros id; tauto.
  - destruct (st_get u s) as [old|] eqn:Eu.
    + destruct (update_go sc maxsize r (st_set u (merge_doc delete_value old inc) s)) as [[s1 ids1] es1] eqn:E1.
      inversion H; subst. clear H. destruct (IH _ _ _ _ E1) as [Hi Hm].
      assert (Hset : forall id, st_get id (st_set u (merge_doc delete_value old inc) s) <> None <-> st_get id s <> None).
      { intros id. rewrite st_get_set. destruct (bytes_eqb id u) eqn:E; [|tauto].
        apply bytes_eqb_eq in E. subst. rewrite Eu. split; discriminate. }
      split.
      * intros id. cbn [In map fst]. rewrite Hi, Hset. split.
        -- intros [<-|[H1 H2]]; [split; [now left|congruence]|split; [now right|assumption]].
        -- intros [[<-|H1] H2]; [now left|right; now split].
      * intros id. now rewrite Hm, Hset.
    + destruct (IH _ _ _ _ H) as [Hi Hm]. split; [|assumption].
      intros id. cbn [In map fst]. rewrite Hi. split; [intros [H1 H2]; split; [now right|assumption]|].
      intros [[<-|H1] H2]; [congruence|now split].
Qed.

Lemma spec_update_reports sc maxsize ps s s' ids :
  update_spec sc maxsize ps s = (s', SOk ids) ->
  (forall id, In id ids <-> (In id (map fst ps) /\ st_get id s <> None)) /\
  (forall id, st_get id s' <> None <-> st_get id s <> None).
Proof.
  unfold update_spec. destruct (update_go sc maxsize ps s) as [[s1 ids1] es1] eqn:E.
  destruct es1; [|discriminate]. intros H. inversion H; subst. now apply (update_go_reports sc maxsize ps s _ _ []).
Qed.

Lemma fold_remove_get l : forall s id,
  st_get id (fold_left (fun acc i => st_remove i acc) l s) =
  if existsb (bytes_eqb id) l then None else st_get id s.
Proof.
  induction l as [|x r IH]; intros s id; [reflexivity|].
  cbn [fold_left existsb]. rewrite IH, st_get_remove.
  destruct (bytes_eqb id x), (existsb (bytes_eqb id) r); reflexivity.
Qed.

Lemma spec_delete_reports ids s s' known :
  delete_spec ids s = (s', SOk known) ->
  NoDup known /\
  (forall id, In id known <-> (In id ids /\ st_get id s <> None)) /\
  (forall id, In id ids -> st_get id s' = None) /\
  (forall id, ~ In id ids -> st_get id s' = st_get id s).
Proof.
  unfold delete_spec. intros H. inversion H; subst. clear H.
  assert (Hk : forall id, In id (filter (fun id0 => st_mem id0 s) (dedup ids)) <-> (In id ids /\ st_get id s <> None)).
  { intros id. rewrite filter_In, dedup_In, st_mem_get. tauto. }
  split; [apply NoDup_filter, dedup_NoDup|]. split; [exact Hk|]. split.
  - intros id Hid. rewrite fold_remove_get.
    destruct (existsb (bytes_eqb id) _) eqn:E; [reflexivity|].
    apply existsb_bytes_notIn in E. rewrite Hk in E.
    destruct (st_get id s) eqn:Eg; [|reflexivity]. exfalso. apply E. split; [assumption|discriminate].
  - intros id Hid. rewrite fold_remove_get.
    destruct (existsb (bytes_eqb id) _) eqn:E; [|reflexivity].
    apply existsb_bytes_In in E. apply Hk in E. tauto.
Qed.

Lemma spec_rejected_unchanged sc maxsize b s es :
  snd (apply_spec sc maxsize b s) = SErr es -> fst (apply_spec sc maxsize b s) = s.
Proof.
  destruct b as [ps|ps|ids]; cbn [apply_spec].
  - unfold insert_spec. destruct (has_dup (map fst ps)); [reflexivity|].
    destruct ((if existsb (fun p => st_mem (fst p) s) ps then [ERR_EXISTS] else []) ++
              (if forallb (fun p => well_typed sc (snd p)) ps then [] else [ERR_TYPE])); [discriminate|reflexivity].
  - unfold update_spec. destruct (update_go sc maxsize ps s) as [[s1 ids1] es1].
    destruct es1; [discriminate|reflexivity].
  - unfold delete_spec. discriminate.
Qed.

(* the shallow merge, key by key (incoming keys unique, as in a decoded msgpack map) *)
Lemma doc_get_remove k k' d : doc_get k (doc_remove k' d) = if bytes_eqb k k' then None else doc_get k d.
Proof.
  induction d as [|[i v] r IH]; cbn.
  - now destruct (bytes_eqb k k').
  - destruct (bytes_eqb k' i) eqn:E1.
    + apply bytes_eqb_eq in E1. subst i. rewrite IH. destruct (bytes_eqb k k'); reflexivity.
    + cbn. rewrite IH. destruct (bytes_eqb k i) eqn:E2; [|reflexivity].
      apply bytes_eqb_eq in E2. subst i. rewrite bytes_eqb_sym, E1. reflexivity.
Qed.
Lemma doc_get_set k k' v d : doc_get k (doc_set k' v d) = if bytes_eqb k k' then Some v else doc_get k d.
Proof.
  unfold doc_set. cbn. destruct (bytes_eqb k k') eqn:E; [reflexivity|]. rewrite doc_get_remove, E. reflexivity.
Qed.
Lemma doc_get_notin k (d : doc) : ~ In k (map fst d) -> doc_get k d = None.
Proof.
  induction d as [|[i v] r IH]; cbn; intros H; [reflexivity|].
  destruct (bytes_eqb k i) eqn:E.
  - apply bytes_eqb_eq in E. subst. exfalso. apply H. now left.
  - apply IH. intros Hi. apply H. now right.
Qed.

Definition merge_entry (dv : bytes) (v : value) : option value :=
  match v with VStr s => if bytes_eqb s dv then None else Some v | _ => Some v end.

Lemma merge_doc_get dv inc : forall old k, NoDup (map fst inc) ->
  doc_get k (merge_doc dv old inc) =
  match doc_get k inc with Some v => merge_entry dv v | None => doc_get k old end.
Proof.
  unfold merge_doc. induction inc as [|[i v] r IH]; intros old k Hnd; [reflexivity|].
  inversion Hnd; subst. cbn [fold_left fst snd doc_get]. rewrite IH by assumption.
  destruct (bytes_eqb k i) eqn:E.
  - apply bytes_eqb_eq in E. subst i. rewrite (doc_get_notin k r) by assumption.
    unfold merge_entry. destruct v; try (rewrite doc_get_set, bytes_eqb_refl; reflexivity).
    destruct (bytes_eqb s dv).
    + now rewrite doc_get_remove, bytes_eqb_refl.
    + now rewrite doc_get_set, bytes_eqb_refl.
  - destruct (doc_get k r); [reflexivity|].
    destruct v; try (rewrite doc_get_set, E; reflexivity).
    destruct (bytes_eqb s dv); [now rewrite doc_get_remove, E|now rewrite doc_get_set, E].
Qed.

(* ========================= boolean mirrors ================================ *)

Lemma value_eqb_refl v : value_eqb v v = true.
Proof. now apply value_eqb_eq. Qed.
Lemma ovalue_eqb_eq a b : ovalue_eqb a b = true <-> a = b.
Proof.
  destruct a, b; cbn; try (split; congruence).
  rewrite value_eqb_eq. split; congruence.
Qed.
Lemma doc_get_In k v (d : doc) : doc_get k d = Some v -> In (k, v) d.
Proof.
  induction d as [|[i x] r IH]; cbn; [discriminate|].
  destruct (bytes_eqb k i) eqn:E.
  - apply bytes_eqb_eq in E. subst. intros H. inversion H. now left.
  - intros H. right. now apply IH.
Qed.

Lemma doc_equivb_spec a b : doc_equivb a b = true <-> doc_equiv a b.
Proof.
  unfold doc_equivb, doc_equiv. rewrite forallb_forall. split.
  - intros H k. destruct (doc_get k a) as [v|] eqn:Ea.
    + apply doc_get_In in Ea as Hi. specialize (H (k, v) (in_or_app _ _ _ (or_introl Hi))).
      cbn in H. apply ovalue_eqb_eq in H. congruence.
    + destruct (doc_get k b) as [v|] eqn:Eb; [|reflexivity].
      apply doc_get_In in Eb as Hi. specialize (H (k, v) (in_or_app _ _ _ (or_intror Hi))).
      cbn in H. apply ovalue_eqb_eq in H. congruence.
  - intros H kv _. apply ovalue_eqb_eq. apply H.
Qed.

Lemma doc_eqb_sound a b : doc_eqb a b = true -> doc_equiv a b.
Proof.
  unfold doc_eqb, doc_sub. rewrite !andb_true_iff, !forallb_forall. intros [[_ H1] H2] k.
  destruct (doc_get k a) as [v|] eqn:Ea.
  - apply doc_get_In in Ea. specialize (H1 _ Ea). cbn in H1.
    destruct (doc_get k b); [|discriminate]. apply value_eqb_eq in H1. now subst.
  - destruct (doc_get k b) as [v|] eqn:Eb; [|reflexivity].
    apply doc_get_In in Eb. specialize (H2 _ Eb). cbn in H2. rewrite Ea in H2. discriminate.
Qed.

Lemma odoc_equivb_spec a b :
  odoc_equivb a b = true <->
  match a, b with Some d, Some d' => doc_equiv d d' | None, None => True | _, _ => False end.
Proof.
  destruct a, b; cbn; try (split; [discriminate|contradiction]); [apply doc_equivb_spec|tauto].
Qed.

Lemma store_equivb_spec a b : store_equivb a b = true <-> store_equiv a b.
Proof.
  unfold store_equivb, store_equiv. rewrite forallb_forall. split.
  - intros H id. apply odoc_equivb_spec.
    destruct (st_get id a) as [d|] eqn:Ea.
    + apply st_get_In in Ea as Hi. specialize (H (id, d) (in_or_app _ _ _ (or_introl Hi))).
      cbn in H. now rewrite Ea in H.
    + destruct (st_get id b) as [d|] eqn:Eb; [|reflexivity].
      apply st_get_In in Eb as Hi. specialize (H (id, d) (in_or_app _ _ _ (or_intror Hi))).
      cbn in H. now rewrite Ea, Eb in H.
  - intros H p _. apply odoc_equivb_spec. apply H.
Qed.

(* ========================= the dump checker is sound ====================== *)

Lemma nodupN_b_spec l : nodupN_b l = true <-> NoDup l.
Proof.
  induction l as [|x r IH]; cbn; [split; [constructor|reflexivity]|].
  rewrite andb_true_iff, negb_true_iff, memN_notIn, IH. split.
  - intros [H1 H2]. now constructor.
  - intros H. inversion H; subst. now split.
Qed.
Lemma assocN_In {A} n (v : A) l : assocN n l = Some v -> In (n, v) l.
Proof.
  induction l as [|[i x] r IH]; cbn; [discriminate|].
  destruct (N.eqb_spec n i) as [->|].
  - intros H. inversion H. now left.
  - intros H. right. now apply IH.
Qed.
Lemma assocN_some_iff {A} n (l : list (N * A)) : assocN n l <> None <-> In n (map fst l).
Proof.
  induction l as [|[i x] r IH]; cbn; [tauto|].
  destruct (N.eqb_spec n i) as [->|Hne].
  - split; [intros _; now left|discriminate].
  - rewrite IH. split; [tauto|]. intros [H|H]; [congruence|assumption].
Qed.
Lemma raw_get_In {A} k (v : A) l : raw_get k l = Some v -> In (k, v) l.
Proof.
  induction l as [|[i x] r IH]; cbn; [discriminate|].
  destruct (bytes_eqb k i) eqn:E.
  - apply bytes_eqb_eq in E. subst. intros H. inversion H. now left.
  - intros H. right. now apply IH.
Qed.
Lemma NoDup_app_intro {A} (l1 l2 : list A) :
  NoDup l1 -> NoDup l2 -> (forall x, In x l1 -> ~ In x l2) -> NoDup (l1 ++ l2).
Proof.
  induction l1 as [|x r IH]; cbn; intros H1 H2 Hd; [assumption|].
  inversion H1; subst. constructor.
  - rewrite in_app_iff. intros [H|H]; [contradiction|]. apply (Hd x); [now left|assumption].
  - apply IH; [assumption..|]. intros y Hy. apply Hd. now right.
Qed.

Definition rangeN (lo hi : N) : list N := map N.of_nat (seq (N.to_nat lo) (N.to_nat hi - N.to_nat lo)).
Lemma rangeN_In lo hi n : In n (rangeN lo hi) <-> lo <= n < hi.
Proof.
  unfold rangeN. rewrite in_map_iff. split.
  - intros (k & <- & Hk). apply in_seq in Hk. lia.
  - intros H. exists (N.to_nat n). split; [apply N2Nat.id|]. apply in_seq. lia.
Qed.
Lemma rangeN_length lo hi : length (rangeN lo hi) = (N.to_nat hi - N.to_nat lo)%nat.
Proof. unfold rangeN. now rewrite map_length, seq_length. Qed.

Lemma dump_checker_sound d : dump_inv_b d = true -> DumpInv d.
Proof.
  unfold dump_inv_b. rewrite !andb_true_iff.
  intros [[[[[[[[[[[[[[_ Hup] Hun] Hud] Hpn] Hnp] Hld] Hdl] Hln] Hlr] Hfn] Hfr] Hnf2] Hcard] Hcnt].
  apply negb_true_iff, has_dup_false in Hup.
  apply nodupN_b_spec in Hun, Hud, Hln, Hfn.
  rewrite forallb_forall in Hpn, Hnp, Hld, Hdl, Hlr, Hfr.
  apply N.leb_le in Hnf2. apply N.eqb_eq in Hcard, Hcnt.
  assert (Hlive : forall n, In n (dump_live d) -> first_node_id <= n < dump_nextfree d /\ n <> 0 /\ n <> start_id).
  { intros n Hn. specialize (Hlr n Hn). rewrite !andb_true_iff in Hlr. destruct Hlr as [[H1 H2] H3].
    apply N.ltb_lt in H1, H3. apply N.leb_le in H2. unfold start_id in *. repeat split; lia. }
  assert (Hfree : forall n, In n (dump_free d) -> first_node_id <= n < dump_nextfree d /\ ~ In n (dump_live d)).
  { intros n Hn. specialize (Hfr n Hn). rewrite !andb_true_iff in Hfr. destruct Hfr as [[H1 H2] H3].
    apply negb_true_iff, memN_notIn in H1. apply N.ltb_lt in H3. apply N.leb_le in H2. repeat split; assumption. }
  constructor.
  - intros u n. split.
    + intros H. specialize (Hpn _ H). cbn [fst snd] in Hpn.
      destruct (assocN n (dump_nodes d)) as [u'|] eqn:E; [|discriminate].
      apply bytes_eqb_eq in Hpn. subst u'. now apply assocN_In.
    + intros H. specialize (Hnp _ H). cbn [fst snd] in Hnp.
      destruct (raw_get u (dump_pts d)) as [n'|] eqn:E; [|discriminate].
      apply N.eqb_eq in Hnp. subst n'. now apply raw_get_In.
  - assumption.
  - assumption.
  - intros n. split.
    + intros H. specialize (Hld n H). apply assocN_some_iff.
      destruct (assocN n (dump_datas d)); [discriminate|discriminate].
    + intros H. apply in_map_iff in H. destruct H as (nd & <- & Hnd). apply memN_In. now apply Hdl.
  - assumption.
  - assumption.
  - assumption.
  - (* cardinality argument *)
    intros n Hn.
    assert (Hnd : NoDup (dump_free d ++ dump_live d)).
    { apply NoDup_app_intro; [assumption..|]. intros x Hx. now apply Hfree. }
    assert (Hincl : incl (dump_free d ++ dump_live d) (rangeN first_node_id (dump_nextfree d))).
    { intros x Hx. apply rangeN_In. apply in_app_iff in Hx. destruct Hx as [Hx|Hx]; [now apply Hfree|now apply Hlive]. }
    assert (Hlen : (length (rangeN first_node_id (dump_nextfree d)) <= length (dump_free d ++ dump_live d))%nat).
    { rewrite rangeN_length, app_length. lia. }
    pose proof (NoDup_length_incl Hnd Hlen Hincl) as Hcov.
    apply in_app_iff. apply Hcov. now apply rangeN_In.
  - rewrite Hcnt. unfold dump_live. now rewrite map_length.
Qed.

(* ========================= the point count equals |S| ===================== *)

Lemma abs_ids_keys b0 l u : In u (map fst (flat_map (abs_entry b0) l)) -> In (k_node u) (map fst l).
Proof.
  induction l as [|[k v] r IH]; cbn [flat_map map]; [contradiction|].
  rewrite map_app, in_app_iff. intros [H|H]; [|right; now apply IH].
  left. unfold abs_entry in H. cbn [fst snd] in *.
  destruct (point_uuid_from_key k) as [u'|] eqn:Ek; [|contradiction].
  destruct v; try contradiction. cbn in H. destruct H as [<-|[]]. now apply point_uuid_some in Ek.
Qed.
Lemma abs_ids_NoDup b0 l : NoDup (map fst l) -> NoDup (map fst (flat_map (abs_entry b0) l)).
Proof.
  induction l as [|[k v] r IH]; cbn [flat_map map]; intros H; [constructor|].
  inversion H; subst. rewrite map_app. apply NoDup_app_intro; [| now apply IH |].
  - unfold abs_entry. cbn [fst snd]. destruct (point_uuid_from_key k); [destruct v|]; cbn; repeat constructor; auto.
  - intros u Hu Hr. apply abs_ids_keys in Hr. unfold abs_entry in Hu. cbn [fst snd] in Hu.
    destruct (point_uuid_from_key k) as [u'|] eqn:Ek; [|contradiction].
    destruct v; try contradiction. cbn in Hu. destruct Hu as [<-|[]].
    apply point_uuid_some in Ek. subst k. contradiction.
Qed.

Definition st_nodup (s : store) : Prop := NoDup (map fst s).
Lemma st_remove_keys id x s : In x (map fst (st_remove id s)) -> In x (map fst s) /\ x <> id.
Proof.
  induction s as [|[i d] r IH]; cbn; [tauto|].
  destruct (bytes_eqb id i) eqn:E.
  - intros H. destruct (IH H). split; [now right|assumption].
  - cbn. intros [<-|H].
    + split; [now left|]. intros ->. now rewrite bytes_eqb_refl in E.
    + destruct (IH H). split; [now right|assumption].
Qed.
Lemma st_remove_nodup id s : st_nodup s -> st_nodup (st_remove id s).
Proof.
  unfold st_nodup. induction s as [|[i d] r IH]; cbn; intros H; [constructor|].
  inversion H; subst. destruct (bytes_eqb id i); [now apply IH|].
  cbn. constructor; [|now apply IH]. intros Hi. apply st_remove_keys in Hi. tauto.
Qed.
Lemma st_set_nodup id d s : st_nodup s -> st_nodup (st_set id d s).
Proof.
  intros H. unfold st_set, st_nodup. cbn. constructor; [|now apply st_remove_nodup].
  intros Hi. apply st_remove_keys in Hi. tauto.
Qed.
Lemma fold_set_nodup ps : forall s, st_nodup s -> st_nodup (fold_left (fun acc p => st_set (fst p) (snd p) acc) ps s).
Proof. induction ps as [|p r IH]; intros s H; [assumption|]. cbn. apply IH. now apply st_set_nodup. Qed.
Lemma fold_remove_nodup l : forall s, st_nodup s -> st_nodup (fold_left (fun acc i => st_remove i acc) l s).
Proof. induction l as [|p r IH]; intros s H; [assumption|]. cbn. apply IH. now apply st_remove_nodup. Qed.
Lemma update_go_nodup sc maxsize ps : forall s s' ids es,
  st_nodup s -> update_go sc maxsize ps s = (s', ids, es) -> st_nodup s'.
Proof.
  induction ps as [|[u inc] r IH]; intros s s' ids es Hs H; cbn [update_go] in H.
  - inversion H; now subst.
  - destruct (st_get u s) as [old|].
    + destruct (update_go sc maxsize r (st_set u (merge_doc delete_value old inc) s)) as [[s1 ids1] es1] eqn:E1.
      inversion H; subst. eapply IH; [|exact E1]. now apply st_set_nodup.
    + eapply IH; eassumption.
Qed.
Lemma apply_spec_nodup sc maxsize b s : st_nodup s -> st_nodup (fst (apply_spec sc maxsize b s)).
Proof.
  intros Hs. destruct b as [ps|ps|ids]; cbn [apply_spec].
  - unfold insert_spec. destruct (has_dup (map fst ps)); [assumption|].
    destruct ((if existsb (fun p => st_mem (fst p) s) ps then [ERR_EXISTS] else []) ++
              (if forallb (fun p => well_typed sc (snd p)) ps then [] else [ERR_TYPE])); [|assumption].
    now apply fold_set_nodup.
  - unfold update_spec. destruct (update_go sc maxsize ps s) as [[s1 ids1] es1] eqn:E.
    destruct es1; [|assumption]. cbn. eapply update_go_nodup; eassumption.
  - unfold delete_spec. cbn. now apply fold_remove_nodup.
Qed.
Lemma runS_nodup sc maxsize h : forall s, st_nodup s -> st_nodup (fst (runS sc maxsize h s)).
Proof.
  induction h as [|b r IH]; intros s Hs; cbn [runS]; [assumption|].
  pose proof (apply_spec_nodup sc maxsize b s Hs) as H1.
  destruct (apply_spec sc maxsize b s) as [s1 o1]. cbn [fst] in H1.
  specialize (IH s1 H1). destruct (runS sc maxsize r s1) as [s2 os]. exact IH.
Qed.

Lemma st_get_keys u (s : store) : st_get u s <> None <-> In u (map fst s).
Proof.
  split.
  - destruct (st_get u s) as [d|] eqn:E; [|congruence]. intros _. apply st_get_In in E.
    apply in_map_iff. now exists (u, d).
  - intros H Hn. induction s as [|[i d] r IH]; cbn in *; [contradiction|].
    destruct (bytes_eqb u i) eqn:E; [discriminate|]. destruct H as [<-|H]; [|now apply IH].
    now rewrite bytes_eqb_refl in E.
Qed.
Lemma store_same_length a b : st_nodup a -> st_nodup b -> store_same a b -> length a = length b.
Proof.
  intros Ha Hb H. rewrite <- (map_length fst a), <- (map_length fst b).
  apply Nat.le_antisymm; apply NoDup_incl_length; try assumption.
  - intros u Hu. apply st_get_keys. rewrite <- (H u). now apply st_get_keys.
  - intros u Hu. apply st_get_keys. rewrite (H u). now apply st_get_keys.
Qed.

Lemma refines_count sc maxsize h css m outs :
  runM sc maxsize h css m_init = Some (m, outs) ->
  count m = N.of_nat (length (fst (runS sc maxsize h []))).
Proof.
  intros H. destruct (run_sim _ _ _ _ _ _ _ _ Sim_init H) as [_ [I L]].
  rewrite (inv_count _ I). f_equal. apply store_same_length.
  - unfold st_nodup, abs, abs_bucket. apply abs_ids_NoDup. apply (wf_nodup _ (inv_wf _ I)).
  - apply runS_nodup. constructor.
  - intros id. unfold abs. rewrite abs_get by apply (inv_wf _ I). apply L.
Qed.

(* ========================= runM is not vacuous ============================ *)

Lemma insert_go_nextfree ps : forall cs b fl nf b' fl' nf',
  m_insert_go ps cs b fl nf = Some (b', fl', nf') -> nf' <= nf + N.of_nat (length ps).
Proof.
  induction ps as [|[u d] r IH]; intros cs b fl nf b' fl' nf' H.
  - destruct cs; [|discriminate]. inversion H; subst. cbn. lia.
  - destruct cs as [|c cs']; [discriminate|]. cbn [m_insert_go] in H.
    destruct (next_id c fl nf) as [[fl1 nf1]|] eqn:En; [|discriminate].
    apply IH in H. unfold next_id in En. destruct (memN c fl).
    + inversion En; subst. cbn [length]. lia.
    + destruct fl; [|discriminate]. destruct ((c =? nf) && (nf + 1 <? two64)); [|discriminate].
      inversion En; subst. cbn [length]. lia.
Qed.
Lemma apply_nextfree sc maxsize b cs m m' o :
  m_apply sc maxsize b cs m = Some (m', o) -> nextfree m' <= nextfree m + batch_points b.
Proof.
  destruct b as [ps|ps|ids]; cbn [m_apply batch_points].
  - unfold m_insert. destruct (has_dup (map fst ps)); [intros H; inversion H; lia|].
    destruct ((if existsb (fun p => m_exists (fst p) (pts m)) ps then [ERR_EXISTS] else []) ++
              (if forallb (fun p => well_typed sc (snd p)) ps then [] else [ERR_TYPE])).
    + destruct (m_insert_go ps cs (pts m) (load_free (free m)) (nextfree m)) as [[[b' fl'] nf']|] eqn:E; [|discriminate].
      intros H. inversion H; subst. cbn. now apply insert_go_nextfree in E.
    + intros H; inversion H; lia.
  - unfold m_update. destruct (m_update_go sc maxsize ps (pts m)) as [[b' ids] es].
    destruct es; intros H; inversion H; cbn; lia.
  - unfold m_delete. destruct (m_delete_go (dedup ids) (pts m) (load_free (free m))) as [[b' fl'] del].
    intros H; inversion H; cbn; lia.
Qed.

Lemma run_exists sc maxsize h : forall m,
  nextfree m + hist_points h < two64 -> exists css m' outs, runM sc maxsize h css m = Some (m', outs).
Proof.
  induction h as [|b r IH]; intros m Hb.
  - exists [], m, []. reflexivity.
  - cbn [hist_points] in Hb.
    destruct (choice_exists sc maxsize b m) as [cs Hcs].
    { fold (batch_points b). lia. }
    destruct (m_apply sc maxsize b cs m) as [[m1 o1]|] eqn:E1; [|contradiction].
    pose proof (apply_nextfree _ _ _ _ _ _ _ E1) as Hn.
    destruct (IH m1) as (css & m2 & os & E2); [lia|].
    exists (cs :: css), m2, (o1 :: os). cbn [runM hd tl]. now rewrite E1, E2.
Qed.

(* ========================= statements in the form Props_C01.v uses ======== *)

Lemma reads sc maxsize m : reachable sc maxsize m -> forall u, lookup (pts m) u = st_get u (abs m).
Proof. intros H u. symmetry. apply abs_get. apply (inv_wf _ (reachable_inv sc maxsize m H)). Qed.

Lemma run_exists_init sc maxsize h :
  first_node_id + hist_points h < two64 -> exists css m outs, runM sc maxsize h css m_init = Some (m, outs).
Proof. intros H. exact (run_exists sc maxsize h m_init H). Qed.

Lemma spec_merge (inc old : doc) (k : bytes) : NoDup (map fst inc) ->
  doc_get k (merge_doc delete_value old inc) =
  match doc_get k inc with Some v => merge_entry delete_value v | None => doc_get k old end.
Proof. intros H. exact (merge_doc_get delete_value inc old k H). Qed.

(* ========================= the refinement in terms of store_eqb =========== *)

Lemma doc_remove_keys k x (d : doc) : In x (map fst (doc_remove k d)) -> In x (map fst d) /\ x <> k.
Proof.
  induction d as [|[i v] r IH]; cbn; [tauto|].
  destruct (bytes_eqb k i) eqn:E.
  - intros H. destruct (IH H). split; [now right|assumption].
  - cbn. intros [<-|H].
    + split; [now left|]. intros ->. now rewrite bytes_eqb_refl in E.
    + destruct (IH H). split; [now right|assumption].
Qed.
Lemma doc_remove_wf k d : doc_wf d -> doc_wf (doc_remove k d).
Proof.
  unfold doc_wf. induction d as [|[i v] r IH]; cbn; intros H; [constructor|].
  inversion H; subst. destruct (bytes_eqb k i); [now apply IH|].
  cbn. constructor; [|now apply IH]. intros Hi. apply doc_remove_keys in Hi. tauto.
Qed.
Lemma doc_set_wf k v d : doc_wf d -> doc_wf (doc_set k v d).
Proof.
  intros H. unfold doc_set, doc_wf. cbn. constructor; [|now apply doc_remove_wf].
  intros Hi. apply doc_remove_keys in Hi. tauto.
Qed.
Lemma merge_doc_wf dv inc : forall old, doc_wf old -> doc_wf (merge_doc dv old inc).
Proof.
  unfold merge_doc. induction inc as [|[k v] r IH]; intros old H; [assumption|].
  cbn [fold_left fst snd]. apply IH.
  destruct v; try (now apply doc_set_wf).
  destruct (bytes_eqb s dv); [now apply doc_remove_wf|now apply doc_set_wf].
Qed.

Definition store_docs_wf (s : store) : Prop := Forall (fun p => doc_wf (snd p)) s.
Lemma st_remove_docs_wf id s : store_docs_wf s -> store_docs_wf (st_remove id s).
Proof.
  unfold store_docs_wf. induction s as [|[i d] r IH]; cbn; intros H; [constructor|].
  inversion H; subst. destruct (bytes_eqb id i); [now apply IH|]. constructor; [assumption|now apply IH].
Qed.
Lemma st_set_docs_wf id d s : doc_wf d -> store_docs_wf s -> store_docs_wf (st_set id d s).
Proof. intros Hd H. unfold st_set. constructor; [assumption|now apply st_remove_docs_wf]. Qed.
Lemma fold_set_docs_wf ps : forall s, Forall (fun p => doc_wf (snd p)) ps -> store_docs_wf s ->
  store_docs_wf (fold_left (fun acc p => st_set (fst p) (snd p) acc) ps s).
Proof.
  induction ps as [|p r IH]; intros s Hp H; [assumption|]. inversion Hp; subst. cbn. apply IH; [assumption|].
  now apply st_set_docs_wf.
Qed.
Lemma fold_remove_docs_wf l : forall s, store_docs_wf s -> store_docs_wf (fold_left (fun acc i => st_remove i acc) l s).
Proof. induction l as [|p r IH]; intros s H; [assumption|]. cbn. apply IH. now apply st_remove_docs_wf. Qed.
Lemma update_go_docs_wf sc maxsize ps : forall s s' ids es,
  store_docs_wf s -> update_go sc maxsize ps s = (s', ids, es) -> store_docs_wf s'.
Proof.
  induction ps as [|[u inc] r IH]; intros s s' ids es Hs H; cbn [update_go] in H.
  - inversion H; now subst.
  - destruct (st_get u s) as [old|] eqn:Eu.
    + destruct (update_go sc maxsize r (st_set u (merge_doc delete_value old inc) s)) as [[s1 ids1] es1] eqn:E1.
      inversion H; subst. eapply IH; [|exact E1]. apply st_set_docs_wf; [|assumption].
      apply merge_doc_wf. apply st_get_In in Eu. unfold store_docs_wf in Hs. rewrite Forall_forall in Hs.
      exact (Hs _ Eu).
    + eapply IH; eassumption.
Qed.
Lemma apply_spec_docs_wf sc maxsize b s : batch_wf b -> store_docs_wf s -> store_docs_wf (fst (apply_spec sc maxsize b s)).
Proof.
  intros Hb Hs. destruct b as [ps|ps|ids]; cbn [apply_spec batch_wf] in *.
  - unfold insert_spec. destruct (has_dup (map fst ps)); [assumption|].
    destruct ((if existsb (fun p => st_mem (fst p) s) ps then [ERR_EXISTS] else []) ++
              (if forallb (fun p => well_typed sc (snd p)) ps then [] else [ERR_TYPE])); [|assumption].
    now apply fold_set_docs_wf.
  - unfold update_spec. destruct (update_go sc maxsize ps s) as [[s1 ids1] es1] eqn:E.
    destruct es1; [|assumption]. cbn. eapply update_go_docs_wf; eassumption.
  - unfold delete_spec. cbn. now apply fold_remove_docs_wf.
Qed.
Lemma runS_docs_wf sc maxsize h : forall s, hist_wf h -> store_docs_wf s -> store_docs_wf (fst (runS sc maxsize h s)).
Proof.
  induction h as [|b r IH]; intros s Hh Hs; cbn [runS]; [assumption|]. inversion Hh; subst.
  pose proof (apply_spec_docs_wf sc maxsize b s H1 Hs) as H1'.
  destruct (apply_spec sc maxsize b s) as [s1 o1]. cbn [fst] in H1'.
  specialize (IH s1 H2 H1'). destruct (runS sc maxsize r s1) as [s2 os]. exact IH.
Qed.

Lemma doc_get_first k v (d : doc) : doc_wf d -> In (k, v) d -> doc_get k d = Some v.
Proof.
  unfold doc_wf. induction d as [|[i w] r IH]; cbn; intros Hnd Hin; [contradiction|].
  inversion Hnd; subst. destruct Hin as [E|Hin].
  - inversion E; subst. now rewrite bytes_eqb_refl.
  - destruct (bytes_eqb k i) eqn:E; [|now apply IH].
    apply bytes_eqb_eq in E. subst i. exfalso. apply H1. apply in_map_iff. now exists (k, v).
Qed.
Lemma doc_eqb_refl d : doc_wf d -> doc_eqb d d = true.
Proof.
  intros H. unfold doc_eqb. rewrite Nat.eqb_refl. cbn [andb].
  assert (Hs : doc_sub d d = true).
  { unfold doc_sub. apply forallb_forall. intros [k v] Hi. cbn [fst snd].
    rewrite (doc_get_first k v d H Hi). apply value_eqb_refl. }
  now rewrite Hs.
Qed.
Lemma st_get_first u d (s : store) : st_nodup s -> In (u, d) s -> st_get u s = Some d.
Proof.
  unfold st_nodup. induction s as [|[i w] r IH]; cbn; intros Hnd Hin; [contradiction|].
  inversion Hnd; subst. destruct Hin as [E|Hin].
  - inversion E; subst. now rewrite bytes_eqb_refl.
  - destruct (bytes_eqb u i) eqn:E; [|now apply IH].
    apply bytes_eqb_eq in E. subst i. exfalso. apply H1. apply in_map_iff. now exists (u, d).
Qed.
Lemma store_sub_same a b : st_nodup a -> store_docs_wf a -> store_same a b -> store_sub a b = true.
Proof.
  intros Ha Hw H. unfold store_sub. apply forallb_forall. intros [u d] Hi. cbn [fst snd].
  rewrite <- (H u), (st_get_first u d a Ha Hi). apply doc_eqb_refl.
  unfold store_docs_wf in Hw. rewrite Forall_forall in Hw. exact (Hw _ Hi).
Qed.
Lemma store_same_docs_wf a b : st_nodup a -> store_same a b -> store_docs_wf b -> store_docs_wf a.
Proof.
  intros Ha H Hb. unfold store_docs_wf in *. rewrite Forall_forall in *. intros [u d] Hi.
  pose proof (st_get_first u d a Ha Hi) as Hg. rewrite (H u) in Hg. apply st_get_In in Hg. exact (Hb _ Hg).
Qed.

Lemma refines_eqb sc maxsize h css m outs :
  hist_wf h -> runM sc maxsize h css m_init = Some (m, outs) ->
  store_eqb (abs m) (fst (runS sc maxsize h [])) = true.
Proof.
  intros Hh H. destruct (run_sim _ _ _ _ _ _ _ _ Sim_init H) as [_ [I L]].
  set (S := fst (runS sc maxsize h [])) in *.
  assert (Ha : st_nodup (abs m)).
  { unfold st_nodup, abs, abs_bucket. apply abs_ids_NoDup. apply (wf_nodup _ (inv_wf _ I)). }
  assert (Hb : st_nodup S) by (apply runS_nodup; constructor).
  assert (Hs : store_same (abs m) S).
  { intros id. unfold abs. rewrite abs_get by apply (inv_wf _ I). apply L. }
  assert (Hw : store_docs_wf S) by (apply runS_docs_wf; [assumption|constructor]).
  unfold store_eqb. rewrite (store_same_length _ _ Ha Hb Hs), Nat.eqb_refl.
  rewrite (store_sub_same _ _ Ha (store_same_docs_wf _ _ Ha Hs Hw) Hs).
  rewrite (store_sub_same S (abs m) Hb Hw); [reflexivity|]. intros id. symmetry. apply Hs.
Qed.

(* ---- an empty string cannot become a key of a string / string-array index: such a document is ill-typed,
   so an insert batch that carries one is rejected as a whole (round k) ---- *)
Lemma empty_key_ill_typed_arr : forall (sc : schema) (path : bytes) (cs : bool) (d : doc) (l : list value),
  In (path, IStrArr cs) sc -> prop_value path d = QFound (VArr l) -> In (VStr []) l -> well_typed sc d = false.
Proof.
  intros sc path cs d l Hin Hpv Hl.
  destruct (well_typed sc d) eqn:E; [|reflexivity]. exfalso.
  unfold well_typed in E. rewrite forallb_forall in E. specialize (E _ Hin).
  cbn [fst snd] in E. rewrite Hpv in E. cbn [type_ok] in E.
  apply andb_true_iff in E. destruct E as [_ E].
  rewrite forallb_forall in E. specialize (E _ Hl). discriminate E.
Qed.

Lemma empty_key_ill_typed_str : forall (sc : schema) (path : bytes) (cs : bool) (d : doc),
  In (path, IStr cs) sc -> prop_value path d = QFound (VStr []) -> well_typed sc d = false.
Proof.
  intros sc path cs d Hin Hpv.
  destruct (well_typed sc d) eqn:E; [|reflexivity]. exfalso.
  unfold well_typed in E. rewrite forallb_forall in E. specialize (E _ Hin).
  cbn [fst snd] in E. rewrite Hpv in E. discriminate E.
Qed.

Lemma spec_empty_key_rejected : forall (sc : schema) (ps : list (uuid * doc)) (s : store) (p : uuid * doc) (path : bytes) (cs : bool),
  In p ps ->
  (In (path, IStr cs) sc /\ prop_value path (snd p) = QFound (VStr [])) \/
  (In (path, IStrArr cs) sc /\ exists l, prop_value path (snd p) = QFound (VArr l) /\ In (VStr []) l) ->
  exists es, es <> [] /\ insert_spec sc ps s = (s, SErr es).
Proof.
  intros sc ps s p path cs Hp H.
  apply (proj1 (spec_insert_rejects sc ps s)). right. right. exists p. split; [exact Hp|].
  destruct H as [[Hin Hpv]|[Hin [l [Hpv Hl]]]].
  - exact (empty_key_ill_typed_str sc path cs (snd p) Hin Hpv).
  - exact (empty_key_ill_typed_arr sc path cs (snd p) l Hin Hpv Hl).
Qed.
