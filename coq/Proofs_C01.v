(* Proofs_C01.v -- lemmas for property C01: the bucket-level mechanism model M
   (Model_C01M.v) refines the plain-map reference spec S (Model_C01.v); the
   allocator / two-way index invariant is inductive; facts about S; soundness
   of the boolean checker that judges dumped buckets. *)
From Coq Require Import List NArith ZArith Bool Lia Permutation.
From Coq Require Import ZifyBool ZifyN ZifyNat.
From Semadb Require Import Bytes U64 Value Obs KeyLayout Model_C19 Proofs_C19 Model_C01 Model_C01M.
Import ListNotations.
Open Scope N_scope.

(* ========================= byte-string equality =========================== *)

Lemma bytes_eqb_refl a : bytes_eqb a a = true.
Proof. now apply bytes_eqb_eq. Qed.
Lemma bytes_eqb_neq a b : a <> b -> bytes_eqb a b = false.
Proof. intros H. destruct (bytes_eqb a b) eqn:E; [|reflexivity]. apply bytes_eqb_eq in E. contradiction. Qed.
Lemma bytes_eqb_false a b : bytes_eqb a b = false -> a <> b.
Proof. intros H E. subst. rewrite bytes_eqb_refl in H. discriminate. Qed.
Lemma bytes_eqb_sym a b : bytes_eqb a b = bytes_eqb b a.
Proof.
  destruct (bytes_eqb a b) eqn:E.
  - apply bytes_eqb_eq in E. subst. now rewrite bytes_eqb_refl.
  - symmetry. apply bytes_eqb_neq. intros ->. now rewrite bytes_eqb_refl in E.
Qed.
Lemma bytes_dec (a b : bytes) : {a = b} + {a <> b}.
Proof. destruct (bytes_eqb a b) eqn:E; [left; now apply bytes_eqb_eq | right; now apply bytes_eqb_false]. Qed.

Lemma existsb_bytes_In x l : existsb (bytes_eqb x) l = true <-> In x l.
Proof.
  rewrite existsb_exists. split.
  - intros (y & Hy & E). apply bytes_eqb_eq in E. now subst.
  - intros H. exists x. split; [assumption|apply bytes_eqb_refl].
Qed.
Lemma existsb_bytes_notIn x l : existsb (bytes_eqb x) l = false <-> ~ In x l.
Proof. rewrite <- existsb_bytes_In. destruct (existsb (bytes_eqb x) l); split; congruence. Qed.

Lemma has_dup_false l : has_dup l = false <-> NoDup l.
Proof.
  induction l as [|x r IH]; cbn.
  - split; [constructor|reflexivity].
  - rewrite orb_false_iff, existsb_bytes_notIn, IH. split.
    + intros [H1 H2]. now constructor.
    + intros H. inversion H; subst. now split.
Qed.

Lemma dedup_In x l : In x (dedup l) <-> In x l.
Proof.
  induction l as [|y r IH]; cbn; [tauto|].
  destruct (existsb (bytes_eqb y) r) eqn:E.
  - rewrite IH. apply existsb_bytes_In in E. split; [tauto|]. intros [->|H]; assumption.
  - cbn. rewrite IH. tauto.
Qed.
Lemma dedup_NoDup l : NoDup (dedup l).
Proof.
  induction l as [|y r IH]; cbn; [constructor|].
  destruct (existsb (bytes_eqb y) r) eqn:E; [assumption|].
  constructor; [|assumption]. rewrite dedup_In. now apply existsb_bytes_notIn.
Qed.

Lemma existsb_ext' {A} (f g : A -> bool) l : (forall x, In x l -> f x = g x) -> existsb f l = existsb g l.
Proof.
  induction l as [|x r IH]; cbn; intros H; [reflexivity|].
  rewrite (H x) by now left. rewrite IH; [reflexivity|]. intros y Hy. apply H. now right.
Qed.

(* ========================= the reference store ============================ *)

Lemma st_get_remove id id' s :
  st_get id (st_remove id' s) = if bytes_eqb id id' then None else st_get id s.
Proof.
  induction s as [|[i d] r IH]; cbn.
  - now destruct (bytes_eqb id id').
  - destruct (bytes_eqb id' i) eqn:E1.
    + apply bytes_eqb_eq in E1. subst i. rewrite IH.
      destruct (bytes_eqb id id'); reflexivity.
    + cbn. rewrite IH. destruct (bytes_eqb id i) eqn:E2; [|reflexivity].
      apply bytes_eqb_eq in E2. subst i. rewrite bytes_eqb_sym, E1. reflexivity.
Qed.
Lemma st_get_set id id' d s :
  st_get id (st_set id' d s) = if bytes_eqb id id' then Some d else st_get id s.
Proof.
  unfold st_set. cbn. destruct (bytes_eqb id id') eqn:E; [reflexivity|].
  rewrite st_get_remove, E. reflexivity.
Qed.
Lemma st_mem_get id s : st_mem id s = true <-> st_get id s <> None.
Proof. unfold st_mem. destruct (st_get id s); split; congruence. Qed.

(* ========================= buckets ======================================== *)

Lemma b_get_del k k' b : b_get k (b_del k' b) = if bytes_eqb k k' then None else b_get k b.
Proof.
  induction b as [|[i v] r IH]; cbn.
  - now destruct (bytes_eqb k k').
  - destruct (bytes_eqb k' i) eqn:E1.
    + apply bytes_eqb_eq in E1. subst i. rewrite IH. destruct (bytes_eqb k k'); reflexivity.
    + cbn. rewrite IH. destruct (bytes_eqb k i) eqn:E2; [|reflexivity].
      apply bytes_eqb_eq in E2. subst i. rewrite bytes_eqb_sym, E1. reflexivity.
Qed.
Lemma b_get_put k k' v b : b_get k (b_put k' v b) = if bytes_eqb k k' then Some v else b_get k b.
Proof.
  unfold b_put. cbn. destruct (bytes_eqb k k') eqn:E; [reflexivity|].
  rewrite b_get_del, E. reflexivity.
Qed.
(* the usual map laws *)
Lemma b_get_put_eq k v b : b_get k (b_put k v b) = Some v.
Proof. now rewrite b_get_put, bytes_eqb_refl. Qed.
Lemma b_get_put_neq k k' v b : k <> k' -> b_get k (b_put k' v b) = b_get k b.
Proof. intros H. now rewrite b_get_put, bytes_eqb_neq. Qed.
Lemma b_get_del_eq k b : b_get k (b_del k b) = None.
Proof. now rewrite b_get_del, bytes_eqb_refl. Qed.
Lemma b_get_del_neq k k' b : k <> k' -> b_get k (b_del k' b) = b_get k b.
Proof. intros H. now rewrite b_get_del, bytes_eqb_neq. Qed.

Lemma b_del_In k kv b : In kv (b_del k b) -> In kv b /\ fst kv <> k.
Proof.
  induction b as [|[i v] r IH]; cbn; [tauto|].
  destruct (bytes_eqb k i) eqn:E.
  - intros H. destruct (IH H). split; [now right|assumption].
  - cbn. intros [<-|H].
    + split; [now left|]. cbn. intros ->. now rewrite bytes_eqb_refl in E.
    + destruct (IH H). split; [now right|assumption].
Qed.
Lemma b_del_NoDup k b : NoDup (map fst b) -> NoDup (map fst (b_del k b)).
Proof.
  induction b as [|[i v] r IH]; cbn; intros H; [constructor|].
  inversion H; subst. destruct (bytes_eqb k i); [now apply IH|].
  cbn. constructor; [|now apply IH].
  intros Hin. apply in_map_iff in Hin. destruct Hin as (kv & E & Hkv).
  apply b_del_In in Hkv. destruct Hkv as [Hkv _]. apply H2. apply in_map_iff. now exists kv.
Qed.
Lemma b_put_NoDup k v b : NoDup (map fst b) -> NoDup (map fst (b_put k v b)).
Proof.
  intros H. unfold b_put. cbn. constructor; [|now apply b_del_NoDup].
  intros Hin. apply in_map_iff in Hin. destruct Hin as (kv & E & Hkv).
  apply b_del_In in Hkv. destruct Hkv as [_ Hne]. now apply Hne.
Qed.
Lemma b_put_In k v kv b : In kv (b_put k v b) -> kv = (k, v) \/ In kv b.
Proof. unfold b_put. cbn. intros [<-|H]; [now left|]. right. now apply b_del_In in H. Qed.

Lemma b_get_In k v b : b_get k b = Some v -> In (k, v) b.
Proof.
  induction b as [|[i w] r IH]; cbn; [discriminate|].
  destruct (bytes_eqb k i) eqn:E.
  - apply bytes_eqb_eq in E. subst. intros H. inversion H. now left.
  - intros H. right. now apply IH.
Qed.
Lemma In_b_get k v b : NoDup (map fst b) -> In (k, v) b -> b_get k b = Some v.
Proof.
  induction b as [|[i w] r IH]; cbn; intros Hnd Hin; [contradiction|].
  inversion Hnd; subst. destruct Hin as [E|Hin].
  - inversion E; subst. now rewrite bytes_eqb_refl.
  - destruct (bytes_eqb k i) eqn:E; [|now apply IH].
    apply bytes_eqb_eq in E. subst i. exfalso. apply H1. apply in_map_iff. now exists (k, v).
Qed.
Lemma b_del_absent k b : b_get k b = None -> b_del k b = b.
Proof.
  induction b as [|[i w] r IH]; cbn; [reflexivity|].
  destruct (bytes_eqb k i); [discriminate|]. intros H. now rewrite IH.
Qed.

(* ========================= keys =========================================== *)

Lemma suffix_neq : suffix_id <> suffix_data.
Proof. discriminate. Qed.

Lemma k_node_inj u u' : k_node u = k_node u' -> u = u'.
Proof.
  unfold k_node, point_key. intros E. inversion E as [E']. now apply app_inj_tail in E'.
Qed.
Lemma k_node_eqb u u' : bytes_eqb (k_node u) (k_node u') = bytes_eqb u u'.
Proof.
  destruct (bytes_eqb u u') eqn:E.
  - apply bytes_eqb_eq in E. subst. apply bytes_eqb_refl.
  - apply bytes_eqb_neq. intros H. apply k_node_inj in H. subst. now rewrite bytes_eqb_refl in E.
Qed.
Lemma k_uuid_eqb n n' : n < two64 -> n' < two64 -> bytes_eqb (k_uuid n) (k_uuid n') = (n =? n').
Proof.
  intros H1 H2. destruct (N.eqb_spec n n') as [->|Hne]; [apply bytes_eqb_refl|].
  apply bytes_eqb_neq. intros E. apply node_key_inj in E; [|assumption..]. now destruct E.
Qed.
Lemma k_data_eqb n n' : n < two64 -> n' < two64 -> bytes_eqb (k_data n) (k_data n') = (n =? n').
Proof.
  intros H1 H2. destruct (N.eqb_spec n n') as [->|Hne]; [apply bytes_eqb_refl|].
  apply bytes_eqb_neq. intros E. apply node_key_inj in E; [|assumption..]. now destruct E.
Qed.
Lemma k_uuid_data_eqb n n' : n < two64 -> n' < two64 -> bytes_eqb (k_uuid n) (k_data n') = false.
Proof.
  intros H1 H2. apply bytes_eqb_neq. intros E. apply node_key_inj in E; [|assumption..].
  destruct E as [_ E]. now apply suffix_neq.
Qed.
Lemma k_data_uuid_eqb n n' : n < two64 -> n' < two64 -> bytes_eqb (k_data n) (k_uuid n') = false.
Proof. intros H1 H2. rewrite bytes_eqb_sym. now apply k_uuid_data_eqb. Qed.
Lemma k_node_uuid_eqb u n : bytes_eqb (k_node u) (k_uuid n) = false.
Proof. apply bytes_eqb_neq. intros E. symmetry in E. now apply node_point_keys_disjoint in E. Qed.
Lemma k_node_data_eqb u n : bytes_eqb (k_node u) (k_data n) = false.
Proof. apply bytes_eqb_neq. intros E. symmetry in E. now apply node_point_keys_disjoint in E. Qed.
Lemma k_uuid_node_eqb u n : bytes_eqb (k_uuid n) (k_node u) = false.
Proof. rewrite bytes_eqb_sym. apply k_node_uuid_eqb. Qed.
Lemma k_data_node_eqb u n : bytes_eqb (k_data n) (k_node u) = false.
Proof. rewrite bytes_eqb_sym. apply k_node_data_eqb. Qed.

Lemma point_uuid_k_node u : point_uuid_from_key (k_node u) = Some u.
Proof.
  unfold point_uuid_from_key, k_node, point_key.
  rewrite N.eqb_refl, last_app1, N.eqb_refl, removelast_app1.
  rewrite app_length. cbn [length]. replace (length u + 1 =? 0)%nat with false; [reflexivity|].
  symmetry. apply Nat.eqb_neq. lia.
Qed.
Lemma point_uuid_some k u : point_uuid_from_key k = Some u -> k = k_node u.
Proof.
  unfold point_uuid_from_key. destruct k as [|p rest]; [discriminate|].
  destruct (p =? point_prefix) eqn:E1; cbn [andb]; [|discriminate].
  destruct (length rest =? 0)%nat eqn:E2; cbn [negb andb]; [discriminate|].
  destruct (last rest 256 =? suffix_id) eqn:E3; [|discriminate].
  intros H. inversion H; subst u. apply N.eqb_eq in E1, E3. subst p.
  unfold k_node, point_key. f_equal. rewrite <- E3.
  apply app_removelast_last. intros ->. discriminate.
Qed.
Lemma point_uuid_k_uuid n s : point_uuid_from_key (node_key n s) = None.
Proof. reflexivity. Qed.

(* ========================= SetPoint / DeletePoint ========================== *)

Lemma set_point_node b nid u d u' :
  b_get (k_node u') (set_point b nid u d) = if bytes_eqb u' u then Some (VNode nid) else b_get (k_node u') b.
Proof.
  unfold set_point. rewrite !b_get_put, k_node_data_eqb, k_node_eqb, k_node_uuid_eqb. reflexivity.
Qed.
Lemma set_point_uuid b nid u d n : n < two64 -> nid < two64 ->
  b_get (k_uuid n) (set_point b nid u d) = if n =? nid then Some (VUuid u) else b_get (k_uuid n) b.
Proof.
  intros H1 H2. unfold set_point.
  rewrite !b_get_put, k_uuid_data_eqb, k_uuid_node_eqb, k_uuid_eqb by assumption. reflexivity.
Qed.
Lemma set_point_data b nid u d n : n < two64 -> nid < two64 ->
  b_get (k_data n) (set_point b nid u d) = if n =? nid then Some (VData d) else b_get (k_data n) b.
Proof.
  intros H1 H2. unfold set_point.
  rewrite !b_get_put, k_data_eqb, k_data_node_eqb, k_data_uuid_eqb by assumption. reflexivity.
Qed.
Lemma delete_point_node b nid u u' :
  b_get (k_node u') (delete_point b u nid) = if bytes_eqb u' u then None else b_get (k_node u') b.
Proof.
  unfold delete_point. rewrite !b_get_del, k_node_data_eqb, k_node_eqb, k_node_uuid_eqb. reflexivity.
Qed.
Lemma delete_point_uuid b nid u n : n < two64 -> nid < two64 ->
  b_get (k_uuid n) (delete_point b u nid) = if n =? nid then None else b_get (k_uuid n) b.
Proof.
  intros H1 H2. unfold delete_point.
  rewrite !b_get_del, k_uuid_data_eqb, k_uuid_node_eqb, k_uuid_eqb by assumption. reflexivity.
Qed.
Lemma delete_point_data b nid u n : n < two64 -> nid < two64 ->
  b_get (k_data n) (delete_point b u nid) = if n =? nid then None else b_get (k_data n) b.
Proof.
  intros H1 H2. unfold delete_point.
  rewrite !b_get_del, k_data_eqb, k_data_node_eqb, k_data_uuid_eqb by assumption. reflexivity.
Qed.
