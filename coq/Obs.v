(* Obs.v -- the shape of what the shard-level harness records from the real
   code: schema, write batches with their outputs, reads and query answers.
   Shared by C01..C10. Definitions only. *)
From Coq Require Import List NArith ZArith Bool.
From Semadb Require Import Bytes Value.
Import ListNotations.
Open Scope N_scope.

Definition uuid := bytes.

(* metric: 0 euclidean 1 cosine 2 dot 3 hamming 4 jaccard 5 haversine
   quantizer: QNone | QBinFixed threshold(f32 bits) | QBinLearned trigger | QProduct centroids subvectors trigger *)
Inductive quant := QNone | QBinFixed (thr : N) (metric : N) | QBinLearned (trigger : N) (metric : N)
                 | QProduct (ncent nsub trigger : N).
Inductive idx :=
| IInt | IFloat | IStr (case_sensitive : bool) | IStrArr (case_sensitive : bool) | IText
| IFlat (dim metric : N) (q : quant)
| IVamana (dim metric searchSize degree : N) (alpha : N) (q : quant).   (* alpha as float32 bits *)
Definition schema := list (bytes * idx).

Inductive batch :=
| BInsert (ps : list (uuid * doc))
| BUpdate (ps : list (uuid * doc))
| BDelete (ids : list uuid).

(* error kinds: 1 duplicate id in batch, 2 id already exists, 3 merged point too large,
   4 wrong field type, 9 other *)
Inductive bout := OOk (ids : list uuid) | OErr (kind : N) | OCrash (what : N).

(* operators: 0 equals 1 notEquals 2 startsWith 3 greaterThan 4 greaterThanOrEquals
   5 lessThan 6 lessThanOrEquals 7 inRange 8 containsAll 9 containsAny *)
Inductive query :=
| QAnd (qs : list query)
| QOr (qs : list query)
| QIdEq (id : uuid)
| QIdAny (ids : list uuid)
| QInt (prop : bytes) (op : N) (v e : Z)
| QFloat (prop : bytes) (op : N) (v e : N)
| QStr (prop : bytes) (op : N) (v e : bytes)
| QStrArr (prop : bytes) (op : N) (vs : list bytes)
| QText (prop : bytes) (op : N) (terms : list bytes) (limit : N) (weight : option N) (filter : option query)
| QFlat (prop : bytes) (vec : list N) (limit : N) (weight : option N) (filter : option query)
| QVamana (prop : bytes) (vec : list N) (searchSize limit : N) (weight : option N) (filter : option query).

Record request := mkReq {
  rq_query : query; rq_select : list bytes; rq_sort : list (bytes * bool); rq_offset : N; rq_limit : N }.

Record row := mkRow {
  r_id : uuid; r_doc : option doc; r_dist : option N; r_score : option N; r_hybrid : N }.
Inductive qout := QRows (rows : list row) | QError (kind : N).

Inductive extra :=
| XBucket (name : bytes) (kvs : list (bytes * bytes))   (* raw dump of a bucket (for "points": all keys except data keys) *)
| XDocs (name : bytes) (kds : list (bytes * doc))      (* the data keys of the points bucket with their decoded documents *)
| XNodeIds (m : list (uuid * N))
| XTokens (m : list (bytes * list bytes))        (* analysed tokens of every text value that occurs *)
| XF32s (bucket key : bytes) (vals : list N)       (* a float32 array persisted under a reserved key (thresholds, centroids) *)
| XOracle (qi : N) (dists : list (bytes * N))      (* for request number qi: harness-side float64 reference distance (bits) per candidate id *)
| XLogs (l : list (N * N * N))                     (* (corpus size, document frequency, float64 bits of log10(size/(df+1))) *)
| XCold (qs : list (request * qout))                (* the same requests answered by a fresh instance (cold cache) over a copy of the file *)
| XNote (n : N).

Record step := mkStep {
  s_batch : batch; s_out : bout; s_count : N;
  s_live : list (uuid * doc);                 (* every live point with its full stored document *)
  s_queries : list (request * qout);
  s_lower : list (bytes * bytes);             (* strings.ToLower of every string that occurs *)
  s_extra : list extra }.

(* cfg: 0 bbolt + unlimited shared cache, 1 bbolt + tiny cache, 2 bbolt + cache disabled,
   3 bbolt + reopen after every batch, 4 in-memory backend *)
Record hist := mkHist { h_schema : schema; h_maxsize : N; h_cfg : N; h_steps : list step }.
