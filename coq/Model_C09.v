(* Model_C09.v -- executable small-step model of concurrent searches and write
   batches on one shard (property C09).  Definitions only.

   What is modelled (shard/shard.go, shard/index/search.go, shard/cache/manager.go,
   shard/cache/itemcache.go, diskstore/bbolt.go):

   * committed versions.  bbolt is MVCC with one writer: `st_hist ++ [st_cur]` is the
     list of committed states of the points bucket, one per finished batch call (a
     rolled back batch repeats the previous state), the last one is current.  A
     points bucket is a map node id -> (point id, document) (`pstore`); the index
     content that belongs to a committed points bucket is `cfg_index cfg ps`
     ("I_k = index_of S_k"), an abstract map key -> entry (posting list, neighbour
     list, vector: a list of numbers, only consumed by the search program).
   * the writer (one: bbolt's single write transaction) takes the next batch,
     write-locks the shared cache registered in the manager (blocking while readers
     hold it; creating and registering one if there is none), updates it IN PLACE to
     the index of the next version (exactly the changed keys are overwritten, all
     other cached items stay as they are), then commits the storage (the new version
     becomes current) and only then releases the cache lock (cache.Transaction.Commit).
     A rejected batch rolls back and scraps the cache (removed from the manager).
   * readers (any number; SearchPoints).  begin: bbolt read transaction = snapshot of
     the current version, its bucket handle is alive until the transaction ends.
     acquire (Transaction.With, read only): the registered cache if it is not
     write-locked (TryRLock) -- whatever version it reflects -- and
     `index.UpdateBucket(bucket)` OVERWRITES its single bucket handle with the
     reader's; a private cold cache if it is write-locked; a new registered cache if
     none is registered.  search: an arbitrary adaptive program of index reads
     (`prog`): a point read `PGet` is answered from the cached items or, on a miss,
     through the cache's CURRENT bucket handle (and then cached); a scan `PScan`
     (ItemCache.ForEach) is answered from the items if `isAllInCache`, otherwise by
     scanning through the current handle.  The handle may belong to ANOTHER reader
     whose transaction has ended: reading through a dead handle crashes the process
     in the pinned tree (`cfg_guarded = false`); since fix 581ddda Get returns nil
     (= absent) and ForEach returns an error (`FailHandleDead`, "transaction has
     ended").  release, then every found node is looked up in the reader's OWN
     snapshot of the points bucket (GetPointByNodeId: a miss is `FailNotExist`,
     "could not get point by node id N: point does not exist"), end: the handle dies.
     A failing search callback scraps the cache: the manager entry of that name is
     deleted (whichever object is registered).
   * `TEvict`: the manager entry disappears (checkAndPrune / Release) at any moment.

   Abstractions: cache locks are derived from the thread phases (a reader in
   `RUse _ (Shared cid) _` holds the read lock of heap object cid, the writer holds the
   write lock of the object named in its phase); manager lookup + TryRLock is one atomic
   step (so the `scrapped` flag is unobservable); a writer blocked in Lock() is not
   "pending" (Go's TryRLock also fails while a writer waits: the reader then takes a
   private cache, a behaviour the model has anyway); one index cache per shard; one search
   = one cache acquisition; scans report the keys of the finite universe `cfg_keys`. *)
From Coq Require Import List NArith Arith Bool.
From Semadb Require Import Bytes Value Obs Model_C01.
Import ListNotations.

(* ---------------------------------------------------------------- data *)
Definition key := N.
Definition entry := list N.
Definition index := list (key * entry).
Definition point := (uuid * doc)%type.
Definition pstore := list (N * point).              (* node id -> (point id, document) *)

Fixpoint idx_get (i : index) (k : key) : option entry :=
  match i with [] => None | (k', e) :: r => if N.eqb k k' then Some e else idx_get r k end.
Fixpoint ps_get (n : N) (p : pstore) : option point :=
  match p with [] => None | (n', x) :: r => if N.eqb n n' then Some x else ps_get n r end.
Definition store_of (p : pstore) : store := map snd p.

Record config := mkConfig {
  cfg_guarded : bool;                                   (* fix 581ddda present *)
  cfg_index : pstore -> index;                          (* index content of a committed points bucket *)
  cfg_apply : batch -> pstore -> option pstore;         (* None: the batch is rejected / fails, rollback *)
  cfg_keys : list key }.                                (* the keys a scan reports *)

Definition next_of (cfg : config) (b : batch) (p : pstore) : pstore :=
  match cfg_apply cfg b p with Some p' => p' | None => p end.

(* the versions after each batch call, in call order (= commit order: one writer) *)
Fixpoint seq_versions (cfg : config) (bs : list batch) (p : pstore) : list pstore :=
  match bs with [] => [p] | b :: r => p :: seq_versions cfg r (next_of cfg b p) end.

(* the same on the reference spec of C01: S_{k+1} = fst (apply_spec b_k S_k) if it succeeds, S_k otherwise *)
Fixpoint spec_versions (sc : schema) (maxsize : N) (bs : list batch) (s : store) : list store :=
  match bs with
  | [] => [s]
  | b :: r => s :: spec_versions sc maxsize r
                     (match apply_spec sc maxsize b s with (s', SOk _) => s' | (_, SErr _) => s end)
  end.

Definition refines_spec (cfg : config) (sc : schema) (maxsize : N) : Prop :=
  forall b p, match cfg_apply cfg b p with
              | Some p' => exists ids, apply_spec sc maxsize b (store_of p) = (store_of p', SOk ids)
              | None => exists ks, snd (apply_spec sc maxsize b (store_of p)) = SErr ks
              end.

(* ---------------------------------------------------------------- search programs *)
Inductive prog :=
| PDone (nodes : list N)                         (* the search found these nodes *)
| PFail                                          (* the index code gives up (e.g. a node it needs is absent) *)
| PGet (k : key) (cont : option entry -> prog)   (* ItemCache.Get *)
| PScan (cont : index -> prog).                  (* ItemCache.ForEach *)

Definition scan_result (view : key -> option entry) (keys : list key) : index :=
  flat_map (fun k => match view k with Some e => [(k, e)] | None => [] end) keys.

Inductive refres := RefNodes (nodes : list N) | RefFail.
Fixpoint exec_ref (keys : list key) (i : index) (p : prog) : refres :=
  match p with
  | PDone n => RefNodes n
  | PFail => RefFail
  | PGet k c => exec_ref keys i (c (idx_get i k))
  | PScan c => exec_ref keys i (c (scan_result (idx_get i) keys))
  end.

Definition prow := (N * point)%type.
Fixpoint lookup_all (ps : pstore) (nodes : list N) : option (list prow) :=
  match nodes with
  | [] => Some []
  | n :: r => match ps_get n ps, lookup_all ps r with
              | Some x, Some rows => Some ((n, x) :: rows)
              | _, _ => None
              end
  end.

Inductive outcome :=
| Ok (rows : list prow)
| FailNotExist          (* code 191 *)
| FailHandleDead        (* code 192 *)
| FailOther             (* code 193 *)
| Crashed.              (* code 181 *)

(* the sequential (cold, alone) answer of a search on a committed version *)
Definition answer (cfg : config) (p : prog) (ps : pstore) : outcome :=
  match exec_ref (cfg_keys cfg) (cfg_index cfg ps) p with
  | RefNodes nodes => match lookup_all ps nodes with Some rows => Ok rows | None => FailNotExist end
  | RefFail => FailOther
  end.

Definition rows_live (ps : pstore) (rows : list prow) : Prop :=
  Forall (fun r => ps_get (fst r) ps = Some (snd r)) rows.

(* ---------------------------------------------------------------- caches, threads, state *)
Inductive handle := HReader (r : nat) | HWriter.
Record cache := mkCache { c_items : index; c_all : bool; c_handle : handle }.
Definition empty_cache (h : handle) : cache := mkCache [] false h.

Definition snapshot := (nat * pstore)%type.            (* version number, points bucket *)
Inductive cref := Shared (cid : nat) | Private (c : cache).

Inductive rphase :=
| RIdle (p : prog)
| RBegun (s : snapshot) (p : prog)
| RUse (s : snapshot) (c : cref) (p : prog)
| RLookup (s : snapshot) (nodes : list N)
| RDone (s : snapshot) (o : outcome).

Inductive wphase :=
| WIdle
| WInTx (cid : nat) (nx : option pstore)        (* cache cid write-locked and updated; nx: the version to commit *)
| WCommitted (cid : nat) (ok : bool).           (* storage committed / rolled back, cache still locked *)

Record state := mkState {
  st_hist : list pstore; st_cur : pstore;
  st_heap : list cache; st_mgr : option nat;
  st_wph : wphase; st_todo : list batch;
  st_rs : list rphase;
  st_crashed : bool }.

Definition committed (st : state) : list pstore := st_hist st ++ [st_cur st].
Definition cur_snapshot (st : state) : snapshot := (length (st_hist st), st_cur st).

Inductive tid := TWriter | TReader (r : nat) | TEvict.

Fixpoint upd_nth {A} (n : nat) (x : A) (l : list A) : list A :=
  match l, n with
  | [], _ => []
  | _ :: r, O => x :: r
  | y :: r, S n' => y :: upd_nth n' x r
  end.

Definition in_flight (ph : rphase) : option snapshot :=
  match ph with
  | RBegun s _ | RUse s _ _ | RLookup s _ => Some s
  | _ => None
  end.
Definition r_active (ph : rphase) : bool := match in_flight ph with Some _ => true | None => false end.
Definition w_active (st : state) : bool := match st_wph st with WIdle => false | _ => true end.

(* derived lock state *)
Definition rlocked (st : state) (cid : nat) : bool :=
  existsb (fun ph => match ph with RUse _ (Shared c) _ => Nat.eqb c cid | _ => false end) (st_rs st).
Definition wheld (st : state) (cid : nat) : bool :=
  match st_wph st with WInTx c _ | WCommitted c _ => Nat.eqb c cid | WIdle => false end.

(* what a bucket handle reads: the index of its transaction's snapshot while that is open *)
Definition handle_index (cfg : config) (st : state) (h : handle) : option index :=
  match h with
  | HReader r => match nth_error (st_rs st) r with
                 | Some ph => match in_flight ph with
                              | Some s => Some (cfg_index cfg (snd s))
                              | None => None
                              end
                 | None => None
                 end
  | HWriter => None        (* readers reach a writer's cache only after its transaction has ended *)
  end.

(* ---------------------------------------------------------------- the writer *)
Definition opt_entry_eqb (a b : option entry) : bool :=
  match a, b with
  | Some x, Some y => if list_eq_dec N.eq_dec x y then true else false
  | None, None => true
  | _, _ => false
  end.
Definition changed (old new : index) (k : key) : bool := negb (opt_entry_eqb (idx_get old k) (idx_get new k)).
Definition changed_keys (old new : index) : list key :=
  filter (changed old new) (map fst old ++ map fst new).

(* in-place update: the changed keys take their new value (or disappear), every other item stays *)
Definition w_update (old new : index) (c : cache) : cache :=
  mkCache (scan_result (idx_get new) (changed_keys old new)
           ++ filter (fun kv => negb (changed old new (fst kv))) (c_items c))
          (c_all c) HWriter.

Definition set_heap (st : state) (h : list cache) : state :=
  mkState (st_hist st) (st_cur st) h (st_mgr st) (st_wph st) (st_todo st) (st_rs st) (st_crashed st).
Definition set_mgr (st : state) (m : option nat) : state :=
  mkState (st_hist st) (st_cur st) (st_heap st) m (st_wph st) (st_todo st) (st_rs st) (st_crashed st).
Definition set_reader (st : state) (r : nat) (ph : rphase) : state :=
  mkState (st_hist st) (st_cur st) (st_heap st) (st_mgr st) (st_wph st) (st_todo st)
          (upd_nth r ph (st_rs st)) (st_crashed st).
Definition set_crashed (st : state) : state :=
  mkState (st_hist st) (st_cur st) (st_heap st) (st_mgr st) (st_wph st) (st_todo st) (st_rs st) true.

Definition step_writer (cfg : config) (st : state) : option state :=
  match st_wph st with
  | WIdle =>
      match st_todo st with
      | [] => None
      | b :: rest =>
          let nx := cfg_apply cfg b (st_cur st) in
          let upd c := match nx with
                       | Some p' => w_update (cfg_index cfg (st_cur st)) (cfg_index cfg p') c
                       | None => mkCache (c_items c) (c_all c) HWriter
                       end in
          match st_mgr st with
          | Some cid =>
              if rlocked st cid then None                      (* Lock() blocks while readers hold it *)
              else match nth_error (st_heap st) cid with
                   | Some c => Some (mkState (st_hist st) (st_cur st) (upd_nth cid (upd c) (st_heap st))
                                             (st_mgr st) (WInTx cid nx) rest (st_rs st) (st_crashed st))
                   | None => None
                   end
          | None =>
              let cid := length (st_heap st) in
              Some (mkState (st_hist st) (st_cur st) (st_heap st ++ [upd (empty_cache HWriter)])
                            (Some cid) (WInTx cid nx) rest (st_rs st) (st_crashed st))
          end
      end
  | WInTx cid nx =>                                             (* storage commit / rollback *)
      let p' := match nx with Some p' => p' | None => st_cur st end in
      Some (mkState (st_hist st ++ [st_cur st]) p' (st_heap st) (st_mgr st)
                    (WCommitted cid (match nx with Some _ => true | None => false end))
                    (st_todo st) (st_rs st) (st_crashed st))
  | WCommitted cid ok =>                                        (* cache Commit: unlock; scrap if failed *)
      Some (mkState (st_hist st) (st_cur st) (st_heap st) (if ok then st_mgr st else None)
                    WIdle (st_todo st) (st_rs st) (st_crashed st))
  end.

(* ---------------------------------------------------------------- readers *)
Definition get_cache (st : state) (c : cref) : option cache :=
  match c with Shared cid => nth_error (st_heap st) cid | Private c => Some c end.
Definition put_cache (st : state) (r : nat) (s : snapshot) (c : cref) (c' : cache) (p : prog) : state :=
  match c with
  | Shared cid => set_reader (set_heap st (upd_nth cid c' (st_heap st))) r (RUse s c p)
  | Private _ => set_reader st r (RUse s (Private c') p)
  end.

(* the search callback returned an error: With scraps the cache and deletes the manager entry of that name *)
Definition fail_search (st : state) (r : nat) (s : snapshot) (o : outcome) : state :=
  set_reader (set_mgr st None) r (RDone s o).

Definition step_reader (cfg : config) (st : state) (r : nat) (ph : rphase) : option state :=
  match ph with
  | RIdle p => Some (set_reader st r (RBegun (cur_snapshot st) p))
  | RBegun s p =>
      match st_mgr st with
      | Some cid =>
          if wheld st cid
          then Some (set_reader st r (RUse s (Private (empty_cache (HReader r))) p))     (* TryRLock failed *)
          else match nth_error (st_heap st) cid with
               | Some c => Some (set_reader (set_heap st (upd_nth cid (mkCache (c_items c) (c_all c) (HReader r))
                                                                  (st_heap st)))
                                            r (RUse s (Shared cid) p))                  (* UpdateBucket *)
               | None => None
               end
      | None =>
          let cid := length (st_heap st) in
          Some (set_reader (set_mgr (set_heap st (st_heap st ++ [empty_cache (HReader r)])) (Some cid))
                           r (RUse s (Shared cid) p))
      end
  | RUse s cr p =>
      match get_cache st cr with
      | None => None
      | Some c =>
          match p with
          | PDone nodes => Some (set_reader st r (RLookup s nodes))                     (* RUnlock *)
          | PFail => Some (fail_search st r s FailOther)
          | PGet k cont =>
              match idx_get (c_items c) k with
              | Some e => Some (put_cache st r s cr c (cont (Some e)))
              | None =>
                  match handle_index cfg st (c_handle c) with
                  | Some ih =>
                      match idx_get ih k with
                      | Some e => Some (put_cache st r s cr (mkCache ((k, e) :: c_items c) (c_all c) (c_handle c))
                                                  (cont (Some e)))
                      | None => Some (put_cache st r s cr c (cont None))
                      end
                  | None =>                                                             (* dead handle *)
                      if cfg_guarded cfg then Some (put_cache st r s cr c (cont None))  (* Get returns nil *)
                      else Some (set_crashed (set_reader st r (RDone s Crashed)))
                  end
              end
          | PScan cont =>
              if c_all c then Some (put_cache st r s cr c (cont (scan_result (idx_get (c_items c)) (cfg_keys cfg))))
              else
                match handle_index cfg st (c_handle c) with
                | Some ih =>
                    let view k := match idx_get (c_items c) k with Some e => Some e | None => idx_get ih k end in
                    let res := scan_result view (cfg_keys cfg) in
                    Some (put_cache st r s cr (mkCache (res ++ c_items c) true (c_handle c)) (cont res))
                | None =>
                    if cfg_guarded cfg then Some (fail_search st r s FailHandleDead)     (* ForEach returns errTxDone *)
                    else Some (set_crashed (set_reader st r (RDone s Crashed)))
                end
          end
      end
  | RLookup s nodes =>                                           (* backfill in the OWN snapshot, then the txn ends *)
      Some (set_reader st r (RDone s (match lookup_all (snd s) nodes with
                                      | Some rows => Ok rows
                                      | None => FailNotExist
                                      end)))
  | RDone _ _ => None
  end.

Definition step (cfg : config) (st : state) (t : tid) : option state :=
  if st_crashed st then None else
  match t with
  | TWriter => step_writer cfg st
  | TReader r => match nth_error (st_rs st) r with Some ph => step_reader cfg st r ph | None => None end
  | TEvict => match st_mgr st with Some _ => Some (set_mgr st None) | None => None end
  end.

(* a schedule is any list of thread ids; a thread that cannot move (blocked, finished, process dead) is skipped *)
Definition exec (cfg : config) (st : state) (t : tid) : state :=
  match step cfg st t with Some st' => st' | None => st end.
Definition run (cfg : config) (sched : list tid) (st : state) : state := fold_left (exec cfg) sched st.

Definition init (p0 : pstore) (bs : list batch) (progs : list prog) : state :=
  mkState [] p0 [] None WIdle bs (map RIdle progs) false.

Definition writer_finished (st : state) : Prop := st_wph st = WIdle /\ st_todo st = [].

(* ---------------------------------------------------------------- classes of schedules *)
(* serial: transactions do not overlap -- a thread moves only while every other thread is outside a
   transaction (reader: between begin and end; writer: between taking the cache lock and releasing it) *)
Fixpoint all_inactive_except (skip : option nat) (i : nat) (rs : list rphase) : bool :=
  match rs with
  | [] => true
  | ph :: rest => ((match skip with Some r => Nat.eqb i r | None => false end) || negb (r_active ph))
                  && all_inactive_except skip (S i) rest
  end.
Definition others_idle (st : state) (t : tid) : bool :=
  match t with
  | TWriter => all_inactive_except None 0 (st_rs st)
  | TReader r => negb (w_active st) && all_inactive_except (Some r) 0 (st_rs st)
  | TEvict => negb (w_active st) && all_inactive_except None 0 (st_rs st)
  end.
Fixpoint serial_run (cfg : config) (sched : list tid) (st : state) : Prop :=
  match sched with
  | [] => True
  | t :: r => others_idle st t = true /\ serial_run cfg r (exec cfg st t)
  end.

(* the weaker reading "cache accesses do not overlap": a reader's acquire..release and the writer's
   lock..unlock are contiguous, a reader's begin (its snapshot) may lie anywhere before its acquire.
   NOT sufficient: see c09_spurious_refuted. *)
Definition cache_busy (ph : rphase) : bool := match ph with RUse _ _ _ => true | _ => false end.
Fixpoint none_busy_except (skip : option nat) (i : nat) (rs : list rphase) : bool :=
  match rs with
  | [] => true
  | ph :: rest => ((match skip with Some r => Nat.eqb i r | None => false end) || negb (cache_busy ph))
                  && none_busy_except skip (S i) rest
  end.
Definition cache_quiet (st : state) (t : tid) : bool :=
  match t with
  | TWriter => none_busy_except None 0 (st_rs st)
  | TReader r => match nth_error (st_rs st) r with
                 | Some (RIdle _) => true                                   (* begin: only a snapshot *)
                 | _ => negb (w_active st) && none_busy_except (Some r) 0 (st_rs st)
                 end
  | TEvict => negb (w_active st) && none_busy_except None 0 (st_rs st)
  end.
Fixpoint cache_serial_run (cfg : config) (sched : list tid) (st : state) : Prop :=
  match sched with
  | [] => True
  | t :: r => cache_quiet st t = true /\ cache_serial_run cfg r (exec cfg st t)
  end.

(* calm: (1) no storage commit while a reader's transaction is open; (2) the manager entry is not removed
   (eviction, Release, scrap by a failing reader) while the writer holds its write lock -- C11's finding *)
Definition opt_nat_eqb (a b : option nat) : bool :=
  match a, b with Some x, Some y => Nat.eqb x y | None, None => true | _, _ => false end.
Definition calm (cfg : config) (st : state) (t : tid) : bool :=
  match t with
  | TWriter => match st_wph st with WInTx _ _ => all_inactive_except None 0 (st_rs st) | _ => true end
  | _ => negb (w_active st) || opt_nat_eqb (st_mgr (exec cfg st t)) (st_mgr st)
  end.
Fixpoint calm_run (cfg : config) (sched : list tid) (st : state) : Prop :=
  match sched with
  | [] => True
  | t :: r => calm cfg st t = true /\ calm_run cfg r (exec cfg st t)
  end.

(* a cache agrees with the index of a points bucket *)
Definition coherent (cfg : config) (ps : pstore) (c : cache) : Prop :=
  (forall k e, idx_get (c_items c) k = Some e -> idx_get (cfg_index cfg ps) k = Some e) /\
  (c_all c = true -> forall k, In k (cfg_keys cfg) -> idx_get (c_items c) k = idx_get (cfg_index cfg ps) k).

(* what a transaction with a live bucket handle on version ps reads through cache c *)
Definition cache_get (cfg : config) (ps : pstore) (c : cache) (k : key) : option entry :=
  match idx_get (c_items c) k with Some e => Some e | None => idx_get (cfg_index cfg ps) k end.
Definition cache_scan (cfg : config) (ps : pstore) (c : cache) : index :=
  if c_all c then scan_result (idx_get (c_items c)) (cfg_keys cfg)
  else scan_result (cache_get cfg ps c) (cfg_keys cfg).

(* ---------------------------------------------------------------- a concrete configuration *)
(* the reference spec of C01 as the batch semantics; surviving points keep their node id, new points
   get fresh ones *)
Fixpoint node_of (id : uuid) (p : pstore) : option N :=
  match p with [] => None | (n, (i, _)) :: r => if bytes_eqb id i then Some n else node_of id r end.
Definition max_node (p : pstore) : N := fold_right (fun x m => N.max (fst x) m) 0%N p.
Fixpoint assign (old : pstore) (fresh : N) (s : store) : pstore :=
  match s with
  | [] => []
  | (id, d) :: r => match node_of id old with
                    | Some n => (n, (id, d)) :: assign old fresh r
                    | None => (fresh, (id, d)) :: assign old (fresh + 1)%N r
                    end
  end.
Definition spec_apply (sc : schema) (maxsize : N) (b : batch) (p : pstore) : option pstore :=
  match apply_spec sc maxsize b (store_of p) with
  | (s', SOk _) => Some (assign p (max_node p + 1)%N s')
  | (_, SErr _) => None
  end.
(* a toy index: key 0 = the posting list of all nodes, key n+1 = the entry of node n *)
Definition toy_index (p : pstore) : index :=
  (0%N, map fst p) :: map (fun x => ((fst x + 1)%N, [fst x])) p.
Definition toy_cfg (guarded : bool) : config :=
  mkConfig guarded toy_index (spec_apply [] 1000%N) [0; 1; 2; 3; 4; 5]%N.
