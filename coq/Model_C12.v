(* Model_C12.v -- executable small-step model of the lock protocol of the shard
   manager (/repo/cluster/shardmgr.go): loadShard / DoWithShard (request), the
   per-entry idle cleanup routine, DeleteCollectionShards (deletion).
   Definitions only.

   Argument [fixed : bool] of [step]:
     true  = current code: the idle routine releases loadedShard.mu BEFORE it takes
             shardLock and removes the map entry only if it is still its own;
     false = pinned code (before commit 29ff0f3): the idle routine keeps mu (deferred
             unlock) while it takes shardLock and deletes the map entry unconditionally.

   What is modelled
     sl          shardLock: None or the thread holding it
     dirs        per shard directory d: the map entry shardStore[d] (an entry id),
                 whether the directory exists on disk, and a ghost counter of the open
                 file handles on sharddb.bbolt in it
     ents        the loadedShard objects ever created (id = position).  Per entry:
                 its directory, the request that created it (ghost, used by the run
                 comparison to name idle routines), e_open = "ls.shard != nil" (Close and
                 `ls.shard = nil` happen in one step: both are done under the exclusive
                 lock and nothing reads the pointer without the lock), the RWMutex mu
                 (e_w = writer with a flag "acquired"; a writer that has announced itself
                 but still waits for the readers to leave blocks NEW readers, as Go's
                 sync.RWMutex does; e_rd = the ghost set of threads holding a read lock,
                 its length is the reader count), and the state of its cleanup goroutine
     thr         the client threads: requests (DoWithShard) and deletions
   The non-blocking sends on doneCh: `doneCh <- false` (timer reset) has no effect in a
   model whose timer may fire at ANY time; `doneCh <- true` stops a routine that is
   still waiting and is dropped otherwise (a dropped send to a routine that has not yet
   reached its select is the same behaviour as the timer firing just before the send).
   The optional backup is part of the close step (both under the exclusive lock). *)
From Coq Require Import List Arith Bool Lia.
Import ListNotations.

Inductive tid := TC (n : nat) | TI (e : nat).

Definition tid_eqb (a b : tid) : bool :=
  match a, b with
  | TC x, TC y => x =? y
  | TI x, TI y => x =? y
  | _, _ => false
  end.

Inductive result := ROk | RClosed.

(* request: DoWithShard *)
Inductive rpc :=
| RAcqSL                      (* loadShard: shardLock.Lock()                        *)
| RLoad                       (* map lookup; reuse (signal false) or mkdir+open+go  *)
| RRelSL (e : nat)            (* deferred shardLock.Unlock()                        *)
| RRLock (e : nat)            (* pause do:loaded ; ls.mu.RLock()                    *)
| RNil (e : nat)              (* if ls.shard == nil                                 *)
| RBegin (e : nat)            (* pause do:running ; f(ls.shard) starts              *)
| REnd (e : nat)              (* callback running; f returns                        *)
| RRUnlock (e : nat) (ok : bool) (* deferred ls.mu.RUnlock()                        *)
| RDone (r : result).

(* deletion: DeleteCollectionShards; [todo] = directories still to handle, head = current *)
Inductive dpc :=
| DAcqSL
| DScan                               (* pause delete:locked ; ReadDir *)
| DLookup (todo : list nat)           (* if ls, ok := shardStore[dir]  *)
| DLockAnn (e : nat) (todo : list nat)   (* ls.mu.Lock(): announce        *)
| DLockAcq (e : nat) (todo : list nat)   (* ls.mu.Lock(): readers gone    *)
| DNilChk (e : nat) (todo : list nat)    (* if ls.shard != nil { doneCh <- true (non-blocking) *)
| DClose (e : nat) (todo : list nat)     (* Close(); ls.shard = nil }     *)
| DUnlock (e : nat) (todo : list nat)    (* ls.mu.Unlock()                *)
| DDelEntry (todo : list nat)         (* delete(shardStore, dir)       *)
| DRemove (todo : list nat)           (* os.RemoveAll(dir)             *)
| DRelSL
| DDone.

Inductive cthread := CReq (d : nat) (pc : rpc) | CDel (pc : dpc).

(* cleanup goroutine of one entry *)
Inductive ipc :=
| IWait        (* in select; the timer may fire at any time          *)
| IFired       (* pause cleanup:fired ; mu.Lock(): announce          *)
| ILockPend    (* mu.Lock(): wait for the readers                    *)
| ILocked      (* pause cleanup:locked ; if ls.shard == nil          *)
| IClose       (* backup; Close(); ls.shard = nil                    *)
| IUnlock      (* fixed: mu.Unlock()                                 *)
| IAcqSL       (* fixed: pause cleanup:closed ; shardLock.Lock()     *)
| IDel         (* fixed: delete entry if it is still this one        *)
| IRelSL       (* fixed: shardLock.Unlock(); return                  *)
| IUnlockNil   (* shard was nil: mu.Unlock(); return                 *)
| IAcqSLp      (* pinned: shardLock.Lock() while holding mu          *)
| IDelp        (* pinned: delete(shardStore, dir) unconditionally    *)
| IRelSLp      (* pinned: shardLock.Unlock()                         *)
| IUnlockP     (* pinned: deferred mu.Unlock(); return               *)
| IExit.

Record entry := mkEntry {
  e_dir : nat; e_by : nat; e_open : bool;
  e_w : option (tid * bool); e_rd : list nat; e_idle : ipc }.

Record dirst := mkDir { d_store : option nat; d_exists : bool; d_handles : nat }.

Record state := mkState { sl : option tid; dirs : list dirst; ents : list entry; thr : list cthread }.

Definition dent : entry := mkEntry 0 0 false None [] IExit.
Definition ddir : dirst := mkDir None false 0.
Definition dthr : cthread := CReq 0 (RDone ROk).

Definition E (st : state) (e : nat) : entry := nth e (ents st) dent.
Definition D (st : state) (d : nat) : dirst := nth d (dirs st) ddir.
Definition T (st : state) (n : nat) : cthread := nth n (thr st) dthr.

Fixpoint upd {A} (l : list A) (i : nat) (x : A) : list A :=
  match l, i with
  | [], _ => []
  | _ :: t, 0 => x :: t
  | h :: t, S i' => h :: upd t i' x
  end.

Definition set_sl (st : state) (v : option tid) := mkState v (dirs st) (ents st) (thr st).
Definition set_thr (st : state) (n : nat) (c : cthread) := mkState (sl st) (dirs st) (ents st) (upd (thr st) n c).
Definition set_ent (st : state) (e : nat) (x : entry) := mkState (sl st) (dirs st) (upd (ents st) e x) (thr st).
Definition set_dir (st : state) (d : nat) (x : dirst) := mkState (sl st) (upd (dirs st) d x) (ents st) (thr st).
Definition add_ent (st : state) (x : entry) := mkState (sl st) (dirs st) (ents st ++ [x]) (thr st).

Definition with_open (x : entry) (b : bool) := mkEntry (e_dir x) (e_by x) b (e_w x) (e_rd x) (e_idle x).
Definition with_w (x : entry) (w : option (tid * bool)) := mkEntry (e_dir x) (e_by x) (e_open x) w (e_rd x) (e_idle x).
Definition with_rd (x : entry) (r : list nat) := mkEntry (e_dir x) (e_by x) (e_open x) (e_w x) r (e_idle x).
Definition with_idle (x : entry) (p : ipc) := mkEntry (e_dir x) (e_by x) (e_open x) (e_w x) (e_rd x) p.

Definition with_store (x : dirst) (s : option nat) := mkDir s (d_exists x) (d_handles x).
Definition with_exists (x : dirst) (b : bool) := mkDir (d_store x) b (d_handles x).
Definition with_handles (x : dirst) (h : nat) := mkDir (d_store x) (d_exists x) h.

Definition is_none {A} (o : option A) : bool := match o with None => true | Some _ => false end.
Definition is_nil {A} (l : list A) : bool := match l with [] => true | _ => false end.

Definition remove_nat (n : nat) (l : list nat) : list nat := filter (fun x => negb (x =? n)) l.

(* ---------- request ---------- *)
Definition step_req (st : state) (n d : nat) (pc : rpc) : option state :=
  match pc with
  | RAcqSL =>
      if is_none (sl st) then Some (set_thr (set_sl st (Some (TC n))) n (CReq d RLoad)) else None
  | RLoad =>
      match d_store (D st d) with
      | Some e => Some (set_thr st n (CReq d (RRelSL e)))
      | None =>
          let e := length (ents st) in
          let dd := D st d in
          let st1 := set_dir st d (mkDir (Some e) true (S (d_handles dd))) in
          let st2 := add_ent st1 (mkEntry d n true None [] IWait) in
          Some (set_thr st2 n (CReq d (RRelSL e)))
      end
  | RRelSL e => Some (set_thr (set_sl st None) n (CReq d (RRLock e)))
  | RRLock e =>
      let x := E st e in
      if is_none (e_w x)
      then Some (set_thr (set_ent st e (with_rd x (n :: e_rd x))) n (CReq d (RNil e)))
      else None
  | RNil e =>
      if e_open (E st e) then Some (set_thr st n (CReq d (RBegin e)))
      else Some (set_thr st n (CReq d (RRUnlock e false)))
  | RBegin e => Some (set_thr st n (CReq d (REnd e)))
  | REnd e => Some (set_thr st n (CReq d (RRUnlock e true)))
  | RRUnlock e ok =>
      let x := E st e in
      Some (set_thr (set_ent st e (with_rd x (remove_nat n (e_rd x)))) n
                    (CReq d (RDone (if ok then ROk else RClosed))))
  | RDone _ => None
  end.

(* ---------- deletion ---------- *)
(* the entry after the non-blocking `doneCh <- true`: received only by a routine still in its select *)
Definition signalled (x : entry) : entry :=
  match e_idle x with IWait => with_idle x IExit | _ => x end.

Definition existing_dirs (st : state) : list nat :=
  filter (fun d => d_exists (D st d)) (seq 0 (length (dirs st))).

Definition step_del (st : state) (n : nat) (pc : dpc) : option state :=
  match pc with
  | DAcqSL =>
      if is_none (sl st) then Some (set_thr (set_sl st (Some (TC n))) n (CDel DScan)) else None
  | DScan => Some (set_thr st n (CDel (DLookup (existing_dirs st))))
  | DLookup [] => Some (set_thr st n (CDel DRelSL))
  | DLookup (d :: r) =>
      match d_store (D st d) with
      | Some e => Some (set_thr st n (CDel (DLockAnn e (d :: r))))
      | None => Some (set_thr st n (CDel (DDelEntry (d :: r))))
      end
  | DLockAnn e todo =>
      let x := E st e in
      if is_none (e_w x)
      then Some (set_thr (set_ent st e (with_w x (Some (TC n, false)))) n (CDel (DLockAcq e todo)))
      else None
  | DLockAcq e todo =>
      let x := E st e in
      if is_nil (e_rd x)
      then Some (set_thr (set_ent st e (with_w x (Some (TC n, true)))) n (CDel (DNilChk e todo)))
      else None
  | DNilChk e todo =>
      let x := E st e in
      if e_open x
      then Some (set_thr (set_ent st e (signalled x)) n (CDel (DClose e todo)))
      else Some (set_thr st n (CDel (DUnlock e todo)))
  | DClose e todo =>
      let x := E st e in
      let dd := D st (e_dir x) in
      let st1 := set_dir st (e_dir x) (with_handles dd (pred (d_handles dd))) in
      Some (set_thr (set_ent st1 e (with_open x false)) n (CDel (DUnlock e todo)))
  | DUnlock e todo =>
      Some (set_thr (set_ent st e (with_w (E st e) None)) n (CDel (DDelEntry todo)))
  | DDelEntry [] => Some (set_thr st n (CDel DRelSL))
  | DDelEntry (d :: r) =>
      Some (set_thr (set_dir st d (with_store (D st d) None)) n (CDel (DRemove (d :: r))))
  | DRemove [] => Some (set_thr st n (CDel DRelSL))
  | DRemove (d :: r) =>
      Some (set_thr (set_dir st d (with_exists (D st d) false)) n (CDel (DLookup r)))
  | DRelSL => Some (set_thr (set_sl st None) n (CDel DDone))
  | DDone => None
  end.

(* ---------- idle routine of entry e ---------- *)
Definition step_idle (fixed : bool) (st : state) (e : nat) : option state :=
  let x := E st e in
  let go p := Some (set_ent st e (with_idle x p)) in
  match e_idle x with
  | IWait => go IFired
  | IFired =>
      if is_none (e_w x)
      then Some (set_ent st e (with_idle (with_w x (Some (TI e, false))) ILockPend))
      else None
  | ILockPend =>
      if is_nil (e_rd x)
      then Some (set_ent st e (with_idle (with_w x (Some (TI e, true))) ILocked))
      else None
  | ILocked => if e_open x then go IClose else go IUnlockNil
  | IClose =>
      let dd := D st (e_dir x) in
      let st1 := set_dir st (e_dir x) (with_handles dd (pred (d_handles dd))) in
      Some (set_ent st1 e (with_idle (with_open x false) (if fixed then IUnlock else IAcqSLp)))
  | IUnlock => Some (set_ent st e (with_idle (with_w x None) IAcqSL))
  | IAcqSL =>
      if is_none (sl st) then Some (set_ent (set_sl st (Some (TI e))) e (with_idle x IDel)) else None
  | IDel =>
      let dd := D st (e_dir x) in
      let st1 := match d_store dd with
                 | Some e' => if e' =? e then set_dir st (e_dir x) (with_store dd None) else st
                 | None => st
                 end in
      Some (set_ent st1 e (with_idle x IRelSL))
  | IRelSL => Some (set_ent (set_sl st None) e (with_idle x IExit))
  | IUnlockNil => Some (set_ent st e (with_idle (with_w x None) IExit))
  | IAcqSLp =>
      if is_none (sl st) then Some (set_ent (set_sl st (Some (TI e))) e (with_idle x IDelp)) else None
  | IDelp =>
      let dd := D st (e_dir x) in
      Some (set_ent (set_dir st (e_dir x) (with_store dd None)) e (with_idle x IRelSLp))
  | IRelSLp => Some (set_ent (set_sl st None) e (with_idle x IUnlockP))
  | IUnlockP => Some (set_ent st e (with_idle (with_w x None) IExit))
  | IExit => None
  end.

Definition step (fixed : bool) (st : state) (t : tid) : option state :=
  match t with
  | TC n => match T st n with
            | CReq d pc => step_req st n d pc
            | CDel pc => step_del st n pc
            end
  | TI e => step_idle fixed st e
  end.

(* a schedule names the thread that moves next; a step that is not enabled is skipped *)
Fixpoint run (fixed : bool) (sched : list tid) (st : state) : state :=
  match sched with
  | [] => st
  | t :: r => match step fixed st t with
              | Some st' => run fixed r st'
              | None => run fixed r st
              end
  end.

(* executions in which every scheduled step is enabled *)
Inductive exec (fixed : bool) : state -> list tid -> state -> Prop :=
| exec_nil : forall st, exec fixed st [] st
| exec_cons : forall st t st' l st'', step fixed st t = Some st' -> exec fixed st' l st'' ->
                                      exec fixed st (t :: l) st''.

(* ---------- initial states: any number of directories, requests and deletions ---------- *)
Inductive spec := SReq (d : nat) | SDel.

Definition spec_thread (s : spec) : cthread :=
  match s with SReq d => CReq d RAcqSL | SDel => CDel DAcqSL end.

Definition init (ndirs : nat) (specs : list spec) : state :=
  mkState None (repeat ddir ndirs) [] (map spec_thread specs).

Definition spec_ok (ndirs : nat) (s : spec) : Prop :=
  match s with SReq d => d < ndirs | SDel => True end.

Definition reachable (fixed : bool) (st : state) : Prop :=
  exists ndirs specs sched, Forall (spec_ok ndirs) specs /\ exec fixed (init ndirs specs) sched st.

(* ---------- predicates ---------- *)
Definition enabled (fixed : bool) (st : state) (t : tid) : Prop := step fixed st t <> None.
Definition enabledb (fixed : bool) (st : state) (t : tid) : bool := negb (is_none (step fixed st t)).

Definition cfinished (c : cthread) : bool :=
  match c with CReq _ (RDone _) => true | CDel DDone => true | _ => false end.

Definition finished (st : state) (t : tid) : bool :=
  match t with
  | TC n => cfinished (T st n)
  | TI e => match e_idle (E st e) with IExit => true | _ => false end
  end.

Definition unfinished (st : state) : Prop := exists t, finished st t = false.

Definition all_tids (st : state) : list tid :=
  map TC (seq 0 (length (thr st))) ++ map TI (seq 0 (length (ents st))).

Definition unfinishedb (st : state) : bool := existsb (fun t => negb (finished st t)) (all_tids st).
Definition deadlockedb (fixed : bool) (st : state) : bool :=
  unfinishedb st && forallb (fun t => negb (enabledb fixed st t)) (all_tids st).

(* the callback of request n uses entry e (about to dereference ls.shard, or inside f) *)
Definition uses (c : cthread) (d e : nat) : Prop := c = CReq d (RBegin e) \/ c = CReq d (REnd e).

(* safety: a callback runs only on an entry whose shard is open, on which the thread holds a
   read lock, and whose directory exists; at most one open handle per shard file; a
   directory with an open handle exists (so: files are only removed when no handle is open
   and no callback runs on them). *)
Definition safe (st : state) : Prop :=
  (forall n d e, uses (T st n) d e ->
       e_open (E st e) = true /\ In n (e_rd (E st e)) /\ e_dir (E st e) = d /\ d_exists (D st d) = true)
  /\ (forall d, d_handles (D st d) <= 1)
  /\ (forall d, d_handles (D st d) > 0 -> d_exists (D st d) = true).

(* ---------- termination measure ---------- *)
Definition m_idle (p : ipc) : nat :=
  match p with
  | IWait => 9 | IFired => 8 | ILockPend => 7 | ILocked => 6 | IClose => 5
  | IUnlock => 4 | IAcqSL => 3 | IDel => 2 | IRelSL => 1 | IUnlockNil => 1
  | IAcqSLp => 4 | IDelp => 3 | IRelSLp => 2 | IUnlockP => 1 | IExit => 0
  end.

Definition m_req (p : rpc) : nat :=
  match p with
  | RAcqSL => 18 | RLoad => 17 | RRelSL _ => 7 | RRLock _ => 6 | RNil _ => 5
  | RBegin _ => 4 | REnd _ => 3 | RRUnlock _ _ => 1 | RDone _ => 0
  end.

Definition m_del (nd : nat) (p : dpc) : nat :=
  match p with
  | DAcqSL => 8 * nd + 12
  | DScan => 8 * nd + 11
  | DLookup todo => 8 * length todo + 10
  | DLockAnn _ todo => 8 * length todo + 9
  | DLockAcq _ todo => 8 * length todo + 8
  | DNilChk _ todo => 8 * length todo + 7
  | DClose _ todo => 8 * length todo + 6
  | DUnlock _ todo => 8 * length todo + 5
  | DDelEntry todo => 8 * length todo + 4
  | DRemove todo => 8 * length todo + 3
  | DRelSL => 1
  | DDone => 0
  end.

Definition m_thr (nd : nat) (c : cthread) : nat :=
  match c with CReq _ p => m_req p | CDel p => m_del nd p end.

Fixpoint sum_list (l : list nat) : nat := match l with [] => 0 | x :: r => x + sum_list r end.

Definition measure (st : state) : nat :=
  sum_list (map (m_thr (length (dirs st))) (thr st)) + sum_list (map (fun x => m_idle (e_idle x)) (ents st)).

(* ---------- adding a request thread to a state (for "new requests can load again") ---------- *)
Definition add_req (st : state) (d : nat) : state :=
  mkState (sl st) (dirs st) (ents st) (thr st ++ [CReq d RAcqSL]).

Definition clients_done (st : state) : Prop := forall n, cfinished (T st n) = true.
Definition idle_quiet (st : state) : Prop :=
  forall e, e_idle (E st e) = IWait \/ e_idle (E st e) = IExit.
Definition locks_free (st : state) : Prop :=
  sl st = None /\ forall e, e_w (E st e) = None /\ e_rd (E st e) = [].
