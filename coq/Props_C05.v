(* Props_C05.v -- property C05: text search matches, ranks and limits by tf-idf
   over the current corpus.  Only statements; every proof is `exact <lemma>`.

   M  = Model_C05M.v (processAnalysedDoc / flush / Search of shard/index/text/text.go),
   S  = Model_C05.v  (corpus, text_matches, freq, doc_freq, score_ref, text_code: the
        definitions the running check Run_C05.v judges the real answers with).

   All theorems are quantified over EVERY history of batches (a change = the new
   token list of an id; [] = field removed / point deleted / text analyses to
   nothing; an id may be blanked and filled again), every query term list (repeated
   terms, no terms), both operators, every pre-filter, every limit, every score
   function and every sorting function that returns a sorted permutation.
   Outside the theorems (validated by the run, see lib/pp/C05.py): the analyser,
   log10 and float32 rounding, and that the ids of one batch are distinct (the
   code analyses the documents of a batch concurrently; c05_batch_order_irrelevant
   shows the order inside such a batch cannot matter). *)
From Coq Require Import List NArith ZArith QArith Qabs Bool Permutation Sorted.
From Semadb Require Import Bytes Value Obs Dyadic Model_C01 Model_C02 Model_C04 Model_C05 Model_C05M Proofs_C05.
Import ListNotations.
Open Scope N_scope.

(* ---------------------------------------------------------------------------
   c05_index_inv: after ANY history the state of the index is the one derived
   from the current corpus c (the documents whose LAST change has tokens):
   posting sets = { id | t in tokens(id) }, duplicate free, their cardinality is
   the document frequency, no empty posting set is stored, document records =
   frequency table and length of exactly the documents of c, numDocs = |c|. *)
Theorem c05_index_inv : forall (h : list batch_c) (c : list tdoc),
  corpus_rep c (cur_tokens h) ->
  let st := run_hist h in
  (forall t id, In id (post_get t (ti_post st)) <-> exists d, In d c /\ td_id d = id /\ In t (td_tokens d)) /\
  (forall t, NoDup (post_get t (ti_post st))) /\
  (forall t, N.of_nat (length (post_get t (ti_post st))) = doc_freq t c) /\
  (forall t s, In (t, s) (ti_post st) -> s <> []) /\
  NoDup (map fst (ti_post st)) /\
  (forall id, al_get id (ti_docs st) =
              match find_doc id c with
              | Some d => Some (count_terms (td_tokens d), N.of_nat (length (td_tokens d)))
              | None => None
              end) /\
  NoDup (map fst (ti_docs st)) /\
  ti_num st = N.of_nat (length c).
Proof. exact index_inv_full. Qed.
Print Assumptions c05_index_inv.

(* the frequency table built by `freq[t.Term]++` is Model_C05.freq *)
Theorem c05_freq_table : forall toks t,
  tab_get t (count_terms toks) = freq t toks /\
  al_has t (count_terms toks) = mem_bytes t toks /\
  NoDup (map fst (count_terms toks)).
Proof. intros toks t. exact (conj (count_terms_freq toks t) (conj (count_terms_has toks t) (count_terms_keys toks))). Qed.
Print Assumptions c05_freq_table.

(* the corpus of a history: cur_tokens is the last change of every id, a corpus
   representing it always exists, and it is unique up to order (same documents) *)
Theorem c05_corpus_of_history : forall h,
  corpus_rep (corpus_of_hist h) (cur_tokens h) /\
  (forall id, cur_tokens [] id = []) /\
  (forall b id, cur_tokens (h ++ [b]) id =
                match al_get id (rev b) with Some toks => toks | None => cur_tokens h id end).
Proof. intros h. exact (conj (corpus_of_hist_rep h) (conj cur_tokens_nil (fun b id => cur_tokens_snoc h b id))). Qed.
Print Assumptions c05_corpus_of_history.

(* the corpus Run_C05.v derives from the live store (Model_C05.corpus) represents the
   token function of the live store: the spec the running check uses is the one the
   theorems below are about, provided the changes fed to the index were the analysed
   texts of the stored documents (dispatch.go, C01) *)
Theorem c05_spec_corpus : forall path tk live c,
  NoDup (map fst live) -> corpus path tk live = Some c -> corpus_rep c (live_tokens path tk live).
Proof. intros path tk live c. exact (corpus_live_rep path tk live c). Qed.
Print Assumptions c05_spec_corpus.

(* the order in which the documents of one batch reach processAnalysedDoc is
   irrelevant when the ids of the batch are distinct: same corpus, hence (by
   c05_index_inv) the same lookups, match sets and components *)
Theorem c05_batch_order_irrelevant : forall h b b' c,
  Permutation b b' -> NoDup (map fst b) ->
  corpus_rep c (cur_tokens (h ++ [b])) -> corpus_rep c (cur_tokens (h ++ [b'])).
Proof. exact batch_order_irrelevant. Qed.
Print Assumptions c05_batch_order_irrelevant.

(* ---------------------------------------------------------------------------
   c05_match_exact: Search before the cut returns exactly the documents of the
   corpus that Model_C05.text_matches accepts for the DISTINCT query terms,
   intersected with the pre-filter -- the very list Run_C05.judge_query builds
   ([allowed] = the filter answer, or every live id when there is no filter). *)
Theorem c05_match_exact : forall h c op terms filt allowed,
  corpus_rep c (cur_tokens h) -> allowed_ok filt allowed c ->
  NoDup (matchM op terms filt (run_hist h)) /\
  Permutation (matchM op terms filt (run_hist h))
    (map td_id (filter (fun d => text_matches op (dedup_b terms) d && mem_bytes (td_id d) allowed) c)).
Proof. intros h c op terms filt allowed. exact (match_exact _ _ c op terms filt allowed (run_hist_inv h)). Qed.
Print Assumptions c05_match_exact.

(* ---------------------------------------------------------------------------
   c05_components: the integers handed to the scoring formula for a document d of
   the corpus are (frequency of t in d, length of d, corpus size, document
   frequency of t), one tuple per distinct query term; the formula applied to
   them is Model_C05.score_ref. *)
Theorem c05_components : forall h c uterms d,
  corpus_rep c (cur_tokens h) -> In d c ->
  comps_of (run_hist h) uterms (td_id d) =
  Some (map (fun t => (freq t (td_tokens d), N.of_nat (length (td_tokens d)),
                       N.of_nat (length c), doc_freq t c)) uterms).
Proof. intros h c uterms d. exact (components _ _ c uterms d (run_hist_inv h)). Qed.
Print Assumptions c05_components.

Theorem c05_score_from_components : forall h c uterms logs d cs,
  corpus_rep c (cur_tokens h) -> In d c ->
  comps_of (run_hist h) uterms (td_id d) = Some cs ->
  score_comps logs cs = score_ref uterms c logs d.
Proof. exact score_from_components. Qed.
Print Assumptions c05_score_from_components.

(* ---------------------------------------------------------------------------
   c05_topk: for EVERY score function and EVERY sort returning a sorted
   permutation (slices.SortFunc is unstable), on every state, the rows after the
   cut are a top-limit selection of the match set. *)
Theorem c05_topk : forall (score : uuid -> Q) srt op terms filt limit st,
  (forall l, Permutation (srt l) l /\ Sorted (score_ge score) (srt l)) ->
  let m := matchM op terms filt st in
  let res := snd (searchM srt op terms filt limit st) in
  length res = Nat.min (N.to_nat limit) (length m) /\
  StronglySorted (score_ge score) res /\
  (forall x, In x res -> In x m) /\
  (NoDup m -> NoDup res) /\
  (forall x y, In x m -> ~ In x res -> In y res -> (score x <= score y)%Q).
Proof. exact topk. Qed.
Print Assumptions c05_topk.

(* ... and on the state of any history, against the matching set of the SPEC; the
   returned set (rebuilt after a cut) has the same members as the rows *)
Theorem c05_search_spec : forall (score : uuid -> Q) srt h c op terms filt allowed limit,
  corpus_rep c (cur_tokens h) -> allowed_ok filt allowed c ->
  (forall l, Permutation (srt l) l /\ Sorted (score_ge score) (srt l)) ->
  let matching := map td_id (filter (fun d => text_matches op (dedup_b terms) d && mem_bytes (td_id d) allowed) c) in
  let out := searchM srt op terms filt limit (run_hist h) in
  length (snd out) = Nat.min (N.to_nat limit) (length matching) /\
  StronglySorted (score_ge score) (snd out) /\
  NoDup (snd out) /\
  (forall x, In x (snd out) -> In x matching) /\
  (forall x y, In x matching -> ~ In x (snd out) -> In y (snd out) -> (score x <= score y)%Q) /\
  (forall x, In x (fst out) <-> In x (snd out)).
Proof. exact search_spec. Qed.
Print Assumptions c05_search_spec.

(* ---------------------------------------------------------------------------
   c05_checker_sound: code 0 of the checker used by the run means the relational
   specification: distinct ids; every row is a candidate whose reported finite
   score is within 1e-4 (relative, absolute below 1) of the reference tf-idf;
   count = min(limit, candidates); non-increasing reported scores; every
   candidate left out scores at most 1e-4 (1 + |x|) above every reported score
   x; hybrid = weight * score within 1e-6; no distance. *)
Theorem c05_checker_sound : forall limit w cands rows,
  text_code limit w cands rows = 0 -> text_rows_spec limit w cands rows.
Proof. exact text_code_sound. Qed.
Print Assumptions c05_checker_sound.

(* ---------------------------------------------------------------------------
   c05_zero_terms: a query that analyses to no term matches nothing, for both
   operators (FastAnd() and FastOr() of no sets are empty), on every state, and
   so says the spec. *)
Theorem c05_zero_terms : forall srt op filt limit st,
  (forall l, Permutation (srt l) l) ->
  matchM op [] filt st = [] /\ searchM srt op [] filt limit st = ([], []) /\
  (forall d, text_matches op [] d = false).
Proof. exact zero_terms. Qed.
Print Assumptions c05_zero_terms.

(* ------------------------------- examples ---------------------------------- *)
(* a history that inserts (doc 3 without text), rewrites 1 and fills 3, blanks 2,
   then re-adds 2, deletes 1 and inserts 4; terms 10..13 *)
Definition ex_hist : list batch_c :=
  [ [([1], [[10];[11];[10]]); ([2], [[11];[12]]); ([3], [])];
    [([1], [[12]]); ([3], [[10];[10]])];
    [([2], [])];
    [([2], [[10];[13]]); ([1], []); ([4], [[13]])] ].
Definition ex_corpus : list tdoc := [mkTdoc [3] [[10];[10]]; mkTdoc [2] [[10];[13]]; mkTdoc [4] [[13]]].

Example ex_run : run_hist ex_hist =
  mkTI [([10], [[2]; [3]]); ([13], [[4]; [2]])]
       [([3], ([([10], 2)], 2)); ([2], ([([10], 1); ([13], 1)], 2)); ([4], ([([13], 1)], 1))] 3.
Proof. vm_compute. reflexivity. Qed.
Example ex_run_blanked : run_hist (firstn 3 ex_hist) =
  mkTI [([10], [[3]]); ([12], [[1]])] [([1], ([([12], 1)], 1)); ([3], ([([10], 2)], 2))] 2.
Proof. vm_compute. reflexivity. Qed.
(* the hypothesis of c05_index_inv / c05_match_exact / c05_components is satisfiable *)
Example ex_corpus_rep : corpus_rep ex_corpus (cur_tokens ex_hist).
Proof. exact (corpus_of_hist_rep ex_hist). Qed.
Example ex_allowed_none : allowed_ok None [[1];[2];[3];[4]] ex_corpus.
Proof. intros d [H|[H|[H|[]]]]; subst; reflexivity. Qed.
Example ex_match_all : matchM OP_ALL [[10];[13];[10]] None (run_hist ex_hist) = [[2]].
Proof. vm_compute. reflexivity. Qed.
Example ex_match_any_filtered : matchM OP_ANY [[10];[13];[10]] (Some [[3];[4];[9]]) (run_hist ex_hist) = [[4]; [3]].
Proof. vm_compute. reflexivity. Qed.
Example ex_components : comps_of (run_hist ex_hist) [[10];[13]] [3] = Some [(2, 2, 3, 2); (0, 2, 3, 2)].
Proof. vm_compute. reflexivity. Qed.
(* the hypothesis of c05_topk / c05_search_spec is satisfiable: insertion sort *)
Example ex_sort_exists : forall score : uuid -> Q,
  forall l, Permutation (isort_desc score l) l /\ Sorted (score_ge score) (isort_desc score l).
Proof. exact isort_desc_ok. Qed.
Example ex_search_cut :
  searchM (isort_desc (fun id => match id with [3] => (3#1)%Q | [2] => (2#1)%Q | _ => (1#1)%Q end))
          OP_ANY [[10];[13]] None 2 (run_hist ex_hist) = ([[2]; [3]], [[3]; [2]]).
Proof. vm_compute. reflexivity. Qed.
(* the checker accepts: one row, score 0.5 (float32 3F000000), no weight;
   limit 1 with weight 2.0: hybrid 1.0 (3F800000), the candidate scoring 1/4 is left out *)
Example ex_checker_ok : text_code 5 None [([1], 1#2)] [mkRow [1] None None (Some 1056964608) 1056964608] = 0.
Proof. vm_compute. reflexivity. Qed.
Example ex_checker_cut : text_code 1 (Some 1073741824) [([1], 1#2); ([2], 1#4)]
                                   [mkRow [1] None None (Some 1056964608) 1065353216] = 0.
Proof. vm_compute. reflexivity. Qed.
(* ... and rejects leaving out the better candidate (code 7) *)
Example ex_checker_rejects : text_code 1 None [([1], 1#4); ([2], 1#2)]
                                       [mkRow [1] None None (Some 1048576000) 1048576000] = 7.
Proof. vm_compute. reflexivity. Qed.
