(* Model_C15.v -- partitioning of an insert batch over shards and the two
   quota checks (definitions only).

   Mechanism model M : [distribute] follows cluster/placement.go
   (distributePoints) loop iteration by loop iteration, by recursion on fuel.
   Reference spec S   : [partition_spec], [limits_spec], [fresh_spec] on an
   observed assignment; boolean checker [check_dist] (proved equivalent to S
   in Proofs_C15.v).
   Quota model        : [insert_refused], [create_collection], and the small
   state machine [step] over the collections of all users. *)
From Coq Require Import List NArith ZArith Bool Arith Sorted.
Import ListNotations.
Open Scope Z_scope.

(* a shard as distributePoints sees it: (Size, PointCount) *)
Definition shard := (Z * Z)%type.
(* an entry of the returned map: (index of the shard in the final shard list,
   start, end) meaning points[start:end] of the id-sorted batch *)
Definition assignment := (nat * nat * nat)%type.
Definition a_idx (a : assignment) : nat := fst (fst a).
Definition a_start (a : assignment) : nat := snd (fst a).
Definition a_end (a : assignment) : nat := snd a.

Definition sumZ (l : list Z) : Z := fold_right Z.add 0 l.
Definition slice (l : list Z) (s e : nat) : list Z := firstn (e - s) (skipn s l).

(* ------------------------------------------------------------------ M ---- *)

(* The inner loop
     for ; j < len(points); j++ {
       runningSize += size(points[j]); runningPointCount++
       if runningSize > maxShardSize || runningPointCount > maxShardPointCount { break } }
   returns how far j advanced; the point that breaks is not taken. *)
Fixpoint take (maxS maxC : Z) (rs rc : Z) (ps : list Z) : nat :=
  match ps with
  | [] => O
  | p :: ps' =>
      let rs' := rs + p in
      let rc' := rc + 1 in
      if (rs' >? maxS) || (rc' >? maxC) then O else S (take maxS maxC rs' rc' ps')
  end.

(* The outer loop, one iteration per unit of fuel.  [i] is the loop index,
   [rest] = shards[i:], [last] = lastPointIndex, [ps] = points[last:] (sizes),
   [created] counts the calls of createShardFn so far.  When shard i is the
   last one and points remain, an empty shard (0,0) is appended. *)
Fixpoint dist_loop (maxS maxC : Z) (fuel : nat) (i : nat) (rest : list shard)
         (last : nat) (ps : list Z) (created : nat) {struct fuel}
  : option (list assignment * nat) :=
  match rest with
  | [] => Some ([], created)                       (* i = len(shards): loop ends *)
  | (sz, ct) :: rest' =>
      match fuel with
      | O => None                                  (* out of fuel: error value *)
      | S f =>
          let k := take maxS maxC sz ct ps in
          let j := (last + k)%nat in
          let ps' := skipn k ps in
          let grow := match rest', ps' with [], _ :: _ => true | _, _ => false end in
          match dist_loop maxS maxC f (S i) (if grow then [(0, 0)] else rest') j ps'
                          (if grow then S created else created) with
          | None => None
          | Some (out, c) => Some (if (0 <? k)%nat then (i, last, j) :: out else out, c)
          end
      end
  end.

Definition distribute_fuel (fuel : nat) (shards : list shard) (sizes : list Z) (maxS maxC : Z)
  : option (list assignment * nat) :=
  match shards, sizes with
  | [], _ :: _ => dist_loop maxS maxC fuel 0 [(0, 0)] 0 sizes 1   (* initial empty shard *)
  | _, _ => dist_loop maxS maxC fuel 0 shards 0 sizes 0
  end.

Definition distribute (shards : list shard) (sizes : list Z) (maxS maxC : Z)
  : option (list assignment * nat) :=
  distribute_fuel (length shards + length sizes + 1) shards sizes maxS maxC.

(* ------------------------------------------------------------------ S ---- *)

(* the shard list after the call: the given shards, then the created ones *)
Definition final_shards (shards : list shard) (created : nat) : list shard :=
  shards ++ repeat (0, 0) created.

(* [chain a out b]: the ranges of [out], in order, are non-empty, start at a,
   each starts where the previous one ended, and the last one ends at b *)
Inductive chain : nat -> list assignment -> nat -> Prop :=
| chain_nil : forall a, chain a [] a
| chain_cons : forall i s e out b, (s < e)%nat -> chain e out b -> chain s ((i, s, e) :: out) b.

(* contiguous ordered partition of [0,n) over distinct shards, in shard order *)
Definition partition_spec (nshards n : nat) (out : list assignment) : Prop :=
  chain 0 out n /\
  StronglySorted lt (map a_idx out) /\
  Forall (fun a => (a_idx a < nshards)%nat) out.

Definition fits_range (fs : list shard) (sizes : list Z) (maxS maxC : Z) (a : assignment) : Prop :=
  snd (nth (a_idx a) fs (0, 0)) + Z.of_nat (a_end a - a_start a) <= maxC /\
  fst (nth (a_idx a) fs (0, 0)) + sumZ (slice sizes (a_start a) (a_end a)) <= maxS.

Definition limits_spec (fs : list shard) (sizes : list Z) (maxS maxC : Z) (out : list assignment) : Prop :=
  Forall (fits_range fs sizes maxS maxC) out.

(* the range shard i received, the empty range (0,0) if none *)
Fixpoint range_of (out : list assignment) (i : nat) : nat * nat :=
  match out with
  | [] => (O, O)
  | a :: out' => if (a_idx a =? i)%nat then (a_start a, a_end a) else range_of out' i
  end.

(* (size, count) of shard i after it received its range *)
Definition fill_after (fs : list shard) (sizes : list Z) (out : list assignment) (i : nat) : Z * Z :=
  (fst (nth i fs (0, 0)) + sumZ (slice sizes (fst (range_of out i)) (snd (range_of out i))),
   snd (nth i fs (0, 0)) + Z.of_nat (snd (range_of out i) - fst (range_of out i))).

(* point p does not fit a shard at fill level (sz, ct) *)
Definition no_fit (maxS maxC : Z) (f : Z * Z) (p : Z) : Prop :=
  fst f + p > maxS \/ snd f + 1 > maxC.

(* every shard created by the call received points, and when it was created
   the next unassigned point (the first of its range) did not fit the shard
   before it, filled with that shard's own range *)
Definition fresh_spec (shards : list shard) (sizes : list Z) (maxS maxC : Z)
           (out : list assignment) (created : nat) : Prop :=
  forall k, (k < created)%nat ->
    exists s e, In ((length shards + k)%nat, s, e) out /\
      match (length shards + k)%nat with
      | O => True                 (* no shard at all and the batch is not empty *)
      | S i => exists p, nth_error sizes s = Some p /\
                 no_fit maxS maxC (fill_after (final_shards shards created) sizes out i) p
      end.

Definition dist_spec (shards : list shard) (sizes : list Z) (maxS maxC : Z)
           (out : list assignment) (created : nat) : Prop :=
  partition_spec (length shards + created) (length sizes) out /\
  limits_spec (final_shards shards created) sizes maxS maxC out /\
  fresh_spec shards sizes maxS maxC out created.

(* point count of shard i after the call *)
Definition new_count (fs : list shard) (out : list assignment) (i : nat) : Z :=
  snd (nth i fs (0, 0)) + Z.of_nat (snd (range_of out i) - fst (range_of out i)).
Definition total_count (fs : list shard) : Z := sumZ (map snd fs).
Definition new_total (fs : list shard) (out : list assignment) : Z :=
  sumZ (map (new_count fs out) (seq 0 (length fs))).

(* the hypotheses of the property's quantifier *)
Definition inputs_ok (shards : list shard) (sizes : list Z) (maxS maxC : Z) : Prop :=
  Forall (fun p => 0 <= p <= maxS) sizes /\ 1 <= maxC /\
  Forall (fun s : shard => 0 <= fst s /\ 0 <= snd s) shards.

(* ------------------------------------------------------- checkers -------- *)

Fixpoint chain_b (a : nat) (out : list assignment) (b : nat) : bool :=
  match out with
  | [] => (a =? b)%nat
  | x :: out' => (a_start x =? a)%nat && (a_start x <? a_end x)%nat && chain_b (a_end x) out' b
  end.

(* strictly increasing and >= lo *)
Fixpoint incr_from (lo : nat) (l : list nat) : bool :=
  match l with
  | [] => true
  | x :: l' => (lo <=? x)%nat && incr_from (S x) l'
  end.

Definition partition_b (nshards n : nat) (out : list assignment) : bool :=
  chain_b 0 out n && incr_from 0 (map a_idx out) && forallb (fun a => (a_idx a <? nshards)%nat) out.

Definition fits_range_b (fs : list shard) (sizes : list Z) (maxS maxC : Z) (a : assignment) : bool :=
  (snd (nth (a_idx a) fs (0, 0)) + Z.of_nat (a_end a - a_start a) <=? maxC) &&
  (fst (nth (a_idx a) fs (0, 0)) + sumZ (slice sizes (a_start a) (a_end a)) <=? maxS).

Definition limits_b (fs : list shard) (sizes : list Z) (maxS maxC : Z) (out : list assignment) : bool :=
  forallb (fits_range_b fs sizes maxS maxC) out.

Definition no_fit_b (maxS maxC : Z) (f : Z * Z) (p : Z) : bool :=
  (fst f + p >? maxS) || (snd f + 1 >? maxC).

Definition fresh_one_b (shards : list shard) (sizes : list Z) (maxS maxC : Z)
           (out : list assignment) (created : nat) (k : nat) : bool :=
  match find (fun a => (a_idx a =? length shards + k)%nat) out with
  | None => false
  | Some a =>
      match (length shards + k)%nat with
      | O => true
      | S i => match nth_error sizes (a_start a) with
               | None => false
               | Some p => no_fit_b maxS maxC (fill_after (final_shards shards created) sizes out i) p
               end
      end
  end.

Definition fresh_b (shards : list shard) (sizes : list Z) (maxS maxC : Z)
           (out : list assignment) (created : nat) : bool :=
  forallb (fresh_one_b shards sizes maxS maxC out created) (seq 0 created).

Definition check_dist (shards : list shard) (sizes : list Z) (maxS maxC : Z)
           (out : list assignment) (created : nat) : bool :=
  partition_b (length shards + created) (length sizes) out &&
  limits_b (final_shards shards created) sizes maxS maxC out &&
  fresh_b shards sizes maxS maxC out created.

(* --------------------------------------------------------- quotas -------- *)

(* ClusterNode.InsertPoints: totalPoints+len(points) > MaxCollectionPointCount *)
Definition insert_refused (total n quota : Z) : bool := total + n >? quota.

Inductive create_result := CrCreated | CrExists | CrQuota.
(* RPCCreateCollection: key present -> AlreadyExists; else count >= MaxCollections -> QuotaReached *)
Definition create_collection (count maxc : Z) (exists_ : bool) : create_result :=
  if exists_ then CrExists else if count >=? maxc then CrQuota else CrCreated.

(* state machine: all collections (user, collection id) with their point totals *)
Definition ckey := (N * N)%type.
Definition keqb (a b : ckey) : bool := (fst a =? fst b)%N && (snd a =? snd b)%N.
Definition cstate := list (ckey * Z).
(* plan of a user: (MaxCollections, MaxCollectionPointCount) *)
Definition plans := N -> Z * Z.

Fixpoint lookup (st : cstate) (k : ckey) : option Z :=
  match st with
  | [] => None
  | (k', t) :: st' => if keqb k' k then Some t else lookup st' k
  end.
Fixpoint set_total (st : cstate) (k : ckey) (t : Z) : cstate :=
  match st with
  | [] => []
  | (k', t') :: st' => if keqb k' k then (k', t) :: st' else (k', t') :: set_total st' k t
  end.
Definition user_count (st : cstate) (u : N) : Z :=
  Z.of_nat (length (filter (fun e : ckey * Z => (fst (fst e) =? u)%N) st)).

Inductive request :=
| RCreate (u c : N)
| RInsert (u c : N) (n failed : Z).     (* failed: points of the ranges reported failed *)
Inductive response := RespOk | RespExists | RespQuota | RespNotFound.

Definition step (pl : plans) (st : cstate) (r : request) : cstate * response :=
  match r with
  | RCreate u c =>
      match create_collection (user_count st u) (fst (pl u))
                              (match lookup st (u, c) with Some _ => true | None => false end) with
      | CrExists => (st, RespExists)
      | CrQuota => (st, RespQuota)
      | CrCreated => (st ++ [((u, c), 0)], RespOk)
      end
  | RInsert u c n failed =>
      match lookup st (u, c) with
      | None => (st, RespNotFound)
      | Some t => if insert_refused t n (snd (pl u)) then (st, RespQuota)
                  else (set_total st (u, c) (t + n - failed), RespOk)
      end
  end.

Definition run (pl : plans) (st : cstate) (rs : list request) : cstate :=
  fold_left (fun s r => fst (step pl s r)) rs st.

Definition request_ok (r : request) : Prop :=
  match r with RCreate _ _ => True | RInsert _ _ n failed => 0 <= failed end.

(* ---- checker for what the shards of a live node hold after an accepted insert (Run_C15.CLive) ---- *)
Open Scope N_scope.
(* every shard holds a contiguous range of the id-sorted batch; together the ranges are [0,n) with nothing twice *)
Fixpoint contig_from (a : N) (l : list N) : bool :=
  match l with
  | [] => true
  | x :: r => (x =? a)%N && contig_from (a + 1) r
  end.
Definition contig_b (l : list N) : bool :=
  match l with [] => true | x :: _ => contig_from x l end.
Fixpoint count_n (i : N) (l : list N) : nat :=
  match l with [] => O | x :: r => ((if (x =? i)%N then 1 else 0) + count_n i r)%nat end.
Definition once_each_b (n : nat) (l : list N) : bool :=
  (length l =? n)%nat && forallb (fun i => (count_n (N.of_nat i) l =? 1)%nat) (seq 0 n).
Definition live_ranges_b (n : nat) (stored : list (list N)) : bool :=
  forallb contig_b stored && once_each_b n (concat stored).
(* what the model's assignment puts into shard i *)
Definition model_stored (out : list assignment) (i : nat) : list N :=
  concat (map (fun a => if (a_idx a =? i)%nat then map N.of_nat (seq (a_start a) (a_end a - a_start a)) else []) out).
Close Scope N_scope.
