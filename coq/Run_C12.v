(* Run_C12.v -- verdicts on forced schedules of the real shard manager.

   The harness drives real ShardManager instances through the pause points
   (cluster.VerifPauseHook).  A schedule is the list of its actions: start a client
   thread, release a thread parked at a pause point, or the observation that the idle
   timer of an entry has fired (the routine then parks at cleanup:fired).  Between two
   actions the harness waits until every thread is parked, blocked on a lock or finished.

   Model side: the same events are applied to the small-step model of Model_C12.  A thread
   standing at a pause point only moves once it was released; everything else runs freely
   until nothing can move ("settle").  Where several free threads compete (two threads
   blocked on the lock that was just released) ALL orders are explored, so the model gives
   the SET of outcomes possible for the schedule; the observed outcome must be in it.
   Timer: the fire step of a routine is an event of its own; because the real timer cannot
   be held back, a fire event logged right after event k may have happened anywhere during
   the settling of event k -- the model explores that too.

   Codes: 0 OK; 1xx the observation violates the property (judged on observed data only);
   201 the observed outcome is not an outcome of the model on this schedule. *)
From Coq Require Import List NArith Bool Arith.
From Semadb Require Import Model_C12.
Import ListNotations.

Inductive tspec := TReq (d : N) | TDel.

Inductive point := PStart | PLoaded | PRunning | PDelLocked | PFire | PFired | PLocked | PClosed.

Inductive event :=
| EvC (n : N) (p : point)    (* client thread n: started (PStart) / released from p *)
| EvI (by_ : N) (p : point). (* idle routine of the entry created by request by_: PFire = timer fired; else released from p *)

(* per client thread: res 0 = returned nil, 1 = the clean "already closed" error, 2 = another
   error, 3 = did not return, 4 = panicked; ran = the callback ran; probe = s.Info() succeeded inside the
   callback; direx = the shard directory existed inside the callback *)
Record tobs := mkObs { o_res : N; o_ran : bool; o_probe : bool; o_direx : bool }.

Inductive c12case :=
| CSched (fixedFlag backup : bool) (nshards : N) (threads : list tspec) (sched : list event)
         (obs : list tobs)
         (hang : bool)      (* the watchdog fired: some call did not return *)
         (entries : N)      (* loaded entries after the last event (0 when hang) *)
         (fresh : N)        (* a fresh request afterwards: 0 ok, 1 error, 2 hung, 3 not attempted (hang) *)
         (dup : bool)       (* two callbacks ran at once on one directory with different *shard.Shard *)
(* one REAL request handler (0 insert, 1 update, 2 delete, 3 search, 4 shard info) of a live node, parked inside
   DoWithShard at do:running until the idle timer of its shard had fired and the cleanup routine stood queued on the
   entry's write lock (reached; when the harness could not reach that state the run is still judged), then released: the request returned / with an error / the cleanup routine
   finished afterwards / a fresh request loaded the shard again *)
| CRpc (handler : N) (reached returned failed unloaded freshOk : bool)
(* the process died while a forced schedule over these threads ran (a panic or fatal error of the code under test
   on a goroutine of its own, e.g. the cleanup routine); the schedule events died with it, the harness arguments of
   the replay re-run the schedule *)
| CDied (backup : bool) (nshards : N) (threads : list tspec).

(* ------------------------------------------------------------------ *)
(* coarse machine *)

Definition point_eqb (a b : point) : bool :=
  match a, b with
  | PStart, PStart | PLoaded, PLoaded | PRunning, PRunning | PDelLocked, PDelLocked
  | PFire, PFire | PFired, PFired | PLocked, PLocked | PClosed, PClosed => true
  | _, _ => false
  end.

Definition point_of (st : state) (t : tid) : option point :=
  match t with
  | TC n => match T st n with
            | CReq _ RAcqSL => Some PStart
            | CReq _ (RRLock _) => Some PLoaded
            | CReq _ (RBegin _) => Some PRunning
            | CDel DAcqSL => Some PStart
            | CDel DScan => Some PDelLocked
            | _ => None
            end
  | TI e => match e_idle (E st e) with
            | IWait => Some PFire
            | IFired => Some PFired
            | ILocked => Some PLocked
            | IAcqSL | IAcqSLp => Some PClosed
            | _ => None
            end
  end.

Record cstate := mkC { c_st : state; c_perm : list tid }.

Definition has_perm (c : cstate) (t : tid) : bool := existsb (tid_eqb t) (c_perm c).
Definition drop_perm (c : cstate) (t : tid) : list tid := filter (fun x => negb (tid_eqb t x)) (c_perm c).

Definition free (c : cstate) (t : tid) : bool :=
  match point_of (c_st c) t with None => true | Some _ => has_perm c t end.

(* mandatory successors: one step of a free thread *)
Definition succ_of (fixed : bool) (c : cstate) (t : tid) : list cstate :=
  if free c t then
    match step fixed (c_st c) t with
    | Some st' => [mkC st' (drop_perm c t)]
    | None => []
    end
  else [].

Definition mand_succs (fixed : bool) (c : cstate) : list cstate :=
  flat_map (succ_of fixed c) (all_tids (c_st c)).

(* optional: the timer of a waiting routine whose creator is in fl fires *)
Definition fire_succs (fixed : bool) (fl : list nat) (c : cstate) : list cstate :=
  flat_map (fun e =>
              let x := E (c_st c) e in
              match e_idle x with
              | IWait => if existsb (Nat.eqb (e_by x)) fl
                         then match step fixed (c_st c) (TI e) with
                              | Some st' => [mkC st' (c_perm c)]
                              | None => []
                              end
                         else []
              | _ => []
              end) (seq 0 (length (ents (c_st c)))).

Definition cstate_eq_dec : forall a b : cstate, {a = b} + {a <> b}.
Proof. repeat decide equality. Defined.

Fixpoint mem_c (x : cstate) (l : list cstate) : bool :=
  match l with [] => false | y :: r => if cstate_eq_dec x y then true else mem_c x r end.
Fixpoint dedupe (l : list cstate) : list cstate :=
  match l with [] => [] | x :: r => if mem_c x r then dedupe r else x :: dedupe r end.

Fixpoint settle (fuel : nat) (fixed : bool) (fl : list nat) (front quiet : list cstate) : list cstate :=
  match fuel with
  | O => dedupe quiet    (* out of fuel: unsettled states are dropped (never happens: every thread has < 20 steps) *)
  | S f =>
      let q := filter (fun c => is_nil (mand_succs fixed c)) front in
      let next := dedupe (flat_map (fun c => mand_succs fixed c ++ fire_succs fixed fl c) front) in
      match next with
      | [] => dedupe (quiet ++ q)
      | _ => settle f fixed fl next (quiet ++ q)
      end
  end.

Definition find_entry (st : state) (by_ : nat) (ok : entry -> bool) : option nat :=
  find (fun e => let x := E st e in (e_by x =? by_)%nat && ok x) (seq 0 (length (ents st))).

Definition idle_at (p : point) (x : entry) : bool :=
  match p, e_idle x with
  | PFire, IWait | PFired, IFired | PLocked, ILocked | PClosed, IAcqSL | PClosed, IAcqSLp => true
  | _, _ => false
  end.

(* apply one event to one state: [] = the event is impossible here *)
Definition apply_event (fixed : bool) (ev : event) (c : cstate) : list cstate :=
  match ev with
  | EvC n p =>
      let t := TC (N.to_nat n) in
      match point_of (c_st c) t with
      | Some q => if point_eqb p q && negb (has_perm c t) then [mkC (c_st c) (t :: c_perm c)] else []
      | None => []
      end
  | EvI by_ PFire =>
      let b := N.to_nat by_ in
      match find_entry (c_st c) b (idle_at PFire) with
      | Some e => match step fixed (c_st c) (TI e) with Some st' => [mkC st' (c_perm c)] | None => [] end
      | None =>
          (* already fired while the previous event settled, still parked at cleanup:fired *)
          match find_entry (c_st c) b (idle_at PFired) with
          | Some e => if has_perm c (TI e) then [] else [c]
          | None => []
          end
      end
  | EvI by_ p =>
      match find_entry (c_st c) (N.to_nat by_) (idle_at p) with
      | Some e => if has_perm c (TI e) then [] else [mkC (c_st c) (TI e :: c_perm c)]
      | None => []
      end
  end.

(* creators whose fire event follows immediately *)
Fixpoint fires_next (l : list event) : list nat :=
  match l with
  | EvI by_ PFire :: r => N.to_nat by_ :: fires_next r
  | _ => []
  end.

Definition FUEL : nat := 200.

Fixpoint run_events (fixed : bool) (evs : list event) (cs : list cstate) : list cstate :=
  match evs with
  | [] => cs
  | ev :: r =>
      let cs1 := dedupe (flat_map (apply_event fixed ev) cs) in
      run_events fixed r (settle FUEL fixed (fires_next r) cs1 [])
  end.

Definition tspec_spec (t : tspec) : spec :=
  match t with TReq d => SReq (N.to_nat d) | TDel => SDel end.

Definition start_state (nshards : N) (threads : list tspec) : cstate :=
  mkC (init (N.to_nat nshards) (map tspec_spec threads)) [].

(* outcome of a final state: per client thread (res, ran), number of map entries *)
Definition thread_outcome (c : cthread) : N * bool :=
  match c with
  | CReq _ (RDone ROk) => (0, true)
  | CReq _ (RDone RClosed) => (1, false)
  | CDel DDone => (0, false)
  | _ => (3, false)
  end%N.

Definition entry_count (st : state) : N :=
  N.of_nat (length (filter (fun d => negb (is_none (d_store d))) (dirs st))).

Definition outcome (st : state) : list (N * bool) * N := (map thread_outcome (thr st), entry_count st).

Definition model_outcomes (fixed : bool) (nshards : N) (threads : list tspec) (sched : list event)
  : list (list (N * bool) * N) :=
  map (fun c => outcome (c_st c)) (run_events fixed sched [start_state nshards threads]).

Definition rb_eqb (a b : N * bool) : bool := N.eqb (fst a) (fst b) && Bool.eqb (snd a) (snd b).
Fixpoint rbs_eqb (a b : list (N * bool)) : bool :=
  match a, b with
  | [], [] => true
  | x :: a', y :: b' => rb_eqb x y && rbs_eqb a' b'
  | _, _ => false
  end.
Definition outcome_eqb (a b : list (N * bool) * N) : bool := rbs_eqb (fst a) (fst b) && N.eqb (snd a) (snd b).

Definition first_fail (l : list (bool * N)) : N :=
  fold_right (fun (p : bool * N) acc => if fst p then acc else snd p) 0%N l.

Definition verdict (c : c12case) : N :=
  match c with
  | CSched fixedFlag backup nshards threads sched obs hang entries fresh dup =>
      let observed := (map (fun o => (o_res o, o_ran o)) obs, entries) in
      first_fail
        [ (forallb (fun o => negb (N.eqb (o_res o) 4)) obs, 111);
          (forallb (fun o => implb (o_ran o) (o_probe o)) obs, 101);
          (forallb (fun o => implb (o_ran o) (o_direx o)) obs, 102);
          (negb hang && forallb (fun o => negb (N.eqb (o_res o) 3)) obs, 103);
          (N.eqb fresh 0, 104);
          (forallb (fun o => negb (N.eqb (o_res o) 2)) obs, 105);
          (negb dup, 106);
          (Nat.eqb (length obs) (length threads)
           && existsb (outcome_eqb observed) (model_outcomes fixedFlag nshards threads sched), 201) ]%N
  | CRpc handler reached returned failed unloaded freshOk =>
      (* the model's outcome for this schedule (run_ex_unload below: request ok, then unloaded, no entry left)
         presupposes that the callback returns; the observation is judged on its own *)
      first_fail [ (returned, 107); (negb failed, 108); (unloaded, 109); (freshOk, 104) ]%N
  | CDied _ _ _ => 112%N
  end.

Fixpoint bad_from (i : N) (cs : list c12case) : list (N * N) :=
  match cs with
  | [] => []
  | c :: r => let v := verdict c in
              if N.eqb v 0 then bad_from (i + 1)%N r else (i, v) :: bad_from (i + 1)%N r
  end.
Definition bad (cs : list c12case) : list (N * N) := bad_from 0%N cs.

(* ------------------------------------------------------------------ *)
(* self-checks of the run machinery on the model itself *)

(* one request, its idle routine unloads the shard: request ok, no entry left *)
Example run_ex_unload :
  model_outcomes true 1 [TReq 0]
    [EvC 0 PStart; EvC 0 PLoaded; EvC 0 PRunning; EvI 0 PFire; EvI 0 PFired; EvI 0 PLocked; EvI 0 PClosed]
  = [([(0%N, true)], 0%N)].
Proof. vm_compute. reflexivity. Qed.

(* the idle routine closes the shard while the request is parked before RLock: clean error *)
Example run_ex_stale :
  model_outcomes true 1 [TReq 0]
    [EvC 0 PStart; EvI 0 PFire; EvI 0 PFired; EvI 0 PLocked; EvC 0 PLoaded; EvI 0 PClosed]
  = [([(1%N, false)], 0%N)].
Proof. vm_compute. reflexivity. Qed.

(* idle timer fires during a deletion: current code finishes, the pinned lock order deadlocks
   (deletion and nothing else returns: res 3) *)
Definition deadlock_sched : list event :=
  [EvC 0 PStart; EvC 0 PLoaded; EvC 0 PRunning; EvI 0 PFire; EvI 0 PFired; EvC 1 PStart; EvI 0 PLocked;
   EvC 1 PDelLocked].
Example run_ex_deadlock_fixed :
  model_outcomes true 1 [TReq 0; TDel] (deadlock_sched ++ [EvI 0 PClosed]) = [([(0%N, true); (0%N, false)], 0%N)].
Proof. vm_compute. reflexivity. Qed.
Example run_ex_deadlock_pinned :
  model_outcomes false 1 [TReq 0; TDel] deadlock_sched = [([(0%N, true); (3%N, false)], 1%N)].
Proof. vm_compute. reflexivity. Qed.
