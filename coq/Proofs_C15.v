(* Proofs_C15.v -- lemmas about the distribution model and the quota state
   machine of Model_C15.v. *)
From Coq Require Import List NArith ZArith Bool Arith Sorted Lia.
From Coq Require Import ZifyBool ZifyN ZifyNat.
From Semadb Require Import Model_C15.
Import ListNotations.
Open Scope Z_scope.

(* ---------------------------------------------------------- helpers ------ *)

Lemma sumZ_cons : forall x l, sumZ (x :: l) = x + sumZ l.
Proof. reflexivity. Qed.

Lemma sumZ_app : forall a b, sumZ (a ++ b) = sumZ a + sumZ b.
Proof. induction a as [|x a IH]; intros b; simpl; [reflexivity|rewrite IH; lia]. Qed.

Lemma sumZ_nonneg : forall l, Forall (fun p => 0 <= p) l -> 0 <= sumZ l.
Proof. induction 1 as [|x l Hx _ IH]; simpl; lia. Qed.

Lemma skipn_cons_nth : forall (A : Type) (i : nat) (l : list A) a t d,
  skipn i l = a :: t -> skipn (S i) l = t /\ nth i l d = a /\ (i < length l)%nat.
Proof.
  intros A i. induction i as [|i IH]; intros l a t d H.
  - destruct l as [|x l]; simpl in H; [discriminate|]. inversion H; subst. simpl. repeat split. lia.
  - destruct l as [|x l]; [simpl in H; discriminate|].
    change (skipn (S i) (x :: l)) with (skipn i l) in H.
    destruct (IH l a t d H) as (H1 & H2 & H3).
    change (skipn (S (S i)) (x :: l)) with (skipn (S i) l). simpl nth. simpl length. repeat split; [assumption|assumption|lia].
Qed.

Lemma skipn_skipn' : forall (A : Type) (a b : nat) (l : list A), skipn a (skipn b l) = skipn (b + a) l.
Proof.
  intros A a b. revert a. induction b as [|b IH]; intros a l; [reflexivity|].
  destruct l as [|x l]; [simpl; destruct a; reflexivity|]. simpl. apply IH.
Qed.

Lemma nth_error_skipn : forall (A : Type) (a b : nat) (l : list A),
  nth_error (skipn a l) b = nth_error l (a + b).
Proof.
  intros A a. induction a as [|a IH]; intros b l; [reflexivity|].
  destruct l as [|x l]; [destruct b; reflexivity|]. simpl. apply IH.
Qed.

Lemma skipn_length_le : forall (A : Type) (k : nat) (l : list A), (k <= length l)%nat ->
  (k + length (skipn k l) = length l)%nat.
Proof. intros. rewrite skipn_length. lia. Qed.

(* ---------------------------------------------------------- take --------- *)

Section Take.
Variables maxS maxC : Z.

Lemma take_le : forall ps rs rc, (take maxS maxC rs rc ps <= length ps)%nat.
Proof.
  induction ps as [|p ps IH]; intros rs rc; simpl; [lia|].
  destruct ((rs + p >? maxS) || (rc + 1 >? maxC)); [lia|]. specialize (IH (rs + p) (rc + 1)). lia.
Qed.

(* what was taken respects both limits *)
Lemma take_limits : forall ps rs rc, (0 < take maxS maxC rs rc ps)%nat ->
  rc + Z.of_nat (take maxS maxC rs rc ps) <= maxC /\
  rs + sumZ (firstn (take maxS maxC rs rc ps) ps) <= maxS.
Proof.
  induction ps as [|p ps IH]; intros rs rc H; simpl in *; [lia|].
  destruct ((rs + p >? maxS) || (rc + 1 >? maxC)) eqn:E; [lia|].
  apply orb_false_iff in E. destruct E as [E1 E2].
  destruct (take maxS maxC (rs + p) (rc + 1) ps) as [|k] eqn:Ek.
  - simpl. lia.
  - specialize (IH (rs + p) (rc + 1)). rewrite Ek in IH.
    destruct IH as [I1 I2]; [lia|]. rewrite firstn_cons, sumZ_cons. split; lia.
Qed.

(* the loop stops only at the end of the batch or at a point that does not fit *)
Lemma take_maximal : forall ps rs rc, (take maxS maxC rs rc ps < length ps)%nat ->
  exists p, nth_error ps (take maxS maxC rs rc ps) = Some p /\
    (rs + sumZ (firstn (take maxS maxC rs rc ps) ps) + p > maxS \/
     rc + Z.of_nat (take maxS maxC rs rc ps) + 1 > maxC).
Proof.
  induction ps as [|p ps IH]; intros rs rc H; simpl in *; [lia|].
  destruct ((rs + p >? maxS) || (rc + 1 >? maxC)) eqn:E.
  - exists p. simpl. split; [reflexivity|]. apply orb_true_iff in E. lia.
  - destruct (IH (rs + p) (rc + 1)) as (q & Hq & Hn); [lia|].
    exists q. rewrite firstn_cons, sumZ_cons. split; [exact Hq|]. lia.
Qed.

Lemma take_progress : forall p ps rs rc, rs + p <= maxS -> rc + 1 <= maxC ->
  (0 < take maxS maxC rs rc (p :: ps))%nat.
Proof.
  intros p ps rs rc H1 H2. simpl.
  destruct ((rs + p >? maxS) || (rc + 1 >? maxC)) eqn:E; [|lia].
  apply orb_true_iff in E. lia.
Qed.

(* a point larger than maxS is never taken when everything is non-negative *)
Lemma take_stops_before_big : forall ps rs rc, 0 <= rs -> Forall (fun p => 0 <= p) ps ->
  Exists (fun p => p > maxS) ps -> Exists (fun p => p > maxS) (skipn (take maxS maxC rs rc ps) ps).
Proof.
  induction ps as [|p ps IH]; intros rs rc Hrs Hnn Hex; simpl; [exact Hex|].
  inversion Hnn as [|? ? Hp Hnn']; subst.
  destruct ((rs + p >? maxS) || (rc + 1 >? maxC)) eqn:E; [exact Hex|].
  apply orb_false_iff in E. destruct E as [E1 E2].
  inversion Hex as [? ? Hbig|? ? Hex']; subst; [lia|].
  simpl. apply IH; [lia|assumption|assumption].
Qed.
End Take.

(* ---------------------------------------------------------- termination -- *)

Section Loop.
Variables maxS maxC : Z.

Definition fit_all (ps : list Z) : Prop := Forall (fun p => 0 <= p <= maxS) ps.

Lemma fit_all_skipn : forall k ps, fit_all ps -> fit_all (skipn k ps).
Proof.
  intros k ps H. unfold fit_all in *. rewrite Forall_forall in *. intros x Hx. apply H.
  rewrite <- (firstn_skipn k ps). apply in_or_app. right. exact Hx.
Qed.

(* a fresh shard takes at least one point *)
Lemma take_fresh : forall p ps, fit_all (p :: ps) -> 1 <= maxC -> (0 < take maxS maxC 0 0 (p :: ps))%nat.
Proof.
  intros p ps H Hc. inversion H; subst. apply take_progress; lia.
Qed.

Lemma fresh_terminates : forall fuel i last ps created, fit_all ps -> 1 <= maxC ->
  (length ps + 1 <= fuel)%nat ->
  exists r, dist_loop maxS maxC fuel i [(0, 0)] last ps created = Some r.
Proof.
  induction fuel as [|f IH]; intros i last ps created Hfit Hc Hf; [lia|].
  cbn [dist_loop].
  set (k := take maxS maxC 0 0 ps).
  destruct (skipn k ps) as [|q ps'] eqn:Es.
  - destruct f; cbn [dist_loop]; eexists; reflexivity.
  - assert (Hk : (0 < k)%nat).
    { destruct ps as [|p ps0]; [destruct k; discriminate|]. apply take_fresh; assumption. }
    assert (Hle : (k <= length ps)%nat) by apply take_le.
    assert (Hlen : (k + length (q :: ps') = length ps)%nat) by (rewrite <- Es; apply skipn_length_le; exact Hle).
    destruct (IH (S i) (last + k)%nat (q :: ps') (S created)) as [[out c] Hr].
    + rewrite <- Es. apply fit_all_skipn. exact Hfit.
    + exact Hc.
    + lia.
    + rewrite Hr. eexists; reflexivity.
Qed.

Lemma loop_terminates : forall fuel i rest last ps created, fit_all ps -> 1 <= maxC ->
  (length rest + length ps + 1 <= fuel)%nat ->
  exists r, dist_loop maxS maxC fuel i rest last ps created = Some r.
Proof.
  induction fuel as [|f IH]; intros i rest last ps created Hfit Hc Hf; [lia|].
  destruct rest as [|[sz ct] rest']; [eexists; reflexivity|].
  cbn [dist_loop].
  set (k := take maxS maxC sz ct ps).
  assert (Hle : (k <= length ps)%nat) by apply take_le.
  assert (Hlen : (k + length (skipn k ps) = length ps)%nat) by (apply skipn_length_le; exact Hle).
  assert (Hfit' : fit_all (skipn k ps)) by (apply fit_all_skipn; exact Hfit).
  simpl length in Hf.
  destruct rest' as [|s2 rest''].
  - destruct (skipn k ps) as [|q ps'] eqn:Es.
    + destruct f; cbn [dist_loop]; eexists; reflexivity.
    + destruct (fresh_terminates f (S i) (last + k)%nat (q :: ps') (S created) Hfit' Hc) as [[out c] Hr]; [lia|].
      rewrite Hr. eexists; reflexivity.
  - destruct (IH (S i) (s2 :: rest'') (last + k)%nat (skipn k ps) created Hfit' Hc) as [[out c] Hr]; [lia|].
    rewrite Hr. eexists; reflexivity.
Qed.

Lemma distribute_terminates : forall shards sizes, fit_all sizes -> 1 <= maxC ->
  exists r, distribute shards sizes maxS maxC = Some r.
Proof.
  intros shards sizes Hfit Hc. unfold distribute, distribute_fuel.
  destruct shards as [|s shards]; [destruct sizes as [|p sizes]|].
  - eexists; reflexivity.
  - apply fresh_terminates; [assumption|assumption|simpl; lia].
  - apply loop_terminates; [assumption|assumption|simpl; lia].
Qed.

(* without the hypothesis: a point that fits no empty shard makes the loop
   create shards forever -- no amount of fuel is enough *)
Lemma loop_diverges : forall fuel i rest last ps created,
  rest <> [] -> Forall (fun s : shard => 0 <= fst s) rest ->
  Forall (fun p => 0 <= p) ps -> Exists (fun p => p > maxS) ps ->
  dist_loop maxS maxC fuel i rest last ps created = None.
Proof.
  induction fuel as [|f IH]; intros i rest last ps created Hne Hsh Hnn Hex;
    (destruct rest as [|[sz ct] rest']; [congruence|]); [reflexivity|].
  cbn [dist_loop].
  set (k := take maxS maxC sz ct ps).
  inversion Hsh as [|? ? Hsz Hsh']; subst. simpl in Hsz.
  assert (Hex' : Exists (fun p => p > maxS) (skipn k ps)) by (apply take_stops_before_big; assumption).
  assert (Hnn' : Forall (fun p => 0 <= p) (skipn k ps)).
  { rewrite Forall_forall in *. intros x Hx. apply Hnn. rewrite <- (firstn_skipn k ps). apply in_or_app; right; exact Hx. }
  destruct rest' as [|s2 rest''].
  - destruct (skipn k ps) as [|q ps'] eqn:Es; [inversion Hex'|].
    rewrite IH; [reflexivity|discriminate|repeat constructor; simpl; lia|assumption|assumption].
  - rewrite IH; [reflexivity|discriminate|assumption|assumption|assumption].
Qed.

Lemma distribute_diverges : forall fuel shards sizes,
  Forall (fun s : shard => 0 <= fst s) shards -> Forall (fun p => 0 <= p) sizes ->
  Exists (fun p => p > maxS) sizes ->
  distribute_fuel fuel shards sizes maxS maxC = None.
Proof.
  intros fuel shards sizes Hsh Hnn Hex. unfold distribute_fuel.
  destruct shards as [|s shards]; [destruct sizes as [|p sizes]; [inversion Hex|]|].
  - apply loop_diverges; [discriminate|repeat constructor; simpl; lia|assumption|assumption].
  - apply loop_diverges; [discriminate|assumption|assumption|assumption].
Qed.

(* ---------------------------------------------------------- big-step ----- *)

Definition emit (i last k : nat) (out : list assignment) : list assignment :=
  if (0 <? k)%nat then (i, last, (last + k)%nat) :: out else out.

(* the executions of the loop that return *)
Inductive loop_rel : nat -> list shard -> nat -> list Z -> nat -> list assignment -> nat -> Prop :=
| LR_done : forall i last ps cr, loop_rel i [] last ps cr [] cr
| LR_next : forall i sz ct rest' last ps cr out c k,
    k = take maxS maxC sz ct ps ->
    (rest' <> [] \/ skipn k ps = []) ->
    loop_rel (S i) rest' (last + k) (skipn k ps) cr out c ->
    loop_rel i ((sz, ct) :: rest') last ps cr (emit i last k out) c
| LR_grow : forall i sz ct last ps cr out c k,
    k = take maxS maxC sz ct ps ->
    skipn k ps <> [] ->
    loop_rel (S i) [(0, 0)] (last + k) (skipn k ps) (S cr) out c ->
    loop_rel i [(sz, ct)] last ps cr (emit i last k out) c.

Lemma dist_loop_rel : forall fuel i rest last ps cr out c,
  dist_loop maxS maxC fuel i rest last ps cr = Some (out, c) -> loop_rel i rest last ps cr out c.
Proof.
  induction fuel as [|f IH]; intros i rest last ps cr out c H;
    (destruct rest as [|[sz ct] rest']; [inversion H; subst; constructor|]); [discriminate|].
  cbn [dist_loop] in H.
  set (k := take maxS maxC sz ct ps) in *.
  destruct rest' as [|s2 rest''].
  - destruct (skipn k ps) as [|q ps'] eqn:Es.
    + destruct (dist_loop maxS maxC f (S i) [] (last + k) [] cr) as [[out' c']|] eqn:E; [|discriminate].
      inversion H; subst. apply IH in E. fold (emit i last k out').
      eapply LR_next; [reflexivity|right; exact Es|fold k; rewrite Es; exact E].
    + destruct (dist_loop maxS maxC f (S i) [(0, 0)] (last + k) (q :: ps') (S cr)) as [[out' c']|] eqn:E; [|discriminate].
      inversion H; subst. apply IH in E. fold (emit i last k out').
      eapply LR_grow; [reflexivity|fold k; rewrite Es; discriminate|fold k; rewrite Es; exact E].
  - destruct (dist_loop maxS maxC f (S i) (s2 :: rest'') (last + k) (skipn k ps) cr) as [[out' c']|] eqn:E; [|discriminate].
    inversion H; subst. apply IH in E. fold (emit i last k out').
    eapply LR_next; [reflexivity|left; discriminate|exact E].
Qed.

End Loop.

(* ---------------------------------------------------------- properties --- *)

Section Props.
Variables maxS maxC : Z.

Lemma in_emit : forall i last k out a, In a out -> In a (emit i last k out).
Proof. intros. unfold emit. destruct (0 <? k)%nat; [right|]; assumption. Qed.

Lemma skipn_nonempty_lt : forall (A : Type) (k : nat) (l : list A), skipn k l <> [] -> (k < length l)%nat.
Proof.
  intros A k l H. destruct (Nat.lt_ge_cases k (length l)) as [Hlt|Hge]; [exact Hlt|].
  exfalso. apply H. apply skipn_all2. exact Hge.
Qed.

(* P1: the ranges form a chain from lastPointIndex to the end of the batch *)
Lemma loop_chain : forall i rest last ps cr out c, loop_rel maxS maxC i rest last ps cr out c ->
  (rest = [] -> ps = []) -> chain last out (last + length ps).
Proof.
  induction 1 as [i last ps cr | i sz ct rest' last ps cr out c k Hk Hor H IH | i sz ct last ps cr out c k Hk Hne H IH];
    intros Hemp.
  - rewrite (Hemp eq_refl). simpl. rewrite Nat.add_0_r. constructor.
  - assert (Hle : (k <= length ps)%nat) by (rewrite Hk; apply take_le).
    pose proof (skipn_length_le _ k ps Hle) as Hlen.
    assert (IH' : chain (last + k) out (last + length ps)).
    { replace (last + length ps)%nat with (last + k + length (skipn k ps))%nat by lia.
      apply IH. intros E. destruct Hor as [Hor|Hor]; [congruence|exact Hor]. }
    unfold emit. destruct (0 <? k)%nat eqn:E.
    + apply Nat.ltb_lt in E. constructor; [lia|exact IH'].
    + apply Nat.ltb_ge in E. assert (k = 0)%nat as K0 by lia. rewrite K0, Nat.add_0_r in IH'. exact IH'.
  - assert (Hle : (k <= length ps)%nat) by (rewrite Hk; apply take_le).
    pose proof (skipn_length_le _ k ps Hle) as Hlen.
    assert (IH' : chain (last + k) out (last + length ps)).
    { replace (last + length ps)%nat with (last + k + length (skipn k ps))%nat by lia.
      apply IH. discriminate. }
    unfold emit. destruct (0 <? k)%nat eqn:E.
    + apply Nat.ltb_lt in E. constructor; [lia|exact IH'].
    + apply Nat.ltb_ge in E. assert (k = 0)%nat as K0 by lia. rewrite K0, Nat.add_0_r in IH'. exact IH'.
Qed.

Lemma emit_idx : forall i last k out hi,
  Forall (fun a => (S i <= a_idx a < hi)%nat) out -> StronglySorted lt (map a_idx out) -> (i < hi)%nat ->
  Forall (fun a => (i <= a_idx a < hi)%nat) (emit i last k out) /\ StronglySorted lt (map a_idx (emit i last k out)).
Proof.
  intros i last k out hi HF HS Hi.
  assert (HF' : Forall (fun a => (i <= a_idx a < hi)%nat) out).
  { eapply Forall_impl; [|exact HF]. simpl. intros a Ha. lia. }
  unfold emit. destruct (0 <? k)%nat; [|split; assumption].
  split.
  - constructor; [unfold a_idx; simpl; lia|exact HF'].
  - simpl. constructor; [exact HS|]. unfold a_idx at 1. simpl.
    rewrite Forall_forall in *. intros x Hx. apply in_map_iff in Hx. destruct Hx as (a & <- & Ha).
    specialize (HF a Ha). lia.
Qed.

(* P2: shard indices increase strictly and stay inside the final shard list *)
Lemma loop_idx : forall i rest last ps cr out c, loop_rel maxS maxC i rest last ps cr out c ->
  (cr <= c)%nat /\
  Forall (fun a => (i <= a_idx a < i + length rest + (c - cr))%nat) out /\
  StronglySorted lt (map a_idx out).
Proof.
  induction 1 as [i last ps cr | i sz ct rest' last ps cr out c k Hk Hor H IH | i sz ct last ps cr out c k Hk Hne H IH].
  - split; [lia|]. split; constructor.
  - destruct IH as (I1 & I2 & I3). split; [exact I1|].
    apply emit_idx; [|exact I3|simpl; lia].
    eapply Forall_impl; [|exact I2]. simpl. intros a Ha. lia.
  - destruct IH as (I1 & I2 & I3). split; [lia|].
    apply emit_idx; [|exact I3|simpl; lia].
    eapply Forall_impl; [|exact I2]. simpl. intros a Ha. lia.
Qed.

Lemma slice_at : forall sizes last k, slice sizes last (last + k) = firstn k (skipn last sizes).
Proof. intros. unfold slice. f_equal. lia. Qed.

Lemma head_fits : forall i sz ct last ps k sizes (fs : list shard),
  k = take maxS maxC sz ct ps -> (0 < k)%nat -> ps = skipn last sizes -> nth i fs (0, 0) = (sz, ct) ->
  fits_range fs sizes maxS maxC (i, last, (last + k)%nat).
Proof.
  intros i sz ct last ps k sizes fs Hk Hpos Hps Hnth.
  unfold fits_range, a_idx, a_start, a_end. cbn [fst snd]. rewrite Hnth. cbn [fst snd].
  rewrite slice_at, <- Hps. replace (last + k - last)%nat with k by lia.
  rewrite Hk in Hpos |- *. apply take_limits. exact Hpos.
Qed.

(* P3: every assigned range respects both limits of its shard *)
Lemma loop_limits : forall i rest last ps cr out c, loop_rel maxS maxC i rest last ps cr out c ->
  forall sizes fs, ps = skipn last sizes -> skipn i fs = rest ++ repeat (0, 0) (c - cr)%nat ->
  limits_spec fs sizes maxS maxC out.
Proof.
  induction 1 as [i last ps cr | i sz ct rest' last ps cr out c k Hk Hor H IH | i sz ct last ps cr out c k Hk Hne H IH];
    intros sizes fs Hps Hfs.
  - constructor.
  - simpl in Hfs. destruct (skipn_cons_nth _ i fs _ _ (0, 0) Hfs) as (Hfs' & Hnth & _).
    assert (IH' : limits_spec fs sizes maxS maxC out).
    { apply IH; [rewrite Hps; apply skipn_skipn'|exact Hfs']. }
    unfold emit. destruct (0 <? k)%nat eqn:E; [|exact IH'].
    apply Nat.ltb_lt in E. constructor; [|exact IH'].
    eapply head_fits; eassumption.
  - destruct (loop_idx _ _ _ _ _ _ _ H) as (Hc & _ & _).
    replace (c - cr)%nat with (S (c - S cr)) in Hfs by lia. simpl in Hfs.
    destruct (skipn_cons_nth _ i fs _ _ (0, 0) Hfs) as (Hfs' & Hnth & _).
    assert (IH' : limits_spec fs sizes maxS maxC out).
    { apply IH; [rewrite Hps; apply skipn_skipn'|exact Hfs']. }
    unfold emit. destruct (0 <? k)%nat eqn:E; [|exact IH'].
    apply Nat.ltb_lt in E. constructor; [|exact IH'].
    eapply head_fits; eassumption.
Qed.

(* a shard whose first remaining point fits takes at least that point *)
Lemma loop_head_used : forall i sz ct rest' last p ps cr out c,
  loop_rel maxS maxC i ((sz, ct) :: rest') last (p :: ps) cr out c -> sz + p <= maxS -> ct + 1 <= maxC ->
  exists e out', out = (i, last, e) :: out' /\ (last < e)%nat.
Proof.
  intros i sz ct rest' last p ps cr out c H H1 H2.
  pose proof (take_progress maxS maxC p ps sz ct H1 H2) as Hp.
  inversion H; subst; unfold emit;
    (destruct (0 <? take maxS maxC sz ct (p :: ps))%nat eqn:E;
     [eexists; eexists; split; [reflexivity|lia]|apply Nat.ltb_ge in E; lia]).
Qed.

Lemma range_of_above : forall out i, Forall (fun a => (i < a_idx a)%nat) out -> range_of out i = (O, O).
Proof.
  induction out as [|a out IH]; intros i H; [reflexivity|].
  inversion H as [|? ? Ha H']; subst. simpl.
  destruct (a_idx a =? i)%nat eqn:E; [apply Nat.eqb_eq in E; lia|]. apply IH. exact H'.
Qed.

Lemma range_of_emit_other : forall i last k out i0, i0 <> i ->
  range_of (emit i last k out) i0 = range_of out i0.
Proof.
  intros. unfold emit. destruct (0 <? k)%nat; [|reflexivity]. simpl. unfold a_idx at 1. simpl.
  destruct (i =? i0)%nat eqn:E; [apply Nat.eqb_eq in E; congruence|reflexivity].
Qed.

Lemma range_of_emit_same : forall i last k out, Forall (fun a => (S i <= a_idx a)%nat) out ->
  range_of (emit i last k out) i = if (0 <? k)%nat then (last, (last + k)%nat) else (O, O).
Proof.
  intros i last k out H. unfold emit. destruct (0 <? k)%nat.
  - simpl. unfold a_idx at 1. simpl. rewrite Nat.eqb_refl. reflexivity.
  - apply range_of_above. eapply Forall_impl; [|exact H]. simpl. intros; lia.
Qed.

Lemma fill_after_ext : forall fs sizes out out' i, range_of out i = range_of out' i ->
  fill_after fs sizes out i = fill_after fs sizes out' i.
Proof. intros. unfold fill_after. rewrite H. reflexivity. Qed.

(* the point that stopped shard i does not fit shard i filled with its range *)
Lemma stop_no_fit : forall i sz ct last ps k out sizes (fs : list shard),
  k = take maxS maxC sz ct ps -> (k < length ps)%nat -> ps = skipn last sizes ->
  nth i fs (0, 0) = (sz, ct) -> Forall (fun a => (S i <= a_idx a)%nat) out ->
  exists p, nth_error sizes (last + k) = Some p /\
            no_fit maxS maxC (fill_after fs sizes (emit i last k out) i) p.
Proof.
  intros i sz ct last ps k out sizes fs Hk Hlt Hps Hnth Hab.
  rewrite Hk in Hlt. destruct (take_maximal maxS maxC ps sz ct Hlt) as (p & Hp & Hno).
  rewrite <- Hk in *. exists p. split.
  - rewrite <- nth_error_skipn, <- Hps. exact Hp.
  - unfold no_fit, fill_after. rewrite Hnth, (range_of_emit_same _ _ _ _ Hab). cbn [fst snd].
    destruct (0 <? k)%nat eqn:E; cbn [fst snd].
    + rewrite slice_at, <- Hps. replace (last + k - last)%nat with k by lia. lia.
    + apply Nat.ltb_ge in E. assert (k = 0)%nat as K0 by lia. rewrite K0 in Hno. simpl in Hno.
      unfold slice. simpl. lia.
Qed.

(* P4: every shard created from here on is used, and was needed *)
Lemma loop_fresh : forall i rest last ps cr out c, loop_rel maxS maxC i rest last ps cr out c ->
  forall sizes fs, ps = skipn last sizes -> skipn i fs = rest ++ repeat (0, 0) (c - cr)%nat ->
  fit_all maxS ps -> 1 <= maxC ->
  forall m, (m < c - cr)%nat ->
    exists s e, In ((i + length rest + m)%nat, s, e) out /\
      exists i0, (i + length rest + m = S i0)%nat /\
      exists p, nth_error sizes s = Some p /\ no_fit maxS maxC (fill_after fs sizes out i0) p.
Proof.
  induction 1 as [i last ps cr | i sz ct rest' last ps cr out c k Hk Hor H IH | i sz ct last ps cr out c k Hk Hne H IH];
    intros sizes fs Hps Hfs Hfit Hc m Hm.
  - lia.
  - destruct rest' as [|s2 rest''].
    { inversion H; subst. lia. }
    simpl in Hfs. destruct (skipn_cons_nth _ i fs _ _ (0, 0) Hfs) as (Hfs' & Hnth & _).
    destruct (IH sizes fs) with (m := m) as (s & e & Hin & i0 & Hi0 & p & Hp & Hno);
      [rewrite Hps; apply skipn_skipn'|exact Hfs'|apply fit_all_skipn; exact Hfit|exact Hc|exact Hm|].
    simpl length in *. exists s, e. split.
    { replace (i + S (S (length rest'')) + m)%nat with (S i + S (length rest'') + m)%nat by lia.
      apply in_emit. exact Hin. }
    exists i0. split; [simpl in *; lia|]. exists p. split; [exact Hp|].
    rewrite (fill_after_ext fs sizes _ out); [exact Hno|]. apply range_of_emit_other. simpl in Hi0. lia.
  - destruct (loop_idx _ _ _ _ _ _ _ H) as (Hcc & Hidx & _).
    replace (c - cr)%nat with (S (c - S cr)) in Hfs by lia. simpl in Hfs.
    destruct (skipn_cons_nth _ i fs _ _ (0, 0) Hfs) as (Hfs' & Hnth & _).
    assert (Hfit' : fit_all maxS (skipn k ps)) by (apply fit_all_skipn; exact Hfit).
    destruct m as [|m'].
    + (* the shard created right now *)
      destruct (skipn k ps) as [|q ps'] eqn:Es; [congruence|].
      pose proof (Forall_inv Hfit') as Hq. simpl in Hq.
      destruct (loop_head_used _ _ _ _ _ _ _ _ _ _ H) as (e & out' & Hout & Hlt); [lia|lia|].
      exists (last + k)%nat, e. split.
      { apply in_emit. rewrite Hout. left. f_equal. f_equal. simpl. lia. }
      exists i. split; [simpl; lia|].
      eapply stop_no_fit; [exact Hk| |exact Hps|exact Hnth|].
      * apply skipn_nonempty_lt. rewrite Es. discriminate.
      * eapply Forall_impl; [|exact Hidx]. simpl. intros; lia.
    + destruct (IH sizes fs) with (m := m') as (s & e & Hin & i0 & Hi0 & p & Hp & Hno);
        [rewrite Hps; apply skipn_skipn'|simpl; exact Hfs'|exact Hfit'|exact Hc|lia|].
      simpl length in *. exists s, e. split.
      { replace (i + 1 + S m')%nat with (S i + 1 + m')%nat by lia.
        apply in_emit. exact Hin. }
      exists i0. split; [simpl in *; lia|]. exists p. split; [exact Hp|].
      rewrite (fill_after_ext fs sizes _ out); [exact Hno|]. apply range_of_emit_other. simpl in Hi0. lia.
Qed.

End Props.

(* ---------------------------------------------------------- top level ---- *)

Lemma final_shards_length : forall shards c, length (final_shards shards c) = (length shards + c)%nat.
Proof. intros. unfold final_shards. rewrite app_length, repeat_length. reflexivity. Qed.

Lemma distribute_rel : forall maxS maxC shards sizes out c,
  distribute shards sizes maxS maxC = Some (out, c) ->
  match shards, sizes with
  | [], _ :: _ => loop_rel maxS maxC 0 [(0, 0)] 0 sizes 1 out c
  | _, _ => loop_rel maxS maxC 0 shards 0 sizes 0 out c
  end.
Proof.
  intros maxS maxC shards sizes out c H. unfold distribute, distribute_fuel in H.
  destruct shards as [|s shards]; [destruct sizes as [|p sizes]|]; eapply dist_loop_rel; exact H.
Qed.

(* cr = 0 : the given shards are the initial shard list *)
Lemma spec_of_rel0 : forall maxS maxC shards sizes out c,
  loop_rel maxS maxC 0 shards 0 sizes 0 out c -> (shards = [] -> sizes = []) ->
  fit_all maxS sizes -> 1 <= maxC -> dist_spec shards sizes maxS maxC out c.
Proof.
  intros maxS maxC shards sizes out c H Hemp Hfit Hc.
  destruct (loop_idx _ _ _ _ _ _ _ _ _ H) as (_ & Hidx & Hsorted).
  rewrite Nat.sub_0_r in Hidx. simpl in Hidx.
  assert (Hfs : skipn 0 (final_shards shards c) = shards ++ repeat (0, 0) (c - 0)%nat).
  { rewrite Nat.sub_0_r. reflexivity. }
  split; [|split].
  - split; [|split].
    + apply (loop_chain _ _ _ _ _ _ _ _ _ H Hemp).
    + exact Hsorted.
    + eapply Forall_impl; [|exact Hidx]. simpl. intros a Ha. lia.
  - eapply loop_limits; [exact H|reflexivity|exact Hfs].
  - intros k Hk.
    destruct (loop_fresh _ _ _ _ _ _ _ _ _ H sizes (final_shards shards c) eq_refl Hfs Hfit Hc k) as
        (s & e & Hin & i0 & Hi0 & p & Hp & Hno); [lia|].
    simpl in Hin, Hi0. exists s, e. split; [exact Hin|]. rewrite Hi0. exists p. split; assumption.
Qed.

(* no shard given and a non-empty batch: the initial empty shard was created *)
Lemma spec_of_rel1 : forall maxS maxC p sizes out c,
  loop_rel maxS maxC 0 [(0, 0)] 0 (p :: sizes) 1 out c ->
  fit_all maxS (p :: sizes) -> 1 <= maxC -> dist_spec [] (p :: sizes) maxS maxC out c.
Proof.
  intros maxS maxC p sizes out c H Hfit Hc.
  destruct (loop_idx _ _ _ _ _ _ _ _ _ H) as (Hcc & Hidx & Hsorted). simpl in Hidx.
  assert (Hfs : skipn 0 (final_shards [] c) = [(0, 0)] ++ repeat (0, 0) (c - 1)%nat).
  { unfold final_shards. simpl. replace c with (S (c - 1)) at 1 by lia. reflexivity. }
  split; [|split].
  - split; [|split].
    + apply (loop_chain _ _ _ _ _ _ _ _ _ H). discriminate.
    + exact Hsorted.
    + eapply Forall_impl; [|exact Hidx]. simpl. intros a Ha. lia.
  - eapply loop_limits; [exact H|reflexivity|exact Hfs].
  - intros k Hk. simpl length. simpl plus.
    destruct k as [|k'].
    + pose proof (Forall_inv Hfit) as Hp. simpl in Hp.
      destruct (loop_head_used _ _ _ _ _ _ _ _ _ _ _ _ H) as (e & out' & Hout & Hlt); [lia|lia|].
      exists 0%nat, e. split; [rewrite Hout; left; reflexivity|exact I].
    + destruct (loop_fresh _ _ _ _ _ _ _ _ _ H (p :: sizes) (final_shards [] c) eq_refl Hfs Hfit Hc k') as
          (s & e & Hin & i0 & Hi0 & q & Hq & Hno); [lia|].
      simpl in Hin, Hi0. exists s, e. split; [exact Hin|]. injection Hi0 as Hi0. rewrite Hi0.
      exists q. split; assumption.
Qed.

Lemma distribute_spec : forall maxS maxC shards sizes out c,
  fit_all maxS sizes -> 1 <= maxC ->
  distribute shards sizes maxS maxC = Some (out, c) -> dist_spec shards sizes maxS maxC out c.
Proof.
  intros maxS maxC shards sizes out c Hfit Hc H. apply distribute_rel in H.
  destruct shards as [|s shards]; [destruct sizes as [|p sizes]|].
  - apply spec_of_rel0; [exact H|reflexivity|exact Hfit|exact Hc].
  - apply spec_of_rel1; assumption.
  - apply spec_of_rel0; [exact H|discriminate|exact Hfit|exact Hc].
Qed.

(* ---------------------------------------------------------- counting ----- *)

Definition range_len (out : list assignment) (i : nat) : nat :=
  (snd (range_of out i) - fst (range_of out i))%nat.
Definition sum_len (out : list assignment) : nat :=
  fold_right (fun a acc => (a_end a - a_start a + acc)%nat) O out.

Lemma chain_len : forall a out b, chain a out b -> (a + sum_len out = b)%nat.
Proof.
  induction 1 as [a|i s e out b Hlt H IH]; simpl; [lia|].
  unfold a_end, a_start. simpl. lia.
Qed.

Lemma sumZ_map_ext : forall (f g : nat -> Z) l, (forall x, In x l -> f x = g x) ->
  sumZ (map f l) = sumZ (map g l).
Proof.
  induction l as [|x l IH]; intros H; [reflexivity|]. simpl.
  rewrite (H x (or_introl eq_refl)), IH; [reflexivity|]. intros y Hy. apply H. right. exact Hy.
Qed.

Lemma sumZ_map_add : forall (f g : nat -> Z) l,
  sumZ (map (fun i => f i + g i) l) = sumZ (map f l) + sumZ (map g l).
Proof. induction l as [|x l IH]; simpl; [reflexivity|]. rewrite IH. lia. Qed.

Lemma sum_range_len : forall m lo out,
  StronglySorted lt (map a_idx out) -> Forall (fun a => (lo <= a_idx a < lo + m)%nat) out ->
  sumZ (map (fun i => Z.of_nat (range_len out i)) (seq lo m)) = Z.of_nat (sum_len out).
Proof.
  induction m as [|m IH]; intros lo out HS HF.
  - destruct out as [|a out]; [reflexivity|]. inversion HF; subst. lia.
  - simpl seq. simpl map. rewrite sumZ_cons.
    destruct out as [|a out].
    + rewrite (IH (S lo) []); [reflexivity|constructor|constructor].
    + simpl in HS. inversion HS as [|? ? HS' Hgt]; subst.
      inversion HF as [|? ? Ha HF']; subst.
      destruct (Nat.eq_dec (a_idx a) lo) as [E|NE].
      * (* the head belongs to shard lo *)
        assert (Hout : Forall (fun b => (S lo <= a_idx b < S lo + m)%nat) out).
        { rewrite Forall_forall in *. intros b Hb. specialize (HF' b Hb).
          assert (a_idx a < a_idx b)%nat by (apply Hgt; apply in_map; exact Hb). lia. }
        rewrite (sumZ_map_ext _ (fun i => Z.of_nat (range_len out i))).
        -- rewrite (IH (S lo) out HS' Hout). unfold range_len at 1. simpl range_of.
           rewrite E, Nat.eqb_refl. cbn [fst snd]. simpl sum_len. lia.
        -- intros x Hx. apply in_seq in Hx. unfold range_len. simpl range_of.
           destruct (a_idx a =? x)%nat eqn:E2; [apply Nat.eqb_eq in E2; lia|reflexivity].
      * assert (Hout : Forall (fun b => (S lo <= a_idx b < S lo + m)%nat) (a :: out)).
        { constructor; [lia|]. rewrite Forall_forall in *. intros b Hb. specialize (HF' b Hb).
          assert (a_idx a < a_idx b)%nat by (apply Hgt; apply in_map; exact Hb). lia. }
        rewrite (IH (S lo) (a :: out) HS Hout).
        unfold range_len. rewrite range_of_above; [simpl; lia|].
        eapply Forall_impl; [|exact Hout]. simpl. intros; lia.
Qed.

Lemma map_nth_seq : forall (A : Type) (l : list A) d, map (fun i => nth i l d) (seq 0 (length l)) = l.
Proof.
  induction l as [|x l IH]; intros d; [reflexivity|].
  simpl. f_equal. rewrite <- seq_shift, map_map. apply IH.
Qed.

(* the point counts after the call add up to the old total plus the batch *)
Lemma count_identity : forall fs n out, partition_spec (length fs) n out ->
  new_total fs out = total_count fs + Z.of_nat n.
Proof.
  intros fs n out (Hch & HS & HF). unfold new_total, total_count, new_count.
  rewrite (sumZ_map_add (fun i => snd (nth i fs (0, 0))) (fun i => Z.of_nat (range_len out i))).
  rewrite sum_range_len; [|exact HS|eapply Forall_impl; [|exact HF]; simpl; intros; lia].
  apply chain_len in Hch. simpl in Hch. rewrite Hch. f_equal.
  rewrite <- (map_map (fun i => nth i fs (0, 0)) snd), map_nth_seq. reflexivity.
Qed.

Lemma total_count_final : forall shards c, total_count (final_shards shards c) = total_count shards.
Proof.
  intros. unfold total_count, final_shards. rewrite map_app, sumZ_app.
  unfold shard in *.
  induction c as [|c IH]; [simpl; lia|]. simpl repeat. simpl map. rewrite sumZ_cons. cbn [snd]. lia.
Qed.

(* ---------------------------------------------------------- checker ------ *)

Lemma chain_b_spec : forall out a b, chain_b a out b = true <-> chain a out b.
Proof.
  induction out as [|[[i s] e] out IH]; intros a b; simpl.
  - rewrite Nat.eqb_eq. split; [intros ->; constructor|inversion 1; reflexivity].
  - unfold a_start, a_end. simpl. rewrite !andb_true_iff, Nat.eqb_eq, Nat.ltb_lt, IH. split.
    + intros [[-> Hlt] Hc]. constructor; assumption.
    + inversion 1; subst. repeat split; assumption.
Qed.

Lemma incr_from_spec : forall l lo, incr_from lo l = true <->
  Forall (fun x => (lo <= x)%nat) l /\ StronglySorted lt l.
Proof.
  induction l as [|x l IH]; intros lo; simpl.
  - split; [intros _; split; constructor|reflexivity].
  - rewrite andb_true_iff, Nat.leb_le, IH. split.
    + intros (Hlo & HF & HS). split.
      * constructor; [exact Hlo|]. eapply Forall_impl; [|exact HF]. simpl. intros; lia.
      * constructor; [exact HS|]. eapply Forall_impl; [|exact HF]. simpl. intros; lia.
    + intros (HF & HS). inversion HF; subst. inversion HS; subst. repeat split; assumption.
Qed.

Lemma partition_b_spec : forall nshards n out, partition_b nshards n out = true <-> partition_spec nshards n out.
Proof.
  intros. unfold partition_b, partition_spec.
  rewrite !andb_true_iff, chain_b_spec, incr_from_spec, forallb_forall, Forall_forall.
  split.
  - intros ((H1 & _ & H2) & H3). repeat split; [assumption|assumption|].
    apply Forall_forall. intros a Ha. apply Nat.ltb_lt. apply H3. exact Ha.
  - intros (H1 & H2 & H3). rewrite Forall_forall in H3. repeat split; [assumption| |assumption|].
    + intros; lia.
    + intros a Ha. apply Nat.ltb_lt. apply H3. exact Ha.
Qed.

Lemma limits_b_spec : forall fs sizes maxS maxC out,
  limits_b fs sizes maxS maxC out = true <-> limits_spec fs sizes maxS maxC out.
Proof.
  intros. unfold limits_b, limits_spec. rewrite forallb_forall, Forall_forall.
  split; intros H a Ha; specialize (H a Ha); unfold fits_range_b, fits_range in *.
  - apply andb_true_iff in H. destruct H as [H1 H2]. split; apply Z.leb_le; assumption.
  - destruct H as [H1 H2]. apply andb_true_iff. split; apply Z.leb_le; assumption.
Qed.

Lemma no_fit_b_spec : forall maxS maxC f p, no_fit_b maxS maxC f p = true <-> no_fit maxS maxC f p.
Proof. intros. unfold no_fit_b, no_fit. rewrite orb_true_iff. lia. Qed.

Lemma idx_unique : forall out a b, StronglySorted lt (map a_idx out) ->
  In a out -> In b out -> a_idx a = a_idx b -> a = b.
Proof.
  induction out as [|x out IH]; intros a b HS Ha Hb E; [inversion Ha|].
  simpl in HS. inversion HS as [|? ? HS' Hgt]; subst. rewrite Forall_forall in Hgt.
  destruct Ha as [Ha|Ha]; destruct Hb as [Hb|Hb]; subst.
  - reflexivity.
  - assert (a_idx a < a_idx b)%nat by (apply Hgt; apply in_map; exact Hb). lia.
  - assert (a_idx b < a_idx a)%nat by (apply Hgt; apply in_map; exact Ha). lia.
  - apply IH; assumption.
Qed.

Lemma fresh_b_spec : forall shards sizes maxS maxC out created,
  StronglySorted lt (map a_idx out) ->
  (fresh_b shards sizes maxS maxC out created = true <-> fresh_spec shards sizes maxS maxC out created).
Proof.
  intros shards sizes maxS maxC out created HS. unfold fresh_b, fresh_spec.
  rewrite forallb_forall. split.
  - intros H k Hk. specialize (H k). rewrite in_seq in H. specialize (H ltac:(lia)).
    unfold fresh_one_b in H.
    destruct (find (fun a => (a_idx a =? length shards + k)%nat) out) as [a|] eqn:Ef; [|discriminate].
    apply find_some in Ef. destruct Ef as [Hin Hidx]. apply Nat.eqb_eq in Hidx.
    destruct a as [[j s] e]. unfold a_idx, a_start in *. simpl in *. subst j.
    exists s, e. split; [exact Hin|].
    destruct (length shards + k)%nat as [|i]; [exact I|].
    destruct (nth_error sizes s) as [p|]; [|discriminate].
    exists p. split; [reflexivity|]. apply no_fit_b_spec. exact H.
  - intros H k Hk. apply in_seq in Hk. destruct (H k ltac:(lia)) as (s & e & Hin & Hm).
    unfold fresh_one_b.
    destruct (find (fun a => (a_idx a =? length shards + k)%nat) out) as [a|] eqn:Ef.
    + apply find_some in Ef. destruct Ef as [Hin' Hidx]. apply Nat.eqb_eq in Hidx.
      assert (a = ((length shards + k)%nat, s, e)) as -> by (apply (idx_unique out); assumption).
      unfold a_start. simpl.
      destruct (length shards + k)%nat as [|i]; [reflexivity|].
      destruct Hm as (p & Hp & Hno). rewrite Hp. apply no_fit_b_spec. exact Hno.
    + exfalso. pose proof (find_none _ _ Ef _ Hin) as Hf. simpl in Hf.
      unfold a_idx in Hf. simpl in Hf. rewrite Nat.eqb_refl in Hf. discriminate.
Qed.

Lemma check_dist_spec : forall shards sizes maxS maxC out created,
  check_dist shards sizes maxS maxC out created = true <-> dist_spec shards sizes maxS maxC out created.
Proof.
  intros. unfold check_dist, dist_spec. rewrite !andb_true_iff, partition_b_spec, limits_b_spec.
  split.
  - intros ((HP & HL) & HF). split; [exact HP|]. split; [exact HL|].
    apply fresh_b_spec; [exact (proj1 (proj2 HP))|exact HF].
  - intros (HP & HL & HF). split; [split; [exact HP|exact HL]|].
    apply fresh_b_spec; [exact (proj1 (proj2 HP))|exact HF].
Qed.

(* the partition, in the reading "concatenating the ranges gives 0,1,...,n-1" *)
Lemma chain_flat : forall a out b, chain a out b ->
  flat_map (fun x => seq (a_start x) (a_end x - a_start x)) out = seq a (b - a) /\ (a <= b)%nat.
Proof.
  induction 1 as [a|i s e out b Hlt H [IH1 IH2]]; simpl.
  - rewrite Nat.sub_diag. split; [reflexivity|lia].
  - cbn [flat_map]. change (a_start (i, s, e)) with s. change (a_end (i, s, e)) with e.
    rewrite IH1. split; [|lia].
    replace (b - s)%nat with ((e - s) + (b - e))%nat by lia.
    rewrite seq_app. f_equal. f_equal. lia.
Qed.

Lemma range_of_in : forall out i s e, StronglySorted lt (map a_idx out) -> In (i, s, e) out ->
  range_of out i = (s, e).
Proof.
  induction out as [|x out IH]; intros i s e HS Hin; [inversion Hin|].
  simpl. destruct (a_idx x =? i)%nat eqn:E.
  - apply Nat.eqb_eq in E.
    assert (x = (i, s, e)) as -> by (apply (idx_unique (x :: out)); [exact HS|left; reflexivity|exact Hin|exact E]).
    reflexivity.
  - destruct Hin as [->|Hin]; [unfold a_idx in E; simpl in E; rewrite Nat.eqb_refl in E; discriminate|].
    simpl in HS. inversion HS; subst. apply IH; assumption.
Qed.

Lemma range_of_notin : forall out i, (forall s e, ~ In (i, s, e) out) -> range_of out i = (O, O).
Proof.
  induction out as [|x out IH]; intros i H; [reflexivity|].
  simpl. destruct (a_idx x =? i)%nat eqn:E.
  - apply Nat.eqb_eq in E. destruct x as [[j s] e]. unfold a_idx in E. simpl in E. subst j.
    exfalso. apply (H s e). left. reflexivity.
  - apply IH. intros s e Hin. apply (H s e). right. exact Hin.
Qed.

(* ---------------------------------------------------------- quotas ------- *)

Lemma insert_refused_spec : forall total n quota, insert_refused total n quota = true <-> total + n > quota.
Proof. intros. unfold insert_refused. lia. Qed.

Lemma create_collection_spec : forall count maxc ex,
  (ex = true -> create_collection count maxc ex = CrExists) /\
  (ex = false -> count >= maxc -> create_collection count maxc ex = CrQuota) /\
  (ex = false -> count < maxc -> create_collection count maxc ex = CrCreated).
Proof.
  intros. unfold create_collection. repeat split.
  - intros ->. reflexivity.
  - intros -> H. destruct (count >=? maxc) eqn:E; [reflexivity|lia].
  - intros -> H. destruct (count >=? maxc) eqn:E; [lia|reflexivity].
Qed.

Lemma keqb_eq : forall a b, keqb a b = true <-> a = b.
Proof.
  intros [a1 a2] [b1 b2]. unfold keqb. simpl. rewrite andb_true_iff, !N.eqb_eq.
  split; [intros [-> ->]; reflexivity|intros H; inversion H; split; reflexivity].
Qed.

(* a refusal (any answer but Ok) leaves the state unchanged *)
Lemma step_refusal_unchanged : forall pl st r, snd (step pl st r) <> RespOk -> fst (step pl st r) = st.
Proof.
  intros pl st [u c|u c n failed]; simpl.
  - destruct (create_collection _ _ _); simpl; [congruence|reflexivity|reflexivity].
  - destruct (lookup st (u, c)) as [t|]; [|reflexivity].
    destruct (insert_refused t n (snd (pl u))); simpl; [reflexivity|congruence].
Qed.

(* the answers are exactly the ones of the two quota checks *)
Lemma step_insert_spec : forall pl st u c n failed t, lookup st (u, c) = Some t ->
  (snd (step pl st (RInsert u c n failed)) = RespQuota <-> t + n > snd (pl u)) /\
  (snd (step pl st (RInsert u c n failed)) = RespOk <-> t + n <= snd (pl u)) /\
  (t + n <= snd (pl u) -> fst (step pl st (RInsert u c n failed)) = set_total st (u, c) (t + n - failed)).
Proof.
  intros pl st u c n failed t H. simpl. rewrite H. unfold insert_refused.
  destruct (t + n >? snd (pl u)) eqn:E; simpl; repeat split; intros; try congruence; try lia; reflexivity.
Qed.

Lemma step_create_spec : forall pl st u c,
  (snd (step pl st (RCreate u c)) = RespExists <-> lookup st (u, c) <> None) /\
  (snd (step pl st (RCreate u c)) = RespQuota <-> lookup st (u, c) = None /\ user_count st u >= fst (pl u)) /\
  (snd (step pl st (RCreate u c)) = RespOk <-> lookup st (u, c) = None /\ user_count st u < fst (pl u)) /\
  (snd (step pl st (RCreate u c)) = RespOk -> fst (step pl st (RCreate u c)) = st ++ [((u, c), 0)]).
Proof.
  intros pl st u c. simpl. unfold create_collection.
  destruct (lookup st (u, c)) as [t|]; simpl.
  - repeat split; intros; try congruence; try (destruct H; congruence).
  - destruct (user_count st u >=? fst (pl u)) eqn:E; simpl;
      repeat split; intros; try congruence; try lia; try (destruct H; congruence); try (destruct H; lia).
Qed.

Lemma lookup_app_new : forall st k k' t,
  lookup (st ++ [(k, 0)]) k' = Some t -> lookup st k' = Some t \/ t = 0.
Proof.
  induction st as [|[k0 t0] st IH]; intros k k' t H; simpl in *.
  - destruct (keqb k k'); [inversion H; right; reflexivity|discriminate].
  - destruct (keqb k0 k'); [left; exact H|]. apply (IH k). exact H.
Qed.

Lemma lookup_set_total : forall st k v k' t,
  lookup (set_total st k v) k' = Some t -> (k = k' /\ t = v) \/ lookup st k' = Some t.
Proof.
  induction st as [|[k0 t0] st IH]; intros k v k' t H; simpl in *; [discriminate|].
  destruct (keqb k0 k) eqn:E0; simpl in H.
  - apply keqb_eq in E0. subst k0. destruct (keqb k k') eqn:E1.
    + apply keqb_eq in E1. left. split; [exact E1|congruence].
    + right. exact H.
  - destruct (keqb k0 k') eqn:E1; [right; exact H|]. apply IH. exact H.
Qed.

Lemma user_count_app : forall st k t u,
  user_count (st ++ [(k, t)]) u = user_count st u + (if (fst k =? u)%N then 1 else 0).
Proof.
  intros. unfold user_count. rewrite filter_app, app_length. simpl.
  destruct (fst k =? u)%N; simpl; lia.
Qed.

Lemma user_count_set_total : forall st k v u, user_count (set_total st k v) u = user_count st u.
Proof.
  intros st k v u. unfold user_count. f_equal.
  induction st as [|[k0 t0] st IH]; [reflexivity|]. simpl.
  destruct (keqb k0 k); simpl; destruct (fst k0 =? u)%N; simpl; rewrite ?IH; reflexivity.
Qed.

Definition init_total (st0 : cstate) (k : ckey) : Z :=
  match lookup st0 k with Some t => t | None => 0 end.

Definition totals_bounded (pl : plans) (st0 st : cstate) : Prop :=
  forall k t, lookup st k = Some t -> t <= Z.max (snd (pl (fst k))) (init_total st0 k).
Definition counts_bounded (pl : plans) (st0 st : cstate) : Prop :=
  forall u, user_count st u <= Z.max (fst (pl u)) (user_count st0 u).

Lemma lookup_nonneg : forall st k t, Forall (fun e : ckey * Z => 0 <= snd e) st -> lookup st k = Some t -> 0 <= t.
Proof.
  induction st as [|[k0 t0] st IH]; intros k t HF H; simpl in *; [discriminate|].
  inversion HF; subst. destruct (keqb k0 k); [inversion H; subst; assumption|]. eapply IH; eassumption.
Qed.

Lemma step_preserves : forall pl st0 st r,
  Forall (fun e : ckey * Z => 0 <= snd e) st0 -> request_ok r ->
  totals_bounded pl st0 st /\ counts_bounded pl st0 st ->
  totals_bounded pl st0 (fst (step pl st r)) /\ counts_bounded pl st0 (fst (step pl st r)).
Proof.
  intros pl st0 st r H0 Hr [HT HC]. destruct r as [u c|u c n failed]; simpl.
  - unfold create_collection. destruct (lookup st (u, c)) as [t|] eqn:El; simpl; [split; assumption|].
    destruct (user_count st u >=? fst (pl u)) eqn:E; simpl; [split; assumption|].
    split.
    + intros k t Hk. apply lookup_app_new in Hk. destruct Hk as [Hk| ->]; [apply HT; exact Hk|].
      assert (0 <= init_total st0 k).
      { unfold init_total. destruct (lookup st0 k) as [t0|] eqn:E0; [|lia]. eapply lookup_nonneg; eassumption. }
      lia.
    + intros u'. rewrite user_count_app. simpl. specialize (HC u').
      destruct (u =? u')%N eqn:Eu; [|lia]. apply N.eqb_eq in Eu. subst u'. lia.
  - destruct (lookup st (u, c)) as [t|] eqn:El; simpl; [|split; assumption].
    unfold insert_refused. destruct (t + n >? snd (pl u)) eqn:E; simpl; [split; assumption|].
    split.
    + intros k t' Hk. apply lookup_set_total in Hk. destruct Hk as [[<- ->]|Hk]; [|apply HT; exact Hk].
      simpl in *. lia.
    + intros u'. rewrite user_count_set_total. apply HC.
Qed.

Lemma run_invariant : forall pl st0 rs st,
  Forall (fun e : ckey * Z => 0 <= snd e) st0 -> Forall request_ok rs ->
  totals_bounded pl st0 st /\ counts_bounded pl st0 st ->
  totals_bounded pl st0 (run pl st rs) /\ counts_bounded pl st0 (run pl st rs).
Proof.
  intros pl st0 rs. induction rs as [|r rs IH]; intros st H0 Hrs Hinv; [exact Hinv|].
  inversion Hrs; subst. unfold run. simpl. apply IH; [assumption|assumption|].
  apply step_preserves; assumption.
Qed.

Lemma quota_invariant : forall pl st0 rs,
  Forall (fun e : ckey * Z => 0 <= snd e) st0 -> Forall request_ok rs ->
  (forall u, user_count (run pl st0 rs) u <= Z.max (fst (pl u)) (user_count st0 u)) /\
  (forall k t, lookup (run pl st0 rs) k = Some t -> t <= Z.max (snd (pl (fst k))) (init_total st0 k)).
Proof.
  intros pl st0 rs H0 Hrs.
  destruct (run_invariant pl st0 rs st0 H0 Hrs) as [HT HC].
  - split.
    + intros k t Hk. unfold init_total. rewrite Hk. lia.
    + intros u. lia.
  - split; [exact HC|exact HT].
Qed.

(* ---------------------------------------------------------- statements --- *)

Lemma chain_nonempty : forall a out b, chain a out b -> Forall (fun x => (a_start x < a_end x)%nat) out.
Proof. induction 1 as [a|i s e out b Hlt H IH]; constructor; [exact Hlt|exact IH]. Qed.

Lemma thm_terminates : forall shards sizes maxS maxC,
  Forall (fun p => 0 <= p <= maxS) sizes -> 1 <= maxC ->
  exists out created, distribute shards sizes maxS maxC = Some (out, created).
Proof.
  intros shards sizes maxS maxC Hfit Hc.
  destruct (distribute_terminates maxS maxC shards sizes Hfit Hc) as [[out c] H]. exists out, c. exact H.
Qed.

Lemma thm_fuel_bound : forall fuel shards sizes maxS maxC,
  Forall (fun p => 0 <= p <= maxS) sizes -> 1 <= maxC ->
  (length shards + length sizes + 1 <= fuel)%nat ->
  exists out created, distribute_fuel fuel shards sizes maxS maxC = Some (out, created).
Proof.
  intros fuel shards sizes maxS maxC Hfit Hc Hf. unfold distribute_fuel.
  destruct shards as [|s shards]; [destruct sizes as [|p sizes]|].
  - exists [], 0%nat. destruct fuel; reflexivity.
  - destruct (fresh_terminates maxS maxC fuel 0 0 (p :: sizes) 1 Hfit Hc) as [[out c] H]; [simpl in *; lia|].
    exists out, c. exact H.
  - destruct (loop_terminates maxS maxC fuel 0 (s :: shards) 0 sizes 0 Hfit Hc Hf) as [[out c] H].
    exists out, c. exact H.
Qed.

Lemma thm_partition : forall shards sizes maxS maxC out created,
  Forall (fun p => 0 <= p <= maxS) sizes -> 1 <= maxC ->
  distribute shards sizes maxS maxC = Some (out, created) ->
  partition_spec (length shards + created) (length sizes) out /\
  flat_map (fun a => seq (a_start a) (a_end a - a_start a)) out = seq 0 (length sizes) /\
  Forall (fun a => (a_start a < a_end a)%nat) out.
Proof.
  intros shards sizes maxS maxC out created Hfit Hc H.
  destruct (distribute_spec _ _ _ _ _ _ Hfit Hc H) as (HP & _ & _).
  split; [exact HP|]. destruct HP as (Hch & _ & _).
  split; [|eapply chain_nonempty; exact Hch].
  destruct (chain_flat _ _ _ Hch) as [Hf _]. rewrite Nat.sub_0_r in Hf. exact Hf.
Qed.

Lemma thm_limits : forall shards sizes maxS maxC out created,
  Forall (fun p => 0 <= p <= maxS) sizes -> 1 <= maxC ->
  distribute shards sizes maxS maxC = Some (out, created) ->
  forall i s e, In (i, s, e) out ->
    snd (nth i (final_shards shards created) (0, 0)) + Z.of_nat (e - s) <= maxC /\
    fst (nth i (final_shards shards created) (0, 0)) + sumZ (slice sizes s e) <= maxS.
Proof.
  intros shards sizes maxS maxC out created Hfit Hc H i s e Hin.
  destruct (distribute_spec _ _ _ _ _ _ Hfit Hc H) as (_ & HL & _).
  unfold limits_spec in HL. rewrite Forall_forall in HL. exact (HL _ Hin).
Qed.

Lemma thm_fresh : forall shards sizes maxS maxC out created,
  Forall (fun p => 0 <= p <= maxS) sizes -> 1 <= maxC ->
  distribute shards sizes maxS maxC = Some (out, created) ->
  fresh_spec shards sizes maxS maxC out created.
Proof.
  intros shards sizes maxS maxC out created Hfit Hc H.
  exact (proj2 (proj2 (distribute_spec _ _ _ _ _ _ Hfit Hc H))).
Qed.

Lemma thm_count_identity : forall shards sizes maxS maxC out created,
  Forall (fun p => 0 <= p <= maxS) sizes -> 1 <= maxC ->
  distribute shards sizes maxS maxC = Some (out, created) ->
  new_total (final_shards shards created) out = total_count shards + Z.of_nat (length sizes).
Proof.
  intros shards sizes maxS maxC out created Hfit Hc H.
  destruct (distribute_spec _ _ _ _ _ _ Hfit Hc H) as (HP & _ & _).
  rewrite <- (total_count_final shards created). apply count_identity.
  rewrite final_shards_length. exact HP.
Qed.

Lemma thm_model_passes_checker : forall shards sizes maxS maxC out created,
  Forall (fun p => 0 <= p <= maxS) sizes -> 1 <= maxC ->
  distribute shards sizes maxS maxC = Some (out, created) ->
  check_dist shards sizes maxS maxC out created = true.
Proof.
  intros shards sizes maxS maxC out created Hfit Hc H.
  apply check_dist_spec. apply distribute_spec; assumption.
Qed.

Lemma thm_range_of : forall out i, StronglySorted lt (map a_idx out) ->
  (forall s e, In (i, s, e) out -> range_of out i = (s, e)) /\
  ((forall s e, ~ In (i, s, e) out) -> range_of out i = (O, O)).
Proof.
  intros out i HS. split; [intros s e Hin; apply range_of_in; assumption|apply range_of_notin].
Qed.

Lemma thm_quota_checks :
  (forall total n quota, insert_refused total n quota = true <-> total + n > quota) /\
  (forall count maxc ex,
     (ex = true -> create_collection count maxc ex = CrExists) /\
     (ex = false -> count >= maxc -> create_collection count maxc ex = CrQuota) /\
     (ex = false -> count < maxc -> create_collection count maxc ex = CrCreated)) /\
  (forall pl st r, snd (step pl st r) <> RespOk -> fst (step pl st r) = st).
Proof.
  split; [exact insert_refused_spec|]. split; [exact create_collection_spec|exact step_refusal_unchanged].
Qed.

Lemma thm_no_fit_diverges : forall fuel shards sizes maxS maxC,
  Forall (fun s : shard => 0 <= fst s) shards -> Forall (fun p => 0 <= p) sizes ->
  Exists (fun p => p > maxS) sizes ->
  distribute_fuel fuel shards sizes maxS maxC = None.
Proof. intros fuel shards sizes maxS maxC. apply distribute_diverges. Qed.

(* ------------------ the checker of stored ranges on a live node (CLive) --- *)

Definition range_from (a : N) (n : nat) : list N := map (fun k => (a + N.of_nat k)%N) (seq 0 n).

Lemma contig_from_spec : forall l a, contig_from a l = true -> l = range_from a (length l).
Proof.
  induction l as [|x r IH]; intros a H; [reflexivity|].
  cbn [contig_from] in H. apply andb_true_iff in H. destruct H as [Hx Hr].
  apply N.eqb_eq in Hx. subst x.
  unfold range_from. cbn [length seq map].
  f_equal; [lia|].
  rewrite (IH _ Hr) at 1. unfold range_from.
  rewrite <- seq_shift, map_map. apply map_ext. intros k. lia.
Qed.

Lemma contig_b_spec : forall l, contig_b l = true -> exists a, l = range_from a (length l).
Proof.
  intros [|x r] H; [exists 0%N; reflexivity|].
  exists x. apply contig_from_spec. exact H.
Qed.

Lemma once_each_b_spec : forall n l, once_each_b n l = true ->
  length l = n /\ forall i, (i < n)%nat -> count_n (N.of_nat i) l = 1%nat.
Proof.
  intros n l H. unfold once_each_b in H. apply andb_true_iff in H. destruct H as [Hl Hc].
  apply Nat.eqb_eq in Hl. split; [exact Hl|].
  intros i Hi. rewrite forallb_forall in Hc.
  specialize (Hc i). apply Nat.eqb_eq. apply Hc. apply in_seq. lia.
Qed.

Lemma live_ranges_sound : forall n stored, live_ranges_b n stored = true ->
  (forall s, In s stored -> exists a, s = range_from a (length s))
  /\ length (concat stored) = n
  /\ forall i, (i < n)%nat -> count_n (N.of_nat i) (concat stored) = 1%nat.
Proof.
  intros n stored H. unfold live_ranges_b in H. apply andb_true_iff in H. destruct H as [Hc Ho].
  split.
  - intros s Hs. rewrite forallb_forall in Hc. apply contig_b_spec. apply Hc. exact Hs.
  - apply once_each_b_spec. exact Ho.
Qed.
