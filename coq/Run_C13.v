(* Run_C13.v -- verdicts on observations of the real cluster.RendezvousHash and
   xxhash.Sum64String.  Codes: 0 OK; 1xx the observation violates the property
   itself (SPECFAIL); 2xx the code differs from the model (MISMATCH). *)
From Coq Require Import List NArith Bool Arith.
From Semadb Require Import Bytes Model_C13.
Import ListNotations.
Open Scope N_scope.

Definition obeq (a b : option bytes) : bool :=
  match a, b with None, None => true | Some x, Some y => lbeq x y | _, _ => false end.
Definition first_fail (l : list (bool * N)) : N :=
  fold_right (fun (p : bool * N) acc => if fst p then acc else snd p) 0 l.

Inductive c13case :=
(* xxhash.Sum64String(input) = sum *)
| CHash (input : bytes) (sum : N)
(* RendezvousHash(key, servers, k) = observed *)
| CRv (key : bytes) (servers : list bytes) (k : N) (observed : list bytes)
(* servers2 is a permutation of servers1; obs_i = RendezvousHash(key, servers_i, k) *)
| CPerm (key : bytes) (servers1 servers2 : list bytes) (k : N) (obs1 obs2 : list bytes)
(* obsOld = RendezvousHash(key, servers, k), obsNew = the same with [new] inserted somewhere *)
| CAdd (key : bytes) (servers : list bytes) (new : bytes) (obsOld obsNew : list bytes)
(* obsOld = RendezvousHash(key, servers, k), obsNew = the same with [removed] taken out *)
| CRemove (key : bytes) (servers : list bytes) (removed : bytes) (obsOld obsNew : list bytes)
(* load-share test: among the sampled keys, [server] (one of n) owns [count] keys *)
| CShare (n : N) (server : bytes) (count : N)
(* a live node configured with [configured] has served and failed requests (the owners of some keys were
   absent); [after] is the list it routes with afterwards, [ownerBefore]/[ownerAfter] the owner of [key] computed
   by the real function from the configured list and from that list *)
| CNode (key : bytes) (configured after : list bytes) (ownerBefore ownerAfter : bytes).


Definition verdict (c : c13case) : N :=
  match c with
  | CHash input sum => first_fail [ (xxh64 input =? sum, 201) ]
  | CRv key servers k observed =>
      let scored := decorate xxh64 key servers in
      let kk := N.to_nat k in
      first_fail
        [ ((length observed =? Nat.min kk (length servers))%nat && sel_ok observed scored 0, 101);
          (llbeq observed (rv_of_scored scored kk), 202) ]
  | CPerm key s1 s2 k o1 o2 => first_fail [ (llbeq o1 o2, 111) ]
  | CAdd key servers new oOld oNew =>
      first_fail [ (obeq (hd_error oNew) (hd_error oOld) || obeq (hd_error oNew) (Some new), 121) ]
  | CRemove key servers removed oOld oNew =>
      first_fail [ (obeq (hd_error oOld) (Some removed) || obeq (hd_error oNew) (hd_error oOld), 131) ]
  | CShare n server count => first_fail [ (negb (count =? 0), 141) ]
  | CNode key configured after oB oA =>
      first_fail [ (lbeq oB oA, 151); (llbeq configured after, 152);
                   (obeq (Some oB) (owner xxh64 key configured), 202) ]
  end.

Fixpoint bad_from (i : N) (cs : list c13case) : list (N * N) :=
  match cs with
  | [] => []
  | c :: r => let v := verdict c in
              if v =? 0 then bad_from (i + 1) r else (i, v) :: bad_from (i + 1) r
  end.
Definition bad (cs : list c13case) : list (N * N) := bad_from 0 cs.
